"""C07 — results do not depend on the time origin.

Metamorphic, command level: every dataset is processed at its own origin and at
a second origin (a multiple of the time step, or the same wall-clock text
declared in another fixed-offset zone); every table of the two runs must be
equal after un-shifting the epochs.  Generators put increments exactly at
threshold x step for steps of 10/15/20/30/60 min.  Coq correspondence: the
epoch-level model (Model/ClassifyEpochs.v) on the loaded data of both runs.
"""
import sqlite3

from harness import common as C
from harness import curves_common as CC
from harness import classify_common as K
from harness import dataset as D
from harness import gen_classify as G

PROP = 'C07'
MODELS = ['Model/ClassifyEpochs.vo']
PRE = 'From Spowtd Require Import Model.ClassifyEpochs.\n'

# fixed-offset zones: same wall-clock text, epochs shift by minus the offset
ZONES = {'UTC': 0, 'Etc/GMT-5': 5 * 3600, 'Etc/GMT+3': -3 * 3600, 'Asia/Kathmandu': 5 * 3600 + 45 * 60,
         'Asia/Kolkata': 5 * 3600 + 30 * 60}
EPOCH_COLS = {
    'grid_time': [0], 'grid_time_flags': [0], 'rainfall_intensity': [0, 1], 'evapotranspiration': [0, 1],
    'water_level': [0], 'storm': [0, 1], 'zeta_interval': [0, 2], 'zeta_interval_storm': [0, 2],
    'rising_interval': [0], 'recession_interval': [0], 'rising_interval_zeta': [0], 'recession_interval_zeta': [0],
    'rainfall_intensity_staging': [0], 'water_level_staging': [0], 'evapotranspiration_staging': [0],
    # views (the rain-depth axis of the rise curve is computed by the view storm_total_rain_depth)
    'storm_total_rain_depth': [0], 'storm_total_rise': [0, 1], 'rising_curve_line_segment': [0],
}
# Measured on the unchanged tree (seeds 0-2, every table and view, whole-step shifts from 1 step to years, +05:45 /
# +05:30 / whole-hour zones, origins at and before 1970): every float cell is BIT-IDENTICAL between the two runs -
# epochs are integers and every quantity is computed from differences of epochs.  The comparison therefore allows
# only 1e-13 relative (a few ulps), and counts the cells that are not bit-identical.
TOL = 1e-13


def unshift(dump, d):
    out = {}
    for t, rows in dump.items():
        cols = EPOCH_COLS.get(t, [])
        out[t] = sorted(tuple((v - d) if i in cols else v for i, v in enumerate(r)) for r in rows)
    return out


def rows_close(a, b):
    if len(a) != len(b):
        return False
    for x, y in zip(a, b):
        if isinstance(x, float) and isinstance(y, float):
            if abs(x - y) > max(TOL * max(abs(x), abs(y)), 1e-15):      # (1e-15 mm or s: cancellation to zero)
                return False
        elif x != y:
            return False
    return True


def compare_dumps(da, db_, skip=('time_grid',), out=None):
    diffs = []
    for t in sorted(set(da) | set(db_)):
        if t in skip:
            continue
        ra, rb = da.get(t, []), db_.get(t, [])
        if out is not None and len(ra) == len(rb):
            nb = sum(1 for x, y in zip(ra, rb) for u, v in zip(x, y) if isinstance(u, float) and u != v)
            if nb:
                out.count('float-cells-not-bit-identical:' + t, nb)
        if len(ra) != len(rb) or not all(rows_close(x, y) for x, y in zip(ra, rb)):
            first = next(((x, y) for x, y in zip(ra, rb) if not rows_close(x, y)), (None, None))
            diffs.append('%s: %d vs %d rows, first difference %s / %s' % (t, len(ra), len(rb), first[0], first[1]))
    return diffs


def run_pipeline(ds, thr_s, thr_j, grid, name, curves):
    d = D.scratch(PROP, name)
    db, rc, exc = D.load(ds, d)
    if exc is not None:
        return db, 'load', exc
    cmds = [['classify', db, '-s', thr_s, '-j', thr_j]]
    if curves:
        cmds += [['set-zeta-grid', db, '-d', grid], ['rise', db], ['recession', db]]
    for argv in cmds:
        rc, exc, _ = D.cli(argv)
        if exc is not None:
            return db, argv[0], exc
    return db, 'ok', None


def model_cases(db, thr_s, thr_j, cases, meta, case, out):
    """Epoch-level model vs tables, one Coq case per stretch."""
    st, step = D.stretches(db)
    con = sqlite3.connect(db)
    try:
        flags = {r[0]: r[1:] for r in con.execute('SELECT start_epoch, is_jump, is_mystery_jump, is_interstorm FROM grid_time_flags')}
        zi = con.execute('SELECT start_epoch, interval_type, thru_epoch FROM zeta_interval').fetchall()
        storms = con.execute('SELECT start_epoch, thru_epoch FROM storm').fetchall()
        links = con.execute('SELECT interval_start_epoch, storm_start_epoch FROM zeta_interval_storm').fetchall()
    finally:
        con.close()
    delta = thr_j * (step / 3600.0)
    for s in st:
        ep = s['epoch']
        if not ep:
            continue
        heavy, jumpf = K.flags_of(s['rain'], s['zeta'], thr_s, delta)
        if K.rise_ties(heavy, jumpf):
            out.count('stretch-with-ties(skipped in epoch model)')
            continue
        eps = set(ep)
        lo, hi = ep[0], ep[-1] + step
        fl = [(e, tuple(bool(x) for x in flags[e])) for e in ep if e in flags]
        inter = sorted((a, b) for a, t, b in zi if t == 'interstorm' and a in eps)
        rises = sorted((a, b) for a, t, b in zi if t == 'storm' and a in eps)
        stm = sorted((a, b) for a, b in storms if lo <= a < hi)
        lk = sorted((a, b) for a, b in links if a in eps)
        zp = lambda rows: C.clist(['(%s, %s)' % (C.cZ(a), C.cZ(b)) for a, b in rows])     # noqa: E731
        cases.append('(%s, %s, %s, %s, %s, %s, %s, %s, %s, %s, %s)' % (
            C.cZs(ep), C.cZ(step), C.cfloat(thr_s), C.cfloat(thr_j), C.cfloats(s['rain']), C.cfloats(s['zeta']),
            C.clist(['(%s, (%s, %s, %s))' % (C.cZ(e), C.cbool(f[0]), C.cbool(f[1]), C.cbool(f[2])) for e, f in fl]),
            zp(inter), zp(stm), zp(rises), zp(lk)))
        meta.append(case)


CHECK_FN = (
    'fun c => match c with (ep, step, ts, tj, rain, zeta, fl, inter, stm, rises, lk) => '
    'match classify_stretch ep step ts tj rain zeta [] with '
    '| Ok r => list_eqb (pair_eqb Z.eqb (pair_eqb (pair_eqb Bool.eqb Bool.eqb) Bool.eqb)) (flag_rows r) fl '
    '&& list_eqb zpair_eqb (interstorm_rows r) inter '
    '&& same_set zpair_eqb (storm_rows r) stm && same_set zpair_eqb (rise_rows r) rises '
    '&& same_set zpair_eqb (link_rows r) lk '
    '| Err _ => false end end')
CASE_TY = ('list Z * Z * float * float * list float * list float * list (Z * (bool * bool * bool)) * '
           'list (Z * Z) * list (Z * Z) * list (Z * Z) * list (Z * Z)')


def variants(rng, step):
    k = rng.choice([1, 7, 13, 1000003, -5000, 3 * 86400 * 365 // step])
    out = [('shift %d steps' % k, dict(shift=k * step), k * step)]
    z = rng.choice([z for z in ZONES if z != 'UTC'])
    out.append(('zone ' + z, dict(tz=z), -ZONES[z]))
    return out


def epoch0_variant(rng, ds, step):
    """Origins at and before UNIX time 0 (negative epochs are ordinary timestamps: 1969 and earlier): the first
    water-level reading exactly at epoch 0 (in UTC, or at local midnight-ish of a zone east / west of UTC so that
    the epoch of the same wall-clock text is 0), the record running across epoch 0, the record wholly before
    1970, the LAST rainfall instant exactly at 0.  Whole-step shifts of the base dataset `ds` (UTC), optionally
    combined with a zone change."""
    first = ds.wl[0][0]
    mid = ds.rain[len(ds.rain) // 2][0]
    if (mid - first) % step:
        mid = first
    what = rng.choice(['first-reading-at-0', 'first-reading-at-0', 'across-0', 'across-0', 'before-1970', 'last-step-at-0'])
    if what == 'first-reading-at-0':
        shift = -first
    elif what == 'across-0':
        shift = -mid
    elif what == 'last-step-at-0':
        shift = -ds.rain[-1][0]
    else:
        shift = -first - rng.choice([5 * 365, 3, 40 * 365]) * 86400 // step * step - rng.randrange(0, 4) * step
    z = rng.choice(['UTC', 'UTC', 'Etc/GMT-5', 'Etc/GMT+3', 'Asia/Kolkata'])
    if z != 'UTC' and what in ('first-reading-at-0', 'last-step-at-0') and rng.random() < 0.7:
        # same instant 0 written as the wall-clock time of zone z
        return ('origin %s %s' % (what, z), dict(shift=shift + ZONES[z], tz=z), shift)
    if z != 'UTC':
        return ('origin %s %s' % (what, z), dict(shift=shift, tz=z), shift - ZONES[z])
    return ('origin %s' % what, dict(shift=shift), shift)


def check_pairs(items, out, label, only_variant=None):
    cases, meta = [], []
    for item in items:
        kind = item['kind']
        rng = C.rng_for(out.evaluations, PROP, 'variant')
        rng0 = C.rng_for(out.evaluations, PROP, 'epoch0')
        if kind == 'record':
            rec = item['rec']
            mk = lambda **kw: G.to_dataset(rec, **kw)                       # noqa: E731
            thr_s, thr_j, grid, step, curves = rec['thr_s'], rec['thr_j'], None, rec['step'], False
        else:
            plan = item['plan']
            _, thr_s, _ = CC.plan_to_dataset(plan)
            mk = lambda **kw: CC.plan_to_dataset(plan, **kw)[0]             # noqa: E731
            thr_j, grid, step, curves = plan['thr_j'], plan['grid_step'], plan['step'], True
        case = dict(level='CL', item=item)
        ds0 = mk()
        dba, sta, exca = run_pipeline(ds0, thr_s, thr_j, grid, 'a', curves)
        out.evaluations += 1
        out.count(kind + ':step=%d' % step)
        if sta == 'load':
            out.count('load-refused')
            continue
        base = D.dump(dba, views=True)
        if sta == 'ok' or sta in ('rise', 'recession', 'set-zeta-grid'):
            model_cases(dba, thr_s, thr_j, cases, meta, case, out)
        if only_variant is not None:
            todo = [(only_variant['name'], only_variant['kw'], only_variant['d'])]
        else:
            todo = variants(rng, step) + [epoch0_variant(rng0, ds0, step)]
        for name, kw, d in todo:
            dsb = mk(**kw)
            dbb, stb, excb = run_pipeline(dsb, thr_s, thr_j, grid, 'b', curves)
            out.evaluations += 1
            out.count('variant:' + name.split()[0])
            if name.startswith('origin'):
                out.count('variant:' + ' '.join(name.split()[:2]))
                off = ZONES[kw.get('tz', 'UTC')]              # epochs as load will read them
                tlo, thi = min(dsb.rain[0][0], dsb.wl[0][0]) - off, max(dsb.rain[-1][0], dsb.wl[-1][0]) - off
                out.count('epochs-of-the-moved-record:' + ('all<0' if thi < 0 else ('across-0' if tlo < 0 else
                          ('from-0' if tlo == 0 else '>0'))))
            vcase = dict(level='CL', item=item, variant=dict(name=name, kw=kw, d=d))
            if (sta, type(exca).__name__) != (stb, type(excb).__name__):
                out.violation('oracle', 'the same data fail differently at another time origin (%s): %s %r vs %s %r'
                              % (name, sta, exca, stb, excb), case=vcase)
                continue
            diffs = compare_dumps(base, unshift(D.dump(dbb, views=True), d), out=out)
            if diffs:
                out.violation('oracle', 'tables / views differ after un-shifting the epochs by %d s (%s): %s'
                              % (d, name, '; '.join(diffs[:3])), case=vcase)
            elif stb == 'ok':
                model_cases(dbb, thr_s, thr_j, cases, meta, vcase, out)
                if len(base.get('zeta_interval', [])) >= 2:
                    out.nontriv((kind, name, str(item)[:300]))
    bad, errs, _ = C.run_case_shards(PROP, label, PRE, CASE_TY, CHECK_FN, cases, shard=150)
    out.corr_errors += errs
    for i in bad:
        v = meta[i].get('variant', 'base origin')
        out.violation('corr', 'epoch-level model classify_stretch <> tables written by classify (%s)'
                      % (v['name'] if isinstance(v, dict) else v), case=meta[i])
    out.count('epoch-model cases', len(cases))


def run(ctx, out):
    C.import_spowtd()
    seed, tier = ctx['seed'], ctx['tier']
    rng = C.rng_for(seed, PROP)
    nrec, nplan = (45, 12) if tier == 'quick' else (450, 120)
    items = []
    classes = ['threshold', 'threshold', 'events', 'chain', 'gappy', 'edges']
    for k in range(nrec):
        items.append(dict(kind='record', rec=G.gen_record(rng, classes[k % len(classes)])))
    for k in range(nplan):
        items.append(dict(kind='plan', plan=CC.make_plan(C.rng_for(seed, PROP, 'plan', k), noise=(k % 2 == 0))))
    check_pairs(items, out, 'cl')
    out.rule = ('Each dataset (classification records with increments exactly at threshold x step; planted datasets run up '
                'to rise/recession) is processed at its own origin and at shifted origins (multiples of the step incl. '
                'years, fixed-offset zone changes incl. +05:45 / +05:30, and origins at / across / before UNIX time 0); '
                'all tables and views compared after un-shifting, floats within 1e-13 relative. '
                'Non-trivial: >= 2 classified intervals and identical tables; distinct by (dataset, variant).')
    out.samples = [dict(kind='record', rec=items[0]['rec'])]
    out.assumptions += ['tables and views compared within 1e-13 relative (measured: bit-identical on the unchanged tree; '
                        'cells that are not are counted as float-cells-not-bit-identical)']


def replay(case, out):
    C.import_spowtd()
    v = case.get('variant')
    check_pairs([case['item']], out, 'replay', only_variant=v if isinstance(v, dict) else None)
