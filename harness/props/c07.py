"""C07 — results do not depend on the time origin.

Metamorphic, command level: every dataset is processed at its own origin and at
a second origin (a multiple of the time step, or the same wall-clock text
declared in another fixed-offset zone); every table of the two runs must be
equal after un-shifting the epochs.  Generators put increments exactly at
threshold x step for steps of 10/15/20/30/60 min.  Coq correspondence: the
epoch-level model (Model/ClassifyEpochs.v) on the loaded data of both runs.
"""
import sqlite3

from harness import common as C
from harness import curves_common as CC
from harness import classify_common as K
from harness import dataset as D
from harness import gen_classify as G

PROP = 'C07'
MODELS = ['Model/ClassifyEpochs.vo']
PRE = 'From Spowtd Require Import Model.ClassifyEpochs.\n'

# fixed-offset zones: same wall-clock text, epochs shift by minus the offset
ZONES = {'UTC': 0, 'Etc/GMT-5': 5 * 3600, 'Etc/GMT+3': -3 * 3600, 'Asia/Kathmandu': 5 * 3600 + 45 * 60,
         'Asia/Kolkata': 5 * 3600 + 30 * 60}
EPOCH_COLS = {
    'grid_time': [0], 'grid_time_flags': [0], 'rainfall_intensity': [0, 1], 'evapotranspiration': [0, 1],
    'water_level': [0], 'storm': [0, 1], 'zeta_interval': [0, 2], 'zeta_interval_storm': [0, 2],
    'rising_interval': [0], 'recession_interval': [0], 'rising_interval_zeta': [0], 'recession_interval_zeta': [0],
    'rainfall_intensity_staging': [0], 'water_level_staging': [0], 'evapotranspiration_staging': [0],
    # views (the rain-depth axis of the rise curve is computed by the view storm_total_rain_depth)
    'storm_total_rain_depth': [0], 'storm_total_rise': [0, 1], 'rising_curve_line_segment': [0],
}
# Measured on the unchanged tree (seeds 0-2, every table and view, whole-step shifts from 1 step to years, +05:45 /
# +05:30 / whole-hour zones, origins at and before 1970): every float cell is BIT-IDENTICAL between the two runs -
# epochs are integers and every quantity is computed from differences of epochs.  The comparison therefore allows
# only 1e-13 relative (a few ulps), and counts the cells that are not bit-identical.
TOL = 1e-13


def unshift(dump, d):
    out = {}
    for t, rows in dump.items():
        cols = EPOCH_COLS.get(t, [])
        out[t] = sorted(tuple((v - d) if i in cols else v for i, v in enumerate(r)) for r in rows)
    return out


def rows_close(a, b):
    if len(a) != len(b):
        return False
    for x, y in zip(a, b):
        if isinstance(x, float) and isinstance(y, float):
            if abs(x - y) > max(TOL * max(abs(x), abs(y)), 1e-15):      # (1e-15 mm or s: cancellation to zero)
                return False
        elif x != y:
            return False
    return True


def compare_dumps(da, db_, skip=('time_grid',), out=None):
    diffs = []
    for t in sorted(set(da) | set(db_)):
        if t in skip:
            continue
        ra, rb = da.get(t, []), db_.get(t, [])
        if out is not None and len(ra) == len(rb):
            nb = sum(1 for x, y in zip(ra, rb) for u, v in zip(x, y) if isinstance(u, float) and u != v)
            if nb:
                out.count('float-cells-not-bit-identical:' + t, nb)
        if len(ra) != len(rb) or not all(rows_close(x, y) for x, y in zip(ra, rb)):
            first = next(((x, y) for x, y in zip(ra, rb) if not rows_close(x, y)), (None, None))
            diffs.append('%s: %d vs %d rows, first difference %s / %s' % (t, len(ra), len(rb), first[0], first[1]))
    return diffs


def run_pipeline(ds, thr_s, thr_j, grid, name, curves):
    d = D.scratch(PROP, name)
    db, rc, exc = D.load(ds, d)
    if exc is not None:
        return db, 'load', exc
    cmds = [['classify', db, '-s', thr_s, '-j', thr_j]]
    if curves:
        cmds += [['set-zeta-grid', db, '-d', grid], ['rise', db], ['recession', db]]
    for argv in cmds:
        rc, exc, _ = D.cli(argv)
        if exc is not None:
            return db, argv[0], exc
    return db, 'ok', None


def model_cases(db, thr_s, thr_j, cases, meta, case, out):
    """Epoch-level model vs tables, one Coq case per stretch."""
    st, step = D.stretches(db)
    con = sqlite3.connect(db)
    try:
        flags = {r[0]: r[1:] for r in con.execute('SELECT start_epoch, is_jump, is_mystery_jump, is_interstorm FROM grid_time_flags')}
        zi = con.execute('SELECT start_epoch, interval_type, thru_epoch FROM zeta_interval').fetchall()
        storms = con.execute('SELECT start_epoch, thru_epoch FROM storm').fetchall()
        links = con.execute('SELECT interval_start_epoch, storm_start_epoch FROM zeta_interval_storm').fetchall()
    finally:
        con.close()
    delta = thr_j * (step / 3600.0)
    for s in st:
        ep = s['epoch']
        if not ep:
            continue
        heavy, jumpf = K.flags_of(s['rain'], s['zeta'], thr_s, delta)
        if K.rise_ties(heavy, jumpf):
            out.count('stretch-with-ties(skipped in epoch model)')
            continue
        eps = set(ep)
        lo, hi = ep[0], ep[-1] + step
        fl = [(e, tuple(bool(x) for x in flags[e])) for e in ep if e in flags]
        inter = sorted((a, b) for a, t, b in zi if t == 'interstorm' and a in eps)
        rises = sorted((a, b) for a, t, b in zi if t == 'storm' and a in eps)
        stm = sorted((a, b) for a, b in storms if lo <= a < hi)
        lk = sorted((a, b) for a, b in links if a in eps)
        zp = lambda rows: C.clist(['(%s, %s)' % (C.cZ(a), C.cZ(b)) for a, b in rows])     # noqa: E731
        cases.append('(%s, %s, %s, %s, %s, %s, %s, %s, %s, %s, %s)' % (
            C.cZs(ep), C.cZ(step), C.cfloat(thr_s), C.cfloat(thr_j), C.cfloats(s['rain']), C.cfloats(s['zeta']),
            C.clist(['(%s, (%s, %s, %s))' % (C.cZ(e), C.cbool(f[0]), C.cbool(f[1]), C.cbool(f[2])) for e, f in fl]),
            zp(inter), zp(stm), zp(rises), zp(lk)))
        meta.append(case)


CHECK_FN = (
    'fun c => match c with (ep, step, ts, tj, rain, zeta, fl, inter, stm, rises, lk) => '
    'match classify_stretch ep step ts tj rain zeta [] with '
    '| Ok r => list_eqb (pair_eqb Z.eqb (pair_eqb (pair_eqb Bool.eqb Bool.eqb) Bool.eqb)) (flag_rows r) fl '
    '&& list_eqb zpair_eqb (interstorm_rows r) inter '
    '&& same_set zpair_eqb (storm_rows r) stm && same_set zpair_eqb (rise_rows r) rises '
    '&& same_set zpair_eqb (link_rows r) lk '
    '| Err _ => false end end')
CASE_TY = ('list Z * Z * float * float * list float * list float * list (Z * (bool * bool * bool)) * '
           'list (Z * Z) * list (Z * Z) * list (Z * Z) * list (Z * Z)')


def variants(rng, step):
    k = rng.choice([1, 7, 13, 1000003, -5000, 3 * 86400 * 365 // step])
    out = [('shift %d steps' % k, dict(shift=k * step), k * step)]
    z = rng.choice([z for z in ZONES if z != 'UTC'])
    out.append(('zone ' + z, dict(tz=z), -ZONES[z]))
    return out


def epoch0_variant(rng, ds, step):
    """Origins at and before UNIX time 0 (negative epochs are ordinary timestamps: 1969 and earlier): the first
    water-level reading exactly at epoch 0 (in UTC, or at local midnight-ish of a zone east / west of UTC so that
    the epoch of the same wall-clock text is 0), the record running across epoch 0, the record wholly before
    1970, the LAST rainfall instant exactly at 0.  Whole-step shifts of the base dataset `ds` (UTC), optionally
    combined with a zone change."""
    first = ds.wl[0][0]
    mid = ds.rain[len(ds.rain) // 2][0]
    if (mid - first) % step:
        mid = first
    what = rng.choice(['first-reading-at-0', 'first-reading-at-0', 'across-0', 'across-0', 'before-1970', 'last-step-at-0'])
    if what == 'first-reading-at-0':
        shift = -first
    elif what == 'across-0':
        shift = -mid
    elif what == 'last-step-at-0':
        shift = -ds.rain[-1][0]
    else:
        shift = -first - rng.choice([5 * 365, 3, 40 * 365]) * 86400 // step * step - rng.randrange(0, 4) * step
    z = rng.choice(['UTC', 'UTC', 'Etc/GMT-5', 'Etc/GMT+3', 'Asia/Kolkata'])
    if z != 'UTC' and what in ('first-reading-at-0', 'last-step-at-0') and rng.random() < 0.7:
        # same instant 0 written as the wall-clock time of zone z
        return ('origin %s %s' % (what, z), dict(shift=shift + ZONES[z], tz=z), shift)
    if z != 'UTC':
        return ('origin %s %s' % (what, z), dict(shift=shift, tz=z), shift - ZONES[z])
    return ('origin %s' % what, dict(shift=shift), shift)


# ------------------------------------------------------------- logging every few seconds, at present-day and far epochs
#
# A comparison of epochs with a RELATIVE tolerance (or through single precision, or a 32-bit integer) is exact for
# half-hourly data and wrong once the time step is below tolerance x epoch: 1 s steps today (1.7e9 s), 2-3 s steps in
# the 2030s-2090s, epochs beyond 2^31.  The same record moved next to 1970 is then processed differently.

FINE_STEPS = [1, 2, 1, 5, 3, 2]
FAR_EPOCHS = [1600000000, 1750000000, 2000000000, 2 ** 31, 3200000000, 4000000000]


def fine_items(seed, n):
    items = []
    for k in range(n):
        rng = C.rng_for(seed, PROP, 'fine', k)
        step = FINE_STEPS[k % len(FINE_STEPS)]
        plan = CC.make_plan(rng, step=step, noise=(k % 2 == 0))
        e = FAR_EPOCHS[(seed + k) % len(FAR_EPOCHS)]
        plan['t0'] = (e - (rng.randrange(10, 40) if e == 2 ** 31 else 0) * step) // step * step   # (across 2^31)
        items.append(dict(kind='plan', plan=plan, fine=True))
    return items


def fine_variants(rng, ds, step):
    """The same record within the first hour of 1970, and at another of the far epochs (at / across / beyond 2^31)."""
    first = ds.wl[0][0]
    out = [('epoch near-1970', dict(shift=-first + rng.randrange(0, 3600) // step * step), None)]
    e = rng.choice([x for x in FAR_EPOCHS if abs(x - first) > 10 ** 8])
    back = rng.randrange(10, 40) * step if e == 2 ** 31 else 0
    out.append(('epoch far-%d' % e, dict(shift=(e - back - first) // step * step), None))
    return [(n, kw, kw['shift']) for n, kw, _ in out]


# ------------------------------------------------------------- environment stage
#
# The whole workflow (load, classify, set-zeta-grid, rise, recession) in ONE child process per variant of
# envcheck.workflow_env_variants(): TZ of the process (the record is dated across a daylight-saving switch of that
# very zone), python -O, -vvv, another current directory, PYTHONHASHSEED=random.  Every table and view must equal
# those of the default in-process run of the same files: the time origin of the data is the file's, not the
# process's.

WORKFLOW_CHILD = ('import spowtd.user_interface as ui, sys, json\n'
                  'for argv in json.loads(sys.argv[1]):\n'
                  '    sys.stderr.write("COMMAND %s\\n" % argv[0])\n'
                  '    sys.stderr.flush()\n'
                  '    rc = ui.main(argv)\n'
                  '    if rc:\n'
                  '        sys.exit(rc)\n')


def zone_switches(name, y0=2001, y1=2036):
    """Instants (UTC) at which the zone's UTC offset changes, by stdlib zoneinfo: daily scan, then bisection."""
    import datetime as dt
    import zoneinfo
    z = zoneinfo.ZoneInfo(name)
    off = lambda e: dt.datetime.fromtimestamp(e, tz=z).utcoffset()          # noqa: E731
    lo = int(dt.datetime(y0, 1, 1, tzinfo=dt.timezone.utc).timestamp())
    hi = int(dt.datetime(y1, 1, 1, tzinfo=dt.timezone.utc).timestamp())
    out = []
    a, oa = lo, off(lo)
    for b in range(lo + 86400, hi, 86400):
        ob = off(b)
        if ob != oa:
            x, y = a, b
            while y - x > 1:
                m = (x + y) // 2
                if off(m) == oa:
                    x = m
                else:
                    y = m
            out.append(y)
        a, oa = b, ob
    return out


def run_workflow_child(argvs, variant):
    """All commands in one child interpreter of the tree under test.  Returns (status, failed command, last
    stderr line)."""
    import json
    import os
    import subprocess
    import tempfile
    from harness import envcheck as E
    argvs = [[str(a) for a in argv] for argv in argvs]
    if variant.get('verbose'):
        argvs = [[a[0], '-vvv'] + a[1:] for a in argvs]
    env = {k: v for k, v in os.environ.items() if k in ('PATH', 'HOME', 'LANG', 'LC_ALL', 'TMPDIR', 'LD_LIBRARY_PATH')}
    env.update(PYTHONPATH=C.REPO, MPLBACKEND='Agg', PYTHONDONTWRITEBYTECODE='1')
    env.update(variant.get('env') or {})
    cwd = tempfile.mkdtemp(prefix='c07_cwd_', dir=C.WORK) if variant.get('cwd') == 'tmp' else None
    try:
        p = subprocess.run([E.PYTHON] + (['-O'] if variant.get('opt') else []) + ['-c', WORKFLOW_CHILD, json.dumps(argvs)],
                           env=env, cwd=cwd, stdout=subprocess.PIPE, stderr=subprocess.PIPE, text=True, timeout=600)
    finally:
        if cwd:
            try:
                os.rmdir(cwd)
            except OSError:
                pass
    lines = [l for l in p.stderr.splitlines() if l.strip()]
    cmds = [l.split()[1] for l in lines if l.startswith('COMMAND ')]
    if p.returncode == 0:
        return 'ok', None, ''
    return 'failed', (cmds[-1] if cmds else '?'), (lines[-1] if lines else 'exit status %s' % p.returncode)


def env_items(seed, n):
    """Planted datasets dated across a switch of the offset of one of the PROCESS zones of the variants (the
    declared zone of the files is UTC or a fixed-offset zone: the data themselves know nothing of that switch)."""
    from harness import envcheck as E
    pz = [v['env']['TZ'] for v in E.workflow_env_variants() if 'TZ' in (v.get('env') or {})]
    dst = [z for z in pz if zone_switches(z, 2010, 2014)]
    items = []
    for k in range(n):
        rng = C.rng_for(seed, PROP, 'env', k)
        plan = CC.make_plan(rng, noise=(k % 2 == 0))
        zone = dst[k % len(dst)]
        T = rng.choice(zone_switches(zone))
        ds, _, _ = CC.plan_to_dataset(plan)
        nsteps = len(ds.rain)
        plan['t0'] = (T - rng.randrange(2, nsteps - 2) * plan['step']) // plan['step'] * plan['step']
        items.append(dict(kind='plan', plan=plan, env=dict(across_switch_of=zone, declared=rng.choice(sorted(ZONES)))))
    return items


def check_env(items, out, variants_of):
    import concurrent.futures as cf
    import os
    from harness import envcheck as E
    for item in items:
        plan, declared = item['plan'], item['env']['declared']
        ds, thr_s, _ = CC.plan_to_dataset(plan, shift=ZONES[declared], tz=declared)   # the same instants, written in `declared`
        db0, st0, exc0 = run_pipeline(ds, thr_s, plan['thr_j'], plan['grid_step'], 'env', True)
        out.evaluations += 1
        out.count('ENV:dataset-across-switch-of:' + item['env']['across_switch_of'])
        out.count('ENV:declared-zone:' + declared)
        base = D.dump(db0, views=True) if os.path.exists(db0) else {}
        d = os.path.dirname(db0)
        paths = {n: os.path.join(d, n + '.txt') for n in ('precipitation', 'evapotranspiration', 'water_level')}

        def child(v):
            db = os.path.join(d, 'child_%s.sqlite3' % v['name'])
            if os.path.exists(db):
                os.remove(db)
            argvs = [['load', db, '-p', paths['precipitation'], '-e', paths['evapotranspiration'],
                      '-z', paths['water_level'], '--timezone', declared],
                     ['classify', db, '-s', thr_s, '-j', plan['thr_j']], ['set-zeta-grid', db, '-d', plan['grid_step']],
                     ['rise', db], ['recession', db]]
            st = run_workflow_child(argvs, v)
            return st, (D.dump(db, views=True) if os.path.exists(db) else {})
        variants = variants_of(item)
        with cf.ThreadPoolExecutor(max_workers=8) as ex:
            results = list(ex.map(child, variants))
        for v, ((st, cmd, err), tables) in zip(variants, results):
            out.evaluations += 1
            out.count('ENV:' + v['name'])
            vcase = dict(level='ENV', item=item, variant=v['name'])
            how = ', '.join(['%s=%s' % kv for kv in sorted((v.get('env') or {}).items())] +
                            [t for t, on in (('python -O', v.get('opt')), ('-vvv', v.get('verbose')),
                                             ('another current directory', v.get('cwd'))) if on])
            if (st0 == 'ok') != (st == 'ok') or (st0 != 'ok' and st0 != cmd):
                out.violation('oracle', 'the same files are processed differently in a process under %s: default run '
                              '%s %r, child run %s %s %s' % (how, st0, exc0, st, cmd or '', err[:300]), case=vcase)
                continue
            diffs = E.diff_dumps(base, tables)
            if diffs:
                out.violation('oracle', 'tables / views of the same files differ when the process runs under %s '
                              '(record dated across a switch of %s, declared zone %s): %s'
                              % (how, item['env']['across_switch_of'], declared, '; '.join(diffs[:3])), case=vcase)
            elif st == 'ok' and len(base.get('zeta_interval', [])) >= 2:
                out.nontriv(('env', v['name'], str(item)[:300]))


def env_stage(seed, tier, out):
    from harness import envcheck as E
    variants = [v for v in E.workflow_env_variants() if v['name'] != 'default']
    tz_only = [v for v in variants if 'TZ' in (v.get('env') or {})]
    items = env_items(seed, 2 if tier == 'quick' else 8)
    # quick: every variant on the first dataset; on the second the process zone whose switch it is dated across
    # and one other
    def variants_of(it):
        if tier != 'quick' or it is items[0]:
            return variants
        own = [v for v in tz_only if v['env']['TZ'] == it['env']['across_switch_of']]
        return own + [v for v in tz_only if v not in own][-1:]
    check_env(items, out, variants_of)


def check_pairs(items, out, label, only_variant=None):
    cases, meta = [], []
    for item in items:
        kind = item['kind']
        rng = C.rng_for(out.evaluations, PROP, 'variant')
        rng0 = C.rng_for(out.evaluations, PROP, 'epoch0')
        if kind == 'record':
            rec = item['rec']
            mk = lambda **kw: G.to_dataset(rec, **kw)                       # noqa: E731
            thr_s, thr_j, grid, step, curves = rec['thr_s'], rec['thr_j'], None, rec['step'], False
        else:
            plan = item['plan']
            _, thr_s, _ = CC.plan_to_dataset(plan)
            mk = lambda **kw: CC.plan_to_dataset(plan, **kw)[0]             # noqa: E731
            thr_j, grid, step, curves = plan['thr_j'], plan['grid_step'], plan['step'], True
        case = dict(level='CL', item=item)
        ds0 = mk()
        dba, sta, exca = run_pipeline(ds0, thr_s, thr_j, grid, 'a', curves)
        out.evaluations += 1
        out.count(kind + ':step=%d' % step)
        if sta == 'load':
            out.count('load-refused')
            continue
        base = D.dump(dba, views=True)
        if sta == 'ok' or sta in ('rise', 'recession', 'set-zeta-grid'):
            model_cases(dba, thr_s, thr_j, cases, meta, case, out)
        if only_variant is not None:
            todo = [(only_variant['name'], only_variant['kw'], only_variant['d'])]
        else:
            if item.get('fine'):
                todo = fine_variants(C.rng_for(out.evaluations, PROP, 'fine_variant'), ds0, step)
            else:
                todo = variants(rng, step) + [epoch0_variant(rng0, ds0, step)]
        for name, kw, d in todo:
            dsb = mk(**kw)
            dbb, stb, excb = run_pipeline(dsb, thr_s, thr_j, grid, 'b', curves)
            out.evaluations += 1
            out.count('variant:' + name.split()[0])
            if name.startswith('epoch'):
                out.count('variant:' + name)
                out.count('fine:step=%ds base-epoch~%.1e moved-to~%.1e' % (step, ds0.wl[0][0], dsb.wl[0][0]))
            if name.startswith('origin'):
                out.count('variant:' + ' '.join(name.split()[:2]))
                off = ZONES[kw.get('tz', 'UTC')]              # epochs as load will read them
                tlo, thi = min(dsb.rain[0][0], dsb.wl[0][0]) - off, max(dsb.rain[-1][0], dsb.wl[-1][0]) - off
                out.count('epochs-of-the-moved-record:' + ('all<0' if thi < 0 else ('across-0' if tlo < 0 else
                          ('from-0' if tlo == 0 else '>0'))))
            vcase = dict(level='CL', item=item, variant=dict(name=name, kw=kw, d=d))
            if (sta, type(exca).__name__) != (stb, type(excb).__name__):
                out.violation('oracle', 'the same data fail differently at another time origin (%s): %s %r vs %s %r'
                              % (name, sta, exca, stb, excb), case=vcase)
                continue
            diffs = compare_dumps(base, unshift(D.dump(dbb, views=True), d), out=out)
            if diffs:
                out.violation('oracle', 'tables / views differ after un-shifting the epochs by %d s (%s): %s'
                              % (d, name, '; '.join(diffs[:3])), case=vcase)
            elif stb == 'ok':
                model_cases(dbb, thr_s, thr_j, cases, meta, vcase, out)
                if len(base.get('zeta_interval', [])) >= 2:
                    out.nontriv((kind, name, str(item)[:300]))
    bad, errs, _ = C.run_case_shards(PROP, label, PRE, CASE_TY, CHECK_FN, cases, shard=150)
    out.corr_errors += errs
    for i in bad:
        v = meta[i].get('variant', 'base origin')
        out.violation('corr', 'epoch-level model classify_stretch <> tables written by classify (%s)'
                      % (v['name'] if isinstance(v, dict) else v), case=meta[i])
    out.count('epoch-model cases', len(cases))


def run(ctx, out):
    C.import_spowtd()
    seed, tier = ctx['seed'], ctx['tier']
    rng = C.rng_for(seed, PROP)
    nrec, nplan = (45, 12) if tier == 'quick' else (450, 120)
    items = []
    classes = ['threshold', 'threshold', 'events', 'chain', 'gappy', 'edges']
    for k in range(nrec):
        items.append(dict(kind='record', rec=G.gen_record(rng, classes[k % len(classes)])))
    for k in range(nplan):
        items.append(dict(kind='plan', plan=CC.make_plan(C.rng_for(seed, PROP, 'plan', k), noise=(k % 2 == 0))))
    items += fine_items(seed, 3 if tier == 'quick' else 18)
    check_pairs(items, out, 'cl')
    env_stage(seed, tier, out)
    out.rule = ('Each dataset (classification records with increments exactly at threshold x step; planted datasets run up '
                'to rise/recession) is processed at its own origin and at shifted origins (multiples of the step incl. '
                'years, fixed-offset zone changes incl. +05:45 / +05:30, and origins at / across / before UNIX time 0); '
                'all tables and views compared after un-shifting, floats within 1e-13 relative. '
                'Non-trivial: >= 2 classified intervals and identical tables; distinct by (dataset, variant). '
                'Also planted datasets logged every 1 / 2 / 3 / 5 s at epochs 1.6e9 .. 4e9 (at, across and beyond 2^31), '
                'compared with the same record within the first hour of 1970 and at another far epoch (fine:* counts). '
                'ENVIRONMENT STAGE: the whole workflow on planted datasets dated across a daylight-saving switch of '
                'the PROCESS zone, in one child process per variant (TZ=Asia/Tokyo / America/St_Johns / Europe/Berlin, '
                'python -O, -vvv, another current directory, PYTHONHASHSEED=random): every table and view must equal '
                'the default in-process run exactly (ENV:* counts).')
    out.samples = [dict(kind='record', rec=items[0]['rec'])]
    out.assumptions += ['tables and views compared within 1e-13 relative (measured: bit-identical on the unchanged tree; '
                        'cells that are not are counted as float-cells-not-bit-identical)']


def replay(case, out):
    C.import_spowtd()
    if case.get('level') == 'ENV':
        from harness import envcheck as E
        check_env([case['item']], out, lambda it: [E.variant_by_name(case['variant'])])
        return
    v = case.get('variant')
    check_pairs([case['item']], out, 'replay', only_variant=v if isinstance(v, dict) else None)
