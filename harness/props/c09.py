"""C09 — the reference water level is the origin of the master curve.

CL: datasets prepared through load / classify / set-zeta-grid for several grid
steps; `spowtd rise -r REF` and `spowtd recession -r REF` for references that
are multiples of the step (as float products k*step and as decimal text), off
grid references, and no reference.  Oracle: accepted <=> multiple of the step;
the curve is 0 at the reference level (at the highest level without reference).
Coq correspondence: acceptance and the chosen level index against the bit-exact
PrimFloat model Model/RefIndex.v.
"""
import os
import shutil
import sqlite3

os.environ.setdefault('OPENBLAS_NUM_THREADS', '1')   # (before numpy is loaded: a busy machine makes threaded BLAS 100x slower)
from harness import common as C  # noqa: E402
from harness import curves_common as CC
from harness import dataset as D

PROP = 'C09'
MODELS = ['Model/RefIndex.vo', 'Model/Views.vo', 'Model/ViewsCase.vo']
PRE = 'From Spowtd Require Import Model.RefIndex.\nFrom Coq Require Import PrimFloat.\n'
GRID_STEPS = [1.0, 0.5, 0.1, 0.2, 0.3, 2.5, 5.0]


def prepare(plan, name):
    """load + classify + set-zeta-grid; returns db path or None."""
    ds, thr_s, _ = CC.plan_to_dataset(plan)
    d = D.scratch(PROP, name)
    db, rc, exc = D.load(ds, d)
    if exc is not None:
        return None
    for argv in (['classify', db, '-s', thr_s, '-j', plan['thr_j']], ['set-zeta-grid', db, '-d', plan['grid_step']]):
        rc, exc, _ = D.cli(argv)
        if exc is not None:
            return None
    return db


VIEW_ITEMS = []      # (curves_common.dump_views(db), case) of the runs whose views are also checked against Model/Views.v


class Curve(dict):
    """The master curve as the VIEW average_rising_depth / average_recession_time shows it (what the user, the
    plots and the PEST files see): level number -> value.  .table = the same from the tables rise / recession
    wrote (level means of offset + crossing over the aligned intervals); .complaints = where view and tables
    disagree (curves_common.view_table_complaints)."""
    table = None
    complaints = ()
    db = None


def curve_levels(db, kind):
    r = CC.read_curves(db)
    got, bad = CC.view_master(r, kind)
    c = Curve(got)
    c.table, _ = CC.table_master(r, kind)
    c.complaints = CC.view_table_complaints(r, kinds=(kind,))
    return c, r['grid'][0][0]


def run_ref(db, kind, ref, tag):
    work = os.path.join(os.path.dirname(db), 'ref_%s.sqlite3' % tag)
    shutil.copyfile(db, work)
    argv = [kind, work] + ([] if ref is None else ['-r', repr(ref)])
    rc, exc, _ = D.cli(argv)
    if exc is not None:
        kindexc = 'refused' if isinstance(exc, ValueError) and 'not evenly divisible' in str(exc) else \
                  ('not-on-curve' if isinstance(exc, KeyError) else 'error')
        return kindexc, exc, None
    levels, step = curve_levels(work, kind)
    levels.db = work
    return 'ok', None, levels


def refs_for(rng, levels, step, n_pick=4, acceptance=True):
    """acceptance=False (large records): only on-grid references on the curve - the acceptance forms are exercised on
    the small records."""
    ks = sorted(levels)
    pick = rng.sample(ks, min(len(ks), n_pick))
    out = []
    for k in pick:
        out.append(('product', k, k * step, True))
        out.append(('decimal', k, float('%.6g' % (k * step)), True))
    if not acceptance:
        if getattr(levels, 'table', None):
            out.append(('top-of-curve', max(levels.table), max(levels.table) * step, True))
        return out
    k = rng.choice(ks)
    out.append(('half-step', k, (k + 0.5) * step, False))
    out.append(('off-3e-7', k, k * step + 3e-7, False))
    out.append(('within-3e-9', k, k * step + 3e-9, True))
    out.append(('outside-curve', max(ks) + 50, (max(ks) + 50) * step, True))
    if getattr(levels, 'table', None):
        # the highest level at which the command stored crossings of aligned intervals: it is on the assembled curve
        kt = max(levels.table)
        out.append(('top-of-curve', kt, kt * step, True))
    return out


CURVE_TABLES = ['rising_interval', 'rising_interval_zeta', 'recession_interval', 'recession_interval_zeta',
                'average_rising_depth', 'average_recession_time', 'rising_curve_line_segment']


def env_stage(db, plan, kind, base, out, variant, extra=False, tag=''):
    """ENVIRONMENT STAGE: `KIND DB -r REF` in a CHILD process under one variant of harness.envcheck (`python -O`:
    assert statements removed; another TZ / current directory / hash seed; DEBUG logging) for an on-grid reference,
    (every second time) no reference, and a reference half a step off the grid - one child runs them in this order, each
    on its own copy of the database (extra=True: a second child for a reference 3e-7 off the grid).  The child must
    accept / refuse exactly as the default in-process run does (refusal = the same ValueError), and an accepted run
    must store the same curve (tables and views, row for row).  The in-process runs themselves are judged by the
    oracle of check()."""
    from harness import envcheck as E
    step = plan['grid_step']
    ks = sorted(base.table)
    k = ks[len(ks) // 2]
    groups = [[('product', k * step)] + ([('none', None)] if k % 2 else []) + [('half-step', (k + 0.5) * step)]]
    if extra:
        groups.append([('off-3e-7', k * step + 3e-7)])
    how = 'python -O: assert statements removed' if variant.get('opt') else str(variant.get('env') or variant['name'])
    for refs in groups:
        default, works, argvs = [], [], []
        for j, (form, ref) in enumerate(refs):
            default.append(run_ref(db, kind, ref, 'envd%s%d' % (tag, j)))
            work = os.path.join(os.path.dirname(db), 'env_%s%s%d.sqlite3' % (variant['name'], tag, j))
            shutil.copyfile(db, work)
            works.append(work)
            argvs.append([kind, work] + ([] if ref is None else ['-r', repr(ref)]))
        res, failed = E.run_cli_sequence_variant(argvs, variant)
        err = E.last_error_line(res)
        for j, (form, ref) in enumerate(refs):
            if failed is not None and j > failed:
                out.count('environment: command not reached (an earlier one of the same child failed)')
                continue
            out.evaluations += 1
            out.count('environment: %s, %s reference' % (variant['name'], form))
            case = dict(level='ENV', plan=plan, kind=kind, ref=ref, form=form, variant=variant['name'], extra=extra)
            st, exc, lev = default[j]
            st2 = ('ok' if failed is None or j < failed else 'refused' if 'ValueError' in err and 'not evenly divisible' in err
                   else 'not-on-curve' if err.startswith('KeyError') else 'error')
            ref_txt = 'no reference' if ref is None else 'reference %r = %s x step %s' % (ref, (k + 0.5) if form == 'half-step' else k, step)
            if st2 != st:
                out.violation('oracle', '%s, %s: the default run %s, the same command in a child process under %s (%s) %s'
                              % (kind, ref_txt, 'stores a curve' if st == 'ok' else 'ends with %r' % (exc,), variant['name'], how,
                                 'stores a curve (exit status 0)' if st2 == 'ok' else 'ends with: ' + err[:200]), case=case)
                continue
            if st == 'ok':
                diffs = E.diff_dumps(D.dump(lev.db, tables=CURVE_TABLES, views=True), D.dump(works[j], tables=CURVE_TABLES, views=True))
                if diffs:
                    out.violation('oracle', '%s, %s: the curve stored in a child process under %s (%s) differs from the default '
                                  'run: %s' % (kind, ref_txt, variant['name'], how, '; '.join(diffs[:3])), case=case)
                else:
                    out.nontriv(('env', kind, form, variant['name'], step))
            else:
                out.nontriv(('env', kind, form, variant['name'], step, st))


def env_variant(n, kind, mode):
    """'opt': `python -O`; 'other': one of the other variants of harness.envcheck, rotating with the plan and the command."""
    from harness import envcheck as E
    V = {v['name']: v for v in E.workflow_env_variants()}
    others = [v for v in E.workflow_env_variants() if v['name'] not in ('default', 'opt')]
    return V['opt'] if mode == 'opt' else others[(2 * n + (kind == 'recession')) % len(others)]


def check(plans, out, label, env_plans=None):
    env_plans = env_plans or {}
    cases, meta = [], []
    del VIEW_ITEMS[:]
    for n, plan in enumerate(plans):
        db = prepare(plan, 'prep')
        if db is None:
            out.count('prepare-failed')
            continue
        rng = C.rng_for(n, PROP, 'refs', plan['grid_step'])
        for kind in ('rise', 'recession'):
            st, exc, base = run_ref(db, kind, None, 'none')
            out.evaluations += 1
            case0 = dict(level='CL', plan=plan, kind=kind, ref=None)
            if st != 'ok':
                out.count('no-curve(' + kind + ')')
                continue
            if plan.get('rows'):
                nrows = len(CC.read_curves(base.db)['rising_interval_zeta' if kind == 'rise' else 'recession_interval_zeta'])
                out.count('%s: %d stored crossing rows%s' % (kind, nrows, (' (aimed at %d: %s)' % (
                    plan['rows']['target'], 'reached' if nrows == plan['rows']['target'] else 'MISSED')) if kind == 'rise' else ''))
            for mode in env_plans.get(n, ()):
                env_stage(db, plan, kind, base, out, env_variant(n, kind, mode), extra=(len(env_plans[n]) > 1))
            # no reference: the origin is the LAST row of the view (C09_view_origin_is_top_without_reference); the view
            # against Model/Views.v inside Coq (large records: judged by the oracle only)
            if not plan.get('large'):
                VIEW_ITEMS.append((CC.dump_views(base.db), case0))
            n_ref_views = 0
            if plan.get('top_cell'):
                out.count('%s: highest level positive and off the grid lines, top grid level %s crossed by >= 2 intervals'
                          % (kind, 'IS' if plan.get('top_level') in base.table else 'is not'))
            for msg in base.complaints:
                out.violation('oracle', '%s without reference: master-curve view <> tables: %s' % (kind, msg), case=case0)
            if not base:
                out.violation('oracle', '%s succeeded but the master-curve view is empty' % kind, case=case0)
                continue
            top = max(base)
            scale = 1 + max(abs(v) for v in base.values())
            if abs(base[top]) > 1e-9 * scale:
                out.violation('oracle', '%s curve without reference is %.3g at its highest level (%s mm), not 0%s'
                              % (kind, base[top], top * plan['grid_step'],
                                 '' if top == max(base.table) else '; the tables hold crossings up to level %d (%s mm), which '
                                 'the view does not show' % (max(base.table), max(base.table) * plan['grid_step'])), case=case0)
            step = plan['grid_step']
            for form, k, ref, on_grid in refs_for(rng, base, step, n_pick=1 if plan.get('large') else 4,
                                                  acceptance=not plan.get('large')):
                out.evaluations += 1
                out.count('%s:%s' % (form, step))
                case = dict(level='CL', plan=plan, kind=kind, ref=ref, form=form, k=k)
                st, exc, lev = run_ref(db, kind, ref, 'r')
                impl = None
                if st == 'error':
                    out.violation('oracle', '%s -r %r fails with %r' % (kind, ref, exc), case=case)
                    continue
                if st == 'refused':
                    impl = '(Err EValue)'
                    if on_grid:
                        out.violation('oracle', '%s refuses reference %r = %d x step %s (%s): a multiple of the grid step '
                                      'must be accepted' % (kind, ref, k, step, form), case=case)
                elif st == 'not-on-curve':
                    if k in base or k in base.table:
                        out.violation('oracle', '%s -r %r: level %d is on the curve but the command reports it missing (%r)'
                                      % (kind, ref, k, exc), case=case)
                    impl = None   # index not observable
                    out.count('level-not-on-curve')
                else:
                    if not on_grid:
                        out.violation('oracle', '%s accepts reference %r which is not a multiple of step %s (%s)'
                                      % (kind, ref, step, form), case=case)
                    for msg in lev.complaints[:1]:
                        out.violation('oracle', '%s -r %r: master-curve view <> tables: %s' % (kind, ref, msg), case=case)
                    zero = [z for z, v in lev.items() if abs(v) <= 1e-9 * scale]
                    if k not in lev or abs(lev[k]) > 1e-9 * scale:
                        out.violation('oracle', '%s -r %r (%d x %s): master curve at that level is %r, not 0; zero at levels %s'
                                      % (kind, ref, k, step, lev.get(k), zero), case=case)
                    if on_grid and n_ref_views < 2 and not plan.get('large'):
                        n_ref_views += 1          # two accepted references per curve: C09_view_zero_at_reference
                        VIEW_ITEMS.append((CC.dump_views(lev.db), case))
                    if on_grid and len(base) >= 3:
                        out.nontriv((kind, form, step, k))
                    if len(zero) == 1:
                        impl = '(Ok %s)' % C.cZ(zero[0])
                if impl is not None:
                    cases.append('(%s, %s, %s)' % (C.cfloat(ref), C.cfloat(step), impl))
                    meta.append(case)
    bad, errs, _ = C.run_case_shards(
        PROP, label, PRE, 'float * float * res Z',
        'fun c => match c with (ref, step, impl) => res_eqb Z.eqb (reference_index ref step) impl end', cases)
    out.corr_errors += errs
    for i in bad:
        out.violation('corr', 'model reference_index <> implementation for ref=%r step=%r' % (meta[i]['ref'], meta[i]['plan']['grid_step']),
                      case=meta[i])
    out.count('model-vs-code cases', len(cases))
    CC.check_views_coq(PROP, label + '_views', VIEW_ITEMS, out,
                       what=lambda c: ' (%s, reference %r)' % (c['kind'], c.get('ref')))


def run(ctx, out):
    C.import_spowtd()
    seed, tier = ctx['seed'], ctx['tier']
    n = 14 if tier == 'quick' else 140
    plans = []
    for k in range(n):
        rng = C.rng_for(seed, PROP, k)
        g = GRID_STEPS[k % len(GRID_STEPS)]
        plans.append(CC.make_plan(rng, n_events=rng.randrange(3, 5), grid_step=g, noise=(k % 2 == 0)))
    # records reaching above the surface: highest level positive and off the grid lines, the top level of the grid
    # crossed by >= 2 rises and >= 2 recessions, so that it is the origin when no reference is given (own streams)
    for k in range(max(3, n // 4)):
        rng = C.rng_for(seed, PROP, 'top', k)
        g = GRID_STEPS[(3 * k + seed) % len(GRID_STEPS)]
        plans.append(CC.make_plan(rng, n_events=rng.randrange(3, 5), grid_step=g, noise=(k % 2 == 0), top_cell=True))
    # exact-count coincidence named by a seeded defect (rows handed to the database in batches of 1000): records whose
    # rise curve is stored in exactly 1001 / 2001 crossing rows (thorough: also 1000, 1025, 3001, 4097), storm depths
    # 0-3% off the storage curve so that every stored row matters for the level means; own random streams
    targets = [1001, 2001] if tier == 'quick' else [1001, 2001, 1000, 1025, 3001, 4097, 1001, 2001]
    n_small = len(plans)
    for k, rows in enumerate(targets):
        plans.append(CC.make_rowcount_plan(C.rng_for(seed, PROP, 'rows', k), rows))
    # environment stage on two of the small plans (grid steps 0.1 and 0.3 mm): one child process per command running 2-3
    # references - `python -O` on the first plan, another variant on the second; thorough: every 7th plan, both, 4 children each
    check(plans, out, 'cl', env_plans={2: ['opt'], 11: ['other']} if tier == 'quick' else {k: ['opt', 'other'] for k in range(2, n_small, 7)})
    out.rule = ('Planted datasets x grid steps {1, .5, .1, .2, .3, 2.5, 5} x references (k*step as float product, as decimal '
                'text, half a step off, 3e-7 off, 3e-9 off, a multiple outside the curve, the highest level of the '
                'assembled curve, none) through `rise -r` and `recession -r`; 1/5 of the records have a positive highest '
                'level off the grid lines with the top grid level crossed by >= 2 rises and >= 2 recessions. Plus records whose rise curve is '
                'stored in exactly 1001 / 2001 crossing rows (3-7 storms through the same N levels, some one level less; storm '
                'depths 0-3% off the storage curve). Environment stage: `rise -r` / `recession -r` in a child process under '
                '`python -O` (on-grid reference, no reference, reference half a step off) and under another variant (TZ, DEBUG '
                'logging, other directory, random hash seed): same acceptance / refusal and the same stored curve as the default in-process run. The curve is '
                'read from the views average_rising_depth / average_recession_time and compared with the tables. Non-trivial: accepted on-grid reference on a curve with >= 3 levels; distinct by (command, '
                'form, step, k).')
    out.samples = [dict(step=plans[0]['grid_step'], refs='k*step for k in curve levels, decimal text, off-grid variants')]
    out.assumptions += ['a multiple of the step that lies outside the assembled curve raises KeyError (cannot be the origin): '
                        'counted, not treated as refusal of a multiple']


def replay(case, out):
    C.import_spowtd()
    if case.get('level') == 'ENV':
        from harness import envcheck as E
        plan, kind = case['plan'], case['kind']
        db = prepare(plan, 'prep')
        st, exc, base = run_ref(db, kind, None, 'none')
        if st == 'ok':
            env_stage(db, plan, kind, base, out, E.variant_by_name(case['variant']), extra=bool(case.get('extra')), tag='r')
        return
    check([case['plan']], out, 'replay')
