"""C20 — each workflow step is all-or-nothing and independent steps commute.

Proof side: coq/Properties/C20.v (protocol theorems over Model/Txn.v).
Runtime side (this file), on datasets on which the whole workflow succeeds:

(a) shape: the fault-free Python-level event trace of every real step
    (classify, set-zeta-grid, set-curvature, rise, recession) has the step shape
    of the theorems (DML/SELECT calls, at most one explicit commit as the last
    action, normal exit), its SQL trace (trace callback) has exactly one BEGIN
    and its only COMMIT last — and equals the trace the Coq model predicts from
    the events; the tables the authorizer saw are within the declared sets.
(b) fault enumeration: EVERY fault point of every step (before every execute
    call, before every row of an executemany, before/after every commit, before/
    after the exit of the `with` block) x {Python exception, SQLite interrupt}
    in-process, and SIGKILL of a subprocess running the CLI at the point (a
    sample in quick; with and without a one-page cache that forces SQLite to
    spill into the file so that a hot journal is left).  Oracle: the logical dump
    afterwards is the dump before or the fault-free result; running the step again
    gives the fault-free result (or, when the result was already complete, changes
    nothing).  Correspondence: the outcome (pre / post) and the SQL trace of
    each attempt are the ones the Coq model computes from the attempt's events.
(b') killed inside the commit: the PLAIN command line (no tracer, no wrapper
    around sqlite3) runs in a child process under RLIMIT_FSIZE = L with SIGXFSZ
    at its default action, so that the KERNEL kills it at the first write that
    would make a file longer than L: while SQLite writes the rollback journal
    (small L), or while the final COMMIT writes pages into the dataset file (L
    above the journal's size and below the offset of a page the commit has to
    write; L off a page boundary tears that page).  L sweeps over the pages the
    commit writes (dirty pages of the fault-free run, file growth included).
    Afterwards the file is opened (SQLite replays the hot journal): PRAGMA
    integrity_check must say ok, the dump must be the dump before or the
    fault-free result, and the step is run again as in (b).  The phase each
    kill hit (journal write / database page write, how many pages had reached
    the file, torn page) is measured from the files left behind, not assumed.
    After EVERY kill (both kinds) the harness itself opens only a COPY of the
    dataset file and its -journal (previous content or complete result, integrity
    check); on the original the next thing that touches the file is the spowtd
    command line: the step again, or first another command of the workflow (a
    later step that fails for lack of its inputs = a reader, an earlier step
    that fails on its key, an independent step that succeeds), then the step
    again and the rest of the workflow.  A command that clears away the hot
    journal, or does not replay it, shows here and only here.
(b'') failures caused by the arguments: every step x every real-valued argument x
    {0, -0.0, nan, inf, -inf, negative, denormal, huge, not a number, empty}, and
    for rise/recession reference levels off the grid / far outside the curve,
    on the dataset before the step, after the step (and, sampled, in every other
    state of the workflow including those that lack an earlier step).  Whatever
    fails (exception or non-zero status) must leave the dump unchanged, the
    step must run afterwards and give the fault-free result, the completed
    workflow must equal the canonical one; what the caller saw (failure /
    success) must agree with how the trace shows the `with` block was left
    (Model.Txn ExitExn discards, ExitOk publishes); the model's outcome and SQL
    trace are compared as in (b).
(c) histories: all orders of {classify, set-zeta-grid, set-curvature} and of
    {rise, recession}, with failed attempts (injected faults of every kind, and
    natural failures such as re-running a completed step or running rise before
    the grid exists, mistyped arguments of any step) interleaved; every final
    dump equals the canonical one.
"""
import concurrent.futures as cf
import itertools
import os
import shutil
import signal
import sqlite3
import subprocess
import sys
import threading

from harness import common as C
from harness import dataset as D
from harness import gen_pest as GP
from harness import sqltrace as T

PROP = 'C20'
MODELS = ['Model/Util.vo', 'Model/Txn.vo']
PRE = 'From Spowtd Require Import Model.Util Model.Txn.\n'
STEPS = ['classify', 'set-zeta-grid', 'set-curvature', 'rise', 'recession']
STEP_ID = {'classify': 's_classify', 'set-zeta-grid': 's_zeta_grid', 'set-curvature': 's_curvature',
           'rise': 's_rise', 'recession': 's_recession'}
# Python copy of the declared sets, only for messages; the authoritative lists are
# R_* / W_* in coq/Model/Txn.v and the comparison is done there (tables_case_ok).
DECLARED = {
    'classify': (['grid_time', 'rainfall_intensity', 'water_level', 'time_grid', 'storm'],
                 ['thresholds', 'grid_time_flags', 'zeta_interval', 'storm', 'zeta_interval_storm']),
    'set-zeta-grid': (['water_level'], ['zeta_grid', 'discrete_zeta']),
    'set-curvature': ([], ['curvature']),
    'rise': (['water_level', 'storm', 'zeta_interval', 'zeta_interval_storm', 'rainfall_intensity',
              'zeta_grid'], ['rising_interval', 'rising_interval_zeta']),
    'recession': (['water_level', 'zeta_interval', 'zeta_grid'],
                  ['recession_interval', 'recession_interval_zeta']),
}
SETUP = ['classify', 'set-zeta-grid', 'set-curvature']
CURVES = ['rise', 'recession']


# ------------------------------------------------------------------ Coq literals

def cevs(events):
    out = []
    for i, e in enumerate(events):
        k = e[0]
        if k == 'dml':
            out.append('CDml %d %d' % (e[1], i))
        elif k == 'select':
            out.append('CSelect')
        elif k == 'commit':
            out.append('CCommit')
        elif k == 'rollback':
            out.append('CRollback')
        elif k == 'exit_ok':
            out.append('CExitOk')
        elif k == 'exit_exn':
            out.append('CExitExn')
        else:
            raise ValueError('event outside the model: %r' % (e,))
    return C.clist(out)


SQLK = {'BEGIN': 'SBegin', 'STMT': 'SStmt', 'COMMIT': 'SCommit', 'ROLLBACK': 'SRollback'}


def csql(sql):
    return C.clist([SQLK[s] for s in sql])


def ctbls(names):
    return C.clist(['t_' + n for n in sorted(names)])


def shape_py(events):
    """Python twin of Model.Txn.shape_ok."""
    ev = [e[0] for e in events]
    if not ev or ev[-1] != 'exit_ok':
        return False
    body = ev[:-1]
    if body and body[-1] == 'commit':
        body = body[:-1]
    return all(k in ('dml', 'select') for k in body)


# ------------------------------------------------------------------ datasets

class Work:
    """One dataset: files of the canonical pipeline S0 -load-> ... and their dumps."""

    def __init__(self, rec, tag):
        self.rec, self.tag = rec, tag
        self.dir = D.scratch(PROP, tag)
        self.n = 0
        self.lock = threading.Lock()

    def fresh(self, src):
        with self.lock:
            self.n += 1
            p = os.path.join(self.dir, 'f%05d.sqlite3' % self.n)
        shutil.copyfile(src, p)
        return p

    def argv(self, step, db):
        if 'sample' in self.rec:
            return {'classify': ['classify', db, '-s', '8', '-j', '5'],
                    'set-zeta-grid': ['set-zeta-grid', db, '-d', '1.0'],
                    'set-curvature': ['set-curvature', db, '1.0'],
                    'rise': ['rise', db], 'recession': ['recession', db]}[step]
        return GP.step_argv(step, db, self.rec)


def load_record(w):
    rec = w.rec
    if 'sample' in rec:
        sd = os.path.join(C.REPO, 'spowtd', 'test', 'sample_data')
        n = rec['sample']
        db = os.path.join(w.dir, 'S0.sqlite3')
        rc, exc, _ = D.cli(['load', db, '-p', os.path.join(sd, 'precipitation_%d.txt' % n),
                            '-e', os.path.join(sd, 'evapotranspiration_%d.txt' % n),
                            '-z', os.path.join(sd, 'water_level_%d.txt' % n), '--timezone', 'Africa/Lagos'])
        return db, exc
    db, rc, exc = D.load(GP.to_dataset(rec), os.path.join(w.dir, 'load'))
    return db, exc


def canonical(w, out, case):
    """Run the pipeline fault-free under the tracer. Returns None when the
    dataset does not carry the whole workflow (generator miss: counted, not hidden)."""
    db, exc = load_record(w)
    if exc is not None:
        out.count('dataset:load-refused')
        return None
    states = {0: os.path.join(w.dir, 'S0.sqlite3')}
    if db != states[0]:
        shutil.copyfile(db, states[0])
    dumps = {0: D.dump(states[0])}
    traces = {}
    for i, step in enumerate(STEPS):
        p = os.path.join(w.dir, 'S%d.sqlite3' % (i + 1))
        shutil.copyfile(states[i], p)
        tr, exc = T.run_cli(w.argv(step, p))
        if exc is not None:
            out.count('dataset:%s-fails' % step)
            return None
        states[i + 1], dumps[i + 1], traces[step] = p, D.dump(p), tr
    return states, dumps, traces


def valid_record(rng, out, size='small', gaps=None):
    for _ in range(30):
        rec = GP.gen_curves_record(rng, size=size, gaps=gaps)
        w = Work(rec, 'probe')
        if canonical(w, out, None) is not None:
            return rec
    raise RuntimeError('generator produced no dataset that carries the whole workflow')


# ------------------------------------------------------------------ (a) shape and tables

def check_shape(w, traces, out, case, coq):
    for step in STEPS:
        tr = traces[step]
        ev, sql = tr.events, tr.sql
        out.evaluations += 1
        out.count('shape:' + step)
        c = dict(case, level='shape', step=step)
        if tr.connections != 1:
            out.violation('oracle', '%s opened %d connections (one transaction on one connection expected)'
                          % (step, tr.connections), case=c)
        if not shape_py(ev):
            out.violation('oracle', 'the action trace of `%s` does not have the step shape (DML/SELECT calls, '
                          'at most one commit as the last action, normal exit): a commit or rollback occurs '
                          'before the end. events=%s' % (step, summarize(ev)), case=c)
        nb, nc = sql.count('BEGIN'), sql.count('COMMIT')
        if nb != 1 or nc != 1 or sql[-1] != 'COMMIT' or 'ROLLBACK' in sql:
            out.violation('oracle', 'SQL trace of `%s` is not one transaction committed last: %d BEGIN, %d COMMIT, '
                          'last=%s, positions of COMMIT=%s of %d statements'
                          % (step, nb, nc, sql[-1] if sql else None,
                             [i for i, s in enumerate(sql) if s == 'COMMIT'], len(sql)), case=c)
        reads = {t for t in tr.reads if t not in D.VIEWS}
        R, W = DECLARED[step]
        if not (tr.writes <= set(W)) or not (reads <= set(R) | set(W)) or tr.other_actions:
            out.violation('oracle', '`%s` touches tables outside its declared sets: reads %s writes %s other %s; '
                          'declared reads %s writes %s (independence of steps rests on these sets)'
                          % (step, sorted(reads), sorted(tr.writes), sorted(tr.other_actions), R, W), case=c)
        if reads == set(R) and tr.writes == set(W):
            out.count('tables-exactly-declared:' + step)
        unknown = [t for t in reads | tr.writes if t not in D.TABLES]
        if unknown:
            out.violation('oracle', '`%s` touches unknown tables %s' % (step, unknown), case=c)
        else:
            coq['tables'].append(('(%s, %s, %s)' % (STEP_ID[step], ctbls(reads), ctbls(tr.writes)), c,
                                  '%s reads %s writes %s' % (step, sorted(reads), sorted(tr.writes))))
        try:
            coq['shape'].append(('(%s, %s)' % (cevs(ev), csql(sql)), c,
                                 '%s events=%s sql=%s' % (step, summarize(ev), summarize_sql(sql))))
        except ValueError as e:
            out.violation('oracle', '`%s`: %s' % (step, e), case=c)


def summarize(ev):
    out, last, n = [], None, 0
    for e in list(ev) + [None]:
        k = None if e is None else (e[0] if e[0] != 'dml' else 'dml')
        if k == last:
            n += 1
        else:
            if last is not None:
                out.append(last if n == 1 else '%sx%d' % (last, n))
            last, n = k, 1
    return ' '.join(out)


def summarize_sql(sql):
    return summarize([(s,) for s in sql])


# ------------------------------------------------------------------ (b) fault enumeration

LONG = 400


def coq_wanted(coq, step, events, out):
    """Very long traces (field sample: thousands of INSERTs per step) make the case
    files slow to parse: keep 3 such cases per step, count the rest."""
    if len(events) <= LONG:
        return True
    n = coq.setdefault('long', {}).get(step, 0)
    coq['long'][step] = n + 1
    if n < 3:
        return True
    out.count('coq-case-skipped-long-trace')
    return False


def classify_dump(got, pre, post):
    return 'OPre' if got == pre else 'OPost' if got == post else 'OMixed'


def diff_tables(a, b):
    return sorted(t for t in set(a) | set(b) if a.get(t) != b.get(t))


def one_fault(w, step, pre_file, pre, post, full_events, k, mode, out, case, coq, point):
    db = w.fresh(pre_file)
    tr, exc = T.run_cli(w.argv(step, db), at=k, mode=mode, fast=True)
    got = D.dump(db)
    oc = classify_dump(got, pre, post)
    out.evaluations += 1
    out.count('fault:%s:%s' % (mode, oc))
    out.count('fault-at:%s' % point[0])
    c = dict(case, level='fault', step=step, k=k, mode=mode)
    if not tr.fired:
        out.violation('corr', 'fault point %d of `%s` was not reached in the faulted run (non-deterministic trace?)'
                      % (k, step), case=c)
    if oc == 'OMixed':
        out.violation('oracle', 'after a %s fault at point %d (%s %s) of `%s` the dataset is neither its previous '
                      'content nor the complete result: tables differing from before: %s; from the complete '
                      'result: %s' % (mode, k, point[0], point[1], step, diff_tables(got, pre),
                                      diff_tables(got, post)), case=c)
    if oc == 'OPre' and exc is not None:
        out.nontriv(('fault', w.tag, step, k, mode))
    try:
        if coq_wanted(coq, step, full_events, out):
            coq['txn'].append(('(%s, %s, %s, %s)' % (cevs(full_events), cevs(tr.events),
                                                   'None' if (mode == 'interrupt' or 'sample' in w.rec)
                                                   else '(Some %s)' % csql(tr.sql), oc),
                               c, 'step=%s point=%d(%s) mode=%s attempt=%s sql=%s outcome=%s exc=%s'
                               % (step, k, point[0], mode, summarize(tr.events), summarize_sql(tr.sql), oc,
                                  type(exc).__name__)))
    except ValueError as e:
        out.violation('oracle', '`%s` under fault: %s' % (step, e), case=c)
    # the step can be run again
    tr2, exc2 = T.run_cli(w.argv(step, db), fast=True)
    again = D.dump(db)
    if again != post:
        out.violation('oracle', 'after a %s fault at point %d (%s) of `%s` (outcome %s) running the step again '
                      'does not give the fault-free result: second run %s, tables differing: %s'
                      % (mode, k, point[0], step, oc, 'raised %s' % type(exc2).__name__ if exc2 else 'succeeded',
                         diff_tables(again, post)), case=c)
    elif oc == 'OPre' and exc2 is not None:
        out.violation('oracle', 'after a %s fault at point %d of `%s` the second run raised %s: %s although the '
                      'dataset had its previous content' % (mode, k, step, type(exc2).__name__, exc2), case=c)
    os.remove(db)
    return oc


def kill_job(w, step, pre_file, k, spill):
    db = w.fresh(pre_file)
    env = dict(os.environ, PYTHONPATH=C.REPO + os.pathsep + C.VERIF)
    cmd = [sys.executable, '-m', 'harness.sqltrace', '--at', str(k), '--mode', 'kill'] + \
        (['--spill'] if spill else []) + ['--'] + [str(a) for a in w.argv(step, db)]
    p = subprocess.run(cmd, env=env, cwd=C.VERIF, stdout=subprocess.PIPE, stderr=subprocess.STDOUT, timeout=600)
    hot = os.path.exists(db + '-journal') and os.path.getsize(db + '-journal') > 0
    with open(db, 'rb') as f1, open(pre_file, 'rb') as f2:
        file_changed = f1.read() != f2.read()
    return db, p.returncode, hot, file_changed, p.stdout.decode('utf8', 'replace')[-400:]


def check_kills(w, jobs, dumps, events, out, case, coq, arng=None):
    """jobs: list of (step, pre_file, k, spill, point[, other]).  other: the command that touches
    the file first after the kill ('' = the step itself; absent: drawn from arng)."""
    with cf.ThreadPoolExecutor(max_workers=12) as ex:
        futs = [ex.submit(kill_job, w, j[0], j[1], j[2], j[3]) for j in jobs]
        results = [f.result() for f in futs]
    for job, (db, rc, hot, changed, tail) in zip(jobs, results):
        step, pre_file, k, spill, point = job[:5]
        other = (job[5] or None) if len(job) > 5 else pick_other(arng, step) if arng is not None else None
        i = STEPS.index(step)
        pre, post = dumps[i], dumps[i + 1]
        c = dict(case, level='kill', step=step, k=k, spill=spill, other=other or '')
        out.evaluations += 1
        if rc != -9:
            out.violation('corr', 'kill run of `%s` at point %d ended with status %s instead of SIGKILL: %s'
                          % (step, k, rc, tail), case=c)
            drop_files(db)
            continue
        where = 'SIGKILL at point %d (%s %s) of `%s`%s' % (k, point[0], point[1], step,
                                                          ' (spilling cache)' if spill else '')
        # (a) judged on a copy of (file, journal): opening the COPY replays its journal
        cp = side_copy(w, db)
        problem, got = open_checked(cp)
        drop_files(cp)
        if problem is not None:
            out.count('kill:%s:damaged' % ('spill' if spill else 'cache'))
            out.violation('oracle', 'after %s the dataset file (with the journal left beside it) is damaged: %s'
                          % (where, problem), case=c)
            drop_files(db)
            continue
        oc = classify_dump(got, pre, post)
        out.count('kill:%s%s:%s' % ('spill' if spill else 'cache', ':hot-journal' if hot else '', oc))
        if hot and changed and oc == 'OPre':
            out.nontriv(('kill-recovered', w.tag, step, k))
        elif oc == 'OPre':
            out.nontriv(('kill', w.tag, step, k, spill))
        if oc == 'OMixed':
            out.violation('oracle', 'after %s the dataset is neither its previous '
                          'content nor the complete result: differs from before in %s, from the result in %s'
                          % (where, diff_tables(got, pre), diff_tables(got, post)), case=c)
        # model: the events of the fault-free run up to the point, then nothing
        att = events_before_point(events[step], k)
        if att is not None and coq_wanted(coq, step, events[step][0], out):
            try:
                lit = '(%s, %s, None, %s)' % (cevs(events[step][0]), cevs(att), oc)
            except ValueError as e:     # an action the model has no event for (already reported by the shape stage)
                out.count('kill:event-outside-model')
                lit = None
                out.violation('corr', '`%s` killed at point %d: %s' % (step, k, e), case=c)
            if lit is not None:
                coq['txn'].append((lit, c, 'step=%s kill at point %d (%s) attempt=%s outcome=%s'
                                   % (step, k, point[0], summarize(att), oc)))
        # (b) on the original the next thing that touches the file is the spowtd command line
        if oc != 'OMixed':
            problems, recovered = recover_by_cli(w, db, step, oc, dumps, other, out)
            if problems:
                out.violation('oracle', 'after %s (outcome %s on a copy of the files left behind: dataset file %s, '
                              'journal %s), with the spowtd command line as the next thing to touch the file%s: %s'
                              % (where, oc, 'changed' if changed else 'unchanged', 'present' if hot else 'absent/empty',
                                 ' (first `%s`, then the step again)' % other if other else '', '; '.join(problems)),
                              case=c)
            if recovered and changed:
                out.count('kill:hot-journal-recovered-by-cli')
                out.nontriv(('kill-cli-recovered', w.tag, step, k, other or ''))
        drop_files(db)


def events_before_point(ev_points, k):
    """Events of the fault-free run that precede fault point k (the killed
    process got that far).  ev_points = (events, points, event index at each point)."""
    events, points, at = ev_points
    if k >= len(at):
        return None
    n, partial = at[k]
    att = [list(e) for e in events[:n]]
    if partial is not None and att:
        att[-1] = ['dml', partial]
    return att


def index_points(tr):
    """For every fault point of a fault-free run: how many events had been
    recorded when it was reached (and, inside an executemany, how many rows had
    been pulled)."""
    # Re-derive from the point descriptors: 'exec' precedes its event; 'row' j is
    # inside the current DML event with j rows pulled; commit-before precedes the
    # commit event; commit-after / exit-after follow theirs; exit-before precedes exit_ok.
    at, n = [], 0
    for kind, detail in tr.points:
        if kind == 'exec':
            at.append((n, None))
            n += 1
        elif kind == 'row':
            at.append((n, int(detail)))
        elif kind == 'commit-before':
            at.append((n, None))
            n += 1
        elif kind == 'commit-after':
            at.append((n, None))
        elif kind == 'exit-before':
            at.append((n, None))
            n += 1
        elif kind == 'exit-after':
            at.append((n, None))
    return at


def pick(points, limit, rng):
    n = len(points)
    if limit is None or n <= limit:
        return list(range(n))
    keep = set(range(0, 4)) | set(range(n - 6, n))
    while len(keep) < limit:
        keep.add(rng.randrange(n))
    return sorted(keep)


def check_faults(w, states, dumps, traces, out, case, coq, rng, limit=None, kills=8, kill_all=False,
                 arng=None):
    pres, posts, events = {}, {}, {}
    kill_jobs = []
    for i, step in enumerate(STEPS):
        tr = traces[step]
        pres[step], posts[step] = dumps[i], dumps[i + 1]
        events[step] = (tr.events, tr.points, index_points(tr))
        ks = pick(tr.points, limit, rng)
        seen = set()
        for k in ks:
            for mode in ('raise', 'interrupt'):
                oc = one_fault(w, step, states[i], dumps[i], dumps[i + 1], tr.events, k, mode, out, case, coq,
                               tr.points[k])
                seen.add(oc)
        if 'OPre' not in seen or 'OPost' not in seen:
            out.violation('corr', 'fault enumeration of `%s` never produced both outcomes (%s): the enumeration '
                          'does not reach both sides of the commit' % (step, sorted(seen)), case=case)
        if kill_all:
            kk = [(k, s) for k in ks for s in (False, True)]
        else:
            cand = pick(tr.points, None, rng)
            chosen = set(cand[-2:]) | {cand[0]}
            while len(chosen) < min(len(cand), max(3, kills // len(STEPS) + 1)):
                chosen.add(rng.choice(cand))
            kk = [(k, rng.random() < 0.6) for k in sorted(chosen)]
            if arng is not None:
                # one more kill in the middle of the body with a spilling cache: pages of the dataset
                # file are overwritten and only the journal protects them (own stream)
                body = [k for k in cand if tr.points[k][0] in ('exec', 'row') and k not in chosen and k > 0]
                if body:
                    kk.append((arng.choice(body[len(body) // 3:]), True))
        kill_jobs += [(step, states[i], k, s, tr.points[k]) for k, s in kk]
    check_kills(w, kill_jobs, dumps, events, out, case, coq, arng=arng)


# ------------------------------------------------------------------ after a kill: who touches the file next

def side_copy(w, db):
    """(a) The dataset file AND its rollback journal, copied aside (the killed process is
    gone, nothing has the files open).  The copy is what the harness opens, so that on the
    original the next thing to touch the file is the spowtd command line."""
    d = os.path.join(w.dir, 'side')
    os.makedirs(d, exist_ok=True)
    cp = os.path.join(d, os.path.basename(db))
    shutil.copyfile(db, cp)
    if os.path.exists(db + '-journal'):
        shutil.copyfile(db + '-journal', cp + '-journal')
    elif os.path.exists(cp + '-journal'):
        os.remove(cp + '-journal')
    return cp


def drop_files(db):
    for f in (db, db + '-journal'):
        if os.path.exists(f):
            os.remove(f)


def journal_size(db):
    return os.path.getsize(db + '-journal') if os.path.exists(db + '-journal') else -1


def pick_other(rng, step):
    """What runs on the file right after the kill: the step again (None), or first another
    command of the workflow (it may fail for lack of its inputs: then it only read the
    file; or succeed: then it is an independent step done early)."""
    if rng.random() < 0.55:
        return None
    return rng.choice([s for s in STEPS if s != step])


def recover_by_cli(w, db, step, oc, dumps, other, out):
    """(b) The ORIGINAL file, exactly as the killed process left it (hot journal included), is
    next touched by the spowtd command line: `other` first (if any), then the step again,
    then (if another command ran, or always for a complete result) the rest of the workflow.
    Returns (list of problems, recovered) - recovered: a non-empty journal file was there and
    the first command left a sound dataset without it."""
    i = STEPS.index(step)
    pre, post = dumps[i], dumps[i + 1]
    had_journal = journal_size(db) > 0
    done = set(STEPS[:i]) | ({step} if oc == 'OPost' else set())
    problems = []
    first = [True]

    def after(label, tr, exc):
        """integrity and journal state once a command has touched the file"""
        problem, got = open_checked(db)
        rec = first[0] and had_journal and problem is None and journal_size(db) <= 0
        first[0] = False
        if problem is not None:
            problems.append('after %s (%s) the dataset file is damaged: %s'
                            % (label, 'raised %s: %s' % (type(exc).__name__, str(exc)[:100]) if exc is not None
                               else 'status %s' % tr.rc, problem))
        return got, rec

    recovered = False
    other_ran = False
    if other is not None:
        tr0, exc0 = T.run_cli(w.argv(other, db))
        got0, recovered = after('the next command `%s`' % other, tr0, exc0)
        if got0 is None:
            return problems, False
        if failed_cmd(tr0, exc0):
            if got0 != (post if oc == 'OPost' else pre):
                problems.append('after the next command `%s` (which failed: %s) the dataset is neither the previous '
                                'content nor the complete result of `%s`: differs from before in %s, from the result '
                                'in %s' % (other, type(exc0).__name__ if exc0 is not None else 'status %s' % tr0.rc,
                                           step, diff_tables(got0, pre), diff_tables(got0, post)))
        else:
            other_ran = True
            done.add(other)
    tr2, exc2 = T.run_cli(w.argv(step, db))
    again, rec2 = after('running `%s` again' % step, tr2, exc2)
    recovered = recovered or rec2
    if again is None:
        return problems, False
    if oc == 'OPre' and failed_cmd(tr2, exc2):
        problems.append('the step cannot be run again although the dataset held its previous content: `%s` %s'
                        % (step, 'raised %s: %s' % (type(exc2).__name__, exc2) if exc2 is not None
                           else 'returned status %s' % tr2.rc))
    elif not other_ran and again != post:
        problems.append('running `%s` again %s; tables differing from the fault-free result: %s'
                        % (step, 'raised %s: %s' % (type(exc2).__name__, exc2) if exc2 is not None else 'succeeded',
                           diff_tables(again, post)))
    if not failed_cmd(tr2, exc2) or oc == 'OPost':
        done.add(step)
    if other is not None and not problems:
        bad, final = finish_pipeline(w, db, done)
        out.count('kill:then-cli:continued-to-the-end')
        if bad is not None:
            problems.append('the workflow cannot be completed afterwards: %s' % bad)
        elif final != dumps[len(STEPS)]:
            problems.append('the completed workflow differs from the one in which nothing was killed: tables %s'
                            % diff_tables(final, dumps[len(STEPS)]))
    out.count('kill:then-cli:%s' % ('rerun' if other is None else 'other-first:%s'
                                    % ('ran' if other_ran else 'failed')))
    return problems, recovered and not problems


# ------------------------------------------------------------------ (b'') failures caused by the arguments

# Values a user can mistype for a real-valued argument.  Which of them the command
# refuses is not assumed: a command that accepts one (and completes) is no failed
# attempt and is only counted.
BAD_REALS = ['0', '-0.0', 'nan', 'inf', '-inf', '-1', '1e-320', '5e-324', '1e308', '-1e-320', 'abc', '']
REAL_ARGS = {'classify': ['-s', '-j'], 'set-zeta-grid': ['-d'], 'set-curvature': [None],
             'rise': ['-r'], 'recession': ['-r']}


def with_arg(argv, flag, value):
    """argv with the value of `flag` replaced (flag None: the positional after DB).
    `flag=value` so that negative values are not read as options."""
    argv = [str(a) for a in argv]
    if flag is None:
        return argv[:2] + ['--', value] if value.startswith('-') else argv[:2] + [value]
    out, i = [], 0
    while i < len(argv):
        if argv[i] == flag:
            i += 2
            continue
        if argv[i].startswith(flag + '='):
            i += 1
            continue
        out.append(argv[i])
        i += 1
    return out + ['%s=%s' % (flag, value)]


def natural_variants(w, step):
    """(flag, value) pairs that make `step` fail (or not) through its arguments."""
    out = [(f, v) for f in REAL_ARGS[step] for v in BAD_REALS]
    if step in CURVES:
        grid = 1.0 if 'sample' in w.rec else float(w.rec['grid_mm'])
        # reference level off the grid by various amounts, on the grid but far outside the
        # curve, beyond what an integer index can hold
        out += [('-r', repr(grid * m)) for m in (0.37, 2.5, 1 + 2.0 ** -20, -3.75, 1e9, -1e9, 4e15, 1e300)]
    return out


def failed_cmd(tr, exc):
    return exc is not None or tr.rc not in (None, 0)


def exit_kinds(tr):
    return [e[0] for e in tr.events if e[0] in ('exit_ok', 'exit_exn')]


def exit_kind_problem(tr, exc):
    """What the caller of the command saw (exception / non-zero status / success) against how
    the trace shows the `with connection:` block was left: a normal exit publishes, an
    exceptional one discards (Model.Txn ExitOk / ExitExn)."""
    kinds = exit_kinds(tr)
    if failed_cmd(tr, exc) and 'exit_ok' in kinds and not tr.fired:
        return ('the command reported failure (%s) but left its `with connection:` block NORMALLY, which commits '
                'whatever had been written' % ('status %s' % tr.rc if exc is None else type(exc).__name__))
    if not failed_cmd(tr, exc) and 'exit_exn' in kinds:
        return ('the command reported success but its `with connection:` block was left by an exception (its '
                'writes were discarded)')
    return None


def natural_states(w, states, dumps, out):
    """Datasets on which steps are attempted: the canonical S0..S5 and the ones that lack an
    earlier step although later ones ran (grid without classification, classification
    without grid + curvature)."""
    named = {str(j): (states[j], dumps[j], set(STEPS[:j])) for j in range(len(STEPS) + 1)}
    for name, steps in (('G', ['set-zeta-grid']), ('KG', ['set-curvature', 'set-zeta-grid']),
                        ('CK', ['classify', 'set-curvature'])):
        p = os.path.join(w.dir, 'N%s.sqlite3' % name)
        shutil.copyfile(states[0], p)
        ok = True
        for s in steps:
            tr, exc = T.run_cli(w.argv(s, p), fast=True)
            ok = ok and not failed_cmd(tr, exc)
        if ok:
            named[name] = (p, D.dump(p), set(steps))
        else:
            out.count('natural:state-%s-unavailable' % name)
    return named


def finish_pipeline(w, db, done):
    """Run every step not yet done, canonical order.  Returns (first failure or None, dump)."""
    for s in STEPS:
        if s in done:
            continue
        tr, exc = T.run_cli(w.argv(s, db), fast=True)
        if failed_cmd(tr, exc):
            return '`%s` %s' % (s, 'raised %s: %s' % (type(exc).__name__, exc) if exc is not None
                                else 'returned status %s' % tr.rc), D.dump(db)
        done = done | {s}
    return None, D.dump(db)


def one_natural(w, named, dumps, traces, step, state, flag, value, out, case, coq, to_end):
    src, before, done = named[state]
    db = w.fresh(src)
    argv = with_arg(w.argv(step, db), flag, value) if flag != 'valid' else w.argv(step, db)
    tr, exc = T.run_cli(argv, fast=True)
    got = D.dump(db)
    out.evaluations += 1
    c = dict(case, level='natural', step=step, state=state, variant=[flag, value])
    shown = ' '.join(['spowtd'] + [a if a != db else 'DB' for a in argv])
    if not failed_cmd(tr, exc):
        # accepted: another (valid) step, not a failed attempt.  Only the exit kind is judged.
        out.count('natural:accepted:%s' % step)
        pr = exit_kind_problem(tr, exc)
        if pr is not None:
            out.violation('oracle', '`%s` on the dataset %s: %s' % (shown, state_name(state), pr), case=c)
        os.remove(db)
        return
    how = 'SystemExit' if isinstance(exc, SystemExit) else type(exc).__name__ if exc is not None else 'status'
    out.count('natural:failed:%s:%s:%s' % (step, 'done' if step in done else 'todo', how))
    i = STEPS.index(step)
    oc = 'OPre' if got == before else 'OPost' if (step not in done and got == dumps[i + 1] and state == str(i)) \
        else 'OMixed'
    pr = exit_kind_problem(tr, exc)
    wrote = any(e[0] == 'dml' for e in tr.events)
    problems = []
    if oc != 'OPre':
        problems.append('it CHANGED the dataset: tables %s differ from the content before%s%s'
                        % (diff_tables(got, before), '' if oc == 'OMixed' else
                           ' (it is the complete result of the step with its proper arguments)', '; ' + pr if pr else ''))
    elif wrote:
        out.nontriv(('natural', w.tag, step, state, flag, value))   # work had to be undone
    if pr is not None and oc == 'OPre':
        out.violation('corr', '`%s` on the dataset %s: %s; events %s, sql %s'
                      % (shown, state_name(state), pr, summarize(tr.events), summarize_sql(tr.sql)), case=c)
    try:
        lit = '(%s, %s, %s, %s)' % (cevs(traces[step].events), cevs(tr.events), '(Some %s)' % csql(tr.sql), oc)
        if len(tr.events) <= LONG and lit not in coq.setdefault('seen', set()):
            coq['seen'].add(lit)
            coq['txn'].append((lit, c, 'natural failure `%s` on %s: attempt=%s sql=%s outcome=%s failure=%s'
                               % (shown, state_name(state), summarize(tr.events), summarize_sql(tr.sql), oc, how)))
    except ValueError:
        out.count('natural:event-outside-model')
    # the step can (still) be run, and the end of the workflow does not know about the attempt
    if step not in done:
        tr2, exc2 = T.run_cli(w.argv(step, db), fast=True)
        again = D.dump(db)
        ref = named.get(str(i + 1)) if state == str(i) else None
        if failed_cmd(tr2, exc2) and state == str(i):
            problems.append('afterwards the step `%s` cannot be run: %s'
                            % (step, 'raised %s: %s' % (type(exc2).__name__, exc2) if exc2 is not None
                               else 'status %s' % tr2.rc))
        elif ref is not None and again != ref[1]:
            problems.append('running `%s` afterwards gives a result different from the one without the attempt: '
                            'tables %s' % (step, diff_tables(again, ref[1])))
        if not failed_cmd(tr2, exc2):
            done = done | {step}
    if to_end:
        bad, final = finish_pipeline(w, db, done)
        out.count('natural:continued-to-the-end')
        if bad is not None:
            problems.append('the workflow cannot be completed afterwards: %s' % bad)
        elif final != dumps[len(STEPS)]:
            problems.append('the completed workflow differs from the one without the attempt: tables %s'
                            % diff_tables(final, dumps[len(STEPS)]))
    if problems:
        n = coq.setdefault('natural-reported', {})
        n[(w.tag, step)] = n.get((w.tag, step), 0) + 1
        out.count('natural-violation:%s' % step)
        if n[(w.tag, step)] <= CK_REPORT_CAP:
            out.violation('oracle', 'the failed attempt `%s` (%s%s) on the dataset %s: %s%s'
                          % (shown, type(exc).__name__ if exc is not None else 'status %s' % tr.rc,
                             ': %s' % str(exc)[:80] if exc is not None and not isinstance(exc, SystemExit) else '',
                             state_name(state), '; '.join(problems),
                             ' [further violations in this step are only counted: natural-violation:* in the '
                             'evidence]' if n[(w.tag, step)] == CK_REPORT_CAP else ''), case=c)
    os.remove(db)


def state_name(state):
    if state.isdigit():
        j = int(state)
        return 'after %s' % (STEPS[j - 1] if j else 'load') + (' (before %s)' % STEPS[j] if j < len(STEPS) else '')
    return {'G': 'with a level grid but no classification', 'KG': 'with curvature and level grid but no '
            'classification', 'CK': 'with classification and curvature but no level grid'}[state]


def check_natural(w, states, dumps, traces, out, case, coq, rng, share=1.0, only=None):
    """Attempts that fail by themselves because of their arguments or of what the dataset
    lacks, before and after the step has succeeded.  share: fraction of the (step, state,
    variant) triples away from the step's own pre-state that is run (the pre-state gets all)."""
    named = natural_states(w, states, dumps, out)
    if only is not None:
        for step, state, flag, value in only:
            if state in named:
                one_natural(w, named, dumps, traces, step, state, flag, value, out, case, coq, True)
        return
    for i, step in enumerate(STEPS):
        variants = natural_variants(w, step)
        for state in sorted(named, key=lambda st: (st != str(i), st)):
            own = state == str(i)
            for flag, value in variants + [('valid', '')]:
                if flag == 'valid' and own:
                    continue   # the fault-free step itself
                if not own and rng.random() >= share:
                    continue
                one_natural(w, named, dumps, traces, step, state, flag, value, out, case, coq,
                            to_end=own or rng.random() < 0.25)



# ------------------------------------------------------------------ (b') killed inside the commit

# The child is the plain command line (what bin/spowtd does) under a file size
# limit.  CPython ignores SIGXFSZ at start-up: the default action (terminate) is
# restored, after the imports so that nothing but the step itself is limited.
FSIZE_CHILD = ('import resource, signal, sys\n'
               'from spowtd.user_interface import main\n'
               'signal.signal(signal.SIGXFSZ, signal.SIG_DFL)\n'
               'hard = resource.getrlimit(resource.RLIMIT_FSIZE)[1]\n'
               'resource.setrlimit(resource.RLIMIT_FSIZE, (int(sys.argv[1]), hard))\n'
               'sys.exit(main(sys.argv[2:]))\n')
CK_REPORT_CAP = 3   # violations listed per dataset, step and kind of damage (all are counted)


def file_pages(path):
    with open(path, 'rb') as f:
        b = f.read()
    ps = int.from_bytes(b[16:18], 'big') if len(b) >= 18 else 0
    ps = 65536 if ps == 1 else ps
    if ps < 512 or ps & (ps - 1):
        ps = 4096  # header destroyed: fall back, the integrity check will speak
    return ps, [b[i:i + ps] for i in range(0, len(b), ps)]


def page_states(db, pre_pages, post_pages):
    """1-based numbers of the pages of `db` that differ from the file before the
    step (= reached the file) and, among them, of those that are not the page of
    the fault-free result either (= torn / partially written)."""
    _, pages = file_pages(db)
    written, torn = [], []
    for i, pg in enumerate(pages):
        if i >= len(pre_pages) or pg != pre_pages[i]:
            written.append(i + 1)
            if i >= len(post_pages) or pg != post_pages[i]:
                torn.append(i + 1)
    return written, torn, len(pages)


def commit_kill_limits(pre_file, post_file, rng, per_step):
    """File size limits that kill at distinct moments.  The commit writes its dirty
    pages in page order: limit (d-1)*page_size lets every dirty page below d
    reach the file and kills at page d; + half a page tears page d.  Limits below
    the journal's size kill while the journal is written.  per_step=None: all
    of these and every page boundary."""
    ps, pre = file_pages(pre_file)
    _, post = file_pages(post_file)
    dirty = [i + 1 for i in range(len(post)) if i >= len(pre) or pre[i] != post[i]]
    inner = [d for d in dirty if d > 1]
    page = [(d - 1) * ps for d in inner]
    torn = [(d - 1) * ps + ps // 2 - 8 for d in inner]
    old = len([d for d in dirty if d <= len(pre)])          # pages the journal holds
    journal = [0, 300] + [512 + k * (ps + 8) + 1000 for k in range(old)]
    if per_step is None:
        return ps, dirty, sorted(set(page + torn + journal + [p * ps for p in range(len(post))]))
    chosen = set()
    if page:
        # every dirty page but the last reached the file / any other cut of the page list
        chosen.add(page[-1] if rng.random() < 0.5 else rng.choice(page))
        chosen.add(rng.choice(torn) if rng.random() < 0.6 else rng.choice(journal[1:]))
    pool = page + torn + page + torn + journal[1:]
    while pool and len(chosen) < min(per_step, len(set(pool))):
        chosen.add(rng.choice(pool))
    return ps, dirty, sorted(chosen)


def commit_kill_job(w, step, pre_file, post_file, limit):
    db = w.fresh(pre_file)
    env = dict(os.environ, PYTHONPATH=C.REPO)
    cmd = [sys.executable, '-c', FSIZE_CHILD, str(limit)] + [str(a) for a in w.argv(step, db)]
    p = subprocess.run(cmd, env=env, cwd=C.VERIF, stdin=subprocess.DEVNULL, stdout=subprocess.PIPE,
                       stderr=subprocess.STDOUT, timeout=900)
    jsize = os.path.getsize(db + '-journal') if os.path.exists(db + '-journal') else -1
    _, pre_pages = file_pages(pre_file)
    _, post_pages = file_pages(post_file)
    written, torn, npages = page_states(db, pre_pages, post_pages)
    return db, p.returncode, jsize, written, torn, npages, p.stdout.decode('utf8', 'replace')[-300:]


def open_checked(db):
    """Open the file the way the next user does (a hot journal is replayed now).
    Returns (problem or None, dump or None)."""
    try:
        con = sqlite3.connect(db)
        try:
            rows = con.execute('PRAGMA integrity_check').fetchall()
        finally:
            con.close()
        if rows != [('ok',)]:
            return 'PRAGMA integrity_check: %s' % '; '.join(str(r[0]) for r in rows[:3]), None
        return None, D.dump(db)
    except sqlite3.DatabaseError as e:
        return 'the file cannot be read: %s: %s' % (type(e).__name__, e), None


def check_commit_kills(w, states, dumps, traces, out, case, coq, rng, per_step=2, only=None, arng=None):
    """only: [(step, limit, other)] (replay).  arng: stream that decides which command touches the
    file first after each kill (None: always the step itself)."""
    jobs, info = [], {}
    for i, step in enumerate(STEPS):
        ps, dirty, limits = commit_kill_limits(states[i], states[i + 1], rng, per_step)
        info[step] = (i, ps, dirty)
        if only is not None:
            jobs += [(s_, l, o or None) for s_, l, o in only if s_ == step]
        else:
            jobs += [(step, l, pick_other(arng, step) if arng is not None else None) for l in limits]
        out.count('kill-in-commit-dirty-pages:%s' % step, len(dirty))
        grown = (os.path.getsize(states[i + 1]) - os.path.getsize(states[i])) // ps
        if grown:
            out.count('kill-in-commit-new-pages:%s' % step, grown)
    with cf.ThreadPoolExecutor(max_workers=12) as ex:
        futs = [ex.submit(commit_kill_job, w, step, states[info[step][0]], states[info[step][0] + 1], limit)
                for step, limit, _ in jobs]
        results = [f.result() for f in futs]
    reported = {}
    for (step, limit, other), (db, rc, jsize, written, torn, npages, tail) in zip(jobs, results):
        i, ps, dirty = info[step]
        pre, post = dumps[i], dumps[i + 1]
        c = dict(case, level='commit-kill', step=step, limit=limit, other=other or '')
        out.evaluations += 1
        if rc == 0:
            phase = 'not-killed'
        elif rc == -signal.SIGXFSZ:
            phase = ('db-page-write' if written and jsize > 0 else
                     'db-page-write-NO-JOURNAL-FILE' if written else
                     'journal-write' if jsize > 0 else 'before-first-write')
        else:
            out.violation('corr', 'the command line of `%s` under a file size limit of %d bytes ended with status %s '
                          '(expected: killed by SIGXFSZ, or success): %s' % (step, limit, rc, tail), case=c)
            continue
        where = ('`%s` under RLIMIT_FSIZE=%d bytes (= %.2f pages of %d) %s; files left behind: %d of the %d pages '
                 'its commit writes had reached the dataset file (pages %s%s), journal file %s'
                 % (step, limit, limit / ps, ps,
                    'ran to its end' if rc == 0 else 'was killed by the kernel (SIGXFSZ)', len(written), len(dirty),
                    written[:12], ', torn: %s' % torn if torn and rc != 0 else '',
                    'absent' if jsize < 0 else 'of %d bytes' % jsize))

        def report(kind, msg):
            n = reported[(step, kind)] = reported.get((step, kind), 0) + 1
            out.count('kill-in-commit-violation:%s:%s' % (step, kind))
            if n <= CK_REPORT_CAP:
                out.violation('oracle', msg + (' [further violations of this kind in this step are only counted: '
                                               'kill-in-commit-violation:* in the evidence]'
                                               if n == CK_REPORT_CAP else ''), case=c)
        # (a) judged on a copy of (file, journal): opening the COPY replays its journal
        cp = side_copy(w, db)
        problem, got = open_checked(cp)
        journal_gone = journal_size(cp) <= 0
        drop_files(cp)
        if problem is not None:
            out.count('kill-in-commit:%s:damaged' % phase)
            report('damaged', 'killed while writing: %s. Afterwards the dataset file is DAMAGED, neither the previous '
                   'content nor the complete result: %s' % (where, problem))
        else:
            oc = classify_dump(got, pre, post)
            out.count('kill-in-commit:%s:%s' % (phase, oc))
            if torn and rc != 0:
                out.count('kill-in-commit:torn-page:%s' % oc)
            if phase == 'db-page-write' and oc == 'OPre':
                if journal_gone:
                    # a hot journal rolled the partly written commit back
                    out.nontriv(('kill-in-commit-recovered', w.tag, step, tuple(written), tuple(torn)))
                    out.count('kill-in-commit:hot-journal-replayed')
            elif phase == 'journal-write' and oc == 'OPre':
                out.nontriv(('kill-in-journal', w.tag, step, jsize))
            if oc == 'OMixed':
                report('mixture', 'killed while writing: %s. Afterwards the dataset is a MIXTURE: differs from the '
                       'previous content in %s and from the complete result in %s'
                       % (where, diff_tables(got, pre), diff_tables(got, post)))
            if rc == 0 and oc != 'OPost':
                report('silent', '%s, but the dataset is not the complete result (outcome %s)' % (where, oc))
            # model: the process was inside the publishing action (commit / exit of the
            # with block) — that action never completed, so the trace stops before it
            tr = traces[step]
            pub = [k for k, (kd, _) in enumerate(tr.points) if kd in ('commit-before', 'exit-before')]
            if rc != 0 and phase.startswith('db-page-write') and pub and coq_wanted(coq, step, tr.events, out):
                att = events_before_point((tr.events, tr.points, index_points(tr)), pub[0])
                try:
                    coq['txn'].append(('(%s, %s, None, %s)' % (cevs(tr.events), cevs(att), oc), c,
                                       'step=%s killed by the kernel inside the commit (limit %d) attempt=%s outcome=%s'
                                       % (step, limit, summarize(att), oc)))
                except ValueError:
                    pass  # event outside the model: reported by the shape stage
            # (b) on the original the next thing that touches the file is the spowtd command line
            if oc != 'OMixed':
                problems, recovered = recover_by_cli(w, db, step, oc, dumps, other, out)
                if problems:
                    report('rerun', 'killed while writing: %s (outcome %s on a copy of the files left behind). With the '
                           'spowtd command line as the next thing to touch the file%s: %s'
                           % (where, oc, ' (first `%s`, then the step again)' % other if other else '',
                              '; '.join(problems)))
                if recovered and written:
                    out.count('kill-in-commit:hot-journal-recovered-by-cli')
                    out.nontriv(('kill-in-commit-cli-recovered', w.tag, step, tuple(written), tuple(torn), other or ''))
        drop_files(db)


def fine_variant(w, out):
    """The same record on a much finer water-level grid (halved until <= 0.07 mm): set-zeta-grid, rise and
    recession then write enough rows for the file to GROW in the commit (on the
    generated grids every step fits into pages the file already has)."""
    rec = w.rec
    if 'sample' in rec:
        return None
    grid = float(rec['grid_mm'])
    while grid > 0.07:
        grid /= 2.0
    fw = Work(dict(rec, grid_mm=grid), w.tag + 'fine')
    can = canonical(fw, out, None)
    if can is None:
        out.count('kill-in-commit:fine-grid-variant-unusable')
        shutil.rmtree(fw.dir, ignore_errors=True)
        return None
    return (fw,) + can


# ------------------------------------------------------------------ (c) histories

def failing_attempt(w, db, rng, done, traces, out, case, coq):
    """Make one attempt that must fail on `db` and check it left no trace."""
    before = D.dump(db)
    kind = rng.choice(['raise', 'interrupt', 'natural', 'natural', 'raise'])
    step = rng.choice(STEPS)
    if kind == 'natural':
        # re-run a completed step, or run a curve step whose inputs are missing
        cands = [s for s in done] + [s for s in CURVES if not set(SETUP[:2]) <= set(done)]
        if not cands:
            kind = 'raise'
        else:
            step = rng.choice(cands)
    if kind == 'natural':
        tr, exc = T.run_cli(w.argv(step, db))
        label = 'natural failure of `%s`' % step
        if exc is None:
            out.violation('corr', 'expected `%s` to fail here (done=%s)' % (step, done), case=case)
            return
    else:
        cands = [s for s in STEPS if s not in done]
        step = rng.choice(cands) if cands else step
        pts = traces[step].points
        publish = min(i for i, (kd, _) in enumerate(pts) if kd in ('commit-before', 'exit-before'))
        k = rng.randrange(0, publish + 1)
        tr, exc = T.run_cli(w.argv(step, db), at=k, mode=kind, fast=True)
        label = '%s fault at point %d of `%s`' % (kind, k, step)
    after = D.dump(db)
    out.evaluations += 1
    out.count('history-attempt:%s:%s' % (kind, type(exc).__name__))
    if exc is None:
        return 'ran'  # fault point beyond what the step does in this state: it completed
    if after != before:
        out.violation('oracle', 'a failed attempt (%s, raised %s) changed the dataset: tables %s'
                      % (label, type(exc).__name__, diff_tables(after, before)), case=case)
    try:
        coq['txn'].append(('(%s, %s, %s, OPre)' % (cevs(traces[step].events), cevs(tr.events),
                                                  'None' if kind == 'interrupt' else '(Some %s)' % csql(tr.sql)),
                           case, '%s attempt=%s sql=%s' % (label, summarize(tr.events), summarize_sql(tr.sql))))
    except ValueError as e:
        out.violation('oracle', 'history attempt: %s' % e, case=case)
    return 'failed'


def argument_attempt(w, db, nrng, out, case):
    """One attempt with a mistyped argument (any step, any state of the history).  If the
    command fails it must have left no trace; if it is accepted the history is no longer the
    one under test (returns 'ran')."""
    step = nrng.choice(STEPS)
    flag, value = nrng.choice(natural_variants(w, step))
    copy = db + '.before'
    shutil.copyfile(db, copy)
    before = D.dump(db)
    argv = with_arg(w.argv(step, db), flag, value)
    tr, exc = T.run_cli(argv, fast=True)
    out.evaluations += 1
    if not failed_cmd(tr, exc):
        out.count('history-attempt:argument:accepted')
        shutil.copyfile(copy, db)   # not a failed attempt: take it out of the history
        os.remove(copy)
        return
    os.remove(copy)
    out.count('history-attempt:argument:%s' % ('SystemExit' if isinstance(exc, SystemExit) else
                                                type(exc).__name__ if exc is not None else 'status'))
    after = D.dump(db)
    pr = exit_kind_problem(tr, exc)
    if after != before:
        out.violation('oracle', 'a failed attempt (`%s`, %s) in the middle of a history changed the dataset: tables %s%s'
                      % (' '.join(['spowtd'] + [a if a != db else 'DB' for a in argv]),
                         type(exc).__name__ if exc is not None else 'status %s' % tr.rc,
                         diff_tables(after, before), '; ' + pr if pr else ''),
                      case=dict(case, attempt=[step, flag, value]))


def check_orders(w, states, dumps, traces, out, case, coq, rng, nfail=2, nrng=None):
    for group, start, want in ((SETUP, 0, 3), (CURVES, 3, 5)):
        finals = {}
        for order in itertools.permutations(group):
            db = w.fresh(states[start])
            done = list(STEPS[:start])
            c = dict(case, level='order', order=list(order))
            ok = True
            for step in order:
                for _ in range(nrng.randrange(0, 3) if nrng is not None else 0):
                    argument_attempt(w, db, nrng, out, c)
                for _ in range(rng.randrange(0, nfail + 1)):
                    r = failing_attempt(w, db, rng, done, traces, out, c, coq)
                    if r == 'ran':
                        ok = False
                if not ok:
                    break
                tr, exc = T.run_cli(w.argv(step, db))
                if exc is not None:
                    out.violation('oracle', '`%s` raised %s: %s in the order %s after failed attempts (it succeeds '
                                  'in the canonical order)' % (step, type(exc).__name__, exc, list(order)), case=c)
                    ok = False
                    break
                done.append(step)
            if not ok:
                continue
            for _ in range(rng.randrange(0, nfail + 1)):
                failing_attempt(w, db, rng, done, traces, out, c, coq)
            for _ in range(nrng.randrange(0, 2) if nrng is not None else 0):
                argument_attempt(w, db, nrng, out, c)
            got = D.dump(db)
            out.evaluations += 1
            out.count('order:' + '>'.join(order))
            finals[order] = got
            if got != dumps[want]:
                out.violation('oracle', 'running %s in the order %s (with failed attempts in between) gives a dataset '
                              'different from the order %s: tables %s'
                              % (group, list(order), group, diff_tables(got, dumps[want])), case=c)
            else:
                out.nontriv(('order', w.tag, order))
            os.remove(db)


# ------------------------------------------------------------------ driver

def run_coq(coq, out):
    for name, ctype, fn in (('txn', 'list cev * list cev * option (list sqlstmt) * outcome', 'txn_case_ok'),
                            ('shape', 'list cev * list sqlstmt', 'shape_case_ok'),
                            ('tables', 'stepid * list tbl * list tbl', 'tables_case_ok')):
        items = coq[name]
        if not items:
            continue
        bad, errs, _ = C.run_case_shards(PROP, 'coq_' + name, PRE, ctype, fn, [s for s, _, _ in items], shard=150)
        out.corr_errors += errs
        for i in bad:
            _, c, text = items[i]
            out.violation('corr', 'Coq model (Model/Txn.v, %s) disagrees with the implementation: %s'
                          % (fn, text), case=c)


def check_dataset(rec, tag, out, rng, tier, coq, limit=None, kills=8, kill_all=False, orders=True,
                  ckills=2, ckills_fine=None, fine=False, seed=0, natural=0.15):
    """ckills / ckills_fine: kills inside the commit per step on the dataset as it is / on its
    fine-grid variant (None: every limit; 0: none)."""
    w = Work(rec, tag)
    case = dict(rec=rec)
    can = canonical(w, out, case)
    if can is None:
        out.violation('corr', 'dataset %s does not carry the whole workflow' % tag, case=case)
        return
    states, dumps, traces = can
    out.count('dataset')
    out.count('fault-points', sum(len(traces[s].points) for s in STEPS))
    check_shape(w, traces, out, case, coq)
    arng = C.rng_for(seed, PROP, 'after-kill', tag)   # which command touches the file first after a kill
    check_faults(w, states, dumps, traces, out, case, coq, rng, limit=limit, kills=kills, kill_all=kill_all,
                 arng=arng)
    if natural:
        check_natural(w, states, dumps, traces, out, case, coq, C.rng_for(seed, PROP, 'natural', tag), share=natural)
    crng = C.rng_for(seed, PROP, 'commit-kill', tag)  # own stream: the older stages keep their draws
    if ckills != 0:
        check_commit_kills(w, states, dumps, traces, out, case, coq, crng, per_step=ckills, arng=arng)
    if fine:
        fv = fine_variant(w, out)
        if fv is not None:
            fw, fstates, fdumps, ftraces = fv
            check_commit_kills(fw, fstates, fdumps, ftraces, out, dict(rec=fw.rec), coq, crng, per_step=ckills_fine,
                               arng=arng)
            shutil.rmtree(fw.dir, ignore_errors=True)
    if orders:
        check_orders(w, states, dumps, traces, out, case, coq, rng,
                     nrng=C.rng_for(seed, PROP, 'natural-history', tag) if natural else None)
    shutil.rmtree(w.dir, ignore_errors=True)


def run(ctx, out):
    C.import_spowtd()
    seed, tier = ctx['seed'], ctx['tier']
    rng = C.rng_for(seed, PROP)
    coq = dict(txn=[], shape=[], tables=[])
    nds = 2 if tier == 'quick' else 10
    recs = []
    for i in range(nds):
        rec = valid_record(C.rng_for(seed, PROP, 'ds', i), out, size='small' if i % 3 != 2 else 'medium',
                           gaps=[1, 0, 2][i % 3])  # several gap-free stretches: classify loops over them
        recs.append(rec)
        full = tier == 'thorough' and i < 2
        # kills inside the commit.  quick: 2 per step on ds0's fine-grid variant (its commits make the
        # file grow) and 2 per step on ds1 as it is; thorough: every limit on both forms of ds0 and ds1,
        # 2 per step on the others (even ones on the fine grid)
        check_dataset(rec, 'ds%d' % i, out, rng, tier, coq, kills=12 if tier == 'quick' else 20, kill_all=full,
                      seed=seed, fine=full or i % 2 == 0, natural=1.0 if full else 0.25,
                      ckills=None if full else 0 if i % 2 == 0 else 2, ckills_fine=None if full else 2)
    if tier == 'thorough':
        check_dataset(dict(sample=1), 'sample1', out, rng, tier, coq, limit=10, kills=5, orders=False,
                      seed=seed, ckills=2, natural=0)   # (b'') not on the field sample: seconds per command
    run_coq(coq, out)
    out.rule = ('Datasets: synthetic saw-tooth records (storms with fast rises, dry recessions, overlapping in '
                'level) on which load..recession all succeed%s. Every fault point of every step x {exception, '
                'SQLite interrupt} in-process; SIGKILL of a CLI subprocess at sampled points (all points for 2 '
                'datasets in thorough), with and without a spilling one-page cache; kills by the kernel INSIDE '
                'the commit: the plain command line under RLIMIT_FSIZE with SIGXFSZ at its default action, the '
                'limit placed before / in the middle of pages the commit writes (2 limits per step on one dataset as '
                'generated and on a fine level grid (<= 0.07 mm) of the other, whose commits make the file grow; every '
                'dirty page, torn page and page boundary for 2 datasets in thorough), followed by PRAGMA '
                'integrity_check, dump in {before, complete}, re-run; the phase hit is measured from the files left '
                'behind (histogram kill-in-commit:<phase>:<outcome>); after every kill of either kind the harness '
                'opens only a COPY of (dataset file, -journal), and on the original the next thing to touch the file '
                'is the spowtd command line (the step again, in ~45%% of the kills first another command of the '
                'workflow, then the rest of the workflow): kill:then-cli:*, *:hot-journal-recovered-by-cli; '
                'failures caused by the arguments (every real argument of every step x {0, -0.0, nan, +-inf, '
                'negative, denormal, huge, non-numeric, empty}, reference levels off the grid / outside the curve) '
                'before the step, after it and (sampled) in every other state including ones lacking an earlier '
                'step: natural:failed:<step>:<todo|done>:<exception>, natural:accepted:* = accepted by the command, '
                'not a failed attempt; all orders of the '
                'independent steps with failed attempts interleaved. Non-trivial: a fault that actually fired '
                'with work to undo and left the previous content (distinct by dataset, step, point, kind), a '
                'kill whose hot journal was replayed (for kills inside the commit: the dataset file had changed, '
                'a journal file was present, opening the file restored the previous content and removed the '
                'journal; distinct by dataset, step, set of pages that had reached the file, torn pages), '
                'a kill after which a non-empty journal and a changed dataset file were left and the spowtd command '
                'line (not the harness) was the first to open the file and left it sound without the journal, '
                'an argument-induced failure that had issued at least one write and left the previous content, '
                'an order whose final dump equals the canonical one.'
                % (' plus field sample 1 (10 sampled fault points per step)' if tier == 'thorough' else ''))
    out.samples = [dict(level='dataset', record=recs[0])]
    out.assumptions += [
        'SQLite journalling / hot-journal recovery and the sqlite3 module are exercised by fault enumeration, '
        'not proved; the theorems cover the protocol (one transaction, commit last)',
        'SIGKILL is delivered by the process to itself at the chosen statement boundary (a real SIGKILL)',
        'kills inside the commit are placed by a file size limit: the kernel kills the plain CLI process at a '
        'write() of the journal or of the dataset file (whole pages and torn pages); kills between two system '
        'calls that write nothing (fsync, unlink of the journal = the commit point itself) and loss of power '
        '(unsynced data lost, reordered writes) are not produced',
        'equality of datasets = equality of the logical dump of all tables (harness.dataset.dump)']


def replay(case, out):
    C.import_spowtd()
    rng = C.rng_for(0, PROP, 'replay')
    coq = dict(txn=[], shape=[], tables=[])
    rec = case['rec']
    level = case.get('level')
    if level in ('commit-kill', 'natural') or (level == 'kill' and 'other' in case):
        # exactly the reported attempt (same fault point / size limit / arguments, same command
        # touching the file afterwards)
        w = Work(rec, 'replay')
        can = canonical(w, out, case)
        if can is None:
            out.violation('corr', 'replay: the dataset does not carry the whole workflow', case=case)
            return
        states, dumps, traces = can
        if level == 'natural':
            check_natural(w, states, dumps, traces, out, dict(rec=rec), coq, rng,
                          only=[(case['step'], case['state'], case['variant'][0], case['variant'][1])])
        elif level == 'kill':
            step, k = case['step'], int(case['k'])
            tr = traces[step]
            if k >= len(tr.points):
                out.violation('corr', 'replay: `%s` has no fault point %d' % (step, k), case=case)
            else:
                events = {s_: (traces[s_].events, traces[s_].points, index_points(traces[s_])) for s_ in STEPS}
                check_kills(w, [(step, states[STEPS.index(step)], k, bool(case.get('spill')), tr.points[k],
                                 case.get('other') or '')], dumps, events, out, dict(rec=rec), coq)
        else:
            check_commit_kills(w, states, dumps, traces, out, dict(rec=rec), coq, rng,
                               only=[(case['step'], int(case['limit']), case.get('other') or '')])
        run_coq(coq, out)
        shutil.rmtree(w.dir, ignore_errors=True)
        return
    check_dataset(rec, 'replay', out, rng, 'quick', coq, limit=10 if 'sample' in rec else None,
                  kills=12, orders='sample' not in rec, kill_all=(case.get('level') == 'kill' and 'sample' not in rec),
                  natural=0 if 'sample' in rec else 0.25)
    run_coq(coq, out)
