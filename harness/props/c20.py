"""C20 — each workflow step is all-or-nothing and independent steps commute.

Proof side: coq/Properties/C20.v (protocol theorems over Model/Txn.v).
Runtime side (this file), on datasets on which the whole workflow succeeds:

(a) shape: the fault-free Python-level event trace of every real step
    (classify, set-zeta-grid, set-curvature, rise, recession) has the step shape
    of the theorems (DML/SELECT calls, at most one explicit commit as the last
    action, normal exit), its SQL trace (trace callback) has exactly one BEGIN
    and its only COMMIT last — and equals the trace the Coq model predicts from
    the events; the tables the authorizer saw are within the declared sets.
(b) fault enumeration: EVERY fault point of every step (before every execute
    call, before every row of an executemany, before/after every commit, before/
    after the exit of the `with` block) x {Python exception, SQLite interrupt}
    in-process, and SIGKILL of a subprocess running the CLI at the point (a
    sample in quick; with and without a one-page cache that forces SQLite to
    spill into the file so that a hot journal is left).  Oracle: the logical dump
    afterwards is the dump before or the fault-free result; running the step again
    gives the fault-free result (or, when the result was already complete, changes
    nothing).  Correspondence: the outcome (pre / post) and the SQL trace of
    each attempt are the ones the Coq model computes from the attempt's events.
(b') killed inside the commit: the PLAIN command line (no tracer, no wrapper
    around sqlite3) runs in a child process under RLIMIT_FSIZE = L with SIGXFSZ
    at its default action, so that the KERNEL kills it at the first write that
    would make a file longer than L: while SQLite writes the rollback journal
    (small L), or while the final COMMIT writes pages into the dataset file (L
    above the journal's size and below the offset of a page the commit has to
    write; L off a page boundary tears that page).  L sweeps over the pages the
    commit writes (dirty pages of the fault-free run, file growth included).
    Afterwards the file is opened (SQLite replays the hot journal): PRAGMA
    integrity_check must say ok, the dump must be the dump before or the
    fault-free result, and the step is run again as in (b).  The phase each
    kill hit (journal write / database page write, how many pages had reached
    the file, torn page) is measured from the files left behind, not assumed.
    After EVERY kill (both kinds) the harness itself opens only a COPY of the
    dataset file and its -journal (previous content or complete result, integrity
    check); on the original the next thing that touches the file is the spowtd
    command line: the step again, or first another command of the workflow (a
    later step that fails for lack of its inputs = a reader, an earlier step
    that fails on its key, an independent step that succeeds), then the step
    again and the rest of the workflow.  A command that clears away the hot
    journal, or does not replay it, shows here and only here.
(b'') failures caused by the arguments: every step x every real-valued argument x
    {0, -0.0, nan, inf, -inf, negative, denormal, huge, not a number, empty}, and
    for rise/recession reference levels off the grid / far outside the curve,
    on the dataset before the step, after the step (and, sampled, in every other
    state of the workflow including those that lack an earlier step).  Whatever
    fails (exception or non-zero status) must leave the dump unchanged, the
    step must run afterwards and give the fault-free result, the completed
    workflow must equal the canonical one; what the caller saw (failure /
    success) must agree with how the trace shows the `with` block was left
    (Model.Txn ExitExn discards, ExitOk publishes); the model's outcome and SQL
    trace are compared as in (b).
(b''') repeated attempts: on every dataset that HAS a step, the same command with other
    valid-looking arguments (another level step, curvature, thresholds, reference level) must be
    refused and change nothing - on records below / above / across zero (for records off zero the
    level numbers of two grids are disjoint, so only the singleton zeta_grid refuses).
(L) large level grids (oracle only, nothing sent to Coq): set-zeta-grid on > 10000 levels
    (thorough > 20000, > 32768, > 65536): shape, faults around the round row numbers at which
    software cuts its work, SIGKILLs beyond row 10000, kernel kills in the last pages written.
(c) histories: all orders of {classify, set-zeta-grid, set-curvature} and of
    {rise, recession}, with failed attempts (injected faults of every kind, and
    natural failures such as re-running a completed step or running rise before
    the grid exists, mistyped arguments of any step) interleaved; every final
    dump equals the canonical one.
"""
import concurrent.futures as cf
import itertools
import os
import shutil
import signal
import sqlite3
import subprocess
import sys
import threading

from harness import common as C
from harness import dataset as D
from harness import gen_pest as GP
from harness import sqltrace as T

PROP = 'C20'
MODELS = ['Model/Util.vo', 'Model/Txn.vo']
PRE = 'From Spowtd Require Import Model.Util Model.Txn.\n'
STEPS = ['classify', 'set-zeta-grid', 'set-curvature', 'rise', 'recession']
STEP_ID = {'classify': 's_classify', 'set-zeta-grid': 's_zeta_grid', 'set-curvature': 's_curvature',
           'rise': 's_rise', 'recession': 's_recession'}
# Python copy of the declared sets, only for messages; the authoritative lists are
# R_* / W_* in coq/Model/Txn.v and the comparison is done there (tables_case_ok).
DECLARED = {
    'classify': (['grid_time', 'rainfall_intensity', 'water_level', 'time_grid', 'storm'],
                 ['thresholds', 'grid_time_flags', 'zeta_interval', 'storm', 'zeta_interval_storm']),
    'set-zeta-grid': (['water_level'], ['zeta_grid', 'discrete_zeta']),
    'set-curvature': ([], ['curvature']),
    'rise': (['water_level', 'storm', 'zeta_interval', 'zeta_interval_storm', 'rainfall_intensity',
              'zeta_grid'], ['rising_interval', 'rising_interval_zeta']),
    'recession': (['water_level', 'zeta_interval', 'zeta_grid'],
                  ['recession_interval', 'recession_interval_zeta']),
}
SETUP = ['classify', 'set-zeta-grid', 'set-curvature']
CURVES = ['rise', 'recession']


# ------------------------------------------------------------------ Coq literals

def cevs(events):
    out = []
    for i, e in enumerate(events):
        k = e[0]
        if k == 'dml':
            out.append('CDml %d %d' % (e[1], i))
        elif k == 'select':
            out.append('CSelect')
        elif k == 'commit':
            out.append('CCommit')
        elif k == 'rollback':
            out.append('CRollback')
        elif k == 'exit_ok':
            out.append('CExitOk')
        elif k == 'exit_exn':
            out.append('CExitExn')
        else:
            raise ValueError('event outside the model: %r' % (e,))
    return C.clist(out)


SQLK = {'BEGIN': 'SBegin', 'STMT': 'SStmt', 'COMMIT': 'SCommit', 'ROLLBACK': 'SRollback'}


def csql(sql):
    return C.clist([SQLK[s] for s in sql])


def ctbls(names):
    return C.clist(['t_' + n for n in sorted(names)])


def shape_py(events):
    """Python twin of Model.Txn.shape_ok."""
    ev = [e[0] for e in events]
    if not ev or ev[-1] != 'exit_ok':
        return False
    body = ev[:-1]
    if body and body[-1] == 'commit':
        body = body[:-1]
    return all(k in ('dml', 'select') for k in body)


# ------------------------------------------------------------------ datasets

class Work:
    """One dataset: files of the canonical pipeline S0 -load-> ... and their dumps."""

    def __init__(self, rec, tag):
        self.rec, self.tag = rec, tag
        self.dir = D.scratch(PROP, tag)
        self.n = 0
        self.lock = threading.Lock()

    def fresh(self, src):
        with self.lock:
            self.n += 1
            p = os.path.join(self.dir, 'f%05d.sqlite3' % self.n)
        shutil.copyfile(src, p)
        return p

    def argv(self, step, db):
        if 'sample' in self.rec:
            return {'classify': ['classify', db, '-s', '8', '-j', '5'],
                    'set-zeta-grid': ['set-zeta-grid', db, '-d', '1.0'],
                    'set-curvature': ['set-curvature', db, '1.0'],
                    'rise': ['rise', db], 'recession': ['recession', db]}[step]
        return GP.step_argv(step, db, self.rec)


def load_record(w):
    rec = w.rec
    if 'sample' in rec:
        sd = os.path.join(C.REPO, 'spowtd', 'test', 'sample_data')
        n = rec['sample']
        db = os.path.join(w.dir, 'S0.sqlite3')
        rc, exc, _ = D.cli(['load', db, '-p', os.path.join(sd, 'precipitation_%d.txt' % n),
                            '-e', os.path.join(sd, 'evapotranspiration_%d.txt' % n),
                            '-z', os.path.join(sd, 'water_level_%d.txt' % n), '--timezone', 'Africa/Lagos'])
        return db, exc
    db, rc, exc = D.load(GP.to_dataset(rec), os.path.join(w.dir, 'load'))
    return db, exc


def canonical(w, out, case):
    """Run the pipeline fault-free under the tracer. Returns None when the
    dataset does not carry the whole workflow (generator miss: counted, not hidden)."""
    db, exc = load_record(w)
    if exc is not None:
        out.count('dataset:load-refused')
        return None
    states = {0: os.path.join(w.dir, 'S0.sqlite3')}
    if db != states[0]:
        shutil.copyfile(db, states[0])
    dumps = {0: D.dump(states[0])}
    traces = {}
    for i, step in enumerate(STEPS):
        p = os.path.join(w.dir, 'S%d.sqlite3' % (i + 1))
        shutil.copyfile(states[i], p)
        tr, exc = T.run_cli(w.argv(step, p))
        if exc is not None:
            out.count('dataset:%s-fails' % step)
            return None
        states[i + 1], dumps[i + 1], traces[step] = p, D.dump(p), tr
    return states, dumps, traces


def valid_record(rng, out, size='small', gaps=None):
    for _ in range(30):
        rec = GP.gen_curves_record(rng, size=size, gaps=gaps)
        w = Work(rec, 'probe')
        if canonical(w, out, None) is not None:
            return rec
    raise RuntimeError('generator produced no dataset that carries the whole workflow')


# ------------------------------------------------------------------ (a) shape and tables

def check_shape(w, traces, out, case, coq):
    for step in STEPS:
        tr = traces[step]
        ev, sql = tr.events, tr.sql
        out.evaluations += 1
        out.count('shape:' + step)
        c = dict(case, level='shape', step=step)
        if tr.connections != 1:
            out.violation('oracle', '%s opened %d connections (one transaction on one connection expected)'
                          % (step, tr.connections), case=c)
        if not shape_py(ev):
            out.violation('oracle', 'the action trace of `%s` does not have the step shape (DML/SELECT calls, '
                          'at most one commit as the last action, normal exit): a commit or rollback occurs '
                          'before the end. events=%s' % (step, summarize(ev)), case=c)
        nb, nc = sql.count('BEGIN'), sql.count('COMMIT')
        if nb != 1 or nc != 1 or sql[-1] != 'COMMIT' or 'ROLLBACK' in sql:
            out.violation('oracle', 'SQL trace of `%s` is not one transaction committed last: %d BEGIN, %d COMMIT, '
                          'last=%s, positions of COMMIT=%s of %d statements'
                          % (step, nb, nc, sql[-1] if sql else None,
                             [i for i, s in enumerate(sql) if s == 'COMMIT'], len(sql)), case=c)
        reads = {t for t in tr.reads if t not in D.VIEWS}
        R, W = DECLARED[step]
        if not (tr.writes <= set(W)) or not (reads <= set(R) | set(W)) or tr.other_actions:
            out.violation('oracle', '`%s` touches tables outside its declared sets: reads %s writes %s other %s; '
                          'declared reads %s writes %s (independence of steps rests on these sets)'
                          % (step, sorted(reads), sorted(tr.writes), sorted(tr.other_actions), R, W), case=c)
        if reads == set(R) and tr.writes == set(W):
            out.count('tables-exactly-declared:' + step)
        unknown = [t for t in reads | tr.writes if t not in D.TABLES]
        if unknown:
            out.violation('oracle', '`%s` touches unknown tables %s' % (step, unknown), case=c)
        else:
            coq['tables'].append(('(%s, %s, %s)' % (STEP_ID[step], ctbls(reads), ctbls(tr.writes)), c,
                                  '%s reads %s writes %s' % (step, sorted(reads), sorted(tr.writes))))
        try:
            coq['shape'].append(('(%s, %s)' % (cevs(ev), csql(sql)), c,
                                 '%s events=%s sql=%s' % (step, summarize(ev), summarize_sql(sql))))
        except ValueError as e:
            out.violation('oracle', '`%s`: %s' % (step, e), case=c)


def summarize(ev):
    out, last, n = [], None, 0
    for e in list(ev) + [None]:
        k = None if e is None else (e[0] if e[0] != 'dml' else 'dml')
        if k == last:
            n += 1
        else:
            if last is not None:
                out.append(last if n == 1 else '%sx%d' % (last, n))
            last, n = k, 1
    return ' '.join(out)


def summarize_sql(sql):
    return summarize([(s,) for s in sql])


# ------------------------------------------------------------------ (b) fault enumeration

LONG = 400


def coq_wanted(coq, step, events, out):
    """Very long traces (field sample: thousands of INSERTs per step) make the case
    files slow to parse: keep 3 such cases per step, count the rest."""
    if len(events) <= LONG:
        return True
    n = coq.setdefault('long', {}).get(step, 0)
    coq['long'][step] = n + 1
    if n < 3:
        return True
    out.count('coq-case-skipped-long-trace')
    return False


def classify_dump(got, pre, post):
    return 'OPre' if got == pre else 'OPost' if got == post else 'OMixed'


def diff_tables(a, b):
    return sorted(t for t in set(a) | set(b) if a.get(t) != b.get(t))


def one_fault(w, step, pre_file, pre, post, full_events, k, mode, out, case, coq, point, note=''):
    db = w.fresh(pre_file)
    tr, exc = T.run_cli(w.argv(step, db), at=k, mode=mode, fast=True)
    got = D.dump(db)
    oc = classify_dump(got, pre, post)
    out.evaluations += 1
    out.count('fault:%s:%s' % (mode, oc))
    out.count('fault-at:%s' % point[0])
    c = dict(case, level='fault', step=step, k=k, mode=mode)
    if not tr.fired:
        out.violation('corr', 'fault point %d of `%s` was not reached in the faulted run (non-deterministic trace?)'
                      % (k, step), case=c)
    if oc == 'OMixed':
        out.violation('oracle', 'after a %s fault at point %d (%s %s) of `%s`%s the dataset is neither its previous '
                      'content nor the complete result: tables differing from before: %s; from the complete '
                      'result: %s' % (mode, k, point[0], point[1], step, note, diff_tables(got, pre),
                                      diff_tables(got, post)), case=c)
    if oc == 'OPre' and exc is not None:
        out.nontriv(('fault', w.tag, step, k, mode))
    try:
        if coq is not None and coq_wanted(coq, step, full_events, out):
            coq['txn'].append(('(%s, %s, %s, %s)' % (cevs(full_events), cevs(tr.events),
                                                   'None' if (mode == 'interrupt' or 'sample' in w.rec)
                                                   else '(Some %s)' % csql(tr.sql), oc),
                               c, 'step=%s point=%d(%s) mode=%s attempt=%s sql=%s outcome=%s exc=%s'
                               % (step, k, point[0], mode, summarize(tr.events), summarize_sql(tr.sql), oc,
                                  type(exc).__name__)))
    except ValueError as e:
        out.violation('oracle', '`%s` under fault: %s' % (step, e), case=c)
    # the step can be run again
    tr2, exc2 = T.run_cli(w.argv(step, db), fast=True)
    again = D.dump(db)
    if again != post:
        out.violation('oracle', 'after a %s fault at point %d (%s) of `%s`%s (outcome %s) running the step again '
                      'does not give the fault-free result: second run %s, tables differing: %s'
                      % (mode, k, point[0], step, note, oc,
                         'raised %s: %s' % (type(exc2).__name__, str(exc2)[:80]) if exc2 else 'succeeded',
                         diff_tables(again, post)), case=c)
    elif oc == 'OPre' and exc2 is not None:
        out.violation('oracle', 'after a %s fault at point %d of `%s` the second run raised %s: %s although the '
                      'dataset had its previous content' % (mode, k, step, type(exc2).__name__, exc2), case=c)
    os.remove(db)
    return oc


def kill_job(w, step, pre_file, k, spill):
    db = w.fresh(pre_file)
    env = dict(os.environ, PYTHONPATH=C.REPO + os.pathsep + C.VERIF)
    cmd = [sys.executable, '-m', 'harness.sqltrace', '--at', str(k), '--mode', 'kill'] + \
        (['--spill'] if spill else []) + ['--'] + [str(a) for a in w.argv(step, db)]
    p = subprocess.run(cmd, env=env, cwd=C.VERIF, stdout=subprocess.PIPE, stderr=subprocess.STDOUT, timeout=600)
    hot = os.path.exists(db + '-journal') and os.path.getsize(db + '-journal') > 0
    with open(db, 'rb') as f1, open(pre_file, 'rb') as f2:
        file_changed = f1.read() != f2.read()
    return db, p.returncode, hot, file_changed, p.stdout.decode('utf8', 'replace')[-400:]


def check_kills(w, jobs, dumps, events, out, case, coq, arng=None):
    """jobs: list of (step, pre_file, k, spill, point[, other]).  other: the command that touches
    the file first after the kill ('' = the step itself; absent: drawn from arng)."""
    with cf.ThreadPoolExecutor(max_workers=12) as ex:
        futs = [ex.submit(kill_job, w, j[0], j[1], j[2], j[3]) for j in jobs]
        results = [f.result() for f in futs]
    for job, (db, rc, hot, changed, tail) in zip(jobs, results):
        step, pre_file, k, spill, point = job[:5]
        other = (job[5] or None) if len(job) > 5 else pick_other(arng, step) if arng is not None else None
        i = STEPS.index(step)
        pre, post = dumps[i], dumps[i + 1]
        c = dict(case, level='kill', step=step, k=k, spill=spill, other=other or '')
        out.evaluations += 1
        if rc != -9:
            out.violation('corr', 'kill run of `%s` at point %d ended with status %s instead of SIGKILL: %s'
                          % (step, k, rc, tail), case=c)
            drop_files(db)
            continue
        where = 'SIGKILL at point %d (%s %s) of `%s`%s' % (k, point[0], point[1], step,
                                                          ' (spilling cache)' if spill else '')
        # (a) judged on a copy of (file, journal): opening the COPY replays its journal
        cp = side_copy(w, db)
        problem, got = open_checked(cp)
        drop_files(cp)
        if problem is not None:
            out.count('kill:%s:damaged' % ('spill' if spill else 'cache'))
            out.violation('oracle', 'after %s the dataset file (with the journal left beside it) is damaged: %s'
                          % (where, problem), case=c)
            drop_files(db)
            continue
        oc = classify_dump(got, pre, post)
        out.count('kill:%s%s:%s' % ('spill' if spill else 'cache', ':hot-journal' if hot else '', oc))
        if hot and changed and oc == 'OPre':
            out.nontriv(('kill-recovered', w.tag, step, k))
        elif oc == 'OPre':
            out.nontriv(('kill', w.tag, step, k, spill))
        if oc == 'OMixed':
            out.violation('oracle', 'after %s the dataset is neither its previous '
                          'content nor the complete result: differs from before in %s, from the result in %s'
                          % (where, diff_tables(got, pre), diff_tables(got, post)), case=c)
        # model: the events of the fault-free run up to the point, then nothing
        att = events_before_point(events[step], k) if coq is not None else None
        if att is not None and coq_wanted(coq, step, events[step][0], out):
            try:
                lit = '(%s, %s, None, %s)' % (cevs(events[step][0]), cevs(att), oc)
            except ValueError as e:     # an action the model has no event for (already reported by the shape stage)
                out.count('kill:event-outside-model')
                lit = None
                out.violation('corr', '`%s` killed at point %d: %s' % (step, k, e), case=c)
            if lit is not None:
                coq['txn'].append((lit, c, 'step=%s kill at point %d (%s) attempt=%s outcome=%s'
                                   % (step, k, point[0], summarize(att), oc)))
        # (b) on the original the next thing that touches the file is the spowtd command line
        if oc != 'OMixed':
            problems, recovered = recover_by_cli(w, db, step, oc, dumps, other, out)
            if problems:
                out.violation('oracle', 'after %s (outcome %s on a copy of the files left behind: dataset file %s, '
                              'journal %s), with the spowtd command line as the next thing to touch the file%s: %s'
                              % (where, oc, 'changed' if changed else 'unchanged', 'present' if hot else 'absent/empty',
                                 ' (first `%s`, then the step again)' % other if other else '', '; '.join(problems)),
                              case=c)
            if recovered and changed:
                out.count('kill:hot-journal-recovered-by-cli')
                out.nontriv(('kill-cli-recovered', w.tag, step, k, other or ''))
        drop_files(db)


def events_before_point(ev_points, k):
    """Events of the fault-free run that precede fault point k (the killed
    process got that far).  ev_points = (events, points, event index at each point)."""
    events, points, at = ev_points
    if k >= len(at):
        return None
    n, partial = at[k]
    att = [list(e) for e in events[:n]]
    if partial is not None and att:
        att[-1] = ['dml', partial]
    return att


def index_points(tr):
    """For every fault point of a fault-free run: how many events had been
    recorded when it was reached (and, inside an executemany, how many rows had
    been pulled)."""
    # Re-derive from the point descriptors: 'exec' precedes its event; 'row' j is
    # inside the current DML event with j rows pulled; commit-before precedes the
    # commit event; commit-after / exit-after follow theirs; exit-before precedes exit_ok.
    at, n = [], 0
    for kind, detail in tr.points:
        if kind == 'exec':
            at.append((n, None))
            n += 1
        elif kind == 'row':
            at.append((n, int(detail)))
        elif kind == 'commit-before':
            at.append((n, None))
            n += 1
        elif kind == 'commit-after':
            at.append((n, None))
        elif kind == 'exit-before':
            at.append((n, None))
            n += 1
        elif kind == 'exit-after':
            at.append((n, None))
    return at


def pick(points, limit, rng):
    n = len(points)
    if limit is None or n <= limit:
        return list(range(n))
    keep = set(range(0, 4)) | set(range(n - 6, n))
    while len(keep) < limit:
        keep.add(rng.randrange(n))
    return sorted(keep)


def check_faults(w, states, dumps, traces, out, case, coq, rng, limit=None, kills=8, kill_all=False,
                 arng=None):
    pres, posts, events = {}, {}, {}
    kill_jobs = []
    for i, step in enumerate(STEPS):
        tr = traces[step]
        pres[step], posts[step] = dumps[i], dumps[i + 1]
        events[step] = (tr.events, tr.points, index_points(tr))
        ks = pick(tr.points, limit, rng)
        seen = set()
        for k in ks:
            for mode in ('raise', 'interrupt'):
                oc = one_fault(w, step, states[i], dumps[i], dumps[i + 1], tr.events, k, mode, out, case, coq,
                               tr.points[k])
                seen.add(oc)
        if 'OPre' not in seen or 'OPost' not in seen:
            out.violation('corr', 'fault enumeration of `%s` never produced both outcomes (%s): the enumeration '
                          'does not reach both sides of the commit' % (step, sorted(seen)), case=case)
        if kill_all:
            kk = [(k, s) for k in ks for s in (False, True)]
        else:
            cand = pick(tr.points, None, rng)
            chosen = set(cand[-2:]) | {cand[0]}
            while len(chosen) < min(len(cand), max(3, kills // len(STEPS) + 1)):
                chosen.add(rng.choice(cand))
            kk = [(k, rng.random() < 0.6) for k in sorted(chosen)]
            if arng is not None:
                # one more kill in the middle of the body with a spilling cache: pages of the dataset
                # file are overwritten and only the journal protects them (own stream)
                body = [k for k in cand if tr.points[k][0] in ('exec', 'row') and k not in chosen and k > 0]
                if body:
                    kk.append((arng.choice(body[len(body) // 3:]), True))
        kill_jobs += [(step, states[i], k, s, tr.points[k]) for k, s in kk]
    check_kills(w, kill_jobs, dumps, events, out, case, coq, arng=arng)


# ------------------------------------------------------------------ after a kill: who touches the file next

def side_copy(w, db):
    """(a) The dataset file AND its rollback journal, copied aside (the killed process is
    gone, nothing has the files open).  The copy is what the harness opens, so that on the
    original the next thing to touch the file is the spowtd command line."""
    d = os.path.join(w.dir, 'side')
    os.makedirs(d, exist_ok=True)
    cp = os.path.join(d, os.path.basename(db))
    shutil.copyfile(db, cp)
    if os.path.exists(db + '-journal'):
        shutil.copyfile(db + '-journal', cp + '-journal')
    elif os.path.exists(cp + '-journal'):
        os.remove(cp + '-journal')
    return cp


def drop_files(db):
    for f in (db, db + '-journal'):
        if os.path.exists(f):
            os.remove(f)


def journal_size(db):
    return os.path.getsize(db + '-journal') if os.path.exists(db + '-journal') else -1


def pick_other(rng, step):
    """What runs on the file right after the kill: the step again (None), or first another
    command of the workflow (it may fail for lack of its inputs: then it only read the
    file; or succeed: then it is an independent step done early)."""
    if rng.random() < 0.55:
        return None
    return rng.choice([s for s in STEPS if s != step])


def recover_by_cli(w, db, step, oc, dumps, other, out):
    """(b) The ORIGINAL file, exactly as the killed process left it (hot journal included), is
    next touched by the spowtd command line: `other` first (if any), then the step again,
    then (if another command ran, or always for a complete result) the rest of the workflow.
    Returns (list of problems, recovered) - recovered: a non-empty journal file was there and
    the first command left a sound dataset without it."""
    i = STEPS.index(step)
    pre, post = dumps[i], dumps[i + 1]
    had_journal = journal_size(db) > 0
    done = set(STEPS[:i]) | ({step} if oc == 'OPost' else set())
    problems = []
    first = [True]

    def after(label, tr, exc):
        """integrity and journal state once a command has touched the file"""
        problem, got = open_checked(db)
        rec = first[0] and had_journal and problem is None and journal_size(db) <= 0
        first[0] = False
        if problem is not None:
            problems.append('after %s (%s) the dataset file is damaged: %s'
                            % (label, 'raised %s: %s' % (type(exc).__name__, str(exc)[:100]) if exc is not None
                               else 'status %s' % tr.rc, problem))
        return got, rec

    recovered = False
    other_ran = False
    if other is not None:
        tr0, exc0 = T.run_cli(w.argv(other, db))
        got0, recovered = after('the next command `%s`' % other, tr0, exc0)
        if got0 is None:
            return problems, False
        if failed_cmd(tr0, exc0):
            if got0 != (post if oc == 'OPost' else pre):
                problems.append('after the next command `%s` (which failed: %s) the dataset is neither the previous '
                                'content nor the complete result of `%s`: differs from before in %s, from the result '
                                'in %s' % (other, type(exc0).__name__ if exc0 is not None else 'status %s' % tr0.rc,
                                           step, diff_tables(got0, pre), diff_tables(got0, post)))
        else:
            other_ran = True
            done.add(other)
    tr2, exc2 = T.run_cli(w.argv(step, db))
    again, rec2 = after('running `%s` again' % step, tr2, exc2)
    recovered = recovered or rec2
    if again is None:
        return problems, False
    if oc == 'OPre' and failed_cmd(tr2, exc2):
        problems.append('the step cannot be run again although the dataset held its previous content: `%s` %s'
                        % (step, 'raised %s: %s' % (type(exc2).__name__, exc2) if exc2 is not None
                           else 'returned status %s' % tr2.rc))
    elif not other_ran and again != post:
        problems.append('running `%s` again %s; tables differing from the fault-free result: %s'
                        % (step, 'raised %s: %s' % (type(exc2).__name__, exc2) if exc2 is not None else 'succeeded',
                           diff_tables(again, post)))
    if not failed_cmd(tr2, exc2) or oc == 'OPost':
        done.add(step)
    if other is not None and not problems:
        bad, final = finish_pipeline(w, db, done)
        out.count('kill:then-cli:continued-to-the-end')
        if bad is not None:
            problems.append('the workflow cannot be completed afterwards: %s' % bad)
        elif final != dumps[len(STEPS)]:
            problems.append('the completed workflow differs from the one in which nothing was killed: tables %s'
                            % diff_tables(final, dumps[len(STEPS)]))
    out.count('kill:then-cli:%s' % ('rerun' if other is None else 'other-first:%s'
                                    % ('ran' if other_ran else 'failed')))
    return problems, recovered and not problems


# ------------------------------------------------------------------ (b'') failures caused by the arguments

# Values a user can mistype for a real-valued argument.  Which of them the command
# refuses is not assumed: a command that accepts one (and completes) is no failed
# attempt and is only counted.
BAD_REALS = ['0', '-0.0', 'nan', 'inf', '-inf', '-1', '1e-320', '5e-324', '1e308', '-1e-320', 'abc', '']
REAL_ARGS = {'classify': ['-s', '-j'], 'set-zeta-grid': ['-d'], 'set-curvature': [None],
             'rise': ['-r'], 'recession': ['-r']}


def with_arg(argv, flag, value):
    """argv with the value of `flag` replaced (flag None: the positional after DB).
    `flag=value` so that negative values are not read as options."""
    argv = [str(a) for a in argv]
    if flag is None:
        return argv[:2] + ['--', value] if value.startswith('-') else argv[:2] + [value]
    out, i = [], 0
    while i < len(argv):
        if argv[i] == flag:
            i += 2
            continue
        if argv[i].startswith(flag + '='):
            i += 1
            continue
        out.append(argv[i])
        i += 1
    return out + ['%s=%s' % (flag, value)]


def natural_variants(w, step):
    """(flag, value) pairs that make `step` fail (or not) through its arguments."""
    out = [(f, v) for f in REAL_ARGS[step] for v in BAD_REALS]
    if step in CURVES:
        grid = 1.0 if 'sample' in w.rec else float(w.rec['grid_mm'])
        # reference level off the grid by various amounts, on the grid but far outside the
        # curve, beyond what an integer index can hold
        out += [('-r', repr(grid * m)) for m in (0.37, 2.5, 1 + 2.0 ** -20, -3.75, 1e9, -1e9, 4e15, 1e300)]
    return out


def failed_cmd(tr, exc):
    return exc is not None or tr.rc not in (None, 0)


def exit_kinds(tr):
    return [e[0] for e in tr.events if e[0] in ('exit_ok', 'exit_exn')]


def exit_kind_problem(tr, exc):
    """What the caller of the command saw (exception / non-zero status / success) against how
    the trace shows the `with connection:` block was left: a normal exit publishes, an
    exceptional one discards (Model.Txn ExitOk / ExitExn)."""
    kinds = exit_kinds(tr)
    if failed_cmd(tr, exc) and 'exit_ok' in kinds and not tr.fired:
        return ('the command reported failure (%s) but left its `with connection:` block NORMALLY, which commits '
                'whatever had been written' % ('status %s' % tr.rc if exc is None else type(exc).__name__))
    if not failed_cmd(tr, exc) and 'exit_exn' in kinds:
        return ('the command reported success but its `with connection:` block was left by an exception (its '
                'writes were discarded)')
    return None


def natural_states(w, states, dumps, out):
    """Datasets on which steps are attempted: the canonical S0..S5 and the ones that lack an
    earlier step although later ones ran (grid without classification, classification
    without grid + curvature)."""
    named = {str(j): (states[j], dumps[j], set(STEPS[:j])) for j in range(len(STEPS) + 1)}
    for name, steps in (('G', ['set-zeta-grid']), ('KG', ['set-curvature', 'set-zeta-grid']),
                        ('CK', ['classify', 'set-curvature'])):
        p = os.path.join(w.dir, 'N%s.sqlite3' % name)
        shutil.copyfile(states[0], p)
        ok = True
        for s in steps:
            tr, exc = T.run_cli(w.argv(s, p), fast=True)
            ok = ok and not failed_cmd(tr, exc)
        if ok:
            named[name] = (p, D.dump(p), set(steps))
        else:
            out.count('natural:state-%s-unavailable' % name)
    return named


def finish_pipeline(w, db, done):
    """Run every step not yet done, canonical order.  Returns (first failure or None, dump)."""
    for s in STEPS:
        if s in done:
            continue
        tr, exc = T.run_cli(w.argv(s, db), fast=True)
        if failed_cmd(tr, exc):
            return '`%s` %s' % (s, 'raised %s: %s' % (type(exc).__name__, exc) if exc is not None
                                else 'returned status %s' % tr.rc), D.dump(db)
        done = done | {s}
    return None, D.dump(db)


def one_natural(w, named, dumps, traces, step, state, flag, value, out, case, coq, to_end):
    src, before, done = named[state]
    db = w.fresh(src)
    argv = with_arg(w.argv(step, db), flag, value) if flag != 'valid' else w.argv(step, db)
    tr, exc = T.run_cli(argv, fast=True)
    got = D.dump(db)
    out.evaluations += 1
    c = dict(case, level='natural', step=step, state=state, variant=[flag, value])
    shown = ' '.join(['spowtd'] + [a if a != db else 'DB' for a in argv])
    if not failed_cmd(tr, exc):
        # accepted: another (valid) step, not a failed attempt.  The exit kind is judged - and, when the
        # step had ALREADY been run on this dataset, the acceptance itself (see accepted_again)
        out.count('natural:accepted:%s' % step)
        pr = exit_kind_problem(tr, exc)
        if pr is not None:
            out.violation('oracle', '`%s` on the dataset %s: %s' % (shown, state_name(state), pr), case=c)
        if step in done:
            accepted_again(w, named, dumps, step, state, argv, db, got, shown, out, c, coq)
        os.remove(db)
        return
    how = 'SystemExit' if isinstance(exc, SystemExit) else type(exc).__name__ if exc is not None else 'status'
    out.count('natural:failed:%s:%s:%s' % (step, 'done' if step in done else 'todo', how))
    i = STEPS.index(step)
    oc = 'OPre' if got == before else 'OPost' if (step not in done and got == dumps[i + 1] and state == str(i)) \
        else 'OMixed'
    pr = exit_kind_problem(tr, exc)
    wrote = any(e[0] == 'dml' for e in tr.events)
    problems = []
    if oc != 'OPre':
        problems.append('it CHANGED the dataset: tables %s differ from the content before%s%s'
                        % (diff_tables(got, before), '' if oc == 'OMixed' else
                           ' (it is the complete result of the step with its proper arguments)', '; ' + pr if pr else ''))
    elif wrote:
        out.nontriv(('natural', w.tag, step, state, flag, value))   # work had to be undone
    if pr is not None and oc == 'OPre':
        out.violation('corr', '`%s` on the dataset %s: %s; events %s, sql %s'
                      % (shown, state_name(state), pr, summarize(tr.events), summarize_sql(tr.sql)), case=c)
    try:
        lit = '(%s, %s, %s, %s)' % (cevs(traces[step].events), cevs(tr.events), '(Some %s)' % csql(tr.sql), oc)
        if len(tr.events) <= LONG and lit not in coq.setdefault('seen', set()):
            coq['seen'].add(lit)
            coq['txn'].append((lit, c, 'natural failure `%s` on %s: attempt=%s sql=%s outcome=%s failure=%s'
                               % (shown, state_name(state), summarize(tr.events), summarize_sql(tr.sql), oc, how)))
    except ValueError:
        out.count('natural:event-outside-model')
    # the step can (still) be run, and the end of the workflow does not know about the attempt
    if step not in done:
        tr2, exc2 = T.run_cli(w.argv(step, db), fast=True)
        again = D.dump(db)
        ref = named.get(str(i + 1)) if state == str(i) else None
        if failed_cmd(tr2, exc2) and state == str(i):
            problems.append('afterwards the step `%s` cannot be run: %s'
                            % (step, 'raised %s: %s' % (type(exc2).__name__, exc2) if exc2 is not None
                               else 'status %s' % tr2.rc))
        elif ref is not None and again != ref[1]:
            problems.append('running `%s` afterwards gives a result different from the one without the attempt: '
                            'tables %s' % (step, diff_tables(again, ref[1])))
        if not failed_cmd(tr2, exc2):
            done = done | {step}
    if to_end:
        bad, final = finish_pipeline(w, db, done)
        out.count('natural:continued-to-the-end')
        if bad is not None:
            problems.append('the workflow cannot be completed afterwards: %s' % bad)
        elif final != dumps[len(STEPS)]:
            problems.append('the completed workflow differs from the one without the attempt: tables %s'
                            % diff_tables(final, dumps[len(STEPS)]))
    if problems:
        n = coq.setdefault('natural-reported', {})
        n[(w.tag, step)] = n.get((w.tag, step), 0) + 1
        out.count('natural-violation:%s' % step)
        if n[(w.tag, step)] <= CK_REPORT_CAP:
            out.violation('oracle', 'the failed attempt `%s` (%s%s) on the dataset %s: %s%s'
                          % (shown, type(exc).__name__ if exc is not None else 'status %s' % tr.rc,
                             ': %s' % str(exc)[:80] if exc is not None and not isinstance(exc, SystemExit) else '',
                             state_name(state), '; '.join(problems),
                             ' [further violations in this step are only counted: natural-violation:* in the '
                             'evidence]' if n[(w.tag, step)] == CK_REPORT_CAP else ''), case=c)
    os.remove(db)


def accepted_again(w, named, dumps, step, state, argv, db, got, shown, out, c, coq):
    """A command of a step that had already been run on the dataset was ACCEPTED.  A second run
    of a step has to fail and change nothing (singleton tables / primary keys: the dataset holds
    the result of ONE run of each step).  Reported with what the dataset holds now: unchanged,
    the complete result of the new command (the old result replaced), or a blend of two runs."""
    src, before, done = named[state]
    i = STEPS.index(step)
    out.count('natural:accepted-although-done:%s' % step)
    if got == before:
        what = 'the dataset is unchanged'
    else:
        what = 'tables %s changed' % diff_tables(got, before)
        if state == str(i + 1):
            alt = w.fresh(named[str(i)][0])
            tr_a, exc_a = T.run_cli([a if a != db else alt for a in argv], fast=True)
            alone = D.dump(alt)
            os.remove(alt)
            what += ('; the dataset now holds neither its previous content nor what this command gives on the dataset '
                     'without the earlier run (tables %s differ from that): a BLEND of two runs of the step'
                     % diff_tables(got, alone) if failed_cmd(tr_a, exc_a) or got != alone else
                     '; the earlier result was replaced by the result of this command')
    problems = ['it was ACCEPTED although `%s` had already been run on this dataset (a second run of a step must be '
                'refused and change nothing); %s' % (step, what)]
    bad, final = finish_pipeline(w, db, done)
    if bad is not None:
        problems.append('the workflow cannot be completed afterwards: %s' % bad)
    elif final != dumps[len(STEPS)]:
        problems.append('the completed workflow differs from the one without this attempt: tables %s'
                        % diff_tables(final, dumps[len(STEPS)]))
    n = coq.setdefault('natural-reported', {})
    n[(w.tag, step, 'again')] = n.get((w.tag, step, 'again'), 0) + 1
    out.count('natural-violation:%s' % step)
    if n[(w.tag, step, 'again')] <= CK_REPORT_CAP:
        out.violation('oracle', 'the repeated attempt `%s` on the dataset %s: %s%s'
                      % (shown, state_name(state), '; '.join(problems),
                         ' [further violations of this kind in this step are only counted: natural-violation:* in the '
                         'evidence]' if n[(w.tag, step, 'again')] == CK_REPORT_CAP else ''), case=c)


def fnum(x):
    return repr(float(x))


def repeat_variants(w, step):
    """(flag, value): OTHER valid-looking arguments of a step - what a user types who runs the
    step a second time to change a setting.  On a dataset that has the step they must be refused."""
    rec = w.rec
    sample = 'sample' in rec
    grid = 1.0 if sample else float(rec['grid_mm'])
    if step == 'classify':
        s_, j_ = (8.0, 5.0) if sample else (float(rec['thr_s']), float(rec['thr_j']))
        return [('-s', fnum(s_ * 2)), ('-s', fnum(s_ / 2)), ('-j', fnum(j_ * 2)), ('-j', fnum(j_ / 4)),
                ('-s', '1e9'), ('-j', '1e-9')]
    if step == 'set-zeta-grid':
        return [('-d', fnum(grid * m)) for m in (2, 0.5, 5, 0.2, 3, 10, 0.1, 1.5, 0.3, 1000, -1, -2.5)]
    if step == 'set-curvature':
        k = 1.0 if sample else float(rec['curvature'])
        return [(None, fnum(v)) for v in (k + 1, 2 * k + 0.5, 0.0 if k else 3.0, -k - 1, 1e9, 1e-9)]
    return [('-r', fnum(grid * m)) for m in (0, 1, -1, 3, -7, 20)]


def grid_levels(lo, hi, g):
    import math
    try:
        return range(int(math.floor(lo / g)), int(math.ceil(hi / g)))
    except (ValueError, OverflowError, ZeroDivisionError):
        return range(0)


def record_kind(lo, hi):
    return 'all-negative' if hi < 0 else 'all-positive' if lo > 0 else 'crosses-zero'


def check_repeats(w, named, dumps, traces, out, case, coq, rrng, share=0.25):
    """After a step has succeeded: the SAME command with other valid-looking arguments (another
    level step, curvature, thresholds, reference level), on the dataset right after the step, on
    the completed dataset and (share) on every other dataset that has the step.  Judged by
    one_natural: a refusal must leave the dump unchanged and the completed workflow canonical; an
    acceptance is a violation (accepted_again).  For set-zeta-grid it is MEASURED whether the level
    numbers of the two grids are disjoint (then no key of discrete_zeta stands in the way and only
    the singleton zeta_grid refuses): records all below / all above zero; crossing zero they share
    levels -1 and 0."""
    lo, hi = level_bounds(named['0'][0])
    kind = record_kind(lo, hi)
    out.count('repeat:record:%s' % kind)
    for i, step in enumerate(STEPS):
        for state in sorted(named):
            if step not in named[state][2]:
                continue
            main = state in (str(i + 1), str(len(STEPS)))
            for flag, value in repeat_variants(w, step):
                if not main and rrng.random() >= share:
                    continue
                out.count('repeat:%s' % step)
                if step == 'set-zeta-grid':
                    old = grid_levels(lo, hi, 1.0 if 'sample' in w.rec else float(w.rec['grid_mm']))
                    new = grid_levels(lo, hi, float(value))
                    disjoint = len(new) == 0 or len(old) == 0 or new[-1] < old[0] or old[-1] < new[0]
                    out.count('repeat:set-zeta-grid:%s:%s' % ('new-grid-empty' if len(new) == 0 else 'level-sets-disjoint'
                                                              if disjoint else 'level-sets-overlap', kind))
                    if disjoint:
                        out.nontriv(('repeat-disjoint', w.tag, state, value))
                one_natural(w, named, dumps, traces, step, state, flag, value, out, case, coq,
                            to_end=main or rrng.random() < 0.25)


def shifted_record(rec, rng, want):
    """The same record moved up or down as a whole (every level + the same multiple of 1/8 mm:
    increments, hence classification, are unchanged) so that it lies all below zero, all above
    zero (nearest level at least one span away from zero, so that grids whose steps differ by a
    factor >= 3 have disjoint level numbers) or crosses zero."""
    lo, hi = min(rec['zeta']), max(rec['zeta'])
    span = hi - lo
    if want == 'crosses-zero':
        c = -(lo + span * (0.3 + 0.4 * rng.random()))
    elif want == 'all-negative':
        c = -hi - span * (1.0 + rng.random()) - 1.0
    else:
        c = -lo + span * (1.0 + rng.random()) + 1.0
    c = round(c * 8) / 8.0
    return dict(rec, zeta=[z + c for z in rec['zeta']])


def state_name(state):
    if state.isdigit():
        j = int(state)
        return 'after %s' % (STEPS[j - 1] if j else 'load') + (' (before %s)' % STEPS[j] if j < len(STEPS) else '')
    return {'G': 'with a level grid but no classification', 'KG': 'with curvature and level grid but no '
            'classification', 'CK': 'with classification and curvature but no level grid'}[state]


def check_natural(w, states, dumps, traces, out, case, coq, rng, share=1.0, only=None, rrng=None,
                  repeats_only=False):
    """Attempts that fail by themselves because of their arguments or of what the dataset
    lacks, before and after the step has succeeded.  share: fraction of the (step, state,
    variant) triples away from the step's own pre-state that is run (the pre-state gets all)."""
    named = natural_states(w, states, dumps, out)
    if only is not None:
        for step, state, flag, value in only:
            if state in named:
                one_natural(w, named, dumps, traces, step, state, flag, value, out, case, coq, True)
        return
    if rrng is not None:
        check_repeats(w, named, dumps, traces, out, case, coq, rrng, share=share)
    if repeats_only:
        return
    for i, step in enumerate(STEPS):
        variants = natural_variants(w, step)
        for state in sorted(named, key=lambda st: (st != str(i), st)):
            own = state == str(i)
            for flag, value in variants + [('valid', '')]:
                if flag == 'valid' and own:
                    continue   # the fault-free step itself
                if not own and rng.random() >= share:
                    continue
                one_natural(w, named, dumps, traces, step, state, flag, value, out, case, coq,
                            to_end=own or rng.random() < 0.25)



# ------------------------------------------------------------------ (b') killed inside the commit

# The child is the plain command line (what bin/spowtd does) under a file size
# limit.  CPython ignores SIGXFSZ at start-up: the default action (terminate) is
# restored, after the imports so that nothing but the step itself is limited.
FSIZE_CHILD = ('import resource, signal, sys\n'
               'from spowtd.user_interface import main\n'
               'signal.signal(signal.SIGXFSZ, signal.SIG_DFL)\n'
               'hard = resource.getrlimit(resource.RLIMIT_FSIZE)[1]\n'
               'resource.setrlimit(resource.RLIMIT_FSIZE, (int(sys.argv[1]), hard))\n'
               'sys.exit(main(sys.argv[2:]))\n')
CK_REPORT_CAP = 3   # violations listed per dataset, step and kind of damage (all are counted)


def file_pages(path):
    with open(path, 'rb') as f:
        b = f.read()
    ps = int.from_bytes(b[16:18], 'big') if len(b) >= 18 else 0
    ps = 65536 if ps == 1 else ps
    if ps < 512 or ps & (ps - 1):
        ps = 4096  # header destroyed: fall back, the integrity check will speak
    return ps, [b[i:i + ps] for i in range(0, len(b), ps)]


def page_states(db, pre_pages, post_pages):
    """1-based numbers of the pages of `db` that differ from the file before the
    step (= reached the file) and, among them, of those that are not the page of
    the fault-free result either (= torn / partially written)."""
    _, pages = file_pages(db)
    written, torn = [], []
    for i, pg in enumerate(pages):
        if i >= len(pre_pages) or pg != pre_pages[i]:
            written.append(i + 1)
            if i >= len(post_pages) or pg != post_pages[i]:
                torn.append(i + 1)
    return written, torn, len(pages)


def commit_kill_limits(pre_file, post_file, rng, per_step):
    """File size limits that kill at distinct moments.  The commit writes its dirty
    pages in page order: limit (d-1)*page_size lets every dirty page below d
    reach the file and kills at page d; + half a page tears page d.  Limits below
    the journal's size kill while the journal is written.  per_step=None: all
    of these and every page boundary."""
    ps, pre = file_pages(pre_file)
    _, post = file_pages(post_file)
    dirty = [i + 1 for i in range(len(post)) if i >= len(pre) or pre[i] != post[i]]
    inner = [d for d in dirty if d > 1]
    page = [(d - 1) * ps for d in inner]
    torn = [(d - 1) * ps + ps // 2 - 8 for d in inner]
    old = len([d for d in dirty if d <= len(pre)])          # pages the journal holds
    journal = [0, 300] + [512 + k * (ps + 8) + 1000 for k in range(old)]
    if per_step is None:
        return ps, dirty, sorted(set(page + torn + journal + [p * ps for p in range(len(post))]))
    chosen = set()
    if page:
        # every dirty page but the last reached the file / any other cut of the page list
        chosen.add(page[-1] if rng.random() < 0.5 else rng.choice(page))
        chosen.add(rng.choice(torn) if rng.random() < 0.6 else rng.choice(journal[1:]))
    pool = page + torn + page + torn + journal[1:]
    while pool and len(chosen) < min(per_step, len(set(pool))):
        chosen.add(rng.choice(pool))
    return ps, dirty, sorted(chosen)


def commit_kill_job(w, step, pre_file, post_file, limit):
    db = w.fresh(pre_file)
    env = dict(os.environ, PYTHONPATH=C.REPO)
    cmd = [sys.executable, '-c', FSIZE_CHILD, str(limit)] + [str(a) for a in w.argv(step, db)]
    p = subprocess.run(cmd, env=env, cwd=C.VERIF, stdin=subprocess.DEVNULL, stdout=subprocess.PIPE,
                       stderr=subprocess.STDOUT, timeout=900)
    jsize = os.path.getsize(db + '-journal') if os.path.exists(db + '-journal') else -1
    _, pre_pages = file_pages(pre_file)
    _, post_pages = file_pages(post_file)
    written, torn, npages = page_states(db, pre_pages, post_pages)
    return db, p.returncode, jsize, written, torn, npages, p.stdout.decode('utf8', 'replace')[-300:]


def open_checked(db):
    """Open the file the way the next user does (a hot journal is replayed now).
    Returns (problem or None, dump or None)."""
    try:
        con = sqlite3.connect(db)
        try:
            rows = con.execute('PRAGMA integrity_check').fetchall()
        finally:
            con.close()
        if rows != [('ok',)]:
            return 'PRAGMA integrity_check: %s' % '; '.join(str(r[0]) for r in rows[:3]), None
        return None, D.dump(db)
    except sqlite3.DatabaseError as e:
        return 'the file cannot be read: %s: %s' % (type(e).__name__, e), None


def check_commit_kills(w, states, dumps, traces, out, case, coq, rng, per_step=2, only=None, arng=None,
                       steps=None):
    """only: [(step, limit, other)] (replay).  arng: stream that decides which command touches the
    file first after each kill (None: always the step itself).  steps: the steps whose files
    states[i], states[i+1] exist (default all).  coq None: oracle only."""
    jobs, info = [], {}
    for step in (steps or STEPS):
        i = STEPS.index(step)
        ps, dirty, limits = commit_kill_limits(states[i], states[i + 1], rng, per_step)
        info[step] = (i, ps, dirty)
        if only is not None:
            jobs += [(s_, l, o or None) for s_, l, o in only if s_ == step]
        else:
            jobs += [(step, l, pick_other(arng, step) if arng is not None else None) for l in limits]
        out.count('kill-in-commit-dirty-pages:%s' % step, len(dirty))
        grown = (os.path.getsize(states[i + 1]) - os.path.getsize(states[i])) // ps
        if grown:
            out.count('kill-in-commit-new-pages:%s' % step, grown)
    with cf.ThreadPoolExecutor(max_workers=12) as ex:
        futs = [ex.submit(commit_kill_job, w, step, states[info[step][0]], states[info[step][0] + 1], limit)
                for step, limit, _ in jobs]
        results = [f.result() for f in futs]
    reported = {}
    for (step, limit, other), (db, rc, jsize, written, torn, npages, tail) in zip(jobs, results):
        i, ps, dirty = info[step]
        pre, post = dumps[i], dumps[i + 1]
        c = dict(case, level='commit-kill', step=step, limit=limit, other=other or '')
        out.evaluations += 1
        if rc == 0:
            phase = 'not-killed'
        elif rc == -signal.SIGXFSZ:
            phase = ('db-page-write' if written and jsize > 0 else
                     'db-page-write-NO-JOURNAL-FILE' if written else
                     'journal-write' if jsize > 0 else 'before-first-write')
        else:
            out.violation('corr', 'the command line of `%s` under a file size limit of %d bytes ended with status %s '
                          '(expected: killed by SIGXFSZ, or success): %s' % (step, limit, rc, tail), case=c)
            continue
        where = ('`%s` under RLIMIT_FSIZE=%d bytes (= %.2f pages of %d) %s; files left behind: %d of the %d pages '
                 'its commit writes had reached the dataset file (pages %s%s), journal file %s'
                 % (step, limit, limit / ps, ps,
                    'ran to its end' if rc == 0 else 'was killed by the kernel (SIGXFSZ)', len(written), len(dirty),
                    written[:12], ', torn: %s' % torn if torn and rc != 0 else '',
                    'absent' if jsize < 0 else 'of %d bytes' % jsize))

        def report(kind, msg):
            n = reported[(step, kind)] = reported.get((step, kind), 0) + 1
            out.count('kill-in-commit-violation:%s:%s' % (step, kind))
            if n <= CK_REPORT_CAP:
                out.violation('oracle', msg + (' [further violations of this kind in this step are only counted: '
                                               'kill-in-commit-violation:* in the evidence]'
                                               if n == CK_REPORT_CAP else ''), case=c)
        # (a) judged on a copy of (file, journal): opening the COPY replays its journal
        cp = side_copy(w, db)
        problem, got = open_checked(cp)
        journal_gone = journal_size(cp) <= 0
        drop_files(cp)
        if problem is not None:
            out.count('kill-in-commit:%s:damaged' % phase)
            report('damaged', 'killed while writing: %s. Afterwards the dataset file is DAMAGED, neither the previous '
                   'content nor the complete result: %s' % (where, problem))
        else:
            oc = classify_dump(got, pre, post)
            out.count('kill-in-commit:%s:%s' % (phase, oc))
            if torn and rc != 0:
                out.count('kill-in-commit:torn-page:%s' % oc)
            if phase == 'db-page-write' and oc == 'OPre':
                if journal_gone:
                    # a hot journal rolled the partly written commit back
                    out.nontriv(('kill-in-commit-recovered', w.tag, step, tuple(written), tuple(torn)))
                    out.count('kill-in-commit:hot-journal-replayed')
            elif phase == 'journal-write' and oc == 'OPre':
                out.nontriv(('kill-in-journal', w.tag, step, jsize))
            if oc == 'OMixed':
                report('mixture', 'killed while writing: %s. Afterwards the dataset is a MIXTURE: differs from the '
                       'previous content in %s and from the complete result in %s'
                       % (where, diff_tables(got, pre), diff_tables(got, post)))
            if rc == 0 and oc != 'OPost':
                report('silent', '%s, but the dataset is not the complete result (outcome %s)' % (where, oc))
            # model: the process was inside the publishing action (commit / exit of the
            # with block) — that action never completed, so the trace stops before it
            tr = traces[step]
            pub = [k for k, (kd, _) in enumerate(tr.points) if kd in ('commit-before', 'exit-before')]
            if coq is not None and rc != 0 and phase.startswith('db-page-write') and pub \
                    and coq_wanted(coq, step, tr.events, out):
                att = events_before_point((tr.events, tr.points, index_points(tr)), pub[0])
                try:
                    coq['txn'].append(('(%s, %s, None, %s)' % (cevs(tr.events), cevs(att), oc), c,
                                       'step=%s killed by the kernel inside the commit (limit %d) attempt=%s outcome=%s'
                                       % (step, limit, summarize(att), oc)))
                except ValueError:
                    pass  # event outside the model: reported by the shape stage
            # (b) on the original the next thing that touches the file is the spowtd command line
            if oc != 'OMixed':
                problems, recovered = recover_by_cli(w, db, step, oc, dumps, other, out)
                if problems:
                    report('rerun', 'killed while writing: %s (outcome %s on a copy of the files left behind). With the '
                           'spowtd command line as the next thing to touch the file%s: %s'
                           % (where, oc, ' (first `%s`, then the step again)' % other if other else '',
                              '; '.join(problems)))
                if recovered and written:
                    out.count('kill-in-commit:hot-journal-recovered-by-cli')
                    out.nontriv(('kill-in-commit-cli-recovered', w.tag, step, tuple(written), tuple(torn), other or ''))
        drop_files(db)


def fine_variant(w, out):
    """The same record on a much finer water-level grid (halved until <= 0.07 mm): set-zeta-grid, rise and
    recession then write enough rows for the file to GROW in the commit (on the
    generated grids every step fits into pages the file already has)."""
    rec = w.rec
    if 'sample' in rec:
        return None
    grid = float(rec['grid_mm'])
    while grid > 0.07:
        grid /= 2.0
    fw = Work(dict(rec, grid_mm=grid), w.tag + 'fine')
    can = canonical(fw, out, None)
    if can is None:
        out.count('kill-in-commit:fine-grid-variant-unusable')
        shutil.rmtree(fw.dir, ignore_errors=True)
        return None
    return (fw,) + can


# ------------------------------------------------------------------ large level grids (oracle only)

# numbers of items at which software tends to cut its work into pieces
ROUND = [1000, 1024, 4096, 8192, 10000, 16384, 20000, 30000, 32768, 50000, 65536, 100000]


def large_points(points, rng, extra=4):
    """Fault points of a long trace worth a run each (the trace has one point per row an
    executemany pulls: tens of thousands).  Kept: every point that is not a row (execute calls,
    commits, exit - wherever they occur), the rows whose number - counted within their own
    executemany call AND over all executemany calls of the step - is a round number or next to
    one, the first and last two rows of every call, and a few drawn ones, at least half of them
    beyond row 10000 when there are that many."""
    keep, rows, total = set(), [], 0
    near = {r + d for r in ROUND for d in (-1, 0, 1)}
    for k, (kind, detail) in enumerate(points):
        if kind != 'row':
            keep.add(k)
            # the rows around a call boundary
            keep.update(j for j in (k - 2, k - 1, k + 1, k + 2) if 0 <= j < len(points))
            continue
        j = int(detail)
        if j in near or total in near:
            keep.add(k)
        rows.append(k)
        total += 1
    late = rows[10001:]
    for n in range(extra):
        pool = late if (late and n % 2 == 0) else rows
        if pool:
            keep.add(rng.choice(pool))
    return sorted(keep), total


def large_forms(tier, rng):
    """(form, wanted number of levels): 'fine' = the record as generated on a level step so
    small that the grid has that many levels; 'scaled' = the record with every level multiplied
    by an integer (a record spanning tens of metres) on a 1 mm grid."""
    odd = lambda lo: lo + rng.randrange(137, 2900)          # noqa: E731  (never a multiple of a block size)
    if tier == 'quick':
        return [('fine' if rng.random() < 0.7 else 'scaled', odd(10000))]
    return [('fine', odd(20000)), ('scaled', odd(10000)), ('fine', odd(32768)), ('scaled', odd(65536))]


def level_bounds(db):
    con = sqlite3.connect(db)
    try:
        return con.execute('SELECT min(zeta_mm), max(zeta_mm) FROM water_level').fetchone()
    finally:
        con.close()


def large_setup(w, states, form, want, pre):
    """Work + pre-state file of the large-grid form of w's record.  pre: 0 = right after load,
    1 = after classify (set-zeta-grid is independent of classify; 'scaled' always 0)."""
    import math
    rec = w.rec
    if form == 'fine':
        lo, hi = level_bounds(states[0])
        grid = float('%.5g' % ((hi - lo) / want))
        while math.ceil(hi / grid) - math.floor(lo / grid) <= want:
            grid = float('%.5g' % (grid * 0.98))
        lw = Work(dict(rec, grid_mm=grid), w.tag + 'large')
        src = states[pre]
        return lw, src, dict(form=form, grid=grid, pre=pre)
    span = max(rec['zeta']) - min(rec['zeta'])
    scale = int(math.ceil((want + 2) / span))
    lw = Work(dict(rec, zeta=[z * scale for z in rec['zeta']], grid_mm=1.0), w.tag + 'large')
    db, exc = load_record(lw)
    if exc is not None:
        return lw, None, dict(form=form, scale=scale)
    return lw, db, dict(form=form, scale=scale)


def check_large(w, states, out, case, rng, tier, forms=None, only=None):
    """LARGE-GRID stage of set-zeta-grid, oracle only (nothing of it goes to Coq: a trace of
    tens of thousands of statements is dominated by reading the literal; the model's protocol does
    not depend on the number of rows).  The level grid gets more levels than the round numbers
    software cuts its work at; (a) the shape of the fault-free trace, (b) faults at the points
    `large_points` selects x {exception; SQLite interrupt at every third}, SIGKILLs beyond row
    10000 and at the end, (b') kernel kills inside the commit with the limit in the LAST pages the
    step writes (a step that committed in pieces has then published its first pieces).
    only: (level, step, k, mode/spill/limit) of one reported case (replay)."""
    step = 'set-zeta-grid'
    for form, want in (forms if forms is not None else large_forms(tier, rng)):
        pre = 0 if form == 'scaled' else rng.randrange(0, 2)
        if only is not None and 'pre' in only['large']:
            pre = only['large']['pre']
        lw, src, how = large_setup(w, states, form, want, pre)
        how['want'] = want
        lcase = dict(case, large=how)
        if src is None:
            out.count('large-grid:%s:load-refused' % form)
            shutil.rmtree(lw.dir, ignore_errors=True)
            continue
        post_file = os.path.join(lw.dir, 'L2.sqlite3')
        shutil.copyfile(src, post_file)
        tr, exc = T.run_cli(lw.argv(step, post_file))
        if failed_cmd(tr, exc):
            out.violation('corr', 'large-grid stage: `%s` failed on the %s form: %s' % (step, form, exc), case=lcase)
            shutil.rmtree(lw.dir, ignore_errors=True)
            continue
        pre_dump, post_dump = D.dump(src), D.dump(post_file)
        n = len(post_dump['discrete_zeta'])
        out.count('large-grid:%s' % form)
        for r in (10000, 20000, 32768, 65536):
            if n > r:
                out.count('large-grid:levels>%d' % r)
        if n <= 10000:
            out.violation('corr', 'large-grid stage: the grid has only %d levels (wanted > %d)' % (n, want), case=lcase)
        lstates, ldumps, ltraces = {1: src, 2: post_file}, {1: pre_dump, 2: post_dump}, {step: tr}
        out.evaluations += 1
        # (a) shape, judged directly (no Coq case)
        ev, sql = tr.events, tr.sql
        nb, nc = sql.count('BEGIN'), sql.count('COMMIT')
        if not shape_py(ev) or nb != 1 or nc != 1 or sql[-1] != 'COMMIT' or 'ROLLBACK' in sql or tr.connections != 1:
            out.violation('oracle', '`%s` on a grid of %d levels (%s) is not ONE transaction committed last: events %s; '
                          'SQL trace %d BEGIN, %d COMMIT at positions %s of %d statements, %d connections (on small '
                          'grids the same command has the step shape)'
                          % (' '.join(lw.argv(step, 'DB')), n, describe_large(how), summarize(ev), nb, nc,
                             [i for i, s_ in enumerate(sql) if s_ == 'COMMIT'][:8], len(sql), tr.connections),
                          case=dict(lcase, level='shape', step=step))
        else:
            out.nontriv(('large-shape', lw.tag, n))
        # (b) faults
        ks, nrows = large_points(tr.points, rng)
        out.count('large-grid:fault-points-sampled', len(ks))
        out.count('large-grid:fault-points-total', len(tr.points))
        if only is not None and only['level'] == 'fault':
            ks = [int(only['k'])] if int(only['k']) < len(tr.points) else []
        seen = set()
        v0 = len(out.violations)
        if only is None or only['level'] == 'fault':
            for n_, k in enumerate(ks):
                modes = ['raise'] + (['interrupt'] if n_ % 3 == 0 else [])
                if only is not None:
                    modes = [only['mode']]
                for mode in modes:
                    seen.add(one_fault(lw, step, src, pre_dump, post_dump, tr.events, k, mode, out, lcase, None,
                                       tr.points[k], note=' on a grid of %d levels (%s; row %d of %d over all '
                                       'executemany calls)' % (n, describe_large(how), rows_before(tr.points, k),
                                                               nrows)))
                    if len(out.violations) > v0 + 2 * CK_REPORT_CAP:   # all are counted, the first ones listed
                        out.count('large-grid:fault-violations-only-counted', len(out.violations) - v0 - 2 * CK_REPORT_CAP)
                        del out.violations[v0 + 2 * CK_REPORT_CAP:]
                if tr.points[k][0] == 'row' and rows_before(tr.points, k) >= 10000:
                    out.count('large-grid:fault-beyond-row-10000')
            if only is None and not {'OPre', 'OPost'} <= seen:
                out.violation('corr', 'large-grid fault sample of `%s` never produced both outcomes (%s)'
                              % (step, sorted(seen)), case=lcase)
        # SIGKILL: beyond row 10000 (cache / spilling cache), and after the publishing action
        rowpts = [k for k in range(len(tr.points)) if tr.points[k][0] == 'row']
        late = rowpts[10001:] or rowpts
        if only is None:
            jobs = [(step, src, rng.choice(late), False, None, ''), (step, src, rng.choice(late), True, None, ''),
                    (step, src, len(tr.points) - 1, False, None, '')]
            if tier != 'quick':
                jobs += [(step, src, rng.choice(rowpts), True, None, ''), (step, src, rowpts[min(10000, len(rowpts) - 1)],
                                                                          True, None, '')]
        elif only['level'] == 'kill':
            jobs = [(step, src, int(only['k']), bool(only.get('spill')), None, '')]
        else:
            jobs = []
        jobs = [(s_, f, k, sp, tr.points[k], o) for s_, f, k, sp, _, o in jobs if k < len(tr.points)]
        if jobs:
            check_kills(lw, jobs, ldumps, {}, out, lcase, None)
        # (b') kernel kills inside the commit, limit in the last pages the step writes
        if only is None or only['level'] == 'commit-kill':
            ps, dirty, _ = commit_kill_limits(src, post_file, rng, 1)
            inner = [d for d in dirty if d > 1]
            if only is not None:
                limits = [int(only['limit'])]
            elif inner:
                limits = sorted({(inner[-1] - 1) * ps, (inner[-1] - 1) * ps + ps // 2 - 8,
                                 (rng.choice(inner[len(inner) // 2:]) - 1) * ps})
            else:
                limits = []
            if limits:
                check_commit_kills(lw, lstates, ldumps, ltraces, out, lcase, None, rng,
                                   only=[(step, l, '') for l in limits], steps=[step])
        shutil.rmtree(lw.dir, ignore_errors=True)


def rows_before(points, k):
    return sum(1 for kind, _ in points[:k] if kind == 'row')


def describe_large(how):
    if how['form'] == 'fine':
        return 'the record as generated, level step %r mm, dataset %s' % (how['grid'], 'after load' if how['pre'] == 0
                                                                         else 'after classify')
    return 'every level of the record multiplied by %d, level step 1 mm, dataset after load' % how['scale']


# ------------------------------------------------------------------ (c) histories

def failing_attempt(w, db, rng, done, traces, out, case, coq):
    """Make one attempt that must fail on `db` and check it left no trace."""
    before = D.dump(db)
    kind = rng.choice(['raise', 'interrupt', 'natural', 'natural', 'raise'])
    step = rng.choice(STEPS)
    if kind == 'natural':
        # re-run a completed step, or run a curve step whose inputs are missing
        cands = [s for s in done] + [s for s in CURVES if not set(SETUP[:2]) <= set(done)]
        if not cands:
            kind = 'raise'
        else:
            step = rng.choice(cands)
    if kind == 'natural':
        tr, exc = T.run_cli(w.argv(step, db))
        label = 'natural failure of `%s`' % step
        if exc is None:
            out.violation('corr', 'expected `%s` to fail here (done=%s)' % (step, done), case=case)
            return
    else:
        cands = [s for s in STEPS if s not in done]
        step = rng.choice(cands) if cands else step
        pts = traces[step].points
        publish = min(i for i, (kd, _) in enumerate(pts) if kd in ('commit-before', 'exit-before'))
        k = rng.randrange(0, publish + 1)
        tr, exc = T.run_cli(w.argv(step, db), at=k, mode=kind, fast=True)
        label = '%s fault at point %d of `%s`' % (kind, k, step)
    after = D.dump(db)
    out.evaluations += 1
    out.count('history-attempt:%s:%s' % (kind, type(exc).__name__))
    if exc is None:
        return 'ran'  # fault point beyond what the step does in this state: it completed
    if after != before:
        out.violation('oracle', 'a failed attempt (%s, raised %s) changed the dataset: tables %s'
                      % (label, type(exc).__name__, diff_tables(after, before)), case=case)
    try:
        coq['txn'].append(('(%s, %s, %s, OPre)' % (cevs(traces[step].events), cevs(tr.events),
                                                  'None' if kind == 'interrupt' else '(Some %s)' % csql(tr.sql)),
                           case, '%s attempt=%s sql=%s' % (label, summarize(tr.events), summarize_sql(tr.sql))))
    except ValueError as e:
        out.violation('oracle', 'history attempt: %s' % e, case=case)
    return 'failed'


def argument_attempt(w, db, nrng, out, case):
    """One attempt with a mistyped argument (any step, any state of the history).  If the
    command fails it must have left no trace; if it is accepted the history is no longer the
    one under test (returns 'ran')."""
    step = nrng.choice(STEPS)
    flag, value = nrng.choice(natural_variants(w, step))
    copy = db + '.before'
    shutil.copyfile(db, copy)
    before = D.dump(db)
    argv = with_arg(w.argv(step, db), flag, value)
    tr, exc = T.run_cli(argv, fast=True)
    out.evaluations += 1
    if not failed_cmd(tr, exc):
        out.count('history-attempt:argument:accepted')
        shutil.copyfile(copy, db)   # not a failed attempt: take it out of the history
        os.remove(copy)
        return
    os.remove(copy)
    out.count('history-attempt:argument:%s' % ('SystemExit' if isinstance(exc, SystemExit) else
                                                type(exc).__name__ if exc is not None else 'status'))
    after = D.dump(db)
    pr = exit_kind_problem(tr, exc)
    if after != before:
        out.violation('oracle', 'a failed attempt (`%s`, %s) in the middle of a history changed the dataset: tables %s%s'
                      % (' '.join(['spowtd'] + [a if a != db else 'DB' for a in argv]),
                         type(exc).__name__ if exc is not None else 'status %s' % tr.rc,
                         diff_tables(after, before), '; ' + pr if pr else ''),
                      case=dict(case, attempt=[step, flag, value]))


def repeat_attempt(w, db, rrng, done, out, case):
    """In the middle of a history: a step that has been run is attempted AGAIN with other
    valid-looking arguments.  It must be refused and leave no trace (an accepted one is reported
    and taken out of the history)."""
    if not done:
        return
    step = rrng.choice(sorted(done))
    flag, value = rrng.choice(repeat_variants(w, step))
    copy = db + '.before'
    shutil.copyfile(db, copy)
    before = D.dump(db)
    argv = with_arg(w.argv(step, db), flag, value)
    tr, exc = T.run_cli(argv, fast=True)
    after = D.dump(db)
    out.evaluations += 1
    shown = ' '.join(['spowtd'] + [a if a != db else 'DB' for a in argv])
    c = dict(case, attempt=[step, flag, value])
    if not failed_cmd(tr, exc):
        out.count('history-attempt:repeat:ACCEPTED')
        out.violation('oracle', 'in the middle of a history (steps run so far: %s) the repeated attempt `%s` was ACCEPTED '
                      'although `%s` had already been run (a second run of a step must be refused and change nothing); '
                      '%s' % (list(done), shown, step, 'tables %s changed' % diff_tables(after, before)
                              if after != before else 'the dataset is unchanged'), case=c)
        shutil.copyfile(copy, db)
    else:
        out.count('history-attempt:repeat:%s' % (type(exc).__name__ if exc is not None else 'status'))
        if after != before:
            out.violation('oracle', 'the refused repeated attempt `%s` (%s) in the middle of a history changed the dataset: '
                          'tables %s' % (shown, type(exc).__name__ if exc is not None else 'status %s' % tr.rc,
                                         diff_tables(after, before)), case=c)
    os.remove(copy)


def check_orders(w, states, dumps, traces, out, case, coq, rng, nfail=2, nrng=None, rrng=None):
    for group, start, want in ((SETUP, 0, 3), (CURVES, 3, 5)):
        finals = {}
        for order in itertools.permutations(group):
            db = w.fresh(states[start])
            done = list(STEPS[:start])
            c = dict(case, level='order', order=list(order))
            ok = True
            for step in order:
                for _ in range(nrng.randrange(0, 3) if nrng is not None else 0):
                    argument_attempt(w, db, nrng, out, c)
                for _ in range(rng.randrange(0, nfail + 1)):
                    r = failing_attempt(w, db, rng, done, traces, out, c, coq)
                    if r == 'ran':
                        ok = False
                if not ok:
                    break
                tr, exc = T.run_cli(w.argv(step, db))
                if exc is not None:
                    out.violation('oracle', '`%s` raised %s: %s in the order %s after failed attempts (it succeeds '
                                  'in the canonical order)' % (step, type(exc).__name__, exc, list(order)), case=c)
                    ok = False
                    break
                done.append(step)
                if rrng is not None and rrng.random() < 0.5:
                    repeat_attempt(w, db, rrng, done, out, c)
            if not ok:
                continue
            for _ in range(rng.randrange(0, nfail + 1)):
                failing_attempt(w, db, rng, done, traces, out, c, coq)
            for _ in range(nrng.randrange(0, 2) if nrng is not None else 0):
                argument_attempt(w, db, nrng, out, c)
            got = D.dump(db)
            out.evaluations += 1
            out.count('order:' + '>'.join(order))
            finals[order] = got
            if got != dumps[want]:
                out.violation('oracle', 'running %s in the order %s (with failed attempts in between) gives a dataset '
                              'different from the order %s: tables %s'
                              % (group, list(order), group, diff_tables(got, dumps[want])), case=c)
            else:
                out.nontriv(('order', w.tag, order))
            os.remove(db)


# ------------------------------------------------------------------ driver

def run_coq(coq, out):
    for name, ctype, fn in (('txn', 'list cev * list cev * option (list sqlstmt) * outcome', 'txn_case_ok'),
                            ('shape', 'list cev * list sqlstmt', 'shape_case_ok'),
                            ('tables', 'stepid * list tbl * list tbl', 'tables_case_ok')):
        items = coq[name]
        if not items:
            continue
        bad, errs, _ = C.run_case_shards(PROP, 'coq_' + name, PRE, ctype, fn, [s for s, _, _ in items], shard=150)
        out.corr_errors += errs
        for i in bad:
            _, c, text = items[i]
            out.violation('corr', 'Coq model (Model/Txn.v, %s) disagrees with the implementation: %s'
                          % (fn, text), case=c)


def check_dataset(rec, tag, out, rng, tier, coq, limit=None, kills=8, kill_all=False, orders=True,
                  ckills=2, ckills_fine=None, fine=False, seed=0, natural=0.15, large=None, shifted=None):
    """ckills / ckills_fine: kills inside the commit per step on the dataset as it is / on its
    fine-grid variant (None: every limit; 0: none)."""
    w = Work(rec, tag)
    case = dict(rec=rec)
    can = canonical(w, out, case)
    if can is None:
        out.violation('corr', 'dataset %s does not carry the whole workflow' % tag, case=case)
        return
    states, dumps, traces = can
    out.count('dataset')
    out.count('fault-points', sum(len(traces[s].points) for s in STEPS))
    check_shape(w, traces, out, case, coq)
    arng = C.rng_for(seed, PROP, 'after-kill', tag)   # which command touches the file first after a kill
    check_faults(w, states, dumps, traces, out, case, coq, rng, limit=limit, kills=kills, kill_all=kill_all,
                 arng=arng)
    if natural:
        check_natural(w, states, dumps, traces, out, case, coq, C.rng_for(seed, PROP, 'natural', tag), share=natural,
                      rrng=C.rng_for(seed, PROP, 'repeat', tag))
    for n_, want in enumerate(shifted or []):
        # repeated attempts on the same record moved as a whole (below / above / across zero)
        srng = C.rng_for(seed, PROP, 'shifted', tag, n_)
        lo, hi = level_bounds(states[0])
        kinds = [k for k in ('crosses-zero', 'all-negative', 'all-positive') if k != record_kind(lo, hi)]
        if want == 'opposite':
            want = 'crosses-zero' if 'crosses-zero' in kinds else srng.choice(kinds)
        elif want == 'other':
            want = kinds[-1]
        elif want == 'far':     # off zero by more than its own span, whatever the record was
            want = srng.choice(['all-negative', 'all-positive'])
        sw = Work(shifted_record(rec, srng, want), '%s-%s' % (tag, want))
        scan = canonical(sw, out, None)
        if scan is None:
            out.violation('corr', 'the record of %s moved to %s does not carry the whole workflow' % (tag, want),
                          case=dict(rec=sw.rec))
        else:
            check_natural(sw, scan[0], scan[1], scan[2], out, dict(rec=sw.rec), coq, srng, share=natural or 0.25,
                          rrng=srng, repeats_only=True)
        shutil.rmtree(sw.dir, ignore_errors=True)
    crng = C.rng_for(seed, PROP, 'commit-kill', tag)  # own stream: the older stages keep their draws
    if ckills != 0:
        check_commit_kills(w, states, dumps, traces, out, case, coq, crng, per_step=ckills, arng=arng)
    if fine:
        fv = fine_variant(w, out)
        if fv is not None:
            fw, fstates, fdumps, ftraces = fv
            check_commit_kills(fw, fstates, fdumps, ftraces, out, dict(rec=fw.rec), coq, crng, per_step=ckills_fine,
                               arng=arng)
            shutil.rmtree(fw.dir, ignore_errors=True)
    if orders:
        check_orders(w, states, dumps, traces, out, case, coq, rng,
                     nrng=C.rng_for(seed, PROP, 'natural-history', tag) if natural else None,
                     rrng=C.rng_for(seed, PROP, 'repeat-history', tag) if natural else None)
    if large:
        check_large(w, states, out, case, C.rng_for(seed, PROP, 'large', tag), large)
    shutil.rmtree(w.dir, ignore_errors=True)


def run(ctx, out):
    C.import_spowtd()
    seed, tier = ctx['seed'], ctx['tier']
    rng = C.rng_for(seed, PROP)
    coq = dict(txn=[], shape=[], tables=[])
    nds = 2 if tier == 'quick' else 10
    recs = []
    for i in range(nds):
        rec = valid_record(C.rng_for(seed, PROP, 'ds', i), out, size='small' if i % 3 != 2 else 'medium',
                           gaps=[1, 0, 2][i % 3])  # several gap-free stretches: classify loops over them
        recs.append(rec)
        full = tier == 'thorough' and i < 2
        # kills inside the commit.  quick: 2 per step on ds0's fine-grid variant (its commits make the
        # file grow) and 2 per step on ds1 as it is; thorough: every limit on both forms of ds0 and ds1,
        # 2 per step on the others (even ones on the fine grid)
        check_dataset(rec, 'ds%d' % i, out, rng, tier, coq, kills=12 if tier == 'quick' else 20, kill_all=full,
                      seed=seed, fine=full or i % 2 == 0, natural=1.0 if full else 0.25,
                      ckills=None if full else 0 if i % 2 == 0 else 2, ckills_fine=None if full else 2,
                      large=tier if i in (1, 4) else None,
                      shifted=['opposite', 'other'] if full else ['opposite'] if i % 2 == 0 else ['far'])
    if tier == 'thorough':
        check_dataset(dict(sample=1), 'sample1', out, rng, tier, coq, limit=10, kills=5, orders=False,
                      seed=seed, ckills=2, natural=0)   # (b'') not on the field sample: seconds per command
    run_coq(coq, out)
    if not any(k.startswith('repeat:set-zeta-grid:level-sets-disjoint:all-') for k in out.dist):
        out.violation('corr', 'no repeated set-zeta-grid attempt had level numbers disjoint from those of the grid '
                      'already set (records off zero): generator miss', case=None)
    if not any(k.startswith('repeat:set-zeta-grid:level-sets-overlap:crosses-zero') for k in out.dist):
        out.violation('corr', 'no repeated set-zeta-grid attempt on a record crossing zero: generator miss', case=None)
    if not out.dist.get('large-grid:levels>%d' % (10000 if tier == 'quick' else 20000)):
        out.violation('corr', 'no level grid beyond %d levels was exercised: generator miss'
                      % (10000 if tier == 'quick' else 20000), case=None)
    out.rule = ('Datasets: synthetic saw-tooth records (storms with fast rises, dry recessions, overlapping in '
                'level) on which load..recession all succeed%s. Every fault point of every step x {exception, '
                'SQLite interrupt} in-process; SIGKILL of a CLI subprocess at sampled points (all points for 2 '
                'datasets in thorough), with and without a spilling one-page cache; kills by the kernel INSIDE '
                'the commit: the plain command line under RLIMIT_FSIZE with SIGXFSZ at its default action, the '
                'limit placed before / in the middle of pages the commit writes (2 limits per step on one dataset as '
                'generated and on a fine level grid (<= 0.07 mm) of the other, whose commits make the file grow; every '
                'dirty page, torn page and page boundary for 2 datasets in thorough), followed by PRAGMA '
                'integrity_check, dump in {before, complete}, re-run; the phase hit is measured from the files left '
                'behind (histogram kill-in-commit:<phase>:<outcome>); after every kill of either kind the harness '
                'opens only a COPY of (dataset file, -journal), and on the original the next thing to touch the file '
                'is the spowtd command line (the step again, in ~45%% of the kills first another command of the '
                'workflow, then the rest of the workflow): kill:then-cli:*, *:hot-journal-recovered-by-cli; '
                'failures caused by the arguments (every real argument of every step x {0, -0.0, nan, +-inf, '
                'negative, denormal, huge, non-numeric, empty}, reference levels off the grid / outside the curve) '
                'before the step, after it and (sampled) in every other state including ones lacking an earlier '
                'step: natural:failed:<step>:<todo|done>:<exception>, natural:accepted:* = accepted by the command, '
                'not a failed attempt; REPEATED attempts: on every dataset that has a step, the same command with OTHER '
                'valid-looking arguments (level step x{2,.5,5,.2,3,10,.1,1.5,.3,1000,-1,-2.5}, other curvature, thresholds, '
                'reference levels on the grid) - right after the step, on the completed dataset, sampled elsewhere, and '
                'inside the histories - must be refused, change nothing and leave the completed workflow canonical (an '
                'acceptance is a violation, reported with whether the dataset is unchanged / replaced / a blend); run on '
                'the record as generated and on the same record moved as a whole across zero resp. off zero by more than '
                'its span, with the MEASURED relation of the two grids\' level numbers (repeat:set-zeta-grid:level-sets-'
                'disjoint|overlap|new-grid-empty:<all-negative|all-positive|crosses-zero>); LARGE-GRID stage of '
                'set-zeta-grid, ORACLE ONLY (nothing of it is sent to Coq: reading a literal of >10^4 statements would '
                'dominate, and the model\'s protocol does not depend on the number of rows): one dataset per quick run '
                'with > 10000 levels (thorough: two datasets x {> 20000 fine step, > 10000 and > 65536 as a record '
                'spanning tens of metres at 1 mm, > 32768 fine step}; sizes never multiples of 1000/1024), shape of the '
                'trace, exception / interrupt at every non-row point and at the rows numbered 1000, 1024, 4096, 8192, '
                '10000, 16384, 20000, 32768, 65536, ... +-1 (within their executemany call and over all calls), first / '
                'last rows and drawn rows beyond 10000, SIGKILLs beyond row 10000 and at the end, kernel kills inside the '
                'commit with the limit in the last pages written (large-grid:*); all orders of the '
                'independent steps with failed attempts interleaved. Non-trivial: a fault that actually fired '
                'with work to undo and left the previous content (distinct by dataset, step, point, kind), a '
                'kill whose hot journal was replayed (for kills inside the commit: the dataset file had changed, '
                'a journal file was present, opening the file restored the previous content and removed the '
                'journal; distinct by dataset, step, set of pages that had reached the file, torn pages), '
                'a kill after which a non-empty journal and a changed dataset file were left and the spowtd command '
                'line (not the harness) was the first to open the file and left it sound without the journal, '
                'an argument-induced failure that had issued at least one write and left the previous content, '
                'an order whose final dump equals the canonical one.'
                % (' plus field sample 1 (10 sampled fault points per step)' if tier == 'thorough' else ''))
    out.samples = [dict(level='dataset', record=recs[0])]
    out.assumptions += [
        'SQLite journalling / hot-journal recovery and the sqlite3 module are exercised by fault enumeration, '
        'not proved; the theorems cover the protocol (one transaction, commit last)',
        'SIGKILL is delivered by the process to itself at the chosen statement boundary (a real SIGKILL)',
        'kills inside the commit are placed by a file size limit: the kernel kills the plain CLI process at a '
        'write() of the journal or of the dataset file (whole pages and torn pages); kills between two system '
        'calls that write nothing (fsync, unlink of the journal = the commit point itself) and loss of power '
        '(unsynced data lost, reordered writes) are not produced',
        'equality of datasets = equality of the logical dump of all tables (harness.dataset.dump)']


def replay(case, out):
    C.import_spowtd()
    rng = C.rng_for(0, PROP, 'replay')
    coq = dict(txn=[], shape=[], tables=[])
    rec = case['rec']
    level = case.get('level')
    if 'large' in case:
        w = Work(rec, 'replay')
        can = canonical(w, out, case)
        if can is None:
            out.violation('corr', 'replay: the dataset does not carry the whole workflow', case=case)
            return
        check_large(w, can[0], out, dict(rec=rec), rng, 'quick', forms=[(case['large']['form'], case['large']['want'])],
                    only=case)
        shutil.rmtree(w.dir, ignore_errors=True)
        return
    if level in ('commit-kill', 'natural') or (level == 'kill' and 'other' in case):
        # exactly the reported attempt (same fault point / size limit / arguments, same command
        # touching the file afterwards)
        w = Work(rec, 'replay')
        can = canonical(w, out, case)
        if can is None:
            out.violation('corr', 'replay: the dataset does not carry the whole workflow', case=case)
            return
        states, dumps, traces = can
        if level == 'natural':
            check_natural(w, states, dumps, traces, out, dict(rec=rec), coq, rng,
                          only=[(case['step'], case['state'], case['variant'][0], case['variant'][1])])
        elif level == 'kill':
            step, k = case['step'], int(case['k'])
            tr = traces[step]
            if k >= len(tr.points):
                out.violation('corr', 'replay: `%s` has no fault point %d' % (step, k), case=case)
            else:
                events = {s_: (traces[s_].events, traces[s_].points, index_points(traces[s_])) for s_ in STEPS}
                check_kills(w, [(step, states[STEPS.index(step)], k, bool(case.get('spill')), tr.points[k],
                                 case.get('other') or '')], dumps, events, out, dict(rec=rec), coq)
        else:
            check_commit_kills(w, states, dumps, traces, out, dict(rec=rec), coq, rng,
                               only=[(case['step'], int(case['limit']), case.get('other') or '')])
        run_coq(coq, out)
        shutil.rmtree(w.dir, ignore_errors=True)
        return
    check_dataset(rec, 'replay', out, rng, 'quick', coq, limit=10 if 'sample' in rec else None,
                  kills=12, orders='sample' not in rec, kill_all=(case.get('level') == 'kill' and 'sample' not in rec),
                  natural=0 if 'sample' in rec else 0.25)
    run_coq(coq, out)
