"""C03 — storms and rises are maximal above-threshold runs; depth view."""
from harness import common as C
from harness import classify_common as K
from harness import gen_classify as G

PROP = 'C03'
MODELS = ['Model/ClassifyData.vo', 'Model/DepthView.vo', 'Model/ClassifyCommand.vo']   # .vo files the generated case files import
KEEP = {'C03'}


def run(ctx, out):
    C.import_spowtd()
    seed, tier = ctx['seed'], ctx['tier']
    rng = C.rng_for(seed, PROP)
    n_ms, n_cl = (2500, 200) if tier == 'quick' else (25000, 2000)
    classes = ['threshold', 'edges', 'events', 'gappy', 'random', 'allrain', 'long_storm']
    recs = [G.gen_record(rng, classes[k % len(classes)], nmax=30) for k in range(n_ms)]
    K.check_ms(recs, out, KEEP, PROP, 'ms')
    recs_cl = [G.gen_record(rng, classes[k % len(classes)]) for k in range(n_cl)]
    # every 4th record with a 2-3x finer water level series, outages and mostly an island of readings between two
    # outages (stored data-interval numbers with a hole); own stream, the records are otherwise unchanged
    # (every second refined record: outages opening / closing at readings off the rainfall grid, with heavy rain and a
    # rise running into and out of them - stream of its own; recorded intervals are judged against the gaps of the
    # water-level record as written to the input file, K.oracle_source_gaps)
    recs_cl = G.fine_share(recs_cl, C.rng_for(seed, PROP, 'fine'), run_in_rng=C.rng_for(seed, PROP, 'run-in'))
    # rises whose foot increments equal one of the roundings of threshold x step (see c01.py); stream of its own
    rng_u = C.rng_for(seed, PROP, 'ulp')
    recs_foot = [G.gen_foot_record(rng_u) for _ in range(20 if tier == 'quick' else 200)]
    K.count_foot(recs_foot, out)
    K.check_cl(recs_cl + recs_foot, out, KEEP, PROP, 'cl')
    out.rule = ('MS: records with threshold-equal and one-ulp-off intensities / increments, runs of length one, '
                'runs touching either end, through match_storms; CL: the same through the CLI with gaps, comparing '
                'tables storm, zeta_interval, zeta_interval_storm and the view storm_total_rain_depth; water level logged '
                '2-3x finer than rainfall with outages opening / closing at readings off the rainfall grid and heavy rain + '
                'a rise running into and out of them, every recorded storm / rise judged against the gaps of the '
                'water-level record as written to the input file; rises whose foot increments equal one of the roundings '
                'of threshold x step. '
                'Non-trivial: contention and >= 1 recorded pair; distinct by flag vectors.')
    out.samples = [dict(level='MS', record=recs[0]), dict(level='CL', record=recs_cl[3])]
    out.assumptions += ['SQLite SUM order: depth compared within 1e-9 relative (exact rational model)']


def replay(case, out):
    C.import_spowtd()
    K.replay_case(case, out, KEEP, PROP)
