"""C03 — storms and rises are maximal above-threshold runs; depth view."""
from harness import common as C
from harness import classify_common as K
from harness import gen_classify as G

PROP = 'C03'
MODELS = ['Model/ClassifyData.vo', 'Model/DepthView.vo', 'Model/ClassifyCommand.vo']   # .vo files the generated case files import
KEEP = {'C03'}


def run(ctx, out):
    C.import_spowtd()
    seed, tier = ctx['seed'], ctx['tier']
    rng = C.rng_for(seed, PROP)
    n_ms, n_cl = (2500, 200) if tier == 'quick' else (25000, 2000)
    classes = ['threshold', 'edges', 'events', 'gappy', 'random', 'allrain', 'long_storm']
    recs = [G.gen_record(rng, classes[k % len(classes)], nmax=30) for k in range(n_ms)]
    K.check_ms(recs, out, KEEP, PROP, 'ms')
    recs_cl = [G.gen_record(rng, classes[k % len(classes)]) for k in range(n_cl)]
    # every 4th record with a 2-3x finer water level series, outages and mostly an island of readings between two
    # outages (stored data-interval numbers with a hole); own stream, the records are otherwise unchanged
    # (every second refined record: outages opening / closing at readings off the rainfall grid, with heavy rain and a
    # rise running into and out of them - stream of its own; recorded intervals are judged against the gaps of the
    # water-level record as written to the input file, K.oracle_source_gaps)
    recs_cl = G.fine_share(recs_cl, C.rng_for(seed, PROP, 'fine'), run_in_rng=C.rng_for(seed, PROP, 'run-in'))
    # rises whose foot increments equal one of the roundings of threshold x step (see c01.py); stream of its own
    rng_u = C.rng_for(seed, PROP, 'ulp')
    recs_foot = [G.gen_foot_record(rng_u) for _ in range(20 if tier == 'quick' else 200)]
    K.count_foot(recs_foot, out)
    # every 5th record dated where epochs leave the 32-bit range (around 2038 / 2106 / 1901, centuries away); own stream
    recs_cl = G.far_share(recs_cl, C.rng_for(seed, PROP, 'far'))
    # environment stage: a few records once more through load + classify in a child process (python -O twice, one other
    # variant of harness.envcheck), judged like the rest and compared with the default in-process run
    recs_env = K.env_records(recs_cl, C.rng_for(seed, PROP, 'env'), seed, n_opt=2, n_other=1)
    K.check_cl(recs_cl + recs_foot + recs_env, out, KEEP, PROP, 'cl')
    large_stage(seed, tier, out)
    out.rule = ('MS: records with threshold-equal and one-ulp-off intensities / increments, runs of length one, '
                'runs touching either end, through match_storms; CL: the same through the CLI with gaps, comparing '
                'tables storm, zeta_interval, zeta_interval_storm and the view storm_total_rain_depth; water level logged '
                '2-3x finer than rainfall with outages opening / closing at readings off the rainfall grid and heavy rain + '
                'a rise running into and out of them, every recorded storm / rise judged against the gaps of the '
                'water-level record as written to the input file; rises whose foot increments equal one of the roundings '
                'of threshold x step; every 5th CL record dated beyond the 32-bit range of epochs; environment stage: 3 '
                'records through load + classify in a child process (python -O twice, one of TZ=.. / -vvv / other directory '
                '/ random hash seed), judged alike and compared with the default run; LARGE-INPUT stage, oracle only (nothing '
                'of it is sent to Coq: reading the literals would dominate): gap-free records of 8300-20000 samples (sizes '
                'that are not multiples of a block size) through the CLI, with a storm and a rise laid across every sample '
                'index that is a multiple of 1000 / 1024 / 4096 / 8192 / 10000 / 16384 or of one less (blocks sharing a '
                'sample), judged by the same oracle (maximal runs, pairing rows, rain depth). '
                'Non-trivial: contention and >= 1 recorded pair; distinct by flag vectors.')
    out.samples = [dict(level='MS', record=recs[0]), dict(level='CL', record=recs_cl[3])]
    out.assumptions += ['SQLite SUM order: depth compared within 1e-9 relative (exact rational model)']


def large_stage(seed, tier, out):
    """Records longer than the round sizes a program may cut a data interval at, with storms and rises ACROSS the cuts."""
    rng = C.rng_for(seed, PROP, 'large')
    if tier == 'quick':
        sizes = [G.odd_size(rng, 8300, 12000), G.odd_size(rng, 16500, 20000)]
    else:
        sizes = [G.odd_size(rng, 8300, 12000), G.odd_size(rng, 16500, 20000), G.odd_size(rng, 4100, 8190),
                 G.odd_size(rng, 20000, 34000), G.odd_size(rng, 1030, 4090), G.odd_size(rng, 66000, 70000)]
    recs = [G.gen_edges_spec(rng, n, density=(0.04 if n < 40000 else 0.01)) for n in sizes]
    K.check_cl(recs, out, KEEP, PROP, 'cl_large', coq=False)


def replay(case, out):
    C.import_spowtd()
    K.replay_case(case, out, KEEP, PROP)
