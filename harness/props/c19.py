"""C19 — calibration files and simulation output describe the same problem.

Proof side: coq/Properties/C19.v over coq/Model/Pest.v (the six generators of
spowtd/pestfiles.py as functions to lines; PEST as a reader of template /
instruction / control files, modelled from the PEST manual — PEST is not
installed).

Runtime side (this file):
* correspondence: for many (dataset, parameter file) pairs — datasets built
  through the real CLI up to rise + recession; both parameterisations (and the
  two mixed ones), 2-9 knots, values over 30 orders of magnitude — the text written
  by `spowtd pestfiles rise|curves DB PAR tpl|ins|pst` is compared line by line,
  byte for byte, with the Coq model evaluated by vm_compute; the Coq PEST
  readers are evaluated on the same files and compared with their Python twins
  below (which the end-to-end oracle uses);
* oracles, directly on the implementation's files: declared counts = section
  lengths; control-file parameter names = template placeholders (case-insensitive);
  observation k of the .pst == measured master-curve value at the k-th level, bit
  for bit; `spowtd simulate rise/recession --observations` read through the
  generated instruction file gives exactly the simulator's floats, at the same
  levels; the same with the curve computation stubbed so that the simulator
  prints arbitrary finite floats (every value it can print); filling the
  template with the original values and loading the result with YAML gives the
  original parameters;
* contracts of the float <-> text oracles, tested on many floats each run;
* size (oracles only, nothing handed to Coq): one dataset per quick run whose two
  master curves have more than 1024 levels each (thorough: 1000 .. 8192), through
  every oracle above.

Known findings (listed by the lead in known_findings.json):
  C19/ins-width     columns 3:24 lose characters of a printed value of 23+ characters
  C19/tpl-exponent  a fixed template value printed by str() as `1e-05` (exponent,
                    no dot) is read back by YAML as a string
"""
import io
import math
import os
import re
import struct

import yaml

from harness import common as C
from harness import dataset as D
from harness import gen_pest as GP

PROP = 'C19'
MODELS = ['Model/Util.vo', 'Model/Pest.vo']
PRE = 'From Coq Require Import String.\nFrom Spowtd Require Import Model.Util Model.Pest.\nOpen Scope string_scope.\nOpen Scope list_scope.\n'
SIG_WIDTH = 'C19/ins-width'
SIG_TPL = 'C19/tpl-exponent'


# ------------------------------------------------------------------ oracles' contracts

def fmt17(v):
    return '%.17g' % v


def yaml_float(v):
    """PyYAML's representation of a float in a block sequence."""
    return yaml.dump([v]).strip()[2:]


def yaml_reads_number(text):
    v = yaml.safe_load(text)
    return v if isinstance(v, (int, float)) and not isinstance(v, bool) else None


def exponent_without_dot(text):
    return 'e' in text and '.' not in text


def wild_float(rng):
    kind = rng.randrange(8)
    if kind == 0:
        return struct.unpack('<d', struct.pack('<Q', rng.getrandbits(64)))[0]
    if kind == 1:
        return float(rng.randrange(-1000, 1000))
    if kind == 2:
        return rng.choice([1, -1]) * rng.random() * 10.0 ** rng.randrange(-15, 16)
    if kind == 3:
        return rng.choice([1, -1]) * float('%de%d' % (rng.randrange(1, 10), rng.randrange(-20, 20)))
    if kind == 4:
        return rng.choice([1, -1]) * rng.choice([5e-324, 2.2250738585072014e-308, 1.7976931348623157e308,
                                                 1e-5, 1e-4, 9.999999999999999e-05, 1e16, 1e15, 0.0])
    if kind == 5:
        return -(1 + rng.random()) * 10.0 ** rng.randrange(-12, -4)   # negative, 17 digits, exponent
    if kind == 6:
        return round(rng.uniform(-500, 500), rng.randrange(0, 5))
    return rng.uniform(-300, 300)


def finite(v):
    return v == v and v not in (float('inf'), float('-inf'))


def check_contracts(rng, out, n):
    bad_str = 0
    for _ in range(n):
        v = wild_float(rng)
        if not finite(v):
            continue
        out.evaluations += 1
        out.count('contract')
        case = dict(level='contract', value=v.hex())
        t = fmt17(v)
        if float(t) != v or ' ' in t or math.copysign(1, float(t)) != math.copysign(1, v):
            out.violation('oracle', "'{:0.17g}' does not round-trip %r: %s" % (v, t), case=case)
        y = yaml_float(v)
        back = yaml.safe_load('- ' + y)[0]
        if not isinstance(back, float) or back != v:
            out.violation('oracle', 'PyYAML float writer/reader do not round-trip %r: %s -> %r' % (v, y, back),
                          case=case)
        if float(y) != v or ' ' in y:
            out.violation('oracle', 'float() does not read the YAML text %s of %r' % (y, v), case=case)
        if y != (repr(v) if not exponent_without_dot(repr(v)) else repr(v).replace('e', '.0e')):
            out.violation('corr', 'PyYAML float text of %r is %s, not repr with the ".0" repair' % (v, y), case=case)
        s = str(v)
        r = yaml_reads_number(s)
        ok = r is not None and float(r) == v
        # contract of str() as a writer of YAML numbers: holds exactly outside the class e-without-dot
        if ok == exponent_without_dot(s):
            out.violation('corr', 'str(%r) = %s: YAML reads %r; the stated class (exponent without dot <=> not '
                          'read back as a number) does not describe this' % (v, s, yaml.safe_load(s)), case=case)
        if not ok:
            bad_str += 1
        if len(y) > 22:
            out.count('contract:yaml-text>22')
    out.count('contract:str-not-yaml-number', bad_str)


# ------------------------------------------------------------------ Python twins of the Coq PEST readers

def py_trim(s):
    return s.strip(' ')


def py_placeholders(lines):
    if not lines or lines[0] != 'ptf @':
        raise ValueError('not a template file')
    out = []
    for l in lines[1:]:
        parts = l.split('@')
        # text between the 1st and 2nd delimiter, the 3rd and 4th, ...; an unterminated
        # space is dropped (as the Coq scanner does)
        for i in range(1, len(parts) - 1, 2):
            out.append(py_trim(parts[i]))
    return out


def py_fill(lines, val):
    """Fill a template; val maps a LOWER-CASED name to its text (PEST names are
    case-insensitive). None if a text does not fit its space."""
    if not lines or lines[0] != 'ptf @':
        return None
    res = []
    for l in lines[1:]:
        parts = l.split('@')
        if len(parts) % 2 == 0:
            return None
        o = parts[0]
        for i in range(1, len(parts), 2):
            w = len(parts[i]) + 2
            v = val(py_trim(parts[i]))
            if len(v) > w:
                return None
            o += v.ljust(w) + parts[i + 1]
        res.append(o)
    return res


INS_RE = re.compile(r'^l(\d+) \[([^\]]*)\](\d+):(\d+)$')


def py_ins_read(ins, out):
    if not ins or ins[0] != 'pif @':
        raise ValueError('not an instruction file')
    pos = 0  # index of the first line after the cursor
    res = []
    for i in ins[1:]:
        if i.startswith('@') and i.endswith('@') and len(i) >= 2 and '@' not in i[1:-1]:
            text = i[1:-1]
            while pos < len(out) and text not in out[pos]:
                pos += 1
            if pos >= len(out):
                raise ValueError('marker not found: ' + text)
            pos += 1
            continue
        m = INS_RE.match(i)
        if not m:
            raise ValueError('instruction not understood: ' + i)
        n, name, c1, c2 = int(m.group(1)), m.group(2), int(m.group(3)), int(m.group(4))
        if n < 1 or c1 < 1 or c1 > c2:
            raise ValueError('bad instruction ' + i)
        pos += n - 1
        if pos >= len(out):
            raise IndexError('model output too short')
        cur = out[pos]
        pos += 1
        res.append((name, py_trim(cur[c1 - 1:c2])))
    return res


def py_section(title, lines):
    try:
        i = lines.index(title)
    except ValueError:
        return []
    out = []
    for l in lines[i + 1:]:
        if l.startswith('*'):
            break
        out.append(l)
    return out


def py_words(s):
    return [w for w in s.split(' ') if w]


def py_counts(lines):
    return [int(w) for w in py_words(lines[3])]


def ins_sections(ins):
    """[(marker text or None, [observation names read after it])] of an instruction file."""
    secs = []
    for l in ins[1:]:
        if l.startswith('@') and l.endswith('@') and len(l) >= 2:
            secs.append((l[1:-1], []))
            continue
        m = INS_RE.match(l)
        if m:
            if not secs:
                secs.append((None, []))
            secs[-1][1].append(m.group(2))
    return secs


def ins_shape(ins):
    return '; '.join('%d value(s) after the marker %r' % (len(names), mark) for mark, names in ins_sections(ins)) \
        or 'no value at all'


SIM_HEAD = {'rise': '# Rise curve simulation vector', 'recession': '# Recession curve simulation vector'}


def tagged_output(n_rise, n_rec):
    """A simulation output (the two headers that `simulate --observations` prints, one `- value`
    line per level) in which every value tells which vector and which position it stands at."""
    lines, where = [SIM_HEAD['rise']], {}
    for i in range(n_rise):
        where['1%06d.0' % i] = ('rise', i)
        lines.append('- 1%06d.0' % i)
    if n_rec is not None:
        lines.append(SIM_HEAD['recession'])
        for j in range(n_rec):
            where['2%06d.0' % j] = ('recession', j)
            lines.append('- 2%06d.0' % j)
    return lines, where


def guarded(out, case, what, fn, *args):
    """Run one stage of the oracle; a file that its reader cannot take (malformed, misaligned)
    is a finding about the files, reported with the case, not a crash of the check."""
    try:
        return fn(*args)
    except Exception as e:  # pylint: disable=broad-except
        out.count('stage-failed:' + what.split(':')[0])
        out.violation('oracle', 'the files written by `spowtd pestfiles` / the output of `spowtd simulate` could not '
                      'be taken through the stage "%s" (%s: %s): a file is not what its PEST reader expects'
                      % (what, type(e).__name__, str(e)[:200]), case=case)
        return None


# ------------------------------------------------------------------ parameter files

def num_text(rng, x):
    """A text YAML reads as the number x (or an integer text)."""
    forms = [repr(x)]
    if 'e' not in repr(x):
        forms.append(repr(x))
    else:
        m, e = repr(x).split('e')
        if '.' not in m:
            m += '.0'
        forms = [m + 'e' + e]
    if x == int(x) and abs(x) < 1e6 and rng.random() < 0.5:
        forms.append(str(int(x)))
    return rng.choice(forms)


def wild_value(rng, positive=False):
    k = rng.randrange(6)
    if k == 0:
        v = rng.random() * 10.0 ** rng.randrange(-15, 16)
    elif k == 1:
        v = float('%de%d' % (rng.randrange(1, 10), rng.randrange(-15, 17)))   # 1e-05-like
    elif k == 2:
        v = round(rng.uniform(0.001, 1000), rng.randrange(0, 4))
    elif k == 3:
        v = float(rng.randrange(1, 2000))
    elif k == 4:
        v = (1 + rng.random()) * 10.0 ** rng.randrange(-12, -3)
    else:
        v = rng.uniform(0.01, 10)
    if v == 0.0:
        v = 1.0
    if not positive and rng.random() < 0.4:
        v = -v
    return v


def gen_params(rng, sy_kind, tr_kind, sane=None):
    """Return (yaml text, description).  sane = (zmin, zmax) makes a file the
    simulator accepts on a dataset with that water-level range."""
    lines = ['specific_yield:']
    if sy_kind == 'spline':
        n = rng.randrange(2, 10) if sane is None else rng.randrange(4, 8)
        if sane is None:
            zs = sorted({wild_value(rng) for _ in range(n)})
            sy = [wild_value(rng, positive=True) for _ in zs]
        else:
            lo, hi = sane[0] - 40.0, sane[1] + 40.0
            zs = [round(lo + (hi - lo) * i / (n - 1), 2) for i in range(n)]
            sy = [round(rng.uniform(0.08, 0.7), 4) for _ in zs]
        lines += ['  type: spline', '  zeta_knots_mm:'] + ['    - ' + num_text(rng, z) for z in zs]
        lines += ['  sy_knots:  # Specific yield, dimensionless'] + ['    - ' + num_text(rng, s) for s in sy]
    else:
        if sane is None:
            vals = [wild_value(rng, positive=True), wild_value(rng, positive=True), wild_value(rng, positive=True),
                    -wild_value(rng, positive=True)]
        else:
            vals = [round(rng.uniform(0.1, 0.3), 3), round(rng.uniform(0.8, 0.95), 2),
                    round(rng.uniform(3, 9), 1), -round(rng.uniform(0.01, 0.05), 3)]
        lines += ['  type: peatclsm'] + ['  %s: %s  # comment' % (k, num_text(rng, v))
                                         for k, v in zip(['sd', 'theta_s', 'b', 'psi_s'], vals)]
    lines += ['transmissivity:']
    if tr_kind == 'spline':
        n = rng.randrange(2, 10) if sane is None else rng.randrange(3, 6)
        if sane is None:
            zs = sorted({wild_value(rng) for _ in range(n)})
            ks = [wild_value(rng, positive=True) for _ in zs]
            tmin = wild_value(rng, positive=True)
        else:
            lo, hi = sane[0] - 30.0, sane[1] + 500.0
            zs = [round(lo + (hi - lo) * (i / (n - 1)) ** 2, 2) for i in range(n)]
            ks = [float('%.3e' % (10 ** rng.uniform(-3, 1) * (i + 1))) for i in range(n)]
            tmin = round(rng.uniform(1, 20), 3)
        lines += ['  type: spline', '  zeta_knots_mm:'] + ['    - ' + num_text(rng, z) for z in zs]
        lines += ['  K_knots_km_d:  # Conductivity, km /d'] + ['    - ' + num_text(rng, k) for k in ks]
        lines += ['  minimum_transmissivity_m2_d: %s  # Minimum transmissivity, m2 /d' % num_text(rng, tmin)]
    else:
        if sane is None:
            vals = [wild_value(rng, positive=True), wild_value(rng, positive=True), wild_value(rng)]
        else:
            vals = [round(rng.uniform(1, 10), 2), float(rng.randrange(2, 6)),
                    round(max(sane[1], 0) / 10.0 + rng.uniform(1, 10), 1)]
        lines += ['  type: peatclsm'] + ['  %s: %s' % (k, num_text(rng, v))
                                         for k, v in zip(['Ksmacz0', 'alpha', 'zeta_max_cm'], vals)]
    return '\n'.join(lines) + '\n'


def params_coq(par):
    """Coq literal of the parameter record, from the YAML-loaded parameters
    (tokens = str(value), the oracle)."""
    sy, tr = par['specific_yield'], par['transmissivity']
    if sy['type'] == 'spline':
        csy = '{| sy_spline := true; sy_zeta := %s; sy_n := %d |}' % (
            C.clist([C.cstring(str(v)) for v in sy['zeta_knots_mm']]), len(sy['sy_knots']))
    else:
        csy = '{| sy_spline := false; sy_zeta := []; sy_n := 0 |}'
    if tr['type'] == 'spline':
        ctr = '(TSpline %s %s %s)' % (C.clist([C.cstring(str(v)) for v in tr['zeta_knots_mm']]),
                                      C.clist([C.cstring(str(v)) for v in tr['K_knots_km_d']]),
                                      C.cstring(str(tr['minimum_transmissivity_m2_d'])))
    else:
        ctr = '(TPeat %s %s %s)' % tuple(C.cstring(str(tr[k])) for k in ('Ksmacz0', 'alpha', 'zeta_max_cm'))
    return '{| p_sy := %s; p_tr := %s |}' % (csy, ctr)


def cstrs(lines):
    return C.clist([C.cstring(l) for l in lines])


# ------------------------------------------------------------------ datasets

class DS:
    """One dataset carried through the CLI up to rise and recession, and what the
    harness reads from it on its own (levels, measured values)."""

    def __init__(self, rec, tag):
        import sqlite3
        self.rec, self.tag = rec, tag
        self.dir = D.scratch(PROP, tag)
        self.db, rc, exc = D.load(GP.to_dataset(rec, et=rec.get('et')), self.dir)
        self.error = exc
        for st in ['classify', 'set-zeta-grid', 'set-curvature', 'rise', 'recession']:
            if self.error is None:
                rc, exc, _ = D.cli(GP.step_argv(st, self.db, rec))
                self.error = exc
        if self.error is not None:
            return
        con = sqlite3.connect(self.db)
        try:
            self.rise_rows = sorted(con.execute('SELECT zeta_mm, mean_crossing_depth_mm FROM average_rising_depth'))
            self.rec_rows = sorted(con.execute('SELECT zeta_mm, elapsed_time_s FROM average_recession_time'))
            self.n_rise_distinct = con.execute(
                'SELECT count(*) FROM (SELECT DISTINCT zeta_number FROM rising_interval_zeta)').fetchone()[0]
            self.n_rec_distinct = con.execute(
                'SELECT count(*) FROM (SELECT DISTINCT zeta_number FROM recession_interval_zeta)').fetchone()[0]
            (self.zmin, self.zmax) = con.execute('SELECT min(zeta_mm), max(zeta_mm) FROM water_level').fetchone()
            # the measured master curves recomputed from the BASE tables written by set-zeta-grid / rise /
            # recession (no view, no discrete_zeta): rows (level mm, value, number of rises / recessions)
            self.base_rise = base_curve(con, 'rising_interval', 'rain_depth_offset_mm', 'rising_interval_zeta',
                                        'mean_crossing_depth_mm')
            self.base_rec = base_curve(con, 'recession_interval', 'time_offset_s', 'recession_interval_zeta',
                                       'mean_crossing_time')
        finally:
            con.close()
        # measured values in the order of the control file: rise by level ascending,
        # recession by level descending, elapsed time in days
        self.rise_levels = [z for z, _ in self.rise_rows]
        self.rise_vals = [v for _, v in self.rise_rows]
        self.rec_levels = [z for z, _ in reversed(self.rec_rows)]
        self.rec_vals = [float(v) / (3600 * 24) for _, v in reversed(self.rec_rows)]


def base_curve(con, series_table, offset_col, crossing_table, value_col):
    """Master curve from the base tables: per level number, the mean over the series that cross it of
    (offset of the series + its crossing value); level = number * grid step. By level ascending."""
    steps = [float(r[0]) for r in con.execute('SELECT grid_interval_mm FROM zeta_grid')]
    if len(steps) != 1:
        return []
    offsets = {e: float(o) for e, o in con.execute('SELECT start_epoch, %s FROM %s' % (offset_col, series_table))}
    by_level = {}
    for epoch, number, value in con.execute('SELECT start_epoch, zeta_number, %s FROM %s' % (value_col, crossing_table)):
        by_level.setdefault(int(number), []).append(offsets[epoch] + float(value))
    return [(n * steps[0], math.fsum(v) / len(v), len(v)) for n, v in sorted(by_level.items())]


def close(a, b):
    return a is not None and abs(a - b) <= 1e-9 * max(1.0, abs(a), abs(b))


def levels_without_value(base, values, start=0):
    """base: rows (level, value, n) in the order of the observations; values: what a file holds, in its
    order, read from position `start`.  Returns the levels of the master curve that have no entry in
    `values` (walking both in order; an entry belongs to a level when it is that level's measured value)
    and the position reached."""
    k, missing = start, []
    for z, v, n in base:
        if k < len(values) and close(values[k], v):
            k += 1
        else:
            missing.append((z, n))
    return missing, k


def name_levels(missing, what, limit=6):
    return ', '.join('level %r mm (crossed by %d %s)' % (z, n, what) for z, n in missing[:limit]) + (
        ' and %d more up to level %r mm' % (len(missing) - limit, missing[-1][0]) if len(missing) > limit else '')


def relation(ds):
    """How the number of levels of the rise curve compares with that of the recession curve
    (the two shipped field samples are both rise<recession)."""
    a, b = len(ds.rise_rows), len(ds.rec_rows)
    return 'rise<recession' if a < b else 'rise=recession' if a == b else 'rise>recession'


# shape of the saw-tooth that mostly gives the wanted relation (gen_pest.FALL_FRACTIONS)
TARGETS = [None, 'rise>recession', 'rise<recession', 'rise=recession']
SHAPE_FOR = {None: None, 'rise>recession': 'shallow', 'rise<recession': 'deep', 'rise=recession': None}


def gen_shared_top_dataset(rng, tag, out, top):
    """A dataset whose storms all end inside ONE cell of the level grid (harness.gen_pest.gen_shared_top_record):
    the grid line under the record maximum is a level of both master curves, crossed by every rise."""
    for _ in range(30):
        rec = GP.gen_shared_top_record(rng, top=top)
        rec['et'] = [rng.choice([0.125, 0.0, 0.25, 0.0625]) for _ in range(5)]
        ds = DS(rec, tag)
        if ds.error is None and len(ds.rise_rows) >= 2 and len(ds.rec_rows) >= 2:
            return ds
        out.count('dataset-rejected')
    raise RuntimeError('no shared-top dataset carries the workflow')


def gen_dataset(rng, tag, out, want=None):
    """A dataset that carries the whole workflow; `want` = the relation between the numbers of
    rise and recession levels to aim at (measured on the tables the real commands wrote;
    candidates of another relation are passed over, the first usable one is the fallback)."""
    fallback = None
    for _ in range(30):
        rec = GP.gen_curves_record(rng, size=rng.choice(['small', 'small', 'medium']), shape=SHAPE_FOR[want])
        rec['et'] = [rng.choice([0.125, 0.0, 0.25, 0.0625]) for _ in range(5)]
        ds = DS(rec, tag)
        if ds.error is None and len(ds.rise_rows) >= 2 and len(ds.rec_rows) >= 2:
            if want is None or relation(ds) == want:
                return ds
            out.count('dataset-other-relation')
            fallback = fallback or rec
            continue
        out.count('dataset-rejected')
    if fallback is not None:
        out.count('dataset-relation-target-missed')
        return DS(fallback, tag)
    raise RuntimeError('no dataset carries the workflow')


def pestfile(ds, which, parfile, kind):
    path = os.path.join(ds.dir, 'out.%s.%s' % (which, kind))
    if os.path.exists(path):
        os.remove(path)
    rc, exc, _ = D.cli(['pestfiles', which, ds.db, parfile, kind, '-o', path])
    if exc is not None:
        return None, exc
    with open(path, newline='') as f:
        text = f.read()
    return text, None


def simulate(ds, which, parfile, observations):
    path = os.path.join(ds.dir, 'sim.%s.yml' % which)
    if os.path.exists(path):
        os.remove(path)
    rc, exc, _ = D.cli(['simulate', which, ds.db, parfile, '-o', path] + (['--observations'] if observations else []))
    if exc is not None:
        return None, exc
    with open(path, newline='') as f:
        return f.read(), None


# ------------------------------------------------------------------ one (dataset, parameter file) pair

def check_pair(ds, partext, out, coq, case, sane):
    parfile = os.path.join(ds.dir, 'par.yml')
    with open(parfile, 'w') as f:
        f.write(partext)
    par = yaml.safe_load(partext)
    sy_t, tr_t = par['specific_yield']['type'], par['transmissivity']['type']
    out.evaluations += 1
    out.count('pair:%s/%s' % (sy_t, tr_t))
    cpar = params_coq(par)
    files = {}
    for which in ('rise', 'curves'):
        for kind in ('tpl', 'ins', 'pst'):
            text, exc = pestfile(ds, which, parfile, kind)
            files[(which, kind)] = (text, exc)
    rise_tok = [fmt17(v) for v in ds.rise_vals]
    rec_tok = [fmt17(v) for v in ds.rec_vals]
    model = {
        ('rise', 'tpl'): 'Ok (rise_tpl %s)' % cpar,
        ('curves', 'tpl'): 'Ok (curves_tpl %s)' % cpar,
        ('rise', 'ins'): 'Ok (rise_ins %d)' % ds.n_rise_distinct,
        ('curves', 'ins'): 'Ok (curves_ins %d %d)' % (ds.n_rise_distinct, ds.n_rec_distinct),
        ('rise', 'pst'): 'Ok (rise_pst %s %d %s)' % (cpar, ds.n_rise_distinct, cstrs(rise_tok)),
        ('curves', 'pst'): 'curves_pst %s %s %s' % (cpar, cstrs(rise_tok), cstrs(rec_tok)),
    }
    lines = {}
    for key, (text, exc) in files.items():
        if exc is None:
            ls = text.split(os.linesep)
            lines[key] = ls
            try:
                impl = 'Ok %s' % cstrs(ls)
            except AssertionError:
                out.violation('oracle', 'pestfiles %s %s wrote non-printable characters' % key, case=case)
                continue
        else:
            impl = 'Err %s' % C.err_of(exc)
            out.count('pestfiles-error:%s:%s:%s' % (key[0], key[1], type(exc).__name__))
            if sy_t == tr_t:
                out.violation('oracle', 'pestfiles %s %s raised %s: %s on a consistent %s parameter file'
                              % (key[0], key[1], type(exc).__name__, exc, sy_t), case=case)
            elif key[0] == 'rise':
                # the rise calibration concerns the specific yield alone (the template copies the transmissivity
                # section literally): a file with another kind of transmissivity is as good as any
                out.violation('oracle', 'pestfiles rise %s raised %s: %s on a parameter file with %s specific yield '
                              '(and %s transmissivity, which the rise calibration does not estimate)'
                              % (key[1], type(exc).__name__, exc, sy_t, tr_t), case=case)
        coq['files'].append(('(%s, %s)' % (model[key], impl), case,
                             'pestfiles %s %s (%s/%s)' % (key[0], key[1], sy_t, tr_t)))
    consistent = sy_t == tr_t
    if consistent:
        out.nontriv(('pair', ds.tag, partext))
    guarded(out, case, 'files: counts, names, observation values and order of the control files',
            oracle_files, ds, par, lines, out, coq, case, consistent)
    guarded(out, case, 'template: fill with the original values and load as YAML',
            oracle_template_roundtrip, par, lines, out, case, consistent)
    if sane:
        guarded(out, case, 'end-to-end: simulate --observations read through the instruction files',
                oracle_end_to_end, ds, parfile, par, lines, out, coq, case)


def oracle_files(ds, par, lines, out, coq, case, consistent):
    """Counts, names, observation values and order — on the implementation's files."""
    for which in ('rise', 'curves'):
        pst, tpl, ins = lines.get((which, 'pst')), lines.get((which, 'tpl')), lines.get((which, 'ins'))
        if ins is not None:
            guarded(out, case, 'alignment: %s instruction file over a position-tagged simulation output' % which,
                    oracle_alignment, ds, which, ins, out, case)
        if pst is None or tpl is None or ins is None:
            continue
        counts = py_counts(pst)
        secs = [py_section(t, pst) for t in ('* parameter data', '* observation data', '* parameter groups',
                                             '* observation groups')]
        want = [len(secs[0]), len(secs[1]), len(secs[2]), 0, len(secs[3])]
        if counts != want:
            out.violation('oracle', '%s control file declares NPAR NOBS NPARGP NPRIOR NOBSGP = %s but its sections '
                          'hold %s lines' % (which, counts, want), case=case)
        names = [py_words(l)[0] for l in secs[0]]
        holders = py_placeholders(tpl)
        if (consistent or which == 'rise') and [n.lower() for n in names] != [h.lower() for h in holders]:
            out.violation('oracle', '%s control file parameters %s are not the template placeholders %s'
                          % (which, names, holders), case=case)
        if not consistent:
            out.count('mixed-names-%s' % ('agree' if [n.lower() for n in names] == [h.lower() for h in holders]
                                          else 'differ'))
        obs = [py_words(l) for l in secs[1]]
        meas = ds.rise_vals + (ds.rec_vals if which == 'curves' else [])
        onames = [o[0] for o in obs]
        if onames != ['e%d' % (i + 1) for i in range(len(obs))]:
            out.violation('oracle', '%s observation names are not e1..e%d: %s' % (which, len(obs), onames[:6]),
                          case=case)
        inames = [m.group(2) for m in (INS_RE.match(l) for l in ins) if m]
        if inames != onames:
            out.violation('oracle', '%s: the instruction file reads observations %s.. but the control file lists '
                          '%s.. (%d vs %d)' % (which, inames[:3], onames[:3], len(inames), len(onames)), case=case)
        oracle_master_levels(ds, which, obs, out, case)
        if len(obs) != len(meas):
            out.violation('oracle', '%s control file has %d observations, the master curves have %d levels'
                          % (which, len(obs), len(meas)), case=case)
        else:
            for k, (o, v) in enumerate(zip(obs, meas)):
                try:
                    got = float(o[1])
                except ValueError:
                    got = None
                if got != v:
                    out.violation('oracle', '%s observation %s is written as %s which reads back as %r, not the '
                                  'measured value %r at its level' % (which, o[0], o[1], got, v), case=case)
                    break
        # the Coq readers against their Python twins, on these very files
        coq['readers'].append((
            '(%s, %s, %s, %s, %s)' % (cstrs(tpl), cstrs(pst), C.clist([C.cstring(h) for h in holders]),
                                      C.clist([C.cnat(c) for c in counts]),
                                      C.clist([C.cpair(C.cstring(o[0]), C.cstring(o[1])) for o in obs])),
            case, 'readers on the %s files' % which))
    if ds.n_rise_distinct != len(ds.rise_rows) or ds.n_rec_distinct != len(ds.rec_rows):
        out.violation('oracle', 'count(distinct zeta_number) of the interval tables (%d, %d) differs from the number '
                      'of levels of the master curves (%d, %d): declared NOBS and instruction lines would '
                      'not match the observation lines' % (ds.n_rise_distinct, ds.n_rec_distinct,
                                                           len(ds.rise_rows), len(ds.rec_rows)), case=case)


def oracle_master_levels(ds, which, obs, out, case):
    """The control file's observations against the measured master curves recomputed from the base tables:
    one observation per level of the rise curve (ascending), then - curves - one per level of the recession
    curve (descending, days); a level of a curve that has no observation is named."""
    out.count('judged-against-base-tables')
    vals = []
    for o in obs:
        try:
            vals.append(float(o[1]))
        except (ValueError, IndexError):
            vals.append(None)
    mrise, k = levels_without_value(ds.base_rise, vals)
    mrec = []
    if which == 'curves':
        mrec, k = levels_without_value([(z, v / (3600 * 24), n) for z, v, n in reversed(ds.base_rec)], vals, k)
    if mrise or mrec or k != len(vals):
        out.violation('oracle', '%s control file: %d observation lines for master curves of %d rise levels%s '
                      '(recomputed from the tables rising_interval_zeta / recession_interval_zeta, rising_interval / '
                      'recession_interval, zeta_grid); without an observation holding its measured value: %s%s; '
                      'observation lines that are no level\'s measured value: %d'
                      % (which, len(obs), len(ds.base_rise),
                         ' and %d recession levels' % len(ds.base_rec) if which == 'curves' else '',
                         'rise curve: ' + (name_levels(mrise, 'rises') or 'none'),
                         '; recession curve: ' + (name_levels(mrec, 'recessions') or 'none') if which == 'curves' else '',
                         len(vals) - k), case=case)


def oracle_alignment(ds, which, ins, out, case):
    """The k-th observation of the control file is the measured value at the k-th level of the
    rise curve (ascending), then of the recession curve (descending); the k-th value the
    instruction file extracts must stand at that very position of the simulation output.
    Decided by running the instruction file over an output whose values are position tags."""
    n_rise = len(ds.rise_rows)
    n_rec = len(ds.rec_rows) if which == 'curves' else None
    lines, where = tagged_output(n_rise, n_rec)
    want = [('rise', i) for i in range(n_rise)] + [('recession', j) for j in range(n_rec or 0)]
    told = ('the control file lists %d dynamic-storage observations (rise curve) followed by %d elapsed-time '
            'observations (recession curve), and `simulate` prints %d and %d values; the instruction file reads %s'
            % (n_rise, n_rec or 0, n_rise, n_rec or 0, ins_shape(ins)))
    out.evaluations += 1
    level = {'rise': ds.rise_levels, 'recession': ds.rec_levels}
    quantity = {'rise': 'dynamic storage of the rise curve', 'recession': 'elapsed time of the recession curve'}

    def first_misplaced(got):
        for k, w in enumerate(want):
            g = where.get(got[k][1]) if k < len(got) else None
            if g != w:
                return ('observation e%d is, in the control file, the measured %s at level %r, but the instruction '
                        'file extracts it (as %s) from %s'
                        % (k + 1, quantity[w[0]], level[w[0]][w[1]], got[k][0] if k < len(got) else '-',
                           'nothing (it stops after %d values)' % len(got) if k >= len(got) else
                           'a line that holds no simulated value (%r)' % got[k][1] if g is None else
                           'value %d of the %s vector (level %r)' % (g[1] + 1, g[0], level[g[0]][g[1]])))
        return None
    try:
        got = py_ins_read(ins, lines)
    except (ValueError, IndexError) as e:
        out.count('misaligned:%s:%s' % (which, type(e).__name__))
        # where the reading first goes astray: the same run over the output followed by filler lines
        try:
            astray = first_misplaced(py_ins_read(ins, lines + ['(past the end of the output)'] * len(ins)))
        except (ValueError, IndexError):
            astray = None
        out.violation('oracle', '%s: the instruction file cannot be run over the simulation output (%s)%s; %s'
                      % (which, e, ': ' + astray if astray else '', told), case=case)
        return
    astray = first_misplaced(got)
    if astray:
        out.count('misaligned:%s:position' % which)
        out.violation('oracle', '%s: %s; %s' % (which, astray, told), case=case)
        return
    if len(got) != len(want):
        out.count('misaligned:%s:extra' % which)
        out.violation('oracle', '%s: the instruction file extracts %d values, the control file has %d observations; %s'
                      % (which, len(got), len(want), told), case=case)
        return
    out.count('aligned:%s' % which)


def original_values(par):
    """name (lower case) -> original value, for every placeholder either template can hold."""
    sy, tr = par['specific_yield'], par['transmissivity']
    vals = {}
    if sy['type'] == 'spline':
        for i, v in enumerate(sy['sy_knots']):
            vals['sy_knot_%d' % (i + 1)] = v
    else:
        for k in ('sd', 'theta_s', 'b', 'psi_s'):
            vals[k.lower()] = sy[k]
    if tr['type'] == 'spline':
        for i, v in enumerate(tr['K_knots_km_d']):
            vals['k_knot_%d' % (i + 1)] = v
        vals['t_min'] = tr['minimum_transmissivity_m2_d']
    else:
        vals['ksmacz0'] = tr['Ksmacz0']
        vals['alpha'] = tr['alpha']
    return vals


def same_params(a, b, path=''):
    """First difference between two loaded parameter trees (numbers compared as
    numbers of the same value; a string is never a number)."""
    if isinstance(a, dict) and isinstance(b, dict):
        if set(a) != set(b):
            return path, a, b
        for k in a:
            r = same_params(a[k], b[k], path + '/' + str(k))
            if r:
                return r
        return None
    if isinstance(a, list) and isinstance(b, list):
        if len(a) != len(b):
            return path, a, b
        for i, (x, y) in enumerate(zip(a, b)):
            r = same_params(x, y, path + '[%d]' % i)
            if r:
                return r
        return None
    num = lambda x: isinstance(x, (int, float)) and not isinstance(x, bool)
    if num(a) and num(b):
        return None if float(a) == float(b) else (path, a, b)
    return None if (type(a) is type(b) and a == b) else (path, a, b)


def oracle_template_roundtrip(par, lines, out, case, consistent):
    vals = original_values(par)
    for which in ('rise', 'curves'):
        tpl = lines.get((which, 'tpl'))
        if tpl is None:
            continue
        # the printable guard of the theorem: a placeholder value is written the way PyYAML
        # writes a float (repr with the ".0" repair): fits the 26-character space, YAML reads
        # the same number back
        filled = py_fill(tpl, lambda name: yaml_float(float(vals[name.lower()])) if name.lower() in vals else '?')
        out.evaluations += 1
        if filled is None:
            out.violation('oracle', '%s template: a value does not fit its parameter space' % which, case=case)
            continue
        try:
            back = yaml.safe_load('\n'.join(filled))
        except yaml.YAMLError as e:
            out.violation('oracle', '%s template filled with the original values is not YAML: %s' % (which, e),
                          case=case)
            continue
        diff = same_params(par, back)
        if diff is None:
            out.count('tpl-roundtrip-ok')
            continue
        path, a, b = diff
        sig = None
        if isinstance(a, float) and isinstance(b, str) and exponent_without_dot(str(a)) and b == str(a):
            sig = SIG_TPL
        out.count('tpl-roundtrip-differs' + (':known' if sig else ''))
        out.violation('oracle', '%s template filled with the original values does not give back the original '
                      'parameter file: at %s the original is %r, the filled template gives %r%s'
                      % (which, path, a, b, ' (a fixed value printed by str() with an exponent and no dot: YAML '
                         'reads a string)' if sig else ''), case=dict(case, known=sig) if sig else case,
                      signature=sig)


def oracle_end_to_end(ds, parfile, par, lines, out, coq, case):
    """simulate --observations read through the instruction file == the simulator's
    floats, at the levels of the control file's observations."""
    sims = {}
    for which in ('rise', 'recession'):
        full, exc1 = simulate(ds, which, parfile, False)
        obs, exc2 = simulate(ds, which, parfile, True)
        if exc1 is not None or exc2 is not None:
            out.count('simulate-error:%s:%s' % (which, type(exc1 or exc2).__name__))
            return
        rows = yaml.safe_load(full)[1:]
        sims[which] = (rows, obs)
    out.count('e2e')
    out.evaluations += 1
    rise_rows, rise_obs = sims['rise']
    rec_rows, rec_obs = sims['recession']
    for name, rows, base, what in (('rise', rise_rows, ds.base_rise, 'rises'),
                                   ('recession', rec_rows, ds.base_rec, 'recessions')):
        have = set(float(r[0]) for r in rows)
        want = set(z for z, _, _ in base)
        missing = [(z, n) for z, _, n in base if not any(abs(z - h) <= 1e-9 * max(1.0, abs(z)) for h in have)]
        extra = sorted(h for h in have if not any(abs(z - h) <= 1e-9 * max(1.0, abs(z)) for z in want))
        if missing or extra:
            out.violation('oracle', '`spowtd simulate %s` tabulates %d levels, the measured master %s curve '
                          '(recomputed from the base tables) has %d; not tabulated: %s; tabulated but not in the '
                          'curve: %r' % (name, len(rows), name, len(base), name_levels(missing, what) or 'none',
                                         extra[:6]), case=case)
    for name, text, ins, rows, levels, meas in (
            ('rise', rise_obs, lines.get(('rise', 'ins')), rise_rows, ds.rise_levels, ds.rise_vals),
            ('curves', rise_obs + rec_obs, lines.get(('curves', 'ins')), rise_rows + rec_rows,
             ds.rise_levels + ds.rec_levels, ds.rise_vals + ds.rec_vals)):
        if ins is None:
            continue
        outl = text.split('\n')
        if outl and outl[-1] == '':
            outl = outl[:-1]
        try:
            got = py_ins_read(ins, outl)
        except (ValueError, IndexError) as e:
            out.violation('oracle', 'the %s instruction file cannot be run over the output of simulate: %s'
                          % (name, e), case=case)
            continue
        try:
            coq['ins'].append(('(%s, %s, Ok %s)' % (cstrs(ins), cstrs(outl),
                                                   C.clist([C.cpair(C.cstring(a), C.cstring(b)) for a, b in got])),
                               case, 'ins_read on the %s instruction file and the output of simulate' % name))
        except AssertionError:
            pass
        if len(got) != len(rows):
            out.violation('oracle', '%s: %d values extracted, the simulator tabulates %d levels'
                          % (name, len(got), len(rows)), case=case)
            continue
        for k, ((oname, txt), row) in enumerate(zip(got, rows)):
            level, measured, simulated = row
            try:
                val = float(txt)
            except ValueError:
                val = None
            if val != simulated:
                sig = SIG_WIDTH if len(yaml_float(simulated)) > 22 else None
                out.violation('oracle', '%s: observation %s is extracted from columns 3:24 as %r, the simulator '
                              'computed %r (printed with %d characters)' % (name, oname, txt, simulated,
                                                                           len(yaml_float(simulated))),
                              case=dict(case, known=sig) if sig else case, signature=sig)
                break
            if abs(level - levels[k]) > 1e-9 * max(1.0, abs(level)) or measured != meas[k]:
                out.violation('oracle', '%s: the %d-th simulated value is for level %r (measured %r) but the '
                              '%d-th observation of the control file is the measured value %r at level %r'
                              % (name, k + 1, level, measured, k + 1, meas[k], levels[k]), case=case)
                break
        else:
            out.nontriv(('e2e', ds.tag, name, open(parfile).read()))


# ------------------------------------------------------------------ every value the simulator can print

def oracle_printed_values(ds, parfile, lines_ins, rng, out, coq, case, nrounds):
    """Run the real `simulate rise|recession --observations` with the curve
    computation replaced by chosen floats (the printing code is the real one)."""
    import spowtd.simulate_rise as sr
    import spowtd.simulate_recession as sc
    saved = (sr.compute_rise_curve, sc.compute_recession_curve)
    import numpy as np
    try:
        for _ in range(nrounds):
            vals = {}

            def stub(which):
                def f(*a, **kw):
                    grid = kw.get('zeta_grid_mm', a[1] if which == 'rise' and len(a) > 1 else None)
                    if grid is None:
                        grid = kw['zeta_grid_mm']
                    v = []
                    while len(v) < len(grid):
                        x = wild_float(rng)
                        if finite(x):
                            v.append(x)
                    vals[which] = v
                    return np.array(v, dtype=float)
                return f
            sr.compute_rise_curve = stub('rise')
            sc.compute_recession_curve = stub('recession')
            texts = {}
            for which in ('rise', 'recession'):
                t, exc = simulate(ds, which, parfile, True)
                if exc is not None:
                    out.count('stub-simulate-error:%s' % type(exc).__name__)
                    return
                texts[which] = t
            # recession: the simulator reverses the vector before printing
            want = vals['rise'] + list(reversed(vals['recession']))
            outl = (texts['rise'] + texts['recession']).split('\n')
            outl = [l for l in outl[:-1]] if outl[-1] == '' else outl
            out.evaluations += 1
            c = dict(case, level='printed', values=[v.hex() for v in want])
            try:
                got = py_ins_read(lines_ins, outl)
            except (ValueError, IndexError) as e:
                out.count('printed-run-misaligned')
                out.violation('oracle', 'printed-value run: the curves instruction file cannot be run over what the '
                              'simulator printed (%d rise values, then %d recession values): %s; the instruction '
                              'file reads %s' % (len(vals['rise']), len(vals['recession']), e, ins_shape(lines_ins)),
                              case=c)
                return
            out.count('printed-values', len(want))
            if len(got) != len(want):
                out.violation('oracle', 'printed-value run: %d extracted, %d printed' % (len(got), len(want)), case=c)
                continue
            for (oname, txt), v in zip(got, want):
                try:
                    val = float(txt)
                except ValueError:
                    val = None
                if val != v or math.copysign(1, val) != math.copysign(1, v):
                    n = len(yaml_float(v))
                    out.count('printed-lost' + (':known' if n > 22 else ''))
                    out.violation('oracle', 'the simulator prints %r as "- %s" (%d characters); columns 3:24 of the '
                                  'instruction file give %r = %r' % (v, yaml_float(v), n, txt, val),
                                  case=dict(c, known=SIG_WIDTH) if n > 22 else c,
                                  signature=SIG_WIDTH if n > 22 else None)
                elif len(yaml_float(v)) <= 22:
                    out.nontriv(('printed', v.hex()))
            try:
                coq['ins'].append(('(%s, %s, Ok %s)' % (cstrs(lines_ins), cstrs(outl),
                                                       C.clist([C.cpair(C.cstring(a), C.cstring(b)) for a, b in got])),
                                   c, 'ins_read on printed values'))
            except AssertionError:
                pass
    finally:
        sr.compute_rise_curve, sc.compute_recession_curve = saved


# ------------------------------------------------------------------ golden files

def check_golden(out, coq):
    """The repo's golden files against the model (sample datasets 1 and 2 need the
    field data and minutes of fitting: only the parameter-dependent structure is
    compared here — the instruction files, whose content is a function of the counts)."""
    sd = os.path.join(C.REPO, 'spowtd', 'test', 'sample_data')
    for name in sorted(os.listdir(sd)):
        if not name.endswith('.ins'):
            continue
        ls = open(os.path.join(sd, name), newline='').read().splitlines()  # as test_pestfiles.py compares
        n = sum(1 for l in ls if INS_RE.match(l))
        out.evaluations += 1
        out.count('golden-ins')
        if name.startswith('rise'):
            coq['files'].append(('(Ok (rise_ins %d), Ok %s)' % (n, cstrs(ls)), dict(level='golden', file=name),
                                 'golden file %s' % name))
        else:
            k = ls.index('@# Recession curve simulation vector@')
            nr = sum(1 for l in ls[:k] if INS_RE.match(l))
            coq['files'].append(('(Ok (curves_ins %d %d), Ok %s)' % (nr, n - nr, cstrs(ls)),
                                 dict(level='golden', file=name), 'golden file %s' % name))


# ------------------------------------------------------------------ driver

def run_coq(coq, out):
    specs = (
        ('files', 'res (list string) * res (list string)',
         'fun c => res_lines_eqb (fst c) (snd c)'),
        ('readers', 'list string * list string * list string * list nat * list (string * string)',
         'fun c => match c with (tpl, pst, holders, counts, obs) => '
         'res_eqb strings_eqb (tpl_placeholders tpl) (Ok holders) '
         '&& option_eqb (list_eqb Nat.eqb) (pst_counts pst) (Some counts) '
         '&& pairs_eqb (pst_obs pst) obs end'),
        ('ins', 'list string * list string * res (list (string * string))',
         'fun c => match c with (ins, outl, r) => res_eqb pairs_eqb (ins_read ins outl) r end'),
    )
    for name, ctype, fn in specs:
        items = coq[name]
        if not items:
            continue
        bad, errs, _ = C.run_case_shards(PROP, 'coq_' + name, PRE, ctype, fn, [s for s, _, _ in items], shard=40)
        out.corr_errors += errs
        for i in bad:
            _, c, text = items[i]
            out.violation('corr', 'Coq model (Model/Pest.v) disagrees with the implementation / the Python twin: %s'
                          % text, case=c)


KINDS = [('spline', 'spline'), ('peatclsm', 'peatclsm'), ('spline', 'spline'), ('peatclsm', 'peatclsm'),
         ('spline', 'spline'), ('peatclsm', 'spline'), ('spline', 'peatclsm')]


def check_dataset(ds_seed, tag, npar, nsane, nprinted, out, coq, only=None, top=None):
    """only = None (everything), ('pair', j) or ('printed',): the part a replayed case belongs to
    (the dataset and the parameter files are regenerated from ds_seed either way).
    top = 'positive' / 'surface' / 'negative': a shared-top dataset (its own random stream)."""
    if top:
        ds = gen_shared_top_dataset(C.rng_for(ds_seed, PROP, 'dataset-top'), tag, out, top)
        out.count('dataset:shared-top:%s' % top)
        t = ds.base_rise[-1] if ds.base_rise else None
        if t and t[2] >= 2 and t[0] < ds.zmax and t[0] + ds.rec['grid_mm'] > ds.zmax:
            out.count('dataset:top grid line under the record maximum belongs to the rise curve')
    else:
        rng = C.rng_for(ds_seed, PROP, 'dataset')
        ds = gen_dataset(rng, tag, out, want=TARGETS[ds_seed % len(TARGETS)])
    out.count('dataset')
    out.count('levels:' + relation(ds))
    out.count('levels', len(ds.rise_rows) + len(ds.rec_rows))
    last = None
    for j in range(npar):
        sy_k, tr_k = KINDS[j % len(KINDS)]
        sane = j < nsane
        if sane:
            sy_k, tr_k = [('spline', 'spline'), ('peatclsm', 'peatclsm')][j % 2]
        prng = C.rng_for(ds_seed, PROP, 'par', j)
        text = gen_params(prng, sy_k, tr_k, sane=(ds.zmin, ds.zmax) if sane else None)
        case = dict(level='pair', ds_seed=ds_seed, j=j, npar=npar, nsane=nsane)
        if top:
            case['top'] = top
        if only is None or only == ('pair', j):
            check_pair(ds, text, out, coq, case, sane)
        if sane and last is None:
            last = text
    if last is not None and nprinted and (only is None or only == ('printed',)):
        parfile = os.path.join(ds.dir, 'par.yml')
        with open(parfile, 'w') as f:
            f.write(last)
        ins, exc = pestfile(ds, 'curves', parfile, 'ins')
        if exc is None:
            pcase = dict(level='printed', ds_seed=ds_seed, npar=npar, nsane=nsane, nprinted=nprinted)
            if top:
                pcase['top'] = top
            guarded(out, pcase, 'printed values: simulate with chosen floats read through the curves instruction file',
                    oracle_printed_values, ds, parfile, ins.split(os.linesep), C.rng_for(ds_seed, PROP, 'printed'),
                    out, coq, pcase, nprinted)
        else:
            out.count('printed-skipped:no-instruction-file')
    return ds


def check_long_dataset(ds_seed, tag, target, kinds, out):
    """A dataset whose master rise AND recession curves (measured on the base tables) have more than `target`
    levels each (harness.gen_pest.gen_long_curves_record), with one parameter file the simulator accepts: all
    the oracles of an ordinary pair (counts, names, observation values against the base tables, alignment of
    the instruction files, template round trip, `simulate` in both modes read through the instruction files).
    Judged by the oracles alone: nothing of it is handed to Coq (reading files of thousands of lines as
    literals would dominate the run)."""
    rng = C.rng_for(ds_seed, PROP, 'dataset-long')
    rec = GP.gen_long_curves_record(rng, target)
    rec['et'] = [rng.choice([0.125, 0.0, 0.25, 0.0625]) for _ in range(5)]
    ds = None
    for _ in range(4):
        ds = DS(rec, tag)
        if ds.error is not None:
            raise RuntimeError('long dataset: the workflow failed: %r' % ds.error)
        if min(len(ds.base_rise), len(ds.base_rec)) > target:
            break
        out.count('dataset-long:step-halved')
        rec = GP.gen_long_curves_record(rng, target, rec=rec)
    else:
        raise RuntimeError('no record with more than %d levels on both master curves' % target)
    out.count('dataset-long')
    for size in GP.BLOCK_SIZES:
        if min(len(ds.base_rise), len(ds.base_rec)) > size:
            out.count('dataset-long:both master curves of more than %d levels' % size)
    out.count('levels:' + relation(ds))
    out.count('levels', len(ds.rise_rows) + len(ds.rec_rows))
    text = gen_params(C.rng_for(ds_seed, PROP, 'par-long'), kinds[0], kinds[1], sane=(ds.zmin, ds.zmax))
    case = dict(level='long', ds_seed=ds_seed, target=target, kinds=list(kinds))
    before = len(out.violations)
    check_pair(ds, text, out, dict(files=[], readers=[], ins=[]), case, True)
    if len(out.violations) == before:
        out.nontriv(('long', ds_seed, len(ds.base_rise), len(ds.base_rec)))
    return ds


def long_plan(seed, tier):
    """(dataset seed, target, (specific yield kind, transmissivity kind)).  Quick: one dataset past 1024 levels with
    the PEATCLSM file (its transmissivity is a closed form; the spline class integrates the conductivity anew at
    every node of every level); thorough: more sizes, both kinds."""
    if tier == 'quick':
        return [(seed * 1000 + 800, 1024, ('peatclsm', 'peatclsm'))]
    return [(seed * 1000 + 800 + i, t, k) for i, (t, k) in enumerate([
        (1024, ('peatclsm', 'peatclsm')), (1000, ('spline', 'spline')), (2048, ('peatclsm', 'peatclsm')),
        (4096, ('peatclsm', 'peatclsm')), (8192, ('peatclsm', 'peatclsm'))])]


def run(ctx, out):
    C.import_spowtd()
    seed, tier = ctx['seed'], ctx['tier']
    coq = dict(files=[], readers=[], ins=[])
    check_contracts(C.rng_for(seed, PROP, 'contracts'), out, 10000 if tier == 'quick' else 100000)
    nds, npar = (8, 10) if tier == 'quick' else (40, 20)
    first = None
    for i in range(nds):
        ds = check_dataset(seed * 1000 + i, 'ds%d' % i, npar, 2, 3 if tier == 'quick' else 6, out, coq)
        first = first or ds
    # records whose top grid line is shared by all rises: above, at and below the surface
    for i, top in enumerate(GP.TOPS if tier == 'quick' else GP.TOPS * 4):
        check_dataset(seed * 1000 + 500 + i, 'top%d' % i, 4, 2, 0, out, coq, top=top)
    check_golden(out, coq)
    run_coq(coq, out)
    # long master curves: judged by the oracles alone (nothing of them goes to Coq)
    for i, (ds_seed, target, kinds) in enumerate(long_plan(seed, tier)):
        guarded(out, dict(level='long', ds_seed=ds_seed, target=target, kinds=list(kinds)),
                'long dataset: the whole workflow and the files on master curves of more than %d levels' % target,
                check_long_dataset, ds_seed, 'long%d' % i, target, kinds, out)
    out.rule = ('Pairs (dataset, parameter file): datasets = synthetic saw-tooth records carried through the real CLI '
                '(load..rise, recession), parameter files = spline / peatclsm / the two mixed forms, 2-9 knots, '
                'values 1e-15..1e16 incl. texts such as 1.0e-05 that str() prints without a dot; the first 2 files '
                'per dataset are accepted by the simulator (end-to-end runs of `simulate`); plus datasets whose storms '
                'all end inside one grid cell above / at / below the surface. Observation lines and simulate tables '
                'are also judged against the master curves recomputed from the base tables (a level without an '
                'observation is named). One dataset (thorough: five) whose two master curves have more than 1024 '
                '(thorough: 1000 .. 8192) levels each, through every oracle but not through Coq. Non-trivial: a '
                'consistent pair whose six files were compared (distinct by dataset and file text), an '
                'end-to-end run whose every extracted value equals the simulated one, a printed finite float '
                'of <= 22 characters extracted exactly (distinct by value).')
    out.samples = [dict(level='pair', record=first.rec, rise_levels=len(first.rise_rows),
                        recession_levels=len(first.rec_rows))]
    out.assumptions += [
        'PEST is not installed: its reading of template / instruction / control files is modelled from the PEST '
        'manual (Model/Pest.v) and mirrored by Python twins tied to the Coq readers on every run',
        "float <-> text conversions ('{:0.17g}', str, PyYAML float writer, float(), YAML float resolver) are "
        'oracles with round-trip contracts tested on random floats each run',
        'the model command of the control file (`bash simulate-curves.sh`) is taken to concatenate '
        '`simulate rise --observations` and `simulate recession --observations`']


def replay(case, out):
    """Re-run the part of the dataset's check the case belongs to (one (dataset, parameter file) pair,
    or the printed-value rounds). The two listed findings (C19/ins-width, C19/tpl-exponent) occur on
    the unchanged tree in most datasets: they are reported in a replay only when the replayed case is
    itself a case of that finding (`known` in the case), so that a replay answers for its own violation."""
    C.import_spowtd()
    coq = dict(files=[], readers=[], ins=[])
    lvl = case.get('level')
    if lvl == 'contract':
        check_contracts(C.rng_for(0, PROP, 'contracts'), out, 2000)
        return
    if lvl == 'long':
        check_long_dataset(case['ds_seed'], 'replay_long', case['target'], tuple(case['kinds']), out)
    elif lvl == 'golden':
        check_golden(out, coq)
    else:
        only = ('printed',) if lvl == 'printed' else ('pair', case['j']) if 'j' in case else None
        check_dataset(case['ds_seed'], 'replay', case.get('npar', 10), case.get('nsane', 2),
                      case.get('nprinted', 3), out, coq, only=only, top=case.get('top'))
    run_coq(coq, out)
    out.violations = [v for v in out.violations if v.get('signature') in (None, case.get('known'))]
