"""Instrumentation of sqlite3 from OUTSIDE the code under test (no source hooks).

`Tracer` replaces `sqlite3.connect` for the duration of a `with` block.  Every
connection opened meanwhile is a `_Conn` (subclass of sqlite3.Connection) whose
cursors are `_Cur`s, so that

* the Python-level protocol is recorded as *events* — what the Coq model
  `Model/Txn.v` consumes: ('dml', n) one execute/executemany call of an
  INSERT/UPDATE/DELETE/REPLACE issuing n SQL statements, ('select',) any other
  execute, ('commit',) an explicit connection.commit(), ('rollback',),
  ('exit_ok',) / ('exit_exn',) leaving the `with connection:` block;
* the SQL-level trace is recorded by `set_trace_callback` (it shows the implicit
  `BEGIN`, every row of an executemany, `COMMIT`, `ROLLBACK`) — what the model
  *predicts* from the events;
* tables read / written are recorded by `set_authorizer`;
* a fault can be injected at the k-th *fault point*.  Fault points are numbered
  in execution order: one before every execute call, one before every row an
  executemany pulls from its parameter iterable (the iterable is wrapped, the
  real executemany runs), one before and one after every commit() (explicit or
  the one issued by leaving the `with` block).  Fault kinds:
    'raise'     a Python exception (`InjectedFault`) at the point — an error in
                the step's own code / a failing write; SQLite itself does NOT
                roll anything back, so only the code's transaction discipline
                protects the file;
    'interrupt' SQLite aborts the statement that starts at the point
                (progress handler returns non-zero -> OperationalError);
    'kill'      SIGKILL of the current process at the point (use in a subprocess:
                `python -m harness.sqltrace --at K --mode kill -- <spowtd argv>`).
"""
import json
import os
import re
import signal
import sqlite3
import sys

_REAL_CONNECT = sqlite3.connect
_DML_RE = re.compile(r'^\s*(insert|update|delete|replace)\b', re.I)

ACTIONS = {}
for _n in dir(sqlite3):
    if _n.startswith('SQLITE_') and isinstance(getattr(sqlite3, _n), int) and _n in (
            'SQLITE_READ', 'SQLITE_INSERT', 'SQLITE_UPDATE', 'SQLITE_DELETE', 'SQLITE_SELECT',
            'SQLITE_TRANSACTION', 'SQLITE_FUNCTION', 'SQLITE_CREATE_TABLE', 'SQLITE_DROP_TABLE',
            'SQLITE_PRAGMA', 'SQLITE_CREATE_INDEX', 'SQLITE_ALTER_TABLE', 'SQLITE_SAVEPOINT',
            'SQLITE_RECURSIVE', 'SQLITE_CREATE_VIEW', 'SQLITE_ATTACH', 'SQLITE_DETACH'):
        ACTIONS[getattr(sqlite3, _n)] = _n[7:]


class InjectedFault(Exception):
    """The exception raised at a fault point (mode 'raise')."""


def is_dml(sql):
    """CPython's legacy transaction control opens a transaction before
    INSERT / UPDATE / DELETE / REPLACE statements (first keyword)."""
    s = sql
    # strip leading SQL comments the way CPython's lstrip_sql does
    while True:
        s = s.lstrip()
        if s.startswith('--'):
            s = s.split('\n', 1)[1] if '\n' in s else ''
        elif s.startswith('/*'):
            s = s.split('*/', 1)[1] if '*/' in s else ''
        else:
            break
    return bool(_DML_RE.match(s))


def sql_head(sql):
    return ' '.join(sql.split())[:70]


class Tracer:
    def __init__(self, at=None, mode=None, spill=False, sync_off=False):
        self.at, self.mode, self.spill, self.sync_off = at, mode, spill, sync_off
        self.points = []       # descriptor of every fault point reached
        self.events = []       # Python-level events (model input)
        self.sql = []          # SQL-level statements: 'BEGIN' | 'COMMIT' | 'ROLLBACK' | 'STMT'
        self.sql_text = []     # their text (head)
        self.reads, self.writes, self.other_actions = set(), set(), set()
        self.connections = 0
        self.fired = False
        self.rc = None         # what main() returned to its caller (None: it raised)
        self._interrupt = False
        self._open = []

    # -- installation
    def __enter__(self):
        tracer = self

        def connect(database, *args, **kw):
            kw.setdefault('factory', _Conn)
            con = _REAL_CONNECT(database, *args, **kw)
            if isinstance(con, _Conn):
                con._attach(tracer)
            return con
        self._saved = sqlite3.connect
        sqlite3.connect = connect
        return self

    def __exit__(self, *exc):
        sqlite3.connect = self._saved
        return False

    # -- fault points
    def point(self, kind, detail=''):
        k = len(self.points)
        self.points.append((kind, detail))
        if self.at is not None and k == self.at and not self.fired:
            self.fired = True
            if self.mode == 'raise':
                raise InjectedFault('injected fault at point %d (%s %s)' % (k, kind, detail))
            if self.mode == 'kill':
                sys.stdout.flush()
                os.kill(os.getpid(), signal.SIGKILL)
            if self.mode == 'interrupt':
                if kind in ('exec', 'row'):
                    self._interrupt = True
                else:  # nothing to interrupt at a commit boundary: behave like 'raise'
                    raise InjectedFault('injected fault at point %d (%s)' % (k, kind))

    # -- callbacks
    def _trace(self, text):
        t = text.strip().upper()
        kind = 'BEGIN' if t.startswith('BEGIN') else 'COMMIT' if t.startswith('COMMIT') else \
            'ROLLBACK' if t.startswith('ROLLBACK') else 'STMT'
        self.sql.append(kind)
        self.sql_text.append(sql_head(text))

    def _auth(self, action, a1, a2, dbname, source):
        name = ACTIONS.get(action, str(action))
        if name == 'READ':
            if a1 and not a1.startswith('sqlite_'):
                self.reads.add(a1)
        elif name in ('INSERT', 'UPDATE', 'DELETE'):
            if a1 and not a1.startswith('sqlite_'):
                self.writes.add(a1)
        elif name not in ('SELECT', 'TRANSACTION', 'FUNCTION', 'RECURSIVE'):
            self.other_actions.add('%s %s' % (name, a1))
        return sqlite3.SQLITE_OK

    def _progress(self):
        if self._interrupt:
            self._interrupt = False
            return 1
        return 0

    def end_of_process(self):
        """The CLI never closes its connections: the end of the process does.  Closing
        a connection discards an open transaction (no ROLLBACK statement is traced)."""
        for con in self._open:
            try:
                con.set_trace_callback(None)
                con.set_authorizer(None)
                con.set_progress_handler(None, 0)
                sqlite3.Connection.close(con)
            except sqlite3.Error:
                pass
        self._open = []

    def summary(self):
        return dict(points=len(self.points), events=self.events, sql=self.sql,
                    reads=sorted(self.reads), writes=sorted(self.writes),
                    other=sorted(self.other_actions), connections=self.connections)


class _Conn(sqlite3.Connection):
    _tracer = None
    _leaving = False

    def _attach(self, tracer):
        self._tracer = tracer
        tracer.connections += 1
        tracer._open.append(self)
        if tracer.spill:
            # a one-page cache makes SQLite write dirty pages into the database file
            # in mid-transaction (after journalling them), so that a kill leaves a
            # hot journal behind: exercises journal recovery, not just a lost cache
            sqlite3.Connection.execute(self, 'PRAGMA cache_size=1').close()
            sqlite3.Connection.execute(self, 'PRAGMA cache_spill=1').close()
        if tracer.sync_off:
            # in-process fault runs only: no fsync (durability against power loss is not
            # what these runs test; transaction semantics are unchanged)
            sqlite3.Connection.execute(self, 'PRAGMA synchronous=OFF').close()
        self.set_trace_callback(tracer._trace)
        self.set_authorizer(tracer._auth)
        self.set_progress_handler(tracer._progress, 1)

    def cursor(self, factory=None):
        return super().cursor(factory or _Cur)

    def commit(self):
        tr = self._tracer
        if tr is None:
            return super().commit()
        tr.point('commit-before', 'exit' if self._leaving else 'explicit')
        if not self._leaving:
            tr.events.append(('commit',))
        r = super().commit()
        tr.point('commit-after', 'exit' if self._leaving else 'explicit')
        return r

    def rollback(self):
        tr = self._tracer
        if tr is not None and not self._leaving:
            tr.events.append(('rollback',))
        return super().rollback()

    def __exit__(self, exc_type, exc, tb):
        tr = self._tracer
        if tr is not None:
            if exc_type is None:
                tr.point('exit-before', '')
            tr.events.append(('exit_ok',) if exc_type is None else ('exit_exn',))
        self._leaving = True
        try:
            r = super().__exit__(exc_type, exc, tb)
        finally:
            self._leaving = False
        if tr is not None and exc_type is None:
            tr.point('exit-after', '')
        return r


class _Cur(sqlite3.Cursor):
    def execute(self, sql, parameters=()):
        tr = self.connection._tracer
        if tr is None:
            return super().execute(sql, parameters)
        tr.point('exec', sql_head(sql))
        # n counts SQL statements *started* (a statement that fails, e.g. on a
        # constraint, has been traced)
        tr.events.append(['dml', 1] if is_dml(sql) else ['select'])
        return super().execute(sql, parameters)

    def executemany(self, sql, seq_of_parameters):
        tr = self.connection._tracer
        if tr is None:
            return super().executemany(sql, seq_of_parameters)
        tr.point('exec', 'many: ' + sql_head(sql))
        ev = ['dml', 0] if is_dml(sql) else ['select']
        tr.events.append(ev)

        def rows():
            for j, row in enumerate(seq_of_parameters):
                tr.point('row', str(j))
                if ev[0] == 'dml':
                    ev[1] += 1
                yield row
        return super().executemany(sql, rows())

    def executescript(self, script):
        tr = self.connection._tracer
        if tr is not None:
            tr.point('exec', 'script')
            tr.events.append(['script'])
        return super().executescript(script)


def _memo_parsers(ui):
    """Building the argparse parsers costs ~20 ms per call and is not part of any
    step's transaction: build them once per imported module and reuse them."""
    if not hasattr(ui, '_verif_parsers_orig'):
        ui._verif_parsers_orig = ui.create_parsers
        cache = []

        def create_parsers():
            if not cache:
                cache.append(ui._verif_parsers_orig())
            return cache[0]
        ui.create_parsers = create_parsers


def run_cli(argv, at=None, mode=None, spill=False, fast=False):
    """Run the spowtd command line in this process under a Tracer.
    Returns (tracer, exception or None); tracer.rc = the status main() returned (None when it
    raised): a command can report failure by its status without raising.  fast: reuse the argument parsers and
    switch fsync off (in-process fault enumeration)."""
    import contextlib
    import io
    import spowtd.user_interface as ui
    if fast:
        _memo_parsers(ui)
    tr = Tracer(at=at, mode=mode, spill=spill, sync_off=fast)
    exc = None
    with tr:
        try:
            with contextlib.redirect_stdout(io.StringIO()), contextlib.redirect_stderr(io.StringIO()):
                tr.rc = ui.main([str(a) for a in argv])
        except SystemExit as e:
            exc = e
        except BaseException as e:  # pylint: disable=broad-except
            exc = e
    if exc is not None:
        exc.__traceback__ = None
    tr.end_of_process()
    return tr, exc


def main(argv):
    """Subprocess entry: python -m harness.sqltrace --at K --mode kill [--spill] [--report F] -- <spowtd argv>"""
    import argparse
    ap = argparse.ArgumentParser()
    ap.add_argument('--at', type=int, default=None)
    ap.add_argument('--mode', default=None)
    ap.add_argument('--spill', action='store_true')
    ap.add_argument('--report', default=None)
    ap.add_argument('rest', nargs=argparse.REMAINDER)
    a = ap.parse_args(argv)
    rest = a.rest[1:] if a.rest and a.rest[0] == '--' else a.rest
    tr, exc = run_cli(rest, at=a.at, mode=a.mode, spill=a.spill)
    if a.report:
        with open(a.report, 'w') as f:
            json.dump(dict(summary=tr.summary(), exc=repr(exc) if exc else None), f)
    return 0 if exc is None and not tr.rc else 3


if __name__ == '__main__':
    sys.exit(main(sys.argv[1:]))
