"""Environment stage helper: the real command line in a CHILD process under a
changed process environment (time zone of the process, `python -O`, DEBUG
logging, another current directory, randomised string hashing).

The property checks run the command line in-process (harness.dataset.cli) with
the default interpreter settings.  A defect that shows only when `assert`
statements are stripped, when the C library's local time zone is not UTC, when
DEBUG log formatting runs, when relative paths resolve elsewhere or when set /
dict iteration order changes is invisible there.  The recipe: run the SAME small
workflow once in-process (the default) and once per variant in a child process
on a private copy of the input files, then require the logical dump of the
dataset (harness.dataset.dump) and the bytes of every output file to be equal.
A difference is a violation of the property whose tables / outputs differ.

Interface (keep it small; shared by several property modules):

  workflow_env_variants()            -> list of variants (dicts, JSON-able)
  run_cli_env(argv, env=None, opt=False, cwd=None, verbose=False, timeout=300)
                                     -> CliResult(rc, stdout, stderr, seconds)
  run_cli_variant(argv, variant, cwd=None, timeout=300)
                                     -> CliResult      (applies one variant)
  run_cli_sequence_variant(argvs, variant, cwd=None, timeout=600)
                                     -> (CliResult, index of the failed command | None): several
                                        commands in ONE child (cheaper than one child per command)
  variant_by_name(name)              -> variant (for replay)
  last_error_line(res)               -> the exception line of the child's traceback
  diff_dumps(a, b, tol=0.0)          -> list of short difference strings
  diff_files(paths_a, paths_b)       -> list of short difference strings

A child process costs about 1 s (matplotlib import): use a handful per run.
Nothing here draws random numbers; the caller chooses which variants to run.
"""
import collections
import os
import subprocess
import sys
import tempfile
import time

from harness import common as C

PYTHON = '/venv/bin/python' if os.path.exists('/venv/bin/python') else sys.executable

#: the child runs exactly what the console script runs
CHILD_CODE = 'import spowtd.user_interface as ui, sys; sys.exit(ui.main(sys.argv[1:]))'

PYCACHE = os.path.join(tempfile.gettempdir(), 'envcheck_pycache_%d' % os.getuid())

CliResult = collections.namedtuple('CliResult', 'rc stdout stderr seconds')


def workflow_env_variants():
    """The variants of the recipe.  Each is a JSON-able dict with keys
    name   : short tag (use it in out.count / in the replay case),
    env    : environment variables set for the child (on top of a clean base),
    opt    : True -> `python -O` (assert statements removed, __debug__ False),
    verbose: True -> `-vvv` inserted after the sub-command (DEBUG logging),
    cwd    : None (inherit) or 'tmp' (a fresh empty directory made per call).
    The first entry, 'default', is the plain child process: comparing it with
    the in-process run separates "child process" effects from variant effects."""
    return [
        dict(name='default', env={}, opt=False, verbose=False, cwd=None),
        dict(name='tz-tokyo', env={'TZ': 'Asia/Tokyo'}, opt=False, verbose=False, cwd=None),
        dict(name='tz-st-johns', env={'TZ': 'America/St_Johns'}, opt=False, verbose=False, cwd=None),
        dict(name='tz-berlin', env={'TZ': 'Europe/Berlin'}, opt=False, verbose=False, cwd=None),
        dict(name='opt', env={}, opt=True, verbose=False, cwd=None),
        dict(name='verbose', env={}, opt=False, verbose=True, cwd=None),
        dict(name='cwd', env={}, opt=False, verbose=False, cwd='tmp'),
        dict(name='hashseed', env={'PYTHONHASHSEED': 'random'}, opt=False, verbose=False, cwd=None),
    ]


def variant_by_name(name):
    for v in workflow_env_variants():
        if v['name'] == name:
            return v
    raise KeyError(name)


def _base_env():
    """A small, explicit environment: the tree under test on PYTHONPATH, no
    inherited TZ / PYTHONOPTIMIZE / PYTHONHASHSEED, a headless matplotlib."""
    env = {k: v for k, v in os.environ.items()
           if k in ('PATH', 'HOME', 'LANG', 'LC_ALL', 'TMPDIR', 'LD_LIBRARY_PATH')}
    env['PYTHONPATH'] = C.REPO
    env['MPLBACKEND'] = 'Agg'
    # byte code goes to a private mirror tree: nothing is written into the tree under
    # test or /venv, and `-O` children find their .opt-1.pyc there from the second call on
    env['PYTHONPYCACHEPREFIX'] = PYCACHE
    return env


def run_cli_env(argv, env=None, opt=False, cwd=None, verbose=False, timeout=300):
    """Run `spowtd ARGV` in a child interpreter of the tree under test (C.REPO).
    env: extra environment variables; opt: `python -O`; cwd: directory to run in
    (None = inherit, 'tmp' = a fresh empty directory: pass ABSOLUTE paths in argv);
    verbose: insert `-vvv` after the sub-command.  Returns CliResult; rc is the
    exit status (1 with a traceback on stderr for an uncaught exception,
    -9 on timeout)."""
    argv = [str(a) for a in argv]
    if verbose and argv and not argv[0].startswith('-'):
        argv = [argv[0], '-vvv'] + argv[1:]
    e = _base_env()
    e.update(env or {})
    cmd = [PYTHON] + (['-O'] if opt else []) + ['-c', CHILD_CODE] + argv
    tmp = None
    if cwd == 'tmp':
        tmp = tempfile.mkdtemp(prefix='envcheck_cwd_', dir=os.path.join(C.WORK) if os.path.isdir(C.WORK) else None)
        cwd = tmp
    t0 = time.time()
    try:
        p = subprocess.run(cmd, env=e, cwd=cwd, stdout=subprocess.PIPE, stderr=subprocess.PIPE,
                           text=True, timeout=timeout)
        return CliResult(p.returncode, p.stdout, p.stderr, time.time() - t0)
    except subprocess.TimeoutExpired as x:
        return CliResult(-9, str(x.stdout or ''), 'TIMEOUT after %ss' % timeout, time.time() - t0)
    finally:
        if tmp is not None:
            try:
                os.rmdir(tmp)      # must still be empty: the command got absolute paths
            except OSError:
                pass


def run_cli_variant(argv, variant, cwd=None, timeout=300):
    """run_cli_env under one entry of workflow_env_variants() (or a dict of the
    same shape).  An explicit cwd wins over the variant's."""
    return run_cli_env(argv, env=variant.get('env'), opt=variant.get('opt', False),
                       cwd=cwd if cwd is not None else variant.get('cwd'),
                       verbose=variant.get('verbose', False), timeout=timeout)


#: several commands in ONE child (one interpreter start instead of one per command): argv lists as JSON in argv[1];
#: a marker line on stderr before each command tells which one failed
SEQUENCE_CODE = ("import spowtd.user_interface as ui, sys, json\n"
                 "for i, a in enumerate(json.loads(sys.argv[1])):\n"
                 "    sys.stderr.write('\\n@@envcheck command %d\\n' % i); sys.stderr.flush()\n"
                 "    rc = ui.main(a)\n"
                 "    if rc: sys.exit(rc)\n")


def run_cli_sequence_variant(argvs, variant, cwd=None, timeout=600):
    """The commands `argvs` (list of argv lists) one after the other in ONE child under `variant`; stops at the
    first command that raises / exits non-zero.  Returns (CliResult, index of the failed command or None).
    Same conventions as run_cli_env (absolute paths in the argvs when the variant changes the directory)."""
    import json
    argvs = [[str(a) for a in argv] for argv in argvs]
    if variant.get('verbose'):
        argvs = [[a[0], '-vvv'] + a[1:] if a and not a[0].startswith('-') else a for a in argvs]
    e = _base_env()
    e.update(variant.get('env') or {})
    cmd = [PYTHON] + (['-O'] if variant.get('opt') else []) + ['-c', SEQUENCE_CODE, json.dumps(argvs)]
    wd = cwd if cwd is not None else variant.get('cwd')
    tmp = None
    if wd == 'tmp':
        tmp = wd = tempfile.mkdtemp(prefix='envcheck_cwd_', dir=C.WORK if os.path.isdir(C.WORK) else None)
    t0 = time.time()
    try:
        p = subprocess.run(cmd, env=e, cwd=wd, stdout=subprocess.PIPE, stderr=subprocess.PIPE, text=True, timeout=timeout)
        res = CliResult(p.returncode, p.stdout, p.stderr, time.time() - t0)
    except subprocess.TimeoutExpired as x:
        res = CliResult(-9, str(x.stdout or ''), str(x.stderr or '') + '\nTIMEOUT after %ss' % timeout, time.time() - t0)
    finally:
        if tmp is not None:
            try:
                os.rmdir(tmp)
            except OSError:
                pass
    failed = None
    if res.rc != 0:
        marks = [l for l in res.stderr.splitlines() if l.startswith('@@envcheck command ')]
        failed = int(marks[-1].split()[-1]) if marks else 0
    return res, failed


def last_error_line(res):
    """The exception line of a child's traceback ('' when it exited 0)."""
    if res.rc == 0:
        return ''
    lines = [l for l in res.stderr.strip().splitlines() if l.strip()]
    return lines[-1] if lines else 'exit status %s' % res.rc


def diff_dumps(a, b, tol=0.0):
    """Differences between two logical dumps (harness.dataset.dump results:
    table -> sorted rows).  tol = 0.0 demands equal values (floats compared
    with ==, so -0.0 == 0.0; NaN equals NaN); tol > 0 is a relative tolerance
    for floats.  Returns short strings, [] when equal."""
    out = []
    for t in sorted(set(a) | set(b)):
        if t not in a or t not in b:
            out.append('%s: present only in %s' % (t, 'first' if t in a else 'second'))
            continue
        ra, rb = a[t], b[t]
        if len(ra) != len(rb):
            out.append('%s: %d rows vs %d rows' % (t, len(ra), len(rb)))
            continue
        for i, (x, y) in enumerate(zip(ra, rb)):
            if not _row_eq(x, y, tol):
                out.append('%s row %d: %r vs %r' % (t, i, tuple(x), tuple(y)))
                break
    return out


def _row_eq(x, y, tol):
    if len(x) != len(y):
        return False
    for u, v in zip(x, y):
        if isinstance(u, float) and isinstance(v, float):
            if u != u and v != v:
                continue
            if u == v:
                continue
            if tol and abs(u - v) <= tol * max(abs(u), abs(v)):
                continue
            return False
        if type(u) is not type(v) or u != v:
            return False
    return True


def diff_files(paths_a, paths_b):
    """Byte comparison of two equally long lists of output files."""
    out = []
    for pa, pb in zip(paths_a, paths_b):
        ea, eb = os.path.exists(pa), os.path.exists(pb)
        if ea != eb:
            out.append('%s: exists %s vs %s' % (os.path.basename(pa), ea, eb))
            continue
        if not ea:
            continue
        with open(pa, 'rb') as f:
            da = f.read()
        with open(pb, 'rb') as f:
            db = f.read()
        if da != db:
            k = next((i for i in range(min(len(da), len(db))) if da[i] != db[i]), min(len(da), len(db)))
            out.append('%s: %d vs %d bytes, first difference at byte %d' % (os.path.basename(pa), len(da), len(db), k))
    return out
