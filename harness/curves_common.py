"""Synthetic datasets with a planted ground truth (DESIGN §7 C06) and the driver
of the whole command-line workflow: load -> classify -> set-zeta-grid -> rise /
recession (-> set-curvature).

Truth: one recession curve that is piecewise linear with knots on the sampling
lattice (levels L[0] > L[1] > ... ; one lattice step per time step) and a
constant specific yield sigma (a storm of total depth D raises the level by
D / sigma).  Every recession interval of the record is a piece of the curve,
every storm follows the storage curve.
"""
import math
import os
import sqlite3
from fractions import Fraction

from harness import common as C
from harness import dataset as D

STEPS = [600, 900, 1200, 1800, 3600]
# steps that are not a whole number of minutes, or whose hours are not exactly representable (3900/3600*3600 < 3900)
ODD_STEPS = [3900, 100, 90, 460]
GRID_STEPS = [0.5, 1.0, 2.0, 2.5]


def make_plan(rng, n_events=None, step=None, grid_step=None, varying_et=True, noise=False, gaps=False, odd_steps=False,
              tie_top=False, light_equal=False):
    """tie_top: two recessions start from exactly the same highest level of the record (two events share the
    minimal m_after).  light_equal: the light-rain step after each storm has an intensity exactly EQUAL to the
    storm threshold (which is then a short dyadic number, so that the text files, SQLite and the command line
    all carry the very same binary64); "heavier than the threshold" is strict, so the planted truth is the same.
    Both default to off; they draw random numbers only when on, after every other draw."""
    step = step or rng.choice(STEPS + ODD_STEPS if odd_steps else STEPS)
    step_h = step / 3600.0
    sigma = rng.choice([0.25, 0.5, 0.125])
    thr_j = rng.choice([2.0, 4.0, 5.0])
    M = 60
    decs = [rng.choice([0.25, 0.5, 0.75, 1.0, 1.5, 0.375]) for _ in range(M)]
    top = rng.choice([-20.0, 0.0, 12.5, -303.25])
    lattice = [top]
    for d in decs:
        lattice.append(lattice[-1] - d)
    n_events = n_events or rng.randrange(3, 8)
    events = []
    m = rng.randrange(8, 20)          # lattice index before the first storm
    for _ in range(n_events):
        back = rng.randrange(3, 9)    # storm raises the level back by `back` lattice steps
        m_after = max(0, m - back)
        k = rng.randrange(1, 4)       # heavy steps
        over = rng.choice([0.0, 0.25, 0.5])
        rec_len = rng.randrange(4, 12)
        rec_len = min(rec_len, M - m_after)
        events.append(dict(m_before=m, m_after=m_after, k=k, over=over, rec_len=rec_len))
        m = m_after + rec_len
    et = [round(0.05 + 0.01 * rng.randrange(0, 20), 4) for _ in range(400)] if varying_et else [0.125] * 400
    gap = None
    if gaps and rng.random() < 0.4:
        # 1-2 water-level samples missing in mid-recession: the piece is cut there (what follows the gap has seen
        # no rain in its own stretch and is not recorded)
        cands = [i for i, ev in enumerate(events) if ev['rec_len'] >= 7]
        if cands:
            e = rng.choice(cands)
            j = rng.randrange(3, events[e]['rec_len'] - 3)
            gap = (e, j, rng.randrange(1, 3))
    plan = dict(step=step, sigma=sigma, thr_j=thr_j, lattice=lattice, events=events,
                t0=rng.choice([1361318400, 1356998400, 946684800]) // step * step,
                grid_step=grid_step or rng.choice(GRID_STEPS), et=et,
                lead_dry=rng.randrange(1, 4), step_h=step_h, gap=gap,
                noise=[rng.randrange(-4, 5) / 64.0 if noise else 0.0 for _ in range(600)])
    if tie_top and len(events) >= 2:
        tie_top_events(rng, events, M)
        plan['tie_top'] = True
        if plan['gap'] is not None and plan['gap'][1] >= events[plan['gap'][0]]['rec_len'] - 3:
            plan['gap'] = None                    # (the recession it was planned in has been cut short)
    if light_equal:
        plan['light_equal'] = True
    return plan


def tie_top_events(rng, events, M):
    """Re-chain the events so that two of them bring the level back to exactly the same, highest, lattice level
    (everything else about them - steps, overshoot, length of the recession - is kept)."""
    mm = min(ev['m_after'] for ev in events)
    e_top = [i for i, ev in enumerate(events) if ev['m_after'] == mm][0]
    j = rng.choice([i for i in range(len(events)) if i != e_top])
    m = events[0]['m_before']
    for i, ev in enumerate(events):
        back = max(3, ev['m_before'] - ev['m_after'])
        ev['m_before'] = m
        if i in (e_top, j):
            ev['m_after'] = mm
        elif i < min(e_top, j):
            pass                                  # untouched prefix (m_after >= mm there)
        else:
            ev['m_after'] = max(mm + 1, m - back)
        ev['rec_len'] = max(1, min(ev['rec_len'], M - ev['m_after']))
        m = ev['m_after'] + ev['rec_len']


def realise(plan):
    """Plan -> (rain per step, level per sample, thresholds, truth)."""
    step_h = plan['step'] / 3600.0
    sigma, thr_j, L = plan['sigma'], plan['thr_j'], plan['lattice']
    delta = thr_j * step_h
    rain, zeta = [], []
    heavy = []
    ev0 = plan['events'][0]
    m = ev0['m_before']
    # lead-in: a few dry recession samples before the first storm (flagged "unexplained" - no rain yet)
    for i in range(plan['lead_dry']):
        zeta.append(L[m - plan['lead_dry'] + i])
        rain.append(0.0)
    zeta.append(L[m])
    pieces, rises = [], []
    for ev in plan['events']:
        zi = zeta[-1]
        zf = L[ev['m_after']] + ev['over']
        H = zf - zi
        k = ev['k']
        # per-step rises must exceed the jump threshold
        while k > 1 and H / k <= delta * 1.25:
            k -= 1
        if H / k <= delta * 1.25:
            zf = zi + delta * 1.5 * k
            H = zf - zi
        start_idx = len(zeta) - 1
        for j in range(k):
            r = sigma * (H / k) / step_h
            rain.append(r)
            heavy.append(r)
            zeta.append(zi + H * (j + 1) / k if j < k - 1 else zf)
        rises.append(dict(start=start_idx, stop=len(zeta) - 1, zi=zi, zf=zf, depth=sigma * H))
        # one light-rain step: level settles on the lattice
        rain.append(None)  # placeholder: light rain, fixed below
        zeta.append(L[ev['m_after']])
        first = len(zeta) - 1
        for j in range(1, ev['rec_len'] + 1):
            rain.append(0.0)
            nz = plan.get('noise') or [0.0]
            zeta.append(L[ev['m_after'] + j] + nz[len(zeta) % len(nz)])
        pieces.append(dict(first=first, last=len(zeta) - 1, m0=ev['m_after']))
    thr_s = min(heavy) / 2.0
    if plan.get('light_equal'):
        # threshold on a 1/64 lattice (min(heavy) > 0.3): its decimal form is short, so every parser involved
        # (Python's, SQLite's) yields the same binary64, and the light steps are EXACTLY the threshold
        thr_s = math.floor(thr_s * 64.0) / 64.0
        rain = [thr_s if r is None else r for r in rain]
    rain = [thr_s / 4.0 if r is None else r for r in rain]
    # the last sample has no rainfall step after it inside the span: rain list has len(zeta)-1 .. pad one dry step
    while len(rain) < len(zeta):
        rain.append(0.0)
    # a piece ends one sample before the next storm's first step (that sample carries rain)
    for p, r in zip(pieces, rises[1:] + [None]):
        if r is not None:
            p['last'] = r['start'] - 1
    missing = []
    if plan.get('gap'):
        e, j, ln = plan['gap']
        p = pieces[e]
        a = p['first'] + j
        if a + ln <= p['last'] - 2:
            missing = list(range(a, a + ln))
            p['last'] = a - 1
    return rain, zeta, thr_s, dict(pieces=pieces, rises=rises, missing=missing)


def plan_to_dataset(plan, shift=0, tz='UTC', fmt_time=None):
    rain, zeta, thr_s, truth = realise(plan)
    step, t0 = plan['step'], plan['t0'] + shift
    n = len(zeta)
    rrows = [(t0 + i * step, rain[i]) for i in range(n)]
    erows = [(t0 + i * step, plan['et'][i % len(plan['et'])]) for i in range(n + 1)]
    miss = set(truth.get('missing', ()))
    wrows = [(t0 + i * step, zeta[i]) for i in range(n) if i not in miss]
    kw = {}
    if fmt_time is not None:
        kw['fmt_time'] = fmt_time
    return D.Dataset(rrows, erows, wrows, tz=tz, **kw), thr_s, truth


def read_curves(db):
    con = sqlite3.connect(db)
    try:
        out = dict(
            rising_interval=dict(con.execute('SELECT start_epoch, rain_depth_offset_mm FROM rising_interval')),
            recession_interval=dict(con.execute('SELECT start_epoch, time_offset_s FROM recession_interval')),
            rising_interval_zeta=con.execute('SELECT start_epoch, zeta_number, mean_crossing_depth_mm FROM rising_interval_zeta').fetchall(),
            recession_interval_zeta=con.execute('SELECT start_epoch, zeta_number, mean_crossing_time FROM recession_interval_zeta').fetchall(),
            avg_rise=con.execute('SELECT zeta_mm, mean_crossing_depth_mm FROM average_rising_depth ORDER BY zeta_mm').fetchall(),
            avg_recession=con.execute('SELECT zeta_mm, elapsed_time_s FROM average_recession_time ORDER BY zeta_mm').fetchall(),
            zeta_interval=con.execute('SELECT start_epoch, interval_type, thru_epoch FROM zeta_interval ORDER BY start_epoch').fetchall(),
            storm=con.execute('SELECT start_epoch, thru_epoch FROM storm ORDER BY start_epoch').fetchall(),
            discrete_zeta=[r[0] for r in con.execute('SELECT zeta_number FROM discrete_zeta ORDER BY zeta_number')],
            grid=con.execute('SELECT grid_interval_mm FROM zeta_grid').fetchall(),
        )
    finally:
        con.close()
    return out


def build_from_plan(prop, plan, steps=('rise', 'recession'), ref=None, shift=0, tz='UTC', fmt_time=None,
                    name='curves_db', order=None):
    ds, thr_s, truth = plan_to_dataset(plan, shift=shift, tz=tz, fmt_time=fmt_time)
    d = D.scratch(prop, name)
    res = dict(plan=plan, truth=truth, thr_s=thr_s, status='ok', dir=d)
    db, rc, exc = D.load(ds, d)
    res['db'] = db
    if exc is not None:
        res.update(status='load-fail', exc=exc)
        return res
    cmds = [('classify', ['classify', db, '-s', repr(float(thr_s)), '-j', repr(float(plan['thr_j']))]),
            ('grid', ['set-zeta-grid', db, '-d', plan['grid_step']])]
    for s in steps:
        if s == 'rise':
            cmds.append(('rise', ['rise', db] + (['-r', ref] if ref is not None else [])))
        elif s == 'recession':
            cmds.append(('recession', ['recession', db] + (['-r', ref] if ref is not None else [])))
        elif s == 'curvature':
            cmds.append(('curvature', ['set-curvature', db, plan.get('curvature', 1.5)]))
    if order is not None:
        cmds = [cmds[i] for i in order]
    for name_, argv in cmds:
        rc, exc, _ = D.cli(argv)
        if exc is not None:
            res.update(status=name_ + '-fail', exc=exc)
            return res
    res.update(read_curves(db))
    return res


def build_dataset(prop, rng, steps=('rise', 'recession'), **kw):
    return build_from_plan(prop, make_plan(rng), steps=steps, **kw)


# ------------------------------------------------------------------ the truth, exactly

def truth_time_of_level(plan, h):
    """Time (in steps, Fraction) at which the underlying recession curve crosses level h."""
    L = [Fraction(v) for v in plan['lattice']]
    h = Fraction(h)
    for m in range(len(L) - 1):
        if L[m + 1] < h <= L[m] or (h == L[m + 1] and m + 1 == len(L) - 1):
            return m + (L[m] - h) / (L[m] - L[m + 1])
    if h == L[-1]:
        return Fraction(len(L) - 1)
    return None
