"""Synthetic datasets with a planted ground truth (DESIGN §7 C06) and the driver
of the whole command-line workflow: load -> classify -> set-zeta-grid -> rise /
recession (-> set-curvature).

Truth: one recession curve that is piecewise linear with knots on the sampling
lattice (levels L[0] > L[1] > ... ; one lattice step per time step) and a
constant specific yield sigma (a storm of total depth D raises the level by
D / sigma).  Every recession interval of the record is a piece of the curve,
every storm follows the storage curve.
"""
import bisect
import math
import os
import sqlite3
from fractions import Fraction

os.environ.setdefault('OPENBLAS_NUM_THREADS', '1')   # (before numpy is loaded: a busy machine makes threaded BLAS 100x slower on large cases)

from harness import common as C
from harness import dataset as D

STEPS = [600, 900, 1200, 1800, 3600]
# steps that are not a whole number of minutes, or whose hours are not exactly representable (3900/3600*3600 < 3900)
ODD_STEPS = [3900, 100, 90, 460]
GRID_STEPS = [0.5, 1.0, 2.0, 2.5]


def make_plan(rng, n_events=None, step=None, grid_step=None, varying_et=True, noise=False, gaps=False, odd_steps=False,
              tie_top=False, light_equal=False, top_cell=False, far_group=False, plunge=False):
    """tie_top: two recessions start from exactly the same highest level of the record (two events share the
    minimal m_after).  light_equal: the light-rain step after each storm has an intensity exactly EQUAL to the
    storm threshold (which is then a short dyadic number, so that the text files, SQLite and the command line
    all carry the very same binary64); "heavier than the threshold" is strict, so the planted truth is the same.
    top_cell: the record's highest water level is POSITIVE and strictly between two grid lines, and the grid level
    just below it (the top level of the grid) is crossed by >= 2 rises and >= 2 recessions (see place_top_cell;
    plan['top_cell'] tells whether that was achieved, plan['top_level'] is the level number).
    far_group: after the other events the level recedes far below everything seen so far and 1-2 more storms
    happen down there: their rises share no grid level with the rises of the main body (see add_far_group;
    plan['far_group'] = number of such storms).
    plunge: every few lattice steps the recession curve drops by 130-400 (sometimes > 1024) GRID LEVELS within one time step (a coarse
    time step - pass step=86400 or 604800 - or a fine grid: a single falling segment, and the rises that undo it,
    pass hundreds of grid levels); the jump threshold is lowered so that every planned rise still exceeds it
    (plan['plunge'] = lattice indices of the big drops).
    All default to off; they draw random numbers only when on, after every other draw."""
    step = step or rng.choice(STEPS + ODD_STEPS if odd_steps else STEPS)
    step_h = step / 3600.0
    sigma = rng.choice([0.25, 0.5, 0.125])
    thr_j = rng.choice([2.0, 4.0, 5.0])
    M = 60
    decs = [rng.choice([0.25, 0.5, 0.75, 1.0, 1.5, 0.375]) for _ in range(M)]
    top = rng.choice([-20.0, 0.0, 12.5, -303.25])
    lattice = [top]
    for d in decs:
        lattice.append(lattice[-1] - d)
    n_events = n_events or rng.randrange(3, 8)
    events = []
    m = rng.randrange(8, 20)          # lattice index before the first storm
    for _ in range(n_events):
        back = rng.randrange(3, 9)    # storm raises the level back by `back` lattice steps
        m_after = max(0, m - back)
        k = rng.randrange(1, 4)       # heavy steps
        over = rng.choice([0.0, 0.25, 0.5])
        rec_len = rng.randrange(4, 12)
        rec_len = min(rec_len, M - m_after)
        events.append(dict(m_before=m, m_after=m_after, k=k, over=over, rec_len=rec_len))
        m = m_after + rec_len
    et = [round(0.05 + 0.01 * rng.randrange(0, 20), 4) for _ in range(400)] if varying_et else [0.125] * 400
    gap = None
    if gaps and rng.random() < 0.4:
        # 1-2 water-level samples missing in mid-recession: the piece is cut there (what follows the gap has seen
        # no rain in its own stretch and is not recorded)
        cands = [i for i, ev in enumerate(events) if ev['rec_len'] >= 7]
        if cands:
            e = rng.choice(cands)
            j = rng.randrange(3, events[e]['rec_len'] - 3)
            gap = (e, j, rng.randrange(1, 3))
    plan = dict(step=step, sigma=sigma, thr_j=thr_j, lattice=lattice, events=events,
                t0=rng.choice([1361318400, 1356998400, 946684800]) // step * step,
                grid_step=grid_step or rng.choice(GRID_STEPS), et=et,
                lead_dry=rng.randrange(1, 4), step_h=step_h, gap=gap,
                noise=[rng.randrange(-4, 5) / 64.0 if noise else 0.0 for _ in range(600)])
    if tie_top and len(events) >= 2:
        tie_top_events(rng, events, M)
        plan['tie_top'] = True
        if plan['gap'] is not None and plan['gap'][1] >= events[plan['gap'][0]]['rec_len'] - 3:
            plan['gap'] = None                    # (the recession it was planned in has been cut short)
    if light_equal:
        plan['light_equal'] = True
    if top_cell:
        place_top_cell(rng, plan, M)
    if far_group:
        add_far_group(rng, plan)
    if plunge:
        add_plunges(rng, plan)
    return plan


def add_plunges(rng, plan):
    """Replace every 4th-7th decrement of the lattice by a drop of 130-400 (one in five: 1025-1099) grid levels (plus
    a fraction of a level)."""
    L, g = plan['lattice'], plan['grid_step']
    decs = [a - b for a, b in zip(L, L[1:])]
    where = []
    j = rng.randrange(0, 4)
    while j < len(decs):
        n = rng.randrange(130, 401) if rng.random() < 0.8 else rng.randrange(1025, 1100)
        decs[j] = (n + rng.choice([0.0, 0.25, 0.5, 0.75])) * g
        where.append(j)
        j += rng.randrange(4, 8)
    lat = [L[0]]
    for d in decs:
        lat.append(lat[-1] - d)
    plan['lattice'] = lat
    plan['plunge'] = where
    plan['large'] = True          # thousands of crossings: judged by the oracle, not sent to the exact model in Coq
    plan['thr_j'] = min(plan['thr_j'], 0.25 / plan['step_h'])


def make_rowcount_plan(rng, rows, grid_step=None, step=None):
    """A record whose RISE curve is stored in exactly `rows` crossing rows (rising_interval_zeta): n storms (3-7) rise
    through the same N = ceil(rows/n) grid levels, n*N - rows of them one level less (they stop one level below the
    others, or start one level above them); every level is still crossed by >= 2 storms.  Storm peaks and troughs
    sit half a grid step off the grid lines.  rain_noise: the storms' depths deviate by up to 3% from the storage
    curve (the aligned rises do not coincide, so every stored row matters for the level means).  Same plan format as
    make_plan; plan['rows'] = (target, n, N, short, where); plan['large'] = True (views not sent to Coq)."""
    g = grid_step or rng.choice([0.1, 0.2, 0.3, 0.5])
    step = step or rng.choice(STEPS)
    ns = [3, 4, 5, 6, 7]
    rng.shuffle(ns)
    for n in ns + [2]:
        N = -(-rows // n)
        short = n * N - rows
        if n - short >= 2 and N >= 3:
            break
    where = rng.choice(['top', 'bottom']) if short else None
    k_top = rng.choice([-101, 0, 12, -3000])
    lattice = [(k_top + 0.5) * g, (k_top - 0.5) * g]
    left = N - 3                       # levels between L[1] and L[M-1]
    n_steps = rng.randrange(10, 18)
    k = k_top - 1
    for i in range(n_steps):
        d = left // (n_steps - i) if i < n_steps - 1 else left
        left -= d
        if d > 0:
            k -= d
            lattice.append((k + 0.5) * g)
    lattice.append((k_top - N + 1.5) * g)
    lattice.append((k_top - N + 0.5) * g)
    lattice = sorted(set(lattice), reverse=True)
    M = len(lattice) - 1
    which = set(rng.sample(range(n), short))
    events = []
    lead = rng.randrange(1, 3)
    m = M - 1 if (0 in which and where == 'bottom') else M
    for e in range(n):
        m_after = 1 if (e in which and where == 'top') else 0
        nxt = M - 1 if (e + 1 in which and where == 'bottom') else M
        events.append(dict(m_before=m, m_after=m_after, k=rng.randrange(1, 4), over=0.0,
                           rec_len=(nxt - m_after) if e < n - 1 else rng.randrange(4, M - 1)))
        m = nxt
    return dict(step=step, sigma=rng.choice([0.25, 0.5, 0.125]), thr_j=rng.choice([2.0, 4.0, 5.0]), lattice=lattice,
                events=events, t0=rng.choice([1361318400, 1356998400, 946684800]) // step * step, grid_step=g,
                et=[round(0.05 + 0.01 * rng.randrange(0, 20), 4) for _ in range(400)], lead_dry=lead, step_h=step / 3600.0,
                gap=None, noise=[0.0], rain_noise=[rng.randrange(-8, 9) / 256.0 for _ in range(n)], large=True,
                rows=dict(target=rows, storms=n, levels=N, short=short, where=where))


def make_chain_plan(rng, n_chain=None, n_long=None, long_levels=None, grid_step=None, step=None):
    """A record whose recession alignment is ILL-CONDITIONED but connected: `n_long` long recessions from the top of
    the curve that share `long_levels`+ grid levels (a steep zone in which single steps pass 12-330 levels), then a
    staircase of `n_chain` short recessions low on the curve (4 samples, two grid levels each), each sharing exactly
    ONE grid level with the next; every storm is one step of rain.  The staircase rises cross one level each, all
    different: only the long rises form the rising curve.  Same plan format as make_plan (noise-free, no gaps);
    plan['large'] = True (too large for the exact model in Coq: the oracle judges it)."""
    n_chain = n_chain or rng.randrange(600, 901)
    n_long = n_long or rng.randrange(2, 5)
    long_levels = long_levels or rng.randrange(1200, 2001)
    g = grid_step or rng.choice([0.1, 0.25, 0.5])
    step = step or rng.choice([3600, 1800, 86400])
    step_h = step / 3600.0
    k_top = rng.choice([0, -40, 75])
    lattice = [(k_top + 0.5) * g]
    levels = 0
    while levels < long_levels:
        n = rng.choice([12, 25, 25, 160, 270, 330])
        lattice.append(lattice[-1] - n * g)
        levels += n
    lattice.append(lattice[-1] - (rng.choice([3, 17]) + 0.25) * g)        # first sample of the slow zone: a quarter above a grid line
    S = len(lattice) - 1
    for _ in range(n_chain + 3):
        d1 = rng.choice([0.375, 0.5, 0.625])
        lattice.append(lattice[-1] - d1 * g)
        lattice.append(lattice[-2] - g)
    lead = rng.randrange(1, 3)
    events = []
    m = rng.randrange(lead, min(S, lead + 3))
    for _ in range(n_long):
        events.append(dict(m_before=m, m_after=0, k=1, over=0.0, rec_len=S + 4))
        m = S + 4
    for i in range(n_chain):
        events.append(dict(m_before=m, m_after=S + 2 * i, k=1, over=0.0, rec_len=4))
        m = S + 2 * i + 4
    return dict(step=step, sigma=rng.choice([0.25, 0.5, 0.125]), thr_j=0.5 * g / step_h, lattice=lattice, events=events,
                t0=rng.choice([1361318400, 1356998400, 946684800]) // step * step, grid_step=g,
                et=[round(0.05 + 0.01 * rng.randrange(0, 20), 4) for _ in range(400)], lead_dry=lead, step_h=step_h, gap=None,
                noise=[0.0], large=True, chain=dict(n_chain=n_chain, n_long=n_long, long_levels=levels))


def top_cell_stats(plan):
    """What the record of a plan has at the top of its level grid, from the realised samples alone: the highest
    level, the number G of the grid level just below it (= the last level of the grid floor(min/g) .. ceil(max/g)-1),
    and how many rises / recession pieces cross G (lower end included, upper end excluded)."""
    _, zeta, _, truth = realise(plan)
    g = Fraction(plan['grid_step'])
    miss = set(truth.get('missing', ()))
    zmax = max(Fraction(z) for i, z in enumerate(zeta) if i not in miss)
    q = zmax / g
    G = math.ceil(q) - 1
    n_rise = sum(1 for x in truth['rises'] if Fraction(x['zi']) <= G * g < Fraction(x['zf']))
    n_rec = sum(1 for p in truth['pieces'] if p['last'] > p['first']
                and Fraction(zeta[p['last']]) <= G * g < Fraction(zeta[p['first']]))
    return dict(zmax=float(zmax), on_grid_line=(q.denominator == 1), level=G, rises=n_rise, recessions=n_rec)


def place_top_cell(rng, plan, M):
    """Re-chain the events so that two of them bring the level back to the same highest lattice level, keep every
    storm's peak within one grid cell of it, then slide the whole lattice so that a grid line G*g (G >= 0) lies
    just below that level: max level > 0, off the grid lines, level G crossed by two rises and two recessions.
    The jump threshold is lowered when a planned rise would otherwise have to be stretched to exceed it."""
    events = plan['events']
    plan['top_cell'] = False
    if len(events) < 2:
        return
    if not plan.get('tie_top'):
        tie_top_events(rng, events, M)
        plan['tie_top'] = True
        if plan['gap'] is not None and plan['gap'][1] >= events[plan['gap'][0]]['rec_len'] - 3:
            plan['gap'] = None
    g = plan['grid_step']
    mm = min(ev['m_after'] for ev in events)
    for ev in events:
        ev['over'] = rng.choice([0.0, 0.0, 0.03125]) if ev['m_after'] == mm else min(ev['over'], 0.25)
    G = rng.choice([0, 0, 1, 2, 7, 25])
    thr0, lat0 = plan['thr_j'], list(plan['lattice'])
    for thr_j in [thr0, 1.0, 0.5, 0.25, 0.125, 0.0625, 0.03125]:
        if thr_j > thr0:
            continue
        plan['thr_j'] = thr_j
        plan['lattice'] = list(lat0)
        _, zeta, _, truth = realise(plan)
        zf = sorted((x['zf'] for x in truth['rises']), reverse=True)
        st = sorted((zeta[p['first']] for p in truth['pieces'] if p['last'] > p['first']), reverse=True)
        if len(zf) < 2 or len(st) < 2:
            continue
        T, zmax = min(zf[1], st[1]), max(zeta)
        for e in (0.125, 0.0625, 0.03125, 0.25, 0.015625):
            y = T - e                                   # the grid line, in the present coordinates
            if not (zmax - g < y):
                continue
            c = G * g - y
            plan['lattice'] = [v + c for v in lat0]
            s = top_cell_stats(plan)
            if s['zmax'] > 0 and not s['on_grid_line'] and s['rises'] >= 2 and s['recessions'] >= 2:
                plan['top_cell'] = True
                plan['top_level'] = s['level']
                return
    plan['thr_j'], plan['lattice'] = thr0, lat0


def rise_level_sets(plan):
    """Grid levels crossed by each planted rise (lower end included, upper excluded), from the realised samples."""
    _, _, _, truth = realise(plan)
    g = Fraction(plan['grid_step'])
    return [set(range(math.ceil(Fraction(x['zi']) / g), math.ceil(Fraction(x['zf']) / g))) for x in truth['rises']]


def add_far_group(rng, plan):
    """Append 1-2 storms that happen after a long recession far below every earlier rise: none of their rises
    shares a grid level with a rise of the main sequence (checked on the realised record).  The lattice is
    extended downwards as needed."""
    events, L = plan['events'], plan['lattice']
    plan['far_group'] = 0
    n_main = len(events)
    n_far = rng.choice([1, 2, 2])
    far = [dict(back=rng.randrange(3, 7), over=rng.choice([0.0, 0.25]), rec_len=rng.randrange(4, 9)) for _ in range(n_far)]
    extra = [rng.choice([0.25, 0.5, 0.75, 1.0, 1.5, 0.375]) for _ in range(400)]
    lat = list(L)
    for d in extra:
        lat.append(lat[-1] - d)
    last = events[-1]
    deepest = max(ev['m_before'] for ev in events)
    base_len = last['rec_len']
    for margin in range(2, 300, 3):
        m = deepest + margin + far[0]['back']
        if m - last['m_after'] < base_len:
            continue
        evs = [dict(ev) for ev in events]
        evs[-1]['rec_len'] = m - last['m_after']
        hi = m
        for f in far:
            m_after = m - f['back']
            evs.append(dict(m_before=m, m_after=m_after, k=1, over=f['over'], rec_len=f['rec_len']))
            m = m_after + f['rec_len']
            hi = max(hi, m)
        if hi + 2 >= len(lat):
            break
        trial = dict(plan, events=evs, lattice=lat[:max(hi + 2, len(L))])
        sets = rise_level_sets(trial)
        main = set().union(*sets[:n_main])
        if all(not (s & main) for s in sets[n_main:]):
            plan['events'], plan['lattice'], plan['far_group'] = evs, trial['lattice'], n_far
            return


def tie_top_events(rng, events, M):
    """Re-chain the events so that two of them bring the level back to exactly the same, highest, lattice level
    (everything else about them - steps, overshoot, length of the recession - is kept)."""
    mm = min(ev['m_after'] for ev in events)
    e_top = [i for i, ev in enumerate(events) if ev['m_after'] == mm][0]
    j = rng.choice([i for i in range(len(events)) if i != e_top])
    m = events[0]['m_before']
    for i, ev in enumerate(events):
        back = max(3, ev['m_before'] - ev['m_after'])
        ev['m_before'] = m
        if i in (e_top, j):
            ev['m_after'] = mm
        elif i < min(e_top, j):
            pass                                  # untouched prefix (m_after >= mm there)
        else:
            ev['m_after'] = max(mm + 1, m - back)
        ev['rec_len'] = max(1, min(ev['rec_len'], M - ev['m_after']))
        m = ev['m_after'] + ev['rec_len']


def realise(plan):
    """Plan -> (rain per step, level per sample, thresholds, truth)."""
    step_h = plan['step'] / 3600.0
    sigma, thr_j, L = plan['sigma'], plan['thr_j'], plan['lattice']
    delta = thr_j * step_h
    rain, zeta = [], []
    heavy = []
    ev0 = plan['events'][0]
    m = ev0['m_before']
    # lead-in: a few dry recession samples before the first storm (flagged "unexplained" - no rain yet)
    for i in range(plan['lead_dry']):
        zeta.append(L[m - plan['lead_dry'] + i])
        rain.append(0.0)
    zeta.append(L[m])
    pieces, rises = [], []
    for ev in plan['events']:
        zi = zeta[-1]
        zf = L[ev['m_after']] + ev['over']
        H = zf - zi
        k = ev['k']
        # per-step rises must exceed the jump threshold
        while k > 1 and H / k <= delta * 1.25:
            k -= 1
        if H / k <= delta * 1.25:
            zf = zi + delta * 1.5 * k
            H = zf - zi
        start_idx = len(zeta) - 1
        for j in range(k):
            r = sigma * (H / k) / step_h
            if plan.get('rain_noise'):
                # the gauge over/under-catches this storm by a few percent: the rises no longer lie on ONE storage curve
                r *= 1.0 + plan['rain_noise'][len(rises) % len(plan['rain_noise'])]
            rain.append(r)
            heavy.append(r)
            zeta.append(zi + H * (j + 1) / k if j < k - 1 else zf)
        rises.append(dict(start=start_idx, stop=len(zeta) - 1, zi=zi, zf=zf, depth=sigma * H))
        # one light-rain step: level settles on the lattice
        rain.append(None)  # placeholder: light rain, fixed below
        zeta.append(L[ev['m_after']])
        first = len(zeta) - 1
        for j in range(1, ev['rec_len'] + 1):
            rain.append(0.0)
            nz = plan.get('noise') or [0.0]
            zeta.append(L[ev['m_after'] + j] + nz[len(zeta) % len(nz)])
        pieces.append(dict(first=first, last=len(zeta) - 1, m0=ev['m_after']))
    thr_s = min(heavy) / 2.0
    if plan.get('light_equal'):
        # threshold on a 1/64 lattice (min(heavy) > 0.3): its decimal form is short, so every parser involved
        # (Python's, SQLite's) yields the same binary64, and the light steps are EXACTLY the threshold
        thr_s = math.floor(thr_s * 64.0) / 64.0
        rain = [thr_s if r is None else r for r in rain]
    rain = [thr_s / 4.0 if r is None else r for r in rain]
    # the last sample has no rainfall step after it inside the span: rain list has len(zeta)-1 .. pad one dry step
    while len(rain) < len(zeta):
        rain.append(0.0)
    # a piece ends one sample before the next storm's first step (that sample carries rain)
    for p, r in zip(pieces, rises[1:] + [None]):
        if r is not None:
            p['last'] = r['start'] - 1
    missing = []
    if plan.get('gap'):
        e, j, ln = plan['gap']
        p = pieces[e]
        a = p['first'] + j
        if a + ln <= p['last'] - 2:
            missing = list(range(a, a + ln))
            p['last'] = a - 1
    return rain, zeta, thr_s, dict(pieces=pieces, rises=rises, missing=missing)


def plan_to_dataset(plan, shift=0, tz='UTC', fmt_time=None):
    rain, zeta, thr_s, truth = realise(plan)
    step, t0 = plan['step'], plan['t0'] + shift
    n = len(zeta)
    rrows = [(t0 + i * step, rain[i]) for i in range(n)]
    erows = [(t0 + i * step, plan['et'][i % len(plan['et'])]) for i in range(n + 1)]
    miss = set(truth.get('missing', ()))
    wrows = [(t0 + i * step, zeta[i]) for i in range(n) if i not in miss]
    kw = {}
    if fmt_time is not None:
        kw['fmt_time'] = fmt_time
    return D.Dataset(rrows, erows, wrows, tz=tz, **kw), thr_s, truth


def read_curves(db):
    con = sqlite3.connect(db)
    try:
        out = dict(
            rising_interval=dict(con.execute('SELECT start_epoch, rain_depth_offset_mm FROM rising_interval')),
            recession_interval=dict(con.execute('SELECT start_epoch, time_offset_s FROM recession_interval')),
            rising_interval_zeta=con.execute('SELECT start_epoch, zeta_number, mean_crossing_depth_mm FROM rising_interval_zeta').fetchall(),
            recession_interval_zeta=con.execute('SELECT start_epoch, zeta_number, mean_crossing_time FROM recession_interval_zeta').fetchall(),
            avg_rise=con.execute('SELECT zeta_mm, mean_crossing_depth_mm FROM average_rising_depth ORDER BY zeta_mm').fetchall(),
            avg_recession=con.execute('SELECT zeta_mm, elapsed_time_s FROM average_recession_time ORDER BY zeta_mm').fetchall(),
            zeta_interval=con.execute('SELECT start_epoch, interval_type, thru_epoch FROM zeta_interval ORDER BY start_epoch').fetchall(),
            storm=con.execute('SELECT start_epoch, thru_epoch FROM storm ORDER BY start_epoch').fetchall(),
            discrete_zeta=[r[0] for r in con.execute('SELECT zeta_number FROM discrete_zeta ORDER BY zeta_number')],
            grid=con.execute('SELECT grid_interval_mm FROM zeta_grid').fetchall(),
            # what plotting reads per interval, and the tables it derives from
            rise_segments=con.execute('SELECT interval_start_epoch, rain_depth_offset_mm, rain_total_depth_mm, '
                                      'initial_zeta_mm, final_zeta_mm FROM rising_curve_line_segment').fetchall(),
            zeta_interval_storm=con.execute('SELECT interval_start_epoch, storm_start_epoch FROM zeta_interval_storm').fetchall(),
            water_level=dict(con.execute('SELECT epoch, zeta_mm FROM water_level')),
            rainfall=con.execute('SELECT from_epoch, thru_epoch, rainfall_intensity_mm_h FROM rainfall_intensity '
                                 'ORDER BY from_epoch').fetchall(),
            views=sorted(r[0] for r in con.execute("SELECT name FROM sqlite_master WHERE type = 'view'")),
        )
    finally:
        con.close()
    return out


# ------------------------------------------------------------------ views against the tables they present

KINDS = dict(rise=('rising_interval', 'rising_interval_zeta', 'avg_rise', 'average_rising_depth'),
             recession=('recession_interval', 'recession_interval_zeta', 'avg_recession', 'average_recession_time'))
KNOWN_VIEWS = ['average_recession_time', 'average_rising_depth', 'rising_curve_line_segment', 'storm_total_rain_depth',
               'storm_total_rise']


def table_master(r, kind):
    """The master curve as the tables define it: level number -> mean over the aligned intervals crossing it of
    (offset + crossing value).  Rows of intervals that have no offset are not part of the curve."""
    offs_key, rows_key = KINDS[kind][:2]
    offs = r[offs_key]
    per = {}
    for start, zn, v in r[rows_key]:
        if start in offs:
            per.setdefault(zn, []).append(offs[start] + v)
    return {zn: math.fsum(vals) / len(vals) for zn, vals in per.items()}, {zn: len(vals) for zn, vals in per.items()}


def view_master(r, kind):
    """The master curve as the VIEW shows it (what a user, plotting and the PEST files see): level number ->
    value, plus complaints about rows that are not on a grid level or are listed twice."""
    g = r['grid'][0][0]
    got, bad = {}, []
    for zeta_mm, v in r[KINDS[kind][2]]:
        k = int(round(zeta_mm / g))
        if abs(zeta_mm - k * g) > 1e-9 * (1 + abs(k * g)):
            bad.append('%s lists %r mm, which is not a multiple of the grid step %r' % (KINDS[kind][3], zeta_mm, g))
        elif k in got:
            bad.append('%s lists level %d (%r mm) twice' % (KINDS[kind][3], k, zeta_mm))
        got[k] = v
    return got, bad


def view_table_complaints(r, kinds=('rise', 'recession')):
    """Every level at which an aligned interval has a crossing row must appear in the master-curve view with
    zeta_mm = level * step and value = mean(offset + crossing), and the view shows nothing else."""
    out = []
    g = r['grid'][0][0]
    for kind in kinds:
        want, cnt = table_master(r, kind)
        got, bad = view_master(r, kind)
        view, rows_key = KINDS[kind][3], KINDS[kind][1]
        out += ['%s: %s' % (kind, b) for b in bad]
        missing = sorted(set(want) - set(got))
        if missing:
            dz = r.get('discrete_zeta') or [None]
            out.append('%s: level(s) %s (%s mm) are crossed by %s aligned interval(s) in %s but the view %s has no point there: '
                       'the master curve shown stops at %s mm although the assembled curve reaches %s mm (grid levels in '
                       'discrete_zeta: %s .. %s; highest water level %r mm; step %r mm)'
                       % (kind, missing, [k * g for k in missing], [cnt[k] for k in missing], rows_key, view,
                          max(got) * g if got else None, max(want) * g, dz[0], dz[-1],
                          max(r['water_level'].values()) if r.get('water_level') else None, g))
        extra = sorted(set(got) - set(want))
        if extra:
            out.append('%s: the view %s shows level(s) %s at which no aligned interval has a crossing row' % (kind, view, extra))
        scale = 1 + max([abs(v) for v in want.values()] + [0.0])
        for k in sorted(set(want) & set(got)):
            if abs(want[k] - got[k]) > 1e-9 * scale:
                out.append('%s: the view %s gives %r at level %d; the mean of offset + crossing over the %d aligned interval(s) '
                           'crossing it is %r' % (kind, view, got[k], k, cnt[k], want[k]))
                break
    return out


def line_segment_complaints(r):
    """rising_curve_line_segment (read by `spowtd plot rise`): exactly one row per ALIGNED rise (those of
    rising_interval - the intervals left out of the main body are absent), carrying that rise's own offset, the
    total rain depth of its storm and the water levels at its two ends.  Everything recomputed from the tables."""
    out = []
    offs = r['rising_interval']
    storm_of = dict(r['zeta_interval_storm'])
    thru_of = {a: b for a, t, b in r['zeta_interval'] if t == 'storm'}
    storm_thru = dict(r['storm'])
    got = {}
    for row in r['rise_segments']:
        if row[0] in got:
            out.append('rising_curve_line_segment lists the rise starting %s twice' % row[0])
        got[row[0]] = row[1:]
    extra = sorted(set(got) - set(offs))
    if extra:
        out.append('rising_curve_line_segment places %d rise(s) that the alignment left out (no row in rising_interval: they '
                   'share no level with the main body): %s' % (len(extra), [(s, 'offset %r' % (got[s][0],)) for s in extra][:4]))
    missing = sorted(set(offs) - set(got))
    if missing:
        out.append('rising_curve_line_segment lacks aligned rise(s) %s' % missing[:4])
    for s in sorted(set(offs) & set(got)):
        st = storm_of.get(s)
        depth = math.fsum(i * (b - a) / 3600.0 for a, b, i in r['rainfall']
                          if st is not None and a >= st and b <= storm_thru[st])
        want = (offs[s], depth, r['water_level'].get(s), r['water_level'].get(thru_of.get(s)))
        for name, w, v in zip(('rain_depth_offset_mm', 'rain_total_depth_mm', 'initial_zeta_mm', 'final_zeta_mm'), want, got[s]):
            if w is None or v is None or abs(w - v) > 1e-9 * (1 + abs(w)):
                out.append('rising_curve_line_segment: rise starting %s has %s = %r; the tables give %r' % (s, name, v, w))
                return out
    return out


def build_from_plan(prop, plan, steps=('rise', 'recession'), ref=None, shift=0, tz='UTC', fmt_time=None,
                    name='curves_db', order=None):
    ds, thr_s, truth = plan_to_dataset(plan, shift=shift, tz=tz, fmt_time=fmt_time)
    d = D.scratch(prop, name)
    res = dict(plan=plan, truth=truth, thr_s=thr_s, status='ok', dir=d)
    db, rc, exc = D.load(ds, d)
    res['db'] = db
    if exc is not None:
        res.update(status='load-fail', exc=exc)
        return res
    cmds = [('classify', ['classify', db, '-s', repr(float(thr_s)), '-j', repr(float(plan['thr_j']))]),
            ('grid', ['set-zeta-grid', db, '-d', plan['grid_step']])]
    for s in steps:
        if s == 'rise':
            cmds.append(('rise', ['rise', db] + (['-r', ref] if ref is not None else [])))
        elif s == 'recession':
            cmds.append(('recession', ['recession', db] + (['-r', ref] if ref is not None else [])))
        elif s == 'curvature':
            cmds.append(('curvature', ['set-curvature', db, plan.get('curvature', 1.5)]))
    if order is not None:
        cmds = [cmds[i] for i in order]
    for name_, argv in cmds:
        rc, exc, _ = D.cli(argv)
        if exc is not None:
            res.update(status=name_ + '-fail', exc=exc)
            return res
    res.update(read_curves(db))
    return res


def build_dataset(prop, rng, steps=('rise', 'recession'), **kw):
    return build_from_plan(prop, make_plan(rng), steps=steps, **kw)


# ------------------------------------------------------------------ the truth, exactly

def truth_time_of_level(plan, h):
    """Time (in steps, Fraction) at which the underlying recession curve crosses level h."""
    L, neg = _lattice_fractions(plan['lattice'])
    h = Fraction(h)
    m = bisect.bisect_right(neg, -h) - 1          # number of lattice levels >= h, minus one (the lattice decreases strictly)
    if m < 0:
        return None
    if m == len(L) - 1:
        return Fraction(m) if h == L[-1] else None
    return m + (L[m] - h) / (L[m] - L[m + 1])


_LATTICE_CACHE = {}


def _lattice_fractions(lattice):
    """(lattice as fractions, their negatives ascending), cached per lattice (keyed by its values)."""
    key = tuple(lattice)
    hit = _LATTICE_CACHE.get(key)
    if hit is None:
        if len(_LATTICE_CACHE) > 8:
            _LATTICE_CACHE.clear()
        L = [Fraction(v) for v in lattice]
        hit = _LATTICE_CACHE[key] = (L, [-v for v in L])
    return hit


# ------------------------------------------------------------------ the views against their Coq model

VIEWS_PRE = 'From Spowtd Require Import Model.ViewsCase.\n'
VIEWS_MODELS = ['Model/Views.vo', 'Model/ViewsCase.vo']


def dump_views(db):
    """Everything the master-curve views are computed from, and what the real views return - rows in the order
    SQLite returns them (the views have no ORDER BY; the order is part of what is compared)."""
    con = sqlite3.connect(db)
    try:
        q = lambda sql: con.execute(sql).fetchall()         # noqa: E731
        d = dict(
            grid=[r[0] for r in q('SELECT zeta_number FROM discrete_zeta')],
            step=[r[0] for r in q('SELECT grid_interval_mm FROM zeta_grid')],
            rise=dict(offsets=q('SELECT start_epoch, rain_depth_offset_mm FROM rising_interval'),
                      crossings=q('SELECT start_epoch, zeta_number, mean_crossing_depth_mm FROM rising_interval_zeta'),
                      view=q('SELECT zeta_mm, mean_crossing_depth_mm FROM average_rising_depth')),
            recession=dict(offsets=q('SELECT start_epoch, time_offset_s FROM recession_interval'),
                           crossings=q('SELECT start_epoch, zeta_number, mean_crossing_time FROM recession_interval_zeta'),
                           view=q('SELECT zeta_mm, elapsed_time_s FROM average_recession_time')),
            pairing=q('SELECT interval_start_epoch, storm_start_epoch FROM zeta_interval_storm'),
            zint=q('SELECT start_epoch, thru_epoch FROM zeta_interval'),
            wl=q('SELECT epoch, zeta_mm FROM water_level'),
            storms=q('SELECT start_epoch, thru_epoch FROM storm'),
            rain=q('SELECT from_epoch, thru_epoch, rainfall_intensity_mm_h FROM rainfall_intensity'),
            segments=q('SELECT interval_start_epoch, rain_depth_offset_mm, rain_total_depth_mm, initial_zeta_mm, '
                       'final_zeta_mm FROM rising_curve_line_segment'))
    finally:
        con.close()
    return d


def _no_null(rows):
    return all(v is not None for r in rows for v in r)


def _rows(rows, fmts):
    return C.clist(['(' + ', '.join(f(v) for f, v in zip(fmts, r)) + ')' for r in rows])


def view_case_string(d, kind):
    """Coq literal `AvgCase (offsets, crossings, grid levels, step, rows of the real view)` (Model/ViewsCase.v): the
    values are bit-exact binary64 literals, which Coq turns into the exact rationals they denote (float_to_Q; a
    non-finite value fails the case).  None when a value is NULL (reported by the caller)."""
    k = d[kind]
    if not (_no_null(k['offsets']) and _no_null(k['crossings']) and _no_null(k['view'])):
        return None
    # no row in zeta_grid: the last join of the view has no partner, whatever discrete_zeta holds
    grid, step = (d['grid'], d['step'][0]) if d['step'] else ([], 1.0)
    return 'AvgCase (%s, %s, %s, %s, %s)' % (
        _rows(k['offsets'], (C.cZ, C.cfloat)), _rows(k['crossings'], (C.cZ, C.cZ, C.cfloat)), C.cZs(grid), C.cfloat(step),
        _rows(k['view'], (C.cfloat, C.cfloat)))


def _seg_tables(d):
    """The rows of the two big tables that can take part in the joins of rising_curve_line_segment: water levels at
    the ends of some interval, rainfall inside the span of the storms.  The rows left out (thousands per database)
    satisfy no join condition of the view; the model evaluates the joins themselves on what is passed."""
    ends = {e for e, _ in d['zint']} | {t for _, t in d['zint']}
    wl = [r for r in d['wl'] if r[0] in ends]
    lo = min([s for s, _ in d['storms']], default=None)
    hi = max([t for _, t in d['storms']], default=None)
    rain = [r for r in d['rain'] if lo is not None and r[0] >= lo and r[1] <= hi]
    return wl, rain


def seg_case_string(d):
    wl, rain = _seg_tables(d)
    if not (_no_null(wl) and _no_null(rain) and _no_null(d['rise']['offsets']) and _no_null(d['segments'])):
        return None
    zz = (C.cZ, C.cZ)
    return 'SegCase (%s, %s, %s, %s, %s, %s, %s)' % (
        _rows(d['pairing'], zz), _rows(d['zint'], zz), _rows(wl, (C.cZ, C.cfloat)), _rows(d['storms'], zz),
        _rows(rain, (C.cZ, C.cZ, C.cfloat)), _rows(d['rise']['offsets'], (C.cZ, C.cfloat)),
        _rows(d['segments'], (C.cZ, C.cfloat, C.cfloat, C.cfloat, C.cfloat)))


def _balanced(strs, jobs=16):
    """Order the cases so that consecutive groups of `shard` (what run_case_shards slices) carry about the same amount
    of text - Coq's time goes into reading the literals.  Returns (order, shard)."""
    n = len(strs)
    if n == 0:
        return [], 1
    shard = -(-n // min(jobs, n))
    nb = -(-n // shard)
    cap = [shard] * (nb - 1) + [n - (nb - 1) * shard]
    bins, load = [[] for _ in range(nb)], [0] * nb
    for i in sorted(range(n), key=lambda i: -len(strs[i])):        # largest first, into the lightest bin with room
        b = min((b for b in range(nb) if len(bins[b]) < cap[b]), key=lambda b: load[b])
        bins[b].append(i)
        load[b] += len(strs[i])
    return [i for b in bins for i in b], shard


def check_views_coq(prop, label, items, out, what=lambda case: ''):
    """items: [(dump_views(db), case)].  For every database: Model/Views.v evaluated INSIDE Coq on the dumped tables
    (exact rationals) against the rows the real SQLite views return -
      view_average  vs average_rising_depth / average_recession_time: same number of rows, same levels in the same
                    order, values within 1e-9 of the magnitude of the terms (SQLite adds in binary64);
      curve_levels  (conclusion of C13_view_shows_every_stored_level): the real view lists EVERY level at which an
                    aligned interval has a crossing row;
      view_line_segments vs rising_curve_line_segment: same rows (by interval), offsets and levels exactly, depth 1e-9.
    Reports 'corr' violations on `out`; returns the seconds spent in Coq."""
    strs, meta = [], []
    for d, case in items:
        for kind in ('rise', 'recession'):
            if not d[kind]['offsets'] and not d[kind]['crossings'] and not d[kind]['view']:
                out.count('views-coq:%s:no-curve' % kind)
                continue
            s = view_case_string(d, kind)
            if s is None:
                out.violation('corr', 'view %s or its tables hold NULL values%s: %r'
                              % (KINDS[kind][3], what(case), d[kind]['view'][:4]), case=case)
                continue
            strs.append(s)
            meta.append((d, kind, case))
            out.count('views-coq:%s' % kind)
            if d[kind]['view'] and d['step'] and max(z for z, _ in d[kind]['view']) > 0:
                out.count('views-coq:%s:top-level-positive' % kind)
        if d['pairing'] or d['segments']:
            s = seg_case_string(d)
            if s is None:
                out.violation('corr', 'view rising_curve_line_segment or its tables hold NULL values%s: %r'
                              % (what(case), d['segments'][:4]), case=case)
            else:
                strs.append(s)
                meta.append((d, 'segments', case))
                out.count('views-coq:segments')
                aligned = {e for e, _ in d['rise']['offsets']}
                if d['rise']['offsets'] and any(e not in aligned for e, _ in d['pairing']):
                    out.count('views-coq:segments:some-rise-left-out')
    order, shard = _balanced(strs)
    bad, errs, secs = C.run_case_shards(prop, label, VIEWS_PRE, 'any_case', 'check_any', [strs[i] for i in order],
                                        shard=shard)
    out.corr_errors += errs
    bad = [order[i] for i in bad]
    if not bad:
        return secs
    # which comparison failed (a second pass over the failing cases only)
    sub = [strs[i] for i in bad]
    bm, e1, t1 = C.run_case_shards(prop, label + '_model', VIEWS_PRE, 'any_case', 'check_any_model', sub, shard=4)
    bc, e2, t2 = C.run_case_shards(prop, label + '_complete', VIEWS_PRE, 'any_case', 'check_any_complete', sub, shard=4)
    out.corr_errors += e1 + e2
    secs += t1 + t2
    for j, i in enumerate(bad):
        d, kind, case = meta[i]
        if kind == 'segments':
            aligned = {e for e, _ in d['rise']['offsets']}
            extra = [r[:2] for r in d['segments'] if r[0] not in aligned]
            out.count('views-coq:segments-differ')
            out.violation('corr', 'Coq: Views.view_line_segments on the dumped tables <> rows returned by the view '
                          'rising_curve_line_segment: the view has %d rows for %d aligned rises%s%s'
                          % (len(d['segments']), len(aligned),
                             ('; rises that have NO offset row are listed: %s' % extra[:4]) if extra else '', what(case)),
                          case=case)
            continue
        view = KINDS[kind][3]
        g = d['step'][0] if d['step'] else None
        shown = [z for z, _ in d[kind]['view']]
        if j in bc:
            out.count('views-coq:level-dropped')
            aligned = {e for e, _ in d[kind]['offsets']}
            levels = sorted({k for e, k, _ in d[kind]['crossings'] if e in aligned})
            out.violation('corr', 'Coq (conclusion of C13_view_shows_every_stored_level evaluated on the real tables): the '
                          'view %s lists %d level(s), zeta_mm %s .. %s, but aligned intervals have crossing rows at %d '
                          'levels, numbers %s .. %s (step %r mm; discrete_zeta %s .. %s): a level of the assembled curve is '
                          'not shown%s' % (view, len(shown), min(shown, default=None), max(shown, default=None), len(levels),
                                           levels[0] if levels else None, levels[-1] if levels else None, g,
                                           min(d['grid'], default=None), max(d['grid'], default=None), what(case)),
                          case=case)
        if j in bm or j not in bc:
            out.count('views-coq:model-vs-view')
            out.violation('corr', 'Coq: Views.view_average on the dumped tables <> rows returned by the view %s '
                          '(%d rows; first %r)%s' % (view, len(shown), d[kind]['view'][:3], what(case)), case=case)
    return secs
