"""Shared machinery of the spowtd verification harness.

Runs under /venv/bin/python with the *current* /repo working tree first on
sys.path (spowtd is not installed in the venv).
"""
import concurrent.futures as cf
import hashlib
import json
import os
import random
import re
import shutil
import subprocess
import sys
import threading
import time

VERIF = os.path.dirname(os.path.dirname(os.path.abspath(__file__)))
REPO = os.environ.get('SPOWTD_REPO', '/repo')
COQ = os.path.join(VERIF, 'coq')
# VERIF_SCRATCH=<dir> (development: trying the checks on a changed copy of the repository, possibly several at
# once) redirects everything a run writes - work files, evidence, replays - below <dir>; unset = /verif itself.
OUT = os.environ.get('VERIF_SCRATCH') or VERIF
WORK = os.path.join(OUT, 'work')
COQ_WARN = ['-w', '-notation-overridden,-deprecated-hint-without-locality,'
            '-deprecated-syntactic-definition,-abstract-large-number']

os.environ['PYTHONPATH'] = REPO
os.environ['PYTHONHASHSEED'] = '0'
os.environ['PYTHONDONTWRITEBYTECODE'] = '1'
os.environ.setdefault('SPOWTD_VERIF', '1')
sys.dont_write_bytecode = True
if REPO not in sys.path:
    sys.path.insert(0, REPO)


def import_spowtd():
    """Import spowtd from the current /repo tree (fail closed otherwise)."""
    import importlib
    for name in [m for m in sys.modules if m == 'spowtd' or m.startswith('spowtd.')]:
        del sys.modules[name]
    spowtd = importlib.import_module('spowtd')
    path = os.path.dirname(os.path.abspath(spowtd.__file__))
    if not path.startswith(os.path.abspath(REPO)):
        raise RuntimeError('spowtd imported from %s, not from %s' % (path, REPO))
    return spowtd


# ---------------------------------------------------------------- Coq literals

def cbool(b):
    return 'true' if b else 'false'


def clist(items):
    return '[' + '; '.join(items) + ']'


def cbools(bs):
    return clist([cbool(b) for b in bs])


def cnat(n):
    n = int(n)
    assert 0 <= n < 100000, n
    return str(n)


def cnats(ns):
    return clist([cnat(n) for n in ns])


def cZ(n):
    n = int(n)
    return '(%d)%%Z' % n if n < 0 else '%d%%Z' % n


def cZs(ns):
    return clist([cZ(n) for n in ns])


def cpair(a, b):
    return '(%s, %s)' % (a, b)


def cfloat(x):
    """PrimFloat literal, bit exact."""
    x = float(x)
    if x != x:
        return 'nan'
    if x == float('inf'):
        return 'infinity'
    if x == float('-inf'):
        return 'neg_infinity'
    h = x.hex()
    if h.startswith('-'):
        return '(-%s)%%float' % h[1:]
    return '%s%%float' % h


def cfloats(xs):
    return clist([cfloat(x) for x in xs])


def cQ(x):
    """Exact rational literal of a float (dyadic) or Fraction or int."""
    from fractions import Fraction
    f = Fraction(x)
    return '(%d # %d)%%Q' % (f.numerator, f.denominator)


def cQs(xs):
    return clist([cQ(x) for x in xs])


def cstring(s):
    """Coq string literal (ASCII only)."""
    assert all(32 <= ord(c) < 127 for c in s), repr(s)
    return '"' + s.replace('"', '""') + '"'


def copt(x, f):
    return 'None' if x is None else '(Some %s)' % f(x)


ERR_OF_EXC = [
    ('AssertionError', 'EAssert'), ('IndexError', 'EIndex'), ('AttributeError', 'EAttr'),
    ('IntegrityError', 'EIntegrity'), ('LinAlgError', 'ELinAlg'),
    ('NotImplementedError', 'ENotImpl'), ('KeyError', 'EKey'), ('TypeError', 'EType'),
    ('ValueError', 'EValue'),
]


def err_of(exc):
    names = [c.__name__ for c in type(exc).__mro__]
    for n, e in ERR_OF_EXC:
        if n in names:
            return e
    return 'EOther'


# ---------------------------------------------------------------- running Coq

def sh(cmd, timeout=600, cwd=None, env=None):
    t0 = time.time()
    try:
        p = subprocess.run(cmd, cwd=cwd, env=env, stdout=subprocess.PIPE,
                           stderr=subprocess.STDOUT, timeout=timeout, text=True)
        return p.returncode, p.stdout, time.time() - t0
    except subprocess.TimeoutExpired as e:
        out = e.stdout if isinstance(e.stdout, str) else (e.stdout or b'').decode('utf8', 'replace')
        return 124, (out or '') + '\nTIMEOUT after %ss' % timeout, time.time() - t0


_COQC_RETRY_LOCK = threading.Lock()


def coqc(path, timeout=600, extra=()):
    """Compile one file.  A run that dies WITHOUT a Coq error message (killed for memory on a loaded machine, or
    timed out while 100+ other coqc processes compete) says nothing about the file: it is repeated once, alone
    (one retry at a time), with twice the time.  A Coq `Error:` is never retried."""
    cmd = ['coqc', '-Q', COQ, 'Spowtd'] + COQ_WARN + list(extra) + [path]
    # a time limit only protects against a hung prover; on a loaded machine a generated file that needs 45 s alone
    # was seen to exceed 900 s, and a timeout would be reported as a broken correspondence: be generous
    timeout = max(timeout, 2400)
    rc, out, secs = sh(cmd, timeout=timeout, cwd=os.path.dirname(path))
    if rc != 0 and 'Error' not in out:
        with _COQC_RETRY_LOCK:
            rc2, out2, secs2 = sh(cmd, timeout=2 * timeout, cwd=os.path.dirname(path))
        return rc2, out2 + ('\n(first attempt ended with status %s and no Coq error; retried alone)' % rc), secs + secs2
    return rc, out, secs


def ensure_makefile():
    """(Re)generate _CoqProject and Makefile from the files on disk."""
    files = []
    for sub in ('Model', 'Proofs', 'Properties', 'Refuted', 'Generated'):
        d = os.path.join(COQ, sub)
        if os.path.isdir(d):
            files += sorted(os.path.join(sub, f) for f in os.listdir(d) if f.endswith('.v'))
    text = '-Q . Spowtd\n-arg -w -arg ' + COQ_WARN[1] + '\n' + '\n'.join(files) + '\n'
    proj = os.path.join(COQ, '_CoqProject')
    old = open(proj).read() if os.path.exists(proj) else None
    if old != text or not os.path.exists(os.path.join(COQ, 'Makefile')):
        with open(proj, 'w') as f:
            f.write(text)
        rc, out, _ = sh(['coq_makefile', '-f', '_CoqProject', '-o', 'Makefile'], cwd=COQ)
        if rc != 0:
            raise RuntimeError('coq_makefile failed: ' + out)


def make(targets, timeout=1800, jobs=16):
    ensure_makefile()
    return sh(['make', '-j%d' % jobs] + list(targets), cwd=COQ, timeout=timeout)


HYGIENE_RE = re.compile(
    r'\b(Admitted|admit|Axiom|Axioms|Parameter|Parameters|Conjecture|Conjectures|'
    r'Admit Obligations|bypass_check|Unset Guard Checking|Unset Positivity Checking|'
    r'Unset Universe Checking|type-in-type|impredicative-set|native_compute)\b')
TOPLEVEL_VAR_RE = re.compile(r'^\s*(Variable|Variables|Hypothesis|Hypotheses|Context)\b')


def strip_comments(text):
    out, depth, i = [], 0, 0
    while i < len(text):
        if text.startswith('(*', i):
            depth += 1
            i += 2
        elif text.startswith('*)', i) and depth:
            depth -= 1
            i += 2
        else:
            if depth == 0:
                out.append(text[i])
            elif text[i] == '\n':
                out.append('\n')
            i += 1
    return ''.join(out)


def hygiene(paths):
    """Fail-closed scan of the development for forbidden constructs."""
    problems = []
    for p in paths:
        text = strip_comments(open(p).read())
        # strip string literals
        text_ns = re.sub(r'"(?:[^"]|"")*"', '""', text)
        depth = 0
        for ln, line in enumerate(text_ns.split('\n'), 1):
            m = HYGIENE_RE.search(line)
            if m:
                problems.append('%s:%d: %s' % (os.path.relpath(p, VERIF), ln, m.group(0)))
            if re.match(r'^\s*Section\b', line):
                depth += 1
            elif re.match(r'^\s*End\b', line) and depth:
                depth -= 1
            elif depth == 0 and TOPLEVEL_VAR_RE.match(line):
                problems.append('%s:%d: %s outside a section' % (os.path.relpath(p, VERIF), ln, line.strip()))
    return problems


def dep_sources(vfile):
    """Transitive .v dependencies (within coq/) of one source file, from coqdep."""
    ensure_makefile()
    rc, out, _ = sh(['coqdep', '-Q', '.', 'Spowtd'] + [os.path.relpath(p, COQ) for p in all_coq_sources()],
                    cwd=COQ)
    deps = {}
    for line in out.split('\n'):
        if ':' not in line:
            continue
        lhs, rhs = line.split(':', 1)
        tgt = [t for t in lhs.split() if t.endswith('.vo')]
        if not tgt:
            continue
        src = tgt[0][:-1]
        deps[src] = [d[:-1] for d in rhs.split() if d.endswith('.vo')]
    seen, todo = set(), [vfile]
    while todo:
        f = todo.pop()
        if f in seen:
            continue
        seen.add(f)
        todo += deps.get(f, [])
    return sorted(os.path.join(COQ, f) for f in seen if os.path.exists(os.path.join(COQ, f)))


def all_coq_sources():
    out = []
    for root, _, files in os.walk(COQ):
        for f in files:
            if f.endswith('.v'):
                out.append(os.path.join(root, f))
    return sorted(out)


def parse_nat_list(out):
    """Parse the result of `Eval vm_compute in (... : list nat)`."""
    m = re.search(r'=\s*(\[[^\]]*\]|nil)\s*:\s*list nat', out, re.S)
    if not m:
        return None
    return [int(x) for x in re.findall(r'\d+', m.group(1))]


def run_case_shards(prop, name, preamble, case_type, check_fn, cases, shard=400,
                    timeout=900, jobs=16):
    """Write shards `Definition cases : list <case_type> := [...]` and let Coq
    compute the indices on which `check_fn` is false.

    Returns (bad_global_indices, errors, seconds): errors is a list of
    (shard_file, coqc output) for shards that did not evaluate.
    """
    d = os.path.join(WORK, prop, name)
    shutil.rmtree(d, ignore_errors=True)
    os.makedirs(d)
    files = []
    for k in range(0, len(cases), shard):
        path = os.path.join(d, 'cases_%s_%04d.v' % (name, k // shard))
        with open(path, 'w') as f:
            f.write(preamble + '\n')
            f.write('Definition cases : list (%s) :=\n  [ ' % case_type)
            f.write('\n  ; '.join(cases[k:k + shard]))
            f.write('\n  ].\n')
            f.write('Eval vm_compute in (bad_indices (%s) cases).\n' % check_fn)
        files.append((k, path))
    t0 = time.time()
    bad, errors = [], []
    with cf.ThreadPoolExecutor(max_workers=jobs) as ex:
        futs = {ex.submit(coqc, path, timeout): (k, path) for k, path in files}
        for fut in cf.as_completed(futs):
            k, path = futs[fut]
            rc, out, _ = fut.result()
            lst = parse_nat_list(out) if rc == 0 else None
            if lst is None:
                errors.append((path, out[-2000:]))
            else:
                bad += [k + i for i in lst]
    return sorted(bad), errors, time.time() - t0


def eval_coq(prop, name, text, timeout=900):
    """Compile one generated file and return (rc, output)."""
    d = os.path.join(WORK, prop, name)
    os.makedirs(d, exist_ok=True)
    path = os.path.join(d, name + '.v')
    with open(path, 'w') as f:
        f.write(text)
    rc, out, _ = coqc(path, timeout)
    return rc, out


# ---------------------------------------------------------------- randomness

def rng_for(seed, *labels):
    h = hashlib.sha256(('%d/' % seed + '/'.join(str(l) for l in labels)).encode()).digest()
    return random.Random(int.from_bytes(h[:8], 'big'))


# ---------------------------------------------------------------- results

class Outcome:
    """Accumulates what one run of one property's check found."""

    def __init__(self, prop):
        self.prop = prop
        self.violations = []      # dicts: kind, message, case, signature
        self.evaluations = 0
        self.nontrivial = set()
        self.rule = ''
        self.samples = []
        self.dist = {}
        self.notes = []
        self.assumptions = []
        self.corr_errors = []     # correspondence machinery failures (shards that did not evaluate)
        self.known_reproduced = {}  # finding id -> bool

    def count(self, key, n=1):
        self.dist[key] = self.dist.get(key, 0) + n

    def violation(self, kind, message, case=None, signature=None):
        self.violations.append(dict(kind=kind, message=message, case=case, signature=signature))

    def nontriv(self, key):
        self.nontrivial.add(key if isinstance(key, (str, int, tuple)) else json.dumps(key, sort_keys=True, default=str))


def jsonable(x):
    import numpy as np
    if isinstance(x, dict):
        return {str(k): jsonable(v) for k, v in x.items()}
    if isinstance(x, (list, tuple, set, frozenset)):
        return [jsonable(v) for v in x]
    if isinstance(x, np.generic):
        return x.item()
    if isinstance(x, np.ndarray):
        return x.tolist()
    if isinstance(x, float) and (x != x or x in (float('inf'), float('-inf'))):
        return repr(x)
    if isinstance(x, (str, int, float, bool)) or x is None:
        return x
    return repr(x)
