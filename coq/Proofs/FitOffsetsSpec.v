(** Least-squares alignment: zero residual sums characterise the minimisers of
    the squared spread, which are unique up to a common shift on a connected
    overlap graph.  All statements are for an arbitrary list of entries
    (head, series, value) and arbitrary offset assignments. *)
From Spowtd Require Import Model.FitOffsets Proofs.QSum.
From Coq Require Import Lia Lqa Relations.

Lemma Zeqb_spec' a b : Z.eqb a b = true <-> a = b.
Proof. apply Z.eqb_eq. Qed.
Lemma Nateqb_spec' a b : Nat.eqb a b = true <-> a = b.
Proof. apply Nat.eqb_eq. Qed.

Section Spread.
  Variable E : list entry.

  Definition heads : list Z := nodup Z.eq_dec (map e_head E).
  Definition ids : list nat := nodup Nat.eq_dec (map e_series E).

  Lemma heads_nodup : NoDup heads. Proof. apply NoDup_nodup. Qed.
  Lemma ids_nodup : NoDup ids. Proof. apply NoDup_nodup. Qed.
  Lemma head_in c : In c E -> In (e_head c) heads.
  Proof. intros H. apply nodup_In. apply in_map. exact H. Qed.
  Lemma series_in c : In c E -> In (e_series c) ids.
  Proof. intros H. apply nodup_In. apply in_map. exact H. Qed.

  Lemma at_head_in h c : In c (at_head E h) <-> In c E /\ e_head c = h.
  Proof. unfold at_head. rewrite filter_In, Z.eqb_eq. tauto. Qed.

  Lemma of_series_in s c : In c (of_series E s) <-> In c E /\ e_series c = s.
  Proof. unfold of_series. rewrite filter_In, Nat.eqb_eq. tauto. Qed.

  Definition nh (h : Z) : Q := inject_Z (Z.of_nat (length (at_head E h))).

  Lemma nh_nonzero h c : In c (at_head E h) -> ~ nh h == 0.
  Proof.
    intros Hin. unfold nh. destruct (at_head E h) as [|a t]; [destruct Hin|].
    cbn [length]. rewrite Nat2Z.inj_succ. unfold Z.succ. rewrite inject_Z_plus.
    assert (0 <= inject_Z (Z.of_nat (length t))).
    { change 0 with (inject_Z 0). rewrite <- Zle_Qle. lia. }
    change (inject_Z 1) with 1. lra.
  Qed.

  (** deviations from the head mean sum to zero on every head *)
  Lemma dev_sum_head x h : qsum (map (dev E x) (at_head E h)) == 0.
  Proof.
    destruct (at_head E h) as [|a t] eqn:Eh; [reflexivity|]. rewrite <- Eh.
    assert (Hnz : ~ nh h == 0) by (apply (nh_nonzero h a); rewrite Eh; left; reflexivity).
    rewrite (qsum_map_ext (dev E x) (fun c => shifted x c + (- head_mean E x h))).
    - rewrite qsum_map_plus, qsum_map_const. unfold head_mean. fold (nh h). field. exact Hnz.
    - intros c Hc. apply at_head_in in Hc. destruct Hc as (_ & <-). unfold dev. ring.
  Qed.

  (** mean of a perturbation on a head *)
  Definition dmean (d : nat -> Q) (h : Z) : Q :=
    qsum (map (fun c => d (e_series c)) (at_head E h)) / nh h.

  Definition pert (d : nat -> Q) (c : entry) : Q := d (e_series c) - dmean d (e_head c).

  Lemma dev_shift x y d c :
    (forall s, y s == x s + d s) -> dev E y c == dev E x c + pert d c.
  Proof.
    intros Hy. unfold dev, pert, head_mean, dmean, shifted. fold (nh (e_head c)).
    rewrite (qsum_map_ext (fun c0 => y (e_series c0) + e_val c0)
               (fun c0 => (x (e_series c0) + e_val c0) + d (e_series c0))).
    - rewrite qsum_map_plus. rewrite (Hy (e_series c)). unfold Qdiv. ring.
    - intros c0 _. rewrite (Hy (e_series c0)). ring.
  Qed.

  Lemma pert_sum_head d h : qsum (map (pert d) (at_head E h)) == 0.
  Proof.
    destruct (at_head E h) as [|a t] eqn:Eh; [reflexivity|]. rewrite <- Eh.
    assert (Hnz : ~ nh h == 0) by (apply (nh_nonzero h a); rewrite Eh; left; reflexivity).
    rewrite (qsum_map_ext (pert d) (fun c => d (e_series c) + (- dmean d h))).
    - rewrite qsum_map_plus, qsum_map_const. unfold dmean. fold (nh h). field. exact Hnz.
    - intros c Hc. apply at_head_in in Hc. destruct Hc as (_ & <-). unfold pert. ring.
  Qed.

  (** The cross term: sum of dev * perturbation = sum over series of d(s) * residual sum. *)
  Lemma cross_term x d :
    qsum (map (fun c => dev E x c * pert d c) E)
    == qsum (map (fun s => d s * resid_sum E x s) ids).
  Proof.
    rewrite (qsum_map_ext (fun c => dev E x c * pert d c)
               (fun c => dev E x c * d (e_series c) + (- (dev E x c * dmean d (e_head c))))).
    2:{ intros c _. unfold pert. ring. }
    rewrite qsum_map_plus.
    rewrite (group_sum Nat.eqb Nateqb_spec' e_series ids E (dev E x) d ids_nodup series_in).
    rewrite (qsum_map_ext (fun c => - (dev E x c * dmean d (e_head c)))
               (fun c => (-1) * (dev E x c * dmean d (e_head c)))) by (intros; ring).
    rewrite qsum_map_scal.
    rewrite (group_sum Z.eqb Zeqb_spec' e_head heads E (dev E x) (dmean d) heads_nodup head_in).
    rewrite (qsum_map_zero (fun key => dmean d key * _)).
    - unfold resid_sum, of_series. ring.
    - intros h _. fold (at_head E h). rewrite dev_sum_head. ring.
  Qed.

  (** Expansion of the objective around x. *)
  Lemma objective_expand x y d :
    (forall s, y s == x s + d s) ->
    objective E y == objective E x
                     + 2 * qsum (map (fun s => d s * resid_sum E x s) ids)
                     + qsum (map (fun c => pert d c * pert d c) E).
  Proof.
    intros Hy. unfold objective.
    rewrite (qsum_map_ext (fun c => dev E y c * dev E y c)
               (fun c => (dev E x c * dev E x c + 2 * (dev E x c * pert d c)) + pert d c * pert d c)).
    2:{ intros c _. rewrite (dev_shift x y d c Hy). ring. }
    rewrite !qsum_map_plus. rewrite qsum_map_scal. rewrite cross_term. ring.
  Qed.

  (** ** Zero residual sums => global minimiser *)
  Theorem zero_resid_minimises x :
    (forall s, In s ids -> resid_sum E x s == 0) -> forall y, objective E x <= objective E y.
  Proof.
    intros Hres y. rewrite (objective_expand x y (fun s => y s - x s)) by (intros; ring).
    rewrite (qsum_map_zero (fun s => (y s - x s) * resid_sum E x s)).
    - pose proof (qsum_sq_nonneg (pert (fun s => y s - x s)) E). lra.
    - intros s Hs. rewrite (Hres s Hs). ring.
  Qed.

  (** ** Global minimiser => zero residual sums (the "equivalently" of the property) *)
  Theorem minimiser_zero_resid x :
    (forall y, objective E x <= objective E y) -> forall s, resid_sum E x s == 0.
  Proof.
    intros Hmin s.
    destruct (in_dec Nat.eq_dec s ids) as [Hin|Hnot].
    2:{ unfold resid_sum. assert (of_series E s = []) as ->; [|reflexivity].
        destruct (of_series E s) as [|c t] eqn:Es; [reflexivity|]. exfalso. apply Hnot.
        assert (Hc : In c (of_series E s)) by (rewrite Es; left; reflexivity).
        apply of_series_in in Hc. destruct Hc as (Hc & <-). apply series_in. exact Hc. }
    set (r := resid_sum E x s).
    set (one := fun s' : nat => if Nat.eqb s s' then 1 else 0).
    set (G := qsum (map (fun c => pert one c * pert one c) E)).
    assert (HG : 0 <= G) by apply qsum_sq_nonneg.
    set (eps := - r / (G + 1)).
    set (d := fun s' => eps * one s').
    specialize (Hmin (fun s' => x s' + d s')).
    pose proof (objective_expand x (fun s' => x s' + d s') d (fun s' => Qeq_refl _)) as Hexp.
    rewrite Hexp in Hmin. clear Hexp.
    (* cross term = eps * r *)
    assert (Hcross : qsum (map (fun s0 => d s0 * resid_sum E x s0) ids) == eps * r).
    { rewrite (qsum_map_ext _ (fun s0 => if Nat.eqb s s0 then eps * resid_sum E x s0 else 0)).
      - rewrite (pick_sum Nat.eqb Nateqb_spec' ids s (fun s0 => eps * resid_sum E x s0) ids_nodup Hin).
        reflexivity.
      - intros s0 _. unfold d, one. destruct (Nat.eqb s s0); ring. }
    (* quadratic term = eps^2 * G *)
    assert (Hquad : qsum (map (fun c => pert d c * pert d c) E) == eps * eps * G).
    { unfold G. rewrite <- qsum_map_scal. apply qsum_map_ext. intros c _.
      assert (Hp : pert d c == eps * pert one c).
      { unfold pert, dmean, d. rewrite (qsum_map_scal eps (fun c0 => one (e_series c0))).
        unfold Qdiv. ring. }
      rewrite Hp. ring. }
    rewrite Hcross, Hquad in Hmin.
    assert (Hpos : 0 < G + 1) by lra.
    assert (Heps : eps * (G + 1) == - r) by (unfold eps; field; lra).
    (* 0 <= 2 eps r + eps^2 G, with eps (G+1) = -r *)
    assert (H0 : 0 <= 2 * (eps * r) + eps * eps * G) by lra.
    assert (Hr : r == - (eps * (G + 1))) by lra.
    assert (H1 : 2 * (eps * r) + eps * eps * G == - (eps * eps) * (G + 2)).
    { rewrite Hr. ring. }
    rewrite H1 in H0.
    assert (He2 : 0 <= eps * eps) by nra.
    assert (He0 : eps * eps == 0) by nra.
    assert (eps == 0) by nra.
    rewrite Hr. rewrite H. ring.
  Qed.

  (** ** Invariance under a common shift *)
  Lemma dev_const_shift x y k c :
    In c E -> (forall s, y s == x s + k) -> dev E y c == dev E x c.
  Proof.
    intros Hc Hy. rewrite (dev_shift x y (fun _ => k) c Hy).
    assert (Hp : pert (fun _ => k) c == 0).
    { unfold pert, dmean. rewrite qsum_map_const. fold (nh (e_head c)).
      assert (~ nh (e_head c) == 0).
      { apply (nh_nonzero (e_head c) c). apply at_head_in. split; [exact Hc|reflexivity]. }
      field. assumption. }
    rewrite Hp. ring.
  Qed.

  Theorem objective_shift_invariant x y k :
    (forall s, y s == x s + k) -> objective E y == objective E x.
  Proof.
    intros Hy. unfold objective. apply qsum_map_ext. intros c Hc.
    rewrite (dev_const_shift x y k c Hc Hy). reflexivity.
  Qed.

  Theorem resid_shift_invariant x y k s :
    (forall s, y s == x s + k) -> resid_sum E y s == resid_sum E x s.
  Proof.
    intros Hy. unfold resid_sum. apply qsum_map_ext. intros c Hc.
    apply of_series_in in Hc. apply (dev_const_shift x y k c (proj1 Hc) Hy).
  Qed.

  (** ** Uniqueness up to a common shift on a connected overlap graph *)
  Definition linked (s s' : nat) : Prop :=
    exists c c', In c E /\ In c' E /\ e_head c = e_head c' /\ e_series c = s /\ e_series c' = s'.

  Definition connected : Prop :=
    forall s s', In s ids -> In s' ids -> clos_refl_trans nat linked s s'.

  Lemma pert_zero_linked d :
    (forall c, In c E -> pert d c == 0) -> forall s s', linked s s' -> d s == d s'.
  Proof.
    intros Hz s s' (c & c' & Hc & Hc' & Hh & <- & <-).
    pose proof (Hz c Hc) as H1. pose proof (Hz c' Hc') as H2. unfold pert in H1, H2.
    rewrite Hh in H1. lra.
  Qed.

  Theorem minimisers_differ_by_shift x y :
    connected ->
    (forall s, In s ids -> resid_sum E x s == 0) ->
    objective E y == objective E x ->
    forall s s', In s ids -> In s' ids -> y s - x s == y s' - x s'.
  Proof.
    intros Hconn Hres Hobj s s' Hs Hs'.
    set (d := fun s0 => y s0 - x s0).
    pose proof (objective_expand x y d) as Hexp.
    rewrite Hexp in Hobj by (intros; unfold d; ring).
    rewrite (qsum_map_zero (fun s0 => d s0 * resid_sum E x s0)) in Hobj
      by (intros s0 Hs0; rewrite (Hres s0 Hs0); ring).
    assert (Hq : qsum (map (fun c => pert d c * pert d c) E) == 0) by lra.
    pose proof (qsum_sq_zero (pert d) E Hq) as Hz.
    pose proof (pert_zero_linked d Hz) as Hl.
    change (d s == d s').
    specialize (Hconn s s' Hs Hs'). clear Hs Hs'. induction Hconn as [a b Hab|a|a b c _ IH1 _ IH2].
    - apply Hl. exact Hab.
    - reflexivity.
    - rewrite IH1. exact IH2.
  Qed.

  (** ** Zero-residual data (C06): if every value is T(head) - c(series), the
      assignment x = c has spread zero, hence is a minimiser with zero residual
      sums. *)
  Theorem planted_is_exact (T : Z -> Q) (cs : nat -> Q) :
    (forall c, In c E -> e_val c == T (e_head c) - cs (e_series c)) ->
    (forall c, In c E -> dev E cs c == 0) /\ objective E cs == 0 /\
    forall s, resid_sum E cs s == 0.
  Proof.
    intros Hval.
    assert (Hdev : forall c, In c E -> dev E cs c == 0).
    { intros c Hc. unfold dev, head_mean, shifted. fold (nh (e_head c)).
      assert (Hnz : ~ nh (e_head c) == 0).
      { apply (nh_nonzero (e_head c) c). apply at_head_in. split; [exact Hc|reflexivity]. }
      rewrite (qsum_map_ext (fun c0 => cs (e_series c0) + e_val c0) (fun _ => T (e_head c))).
      - rewrite qsum_map_const. fold (nh (e_head c)). rewrite (Hval c Hc). field. exact Hnz.
      - intros c0 Hc0. apply at_head_in in Hc0. destruct Hc0 as (Hc0 & Hh).
        rewrite (Hval c0 Hc0). rewrite Hh. ring. }
    split; [exact Hdev|]. split.
    - unfold objective. apply qsum_map_zero. intros c Hc. rewrite (Hdev c Hc). ring.
    - intros s. unfold resid_sum. apply qsum_map_zero. intros c Hc.
      apply of_series_in in Hc. apply Hdev. exact (proj1 Hc).
  Qed.
End Spread.
