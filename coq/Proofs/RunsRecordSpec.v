(** C03, first sentence stated on the data rather than on flag vectors: a run of
    the heavy-rain flag (of the fast-increment flag) is maximal iff every step
    of it is strictly above the threshold in IEEE-754 comparison and neither
    neighbouring step is. *)
From Spowtd Require Import Model.Flags Proofs.RunsSpec Proofs.FlagsSpec.
From Coq Require Import Lia.

Lemma is_run_on_predicate (l : list bool) (n : nat) (P : nat -> Prop) :
  length l = n ->
  (forall i, nth i l false = true <-> i < n /\ P i) ->
  forall s e,
  is_run l s e <->
  s < e /\ e <= n /\ (forall i, s <= i -> i < e -> P i) /\
  (s = 0 \/ ~ P (s - 1)) /\ (e = n \/ ~ P e).
Proof.
  intros Hn Hc s e.
  assert (Hf : forall i, i < n -> (nth i l false = false <-> ~ P i)).
  { intros i Hi. pose proof (Hc i) as H. destruct (nth i l false); split; intros H0.
    - discriminate.
    - exfalso. apply H0. apply H. reflexivity.
    - intros HP. assert (false = true) by (apply H; split; assumption). discriminate.
    - reflexivity. }
  unfold is_run. rewrite Hn. split.
  - intros (Hse & He & Hall & Hl & Hr). split; [exact Hse|]. split; [exact He|]. split; [|split].
    + intros i H1 H2. apply (Hc i). apply Hall; assumption.
    + destruct Hl as [H0|Hl]; [left; exact H0|].
      destruct (Nat.eq_dec s 0) as [H0|Hs]; [left; exact H0|right]. apply Hf; [lia|exact Hl].
    + destruct Hr as [H0|Hr]; [left; exact H0|].
      destruct (Nat.eq_dec e n) as [H0|Hen]; [left; exact H0|right]. apply Hf; [lia|exact Hr].
  - intros (Hse & He & Hall & Hl & Hr). split; [exact Hse|]. split; [exact He|]. split; [|split].
    + intros i H1 H2. apply (Hc i). split; [lia|]. apply Hall; assumption.
    + destruct Hl as [H0|Hl]; [left; exact H0|].
      destruct (Nat.eq_dec s 0) as [H0|Hs]; [left; exact H0|right]. apply Hf; [lia|exact Hl].
    + destruct Hr as [H0|Hr]; [left; exact H0|].
      destruct (Nat.eq_dec e n) as [H0|Hen]; [left; exact H0|right]. apply Hf; [lia|exact Hr].
Qed.

Definition heavy_step (thr : float) (rain : list float) (i : nat) : Prop :=
  PrimFloat.ltb thr (nth i rain 0%float) = true.

Definition fast_increment (thr : float) (step : Z) (z : list float) (i : nat) : Prop :=
  PrimFloat.ltb (jump_delta thr step) (PrimFloat.sub (nth (S i) z 0%float) (nth i z 0%float)) = true.

Theorem storm_run_on_the_record thr rain s e :
  is_run (heavy_flags thr rain) s e <->
  s < e /\ e <= length rain /\ (forall i, s <= i -> i < e -> heavy_step thr rain i) /\
  (s = 0 \/ ~ heavy_step thr rain (s - 1)) /\ (e = length rain \/ ~ heavy_step thr rain e).
Proof.
  apply is_run_on_predicate.
  - unfold heavy_flags. apply map_length.
  - intros i. apply heavy_flag_char.
Qed.

Theorem rise_run_on_the_record thr step z s e :
  is_run (jump_incr_flags thr step z) s e <->
  s < e /\ e <= length z - 1 /\ (forall i, s <= i -> i < e -> fast_increment thr step z i) /\
  (s = 0 \/ ~ fast_increment thr step z (s - 1)) /\
  (e = length z - 1 \/ ~ fast_increment thr step z e).
Proof.
  apply is_run_on_predicate.
  - unfold jump_incr_flags. rewrite map_length. apply increments_length.
  - intros i. rewrite jump_flag_char. unfold fast_increment. split; intros (H1 & H2); (split; [lia|exact H2]).
Qed.
