(** Finite sums over Q: extensionality, linearity, grouping by a key. *)
From Spowtd Require Import Model.FitOffsets.
From Coq Require Import Lia Lqa.

Lemma qsum_app l1 l2 : qsum (l1 ++ l2) == qsum l1 + qsum l2.
Proof. induction l1 as [|a t IH]; simpl; [ring|rewrite IH; ring]. Qed.

Lemma qsum_map_ext {A} (f g : A -> Q) l :
  (forall a, In a l -> f a == g a) -> qsum (map f l) == qsum (map g l).
Proof.
  induction l as [|a t IH]; simpl; intros H; [reflexivity|].
  rewrite (H a) by (left; reflexivity). rewrite IH; [reflexivity|]. intros b Hb. apply H. right. exact Hb.
Qed.

Lemma qsum_map_plus {A} (f g : A -> Q) l :
  qsum (map (fun a => f a + g a) l) == qsum (map f l) + qsum (map g l).
Proof. induction l as [|a t IH]; simpl; [ring|rewrite IH; ring]. Qed.

Lemma qsum_map_scal {A} (k : Q) (f : A -> Q) l :
  qsum (map (fun a => k * f a) l) == k * qsum (map f l).
Proof. induction l as [|a t IH]; simpl; [ring|rewrite IH; ring]. Qed.

Lemma qsum_map_const {A} (k : Q) (l : list A) :
  qsum (map (fun _ => k) l) == inject_Z (Z.of_nat (length l)) * k.
Proof.
  induction l as [|a t IH]; [simpl; ring|].
  cbn [map qsum length]. rewrite IH. rewrite Nat2Z.inj_succ. unfold Z.succ. rewrite inject_Z_plus. ring.
Qed.

Lemma qsum_map_zero {A} (f : A -> Q) l : (forall a, In a l -> f a == 0) -> qsum (map f l) == 0.
Proof.
  intros H. rewrite (qsum_map_ext f (fun _ => 0) l H). rewrite qsum_map_const. ring.
Qed.

Lemma qsum_nonneg l : (forall a, In a l -> 0 <= a) -> 0 <= qsum l.
Proof.
  induction l as [|a t IH]; simpl; intros H; [apply Qle_refl|].
  assert (0 <= a) by (apply H; left; reflexivity).
  assert (0 <= qsum t) by (apply IH; intros b Hb; apply H; right; exact Hb). lra.
Qed.

Lemma qsum_sq_nonneg {A} (f : A -> Q) l : 0 <= qsum (map (fun a => f a * f a) l).
Proof.
  apply qsum_nonneg. intros a Ha. apply in_map_iff in Ha. destruct Ha as (b & <- & _). nra.
Qed.

Lemma qsum_sq_zero {A} (f : A -> Q) l :
  qsum (map (fun a => f a * f a) l) == 0 -> forall a, In a l -> f a == 0.
Proof.
  induction l as [|b t IH]; simpl; intros H a Ha; [contradiction|].
  pose proof (qsum_sq_nonneg f t) as Hn. assert (Hb : 0 <= f b * f b) by nra.
  assert (Hb0 : f b * f b == 0) by lra.
  destruct Ha as [->|Ha].
  - nra.
  - apply IH; [lra|exact Ha].
Qed.

Lemma qsum_filter_split {A} (p : A -> bool) (f : A -> Q) l :
  qsum (map f l) == qsum (map f (filter p l)) + qsum (map f (filter (fun a => negb (p a)) l)).
Proof.
  induction l as [|a t IH]; simpl; [ring|]. destruct (p a); simpl; rewrite IH; ring.
Qed.

(** ** Grouping a sum by a key *)
Section Group.
  Context {A K : Type} (eqb : K -> K -> bool).
  Hypothesis eqb_spec : forall a b, eqb a b = true <-> a = b.
  Variable k : A -> K.

  Lemma pick_sum (keys : list K) (a : K) (v : K -> Q) :
    NoDup keys -> In a keys ->
    qsum (map (fun key => if eqb a key then v key else 0) keys) == v a.
  Proof.
    induction keys as [|b t IH]; simpl; intros Hnd Hin; [contradiction|].
    inversion Hnd as [|x xs Hnot Hnd']; subst.
    destruct (eqb a b) eqn:E.
    - apply eqb_spec in E. subst b.
      rewrite (qsum_map_zero (fun key => if eqb a key then v key else 0) t); [ring|].
      intros c Hc. destruct (eqb a c) eqn:E2; [|reflexivity].
      apply eqb_spec in E2. subst c. contradiction.
    - destruct Hin as [->|Hin].
      + assert (eqb a a = true) by (apply eqb_spec; reflexivity). congruence.
      + rewrite IH by assumption. ring.
  Qed.

  Lemma group_sum (keys : list K) (l : list A) (f : A -> Q) (w : K -> Q) :
    NoDup keys -> (forall c, In c l -> In (k c) keys) ->
    qsum (map (fun c => f c * w (k c)) l)
    == qsum (map (fun key => w key * qsum (map f (filter (fun c => eqb (k c) key) l))) keys).
  Proof.
    intros Hnd. induction l as [|a t IH]; intros Hin.
    - simpl. symmetry. apply qsum_map_zero. intros key _. ring.
    - cbn [map qsum]. rewrite IH by (intros c Hc; apply Hin; right; exact Hc).
      rewrite <- (pick_sum keys (k a) (fun key => f a * w key) Hnd) by (apply Hin; left; reflexivity).
      rewrite <- qsum_map_plus. apply qsum_map_ext. intros key _. cbn [filter].
      destruct (eqb (k a) key); cbn [map qsum]; ring.
  Qed.
End Group.
