(** Deferred acceptance with strict preferences: the result is the storm-optimal
    stable matching and does not depend on the schedule (second sentence of
    C02).  Storms rank rises by position in their proposal list (no repeats);
    rises rank storms by [pref], with no ties between two storms adjacent to the
    same rise. *)
From Spowtd Require Import Model.Matching Proofs.MatchingSpec.
From Coq Require Import Lia.

(** [a] strictly before [b] in [l] *)
Definition before (l : list nat) (a b : nat) : Prop :=
  exists i k, i < k /\ nth_error l i = Some a /\ nth_error l k = Some b.

Lemma before_antisym l a b : NoDup l -> before l a b -> before l b a -> False.
Proof.
  intros Hnd (i & k & Hik & Hi & Hk) (i' & k' & Hik' & Hi' & Hk').
  pose proof (proj1 (NoDup_nth_error l) Hnd) as Hinj.
  assert (i = k').
  { apply Hinj; [apply nth_error_Some; congruence|congruence]. }
  assert (k = i').
  { apply Hinj; [apply nth_error_Some; congruence|congruence]. }
  lia.
Qed.

Lemma before_irrefl l a : NoDup l -> ~ before l a a.
Proof. intros Hnd H. exact (before_antisym l a a Hnd H H). Qed.

Lemma before_total l a b : In a l -> In b l -> a <> b -> before l a b \/ before l b a.
Proof.
  intros Ha Hb Hne. apply In_nth_error in Ha. apply In_nth_error in Hb.
  destruct Ha as (i & Hi). destruct Hb as (k & Hk).
  destruct (Nat.lt_trichotomy i k) as [H|[H|H]].
  - left. exists i, k. auto.
  - subst. congruence.
  - right. exists k, i. auto.
Qed.

(** a prefix that contains [b] contains everything before [b] *)
Lemma before_prefix p r a b : NoDup (p ++ r) -> In b p -> before (p ++ r) a b -> In a p.
Proof.
  intros Hnd Hb (i & k & Hik & Hi & Hk).
  apply In_nth_error in Hb. destruct Hb as (k0 & Hk0).
  assert (Hk0' : nth_error (p ++ r) k0 = Some b).
  { rewrite nth_error_app1; [exact Hk0|]. apply nth_error_Some. congruence. }
  pose proof (proj1 (NoDup_nth_error (p ++ r)) Hnd) as Hinj.
  assert (k = k0).
  { apply Hinj; [apply nth_error_Some; congruence|congruence]. }
  subst k0. assert (Hlen : k < length p) by (apply nth_error_Some; congruence).
  rewrite nth_error_app1 in Hi by lia. eapply nth_error_In. exact Hi.
Qed.

(** everything in the prefix is before everything in the rest *)
Lemma prefix_before p r a b : In a p -> In b r -> before (p ++ r) a b.
Proof.
  intros Ha Hb. apply In_nth_error in Ha. apply In_nth_error in Hb.
  destruct Ha as (i & Hi). destruct Hb as (k & Hk).
  assert (Hlen : i < length p) by (apply nth_error_Some; congruence).
  exists i, (length p + k). split; [lia|]. split.
  - rewrite nth_error_app1 by lia. exact Hi.
  - rewrite nth_error_app2 by lia. replace (length p + k - length p) with k by lia. exact Hk.
Qed.

Lemma before_head p j rest a :
  NoDup (p ++ j :: rest) -> before (p ++ j :: rest) a j -> In a p.
Proof.
  intros Hnd Hb.
  assert (Hin : In a (p ++ [j])).
  { apply (before_prefix (p ++ [j]) rest a j).
    - rewrite <- app_assoc. exact Hnd.
    - apply in_or_app. right. left. reflexivity.
    - rewrite <- app_assoc. exact Hb. }
  apply in_app_or in Hin. destruct Hin as [Hin|[Hin|[]]]; [exact Hin|].
  subst a. exfalso. exact (before_irrefl _ j Hnd Hb).
Qed.

Section Optimal.
  Variable pref : nat -> nat -> Z.
  Variable orig : list (nat * list nat).
  Hypothesis orig_keys : NoDup (map fst orig).
  (** no storm lists a rise twice *)
  Hypothesis lists_nodup : forall s, NoDup (O orig s).
  (** no ties: a rise never values two different adjacent storms equally *)
  Hypothesis strict : forall j s s', In j (O orig s) -> In j (O orig s') -> s <> s' -> pref j s <> pref j s'.

  Notation Os := (O orig).
  Notation Inv' := (Inv pref orig).

  (** A matching seen from both sides: [mr j] = storm held by rise j,
      [ms s] = rise held by storm s. *)
  Record matching := { mr : nat -> option nat; ms : nat -> option nat }.

  Record stable (mu : matching) : Prop := {
    st_consistent : forall j s, mr mu j = Some s <-> ms mu s = Some j;
    st_edge : forall j s, mr mu j = Some s -> In j (Os s);
    st_noblock : forall s j, In j (Os s) -> mr mu j <> Some s ->
        (ms mu s = None \/ exists j0, ms mu s = Some j0 /\ before (Os s) j j0) ->
        (mr mu j = None \/ exists s0, mr mu j = Some s0 /\ (pref j s0 < pref j s)%Z) -> False
  }.

  (** "no storm has been turned down by a rise it holds in some stable matching" *)
  Definition NoAchievableRejected (st : mstate) : Prop :=
    forall mu s j p, stable mu -> mr mu j = Some s -> Os s = p ++ R st s -> In j p -> M st j = Some s.

  Lemma init_nar : NoAchievableRejected (init_state orig).
  Proof.
    intros mu s j p _ _ Hp Hin. unfold R, rem_of, init_state in Hp. simpl in Hp. fold (Os s) in Hp.
    assert (p = []) as ->; [|destruct Hin].
    destruct p; [reflexivity|]. apply (f_equal (@length nat)) in Hp. rewrite app_length in Hp. simpl in Hp. lia.
  Qed.

  (** What one step does (given the invariant). *)
  Lemma step_spec k st :
    Inv' st -> free st <> [] ->
    exists s j rest st',
      In s (free st) /\ R st s = j :: rest /\ step pref k st = Ok st' /\
      (forall x, x <> s -> R st' x = R st x) /\ R st' s = rest /\
      ((M st j = None /\ mt st' = aset j s (mt st)) \/
       (exists s', M st j = Some s' /\ (pref j s' < pref j s)%Z /\ mt st' = aset j s (mt st)) \/
       (exists s', M st j = Some s' /\ (pref j s <= pref j s')%Z /\ mt st' = mt st)).
  Proof.
    intros I Hfree. unfold step.
    destruct (free st) as [|f0 ft] eqn:Efree; [contradiction|]. rewrite <- Efree in *. clear Hfree.
    set (i := k mod length (free st)).
    assert (Hi : i < length (free st)) by (apply Nat.mod_upper_bound; rewrite Efree; simpl; lia).
    set (s := nth i (free st) 0).
    assert (Hs : In s (free st)) by (apply nth_In; exact Hi).
    pose proof (Ib _ _ _ I s Hs) as HRs. unfold R in HRs.
    destruct (rem_of st s) as [|j rest] eqn:ERs; [contradiction|]. clear HRs.
    set (free' := remove_at i (free st)).
    assert (Hfree' : forall x, In x free' <-> In x (free st) /\ x <> s)
      by (intros x; apply remove_at_in; [exact (Id _ _ _ I)|exact Hi]).
    assert (HR's : forall fr m, R {| rem := aset s rest (rem st); free := fr; mt := m |} s = rest)
      by (intros; unfold R, rem_of; simpl; apply lookup_list_aset_same).
    assert (HR'o : forall fr m x, x <> s -> R {| rem := aset s rest (rem st); free := fr; mt := m |} x = R st x)
      by (intros fr m x Hx; unfold R, rem_of; simpl; apply lookup_list_aset_other; exact Hx).
    exists s, j, rest.
    destruct (alookup j (mt st)) as [s'|] eqn:EMj.
    - destruct (pref j s' <? pref j s)%Z eqn:Epref.
      + apply Z.ltb_lt in Epref.
        assert (Hmem : mem_nat s' free' = false).
        { destruct (mem_nat s' free') eqn:Em; [|reflexivity]. exfalso.
          assert (Hin : In s' free').
          { clear -Em. induction free' as [|a t IH]; simpl in Em; [discriminate|].
            apply orb_true_iff in Em. destruct Em as [Em|Em]; [apply Nat.eqb_eq in Em; left; congruence|right; auto]. }
          apply Hfree' in Hin. exact (Ic _ _ _ I s' j (proj1 Hin) EMj). }
        rewrite Hmem. eexists. split; [exact Hs|]. split; [unfold R; exact ERs|]. split; [reflexivity|].
        split; [apply HR'o|]. split; [apply HR's|].
        right. left. exists s'. split; [exact EMj|]. split; [exact Epref|reflexivity].
      + apply Z.ltb_ge in Epref.
        eexists. split; [exact Hs|]. split; [unfold R; exact ERs|]. split; [reflexivity|].
        split; [apply HR'o|]. split; [apply HR's|].
        right. right. exists s'. split; [exact EMj|]. split; [exact Epref|reflexivity].
    - eexists. split; [exact Hs|]. split; [unfold R; exact ERs|]. split; [reflexivity|].
      split; [apply HR'o|]. split; [apply HR's|].
      left. split; [exact EMj|reflexivity].
  Qed.

  (** A storm [s] that has been turned down by (or is free after proposing to)
      every rise of the prefix [p], and whose next candidate is [j]: in any
      stable matching that does not give it [j], it would rather have [j]. *)
  Lemma storm_would_gain st mu s j rest p :
    NoAchievableRejected st -> stable mu ->
    Os s = p ++ j :: rest -> R st s = j :: rest ->
    (forall j', In j' p -> M st j' <> Some s) ->
    mr mu j <> Some s ->
    ms mu s = None \/ exists j0, ms mu s = Some j0 /\ before (Os s) j j0.
  Proof.
    intros P Hmu Hp HR Hrej Hnot.
    destruct (ms mu s) as [jm|] eqn:Ems; [|left; reflexivity].
    right. exists jm. split; [reflexivity|].
    assert (Hjm : mr mu jm = Some s) by (apply (st_consistent mu Hmu); exact Ems).
    assert (Hjm_in : In jm (Os s)) by exact (st_edge mu Hmu jm s Hjm).
    assert (Hj_in : In j (Os s)) by (rewrite Hp; apply in_or_app; right; left; reflexivity).
    assert (Hne : j <> jm) by (intros ->; contradiction).
    destruct (before_total (Os s) j jm Hj_in Hjm_in Hne) as [H|H]; [exact H|].
    exfalso.
    assert (Hjm_p : In jm p).
    { apply (before_head p j rest jm); [rewrite <- Hp; apply lists_nodup|rewrite <- Hp; exact H]. }
    apply (Hrej jm Hjm_p). apply (P mu s jm p Hmu Hjm); [rewrite HR; exact Hp|exact Hjm_p].
  Qed.

  Lemma step_nar k st st' :
    Inv' st -> NoAchievableRejected st -> free st <> [] -> step pref k st = Ok st' ->
    NoAchievableRejected st'.
  Proof.
    intros I P Hfree Hstep.
    destruct (step_spec k st I Hfree) as (s & j & rest & st1 & Hs & HRs & Hstep1 & HRo & HRs' & Hcases).
    rewrite Hstep in Hstep1. inversion Hstep1; subst st1. clear Hstep1.
    destruct (Ia _ _ _ I s) as (ps & Hps). rewrite HRs in Hps.
    assert (Hps' : Os s = (ps ++ [j]) ++ rest) by (rewrite <- app_assoc; exact Hps).
    (* s is free: none of the rises it proposed to holds it *)
    assert (Hsfree : forall j', M st j' <> Some s) by (intros j'; exact (Ic _ _ _ I s j' Hs)).
    intros mu s0 j0 p Hmu Hmuj Hp Hin.
    destruct (Nat.eq_dec s0 s) as [->|Hs0].
    - (* the proposer *)
      rewrite HRs' in Hp. assert (p = ps ++ [j]) as -> by (rewrite Hps' in Hp; apply app_inv_tail in Hp; auto).
      apply in_app_or in Hin. destruct Hin as [Hin|[<-|[]]].
      + exfalso. apply (Hsfree j0). apply (P mu s j0 ps Hmu Hmuj); [rewrite HRs; exact Hps|exact Hin].
      + (* j0 = j: the rise proposed to *)
        destruct Hcases as [(HM & Hmt)|[(s' & HM & Hlt & Hmt)|(s' & HM & Hle & Hmt)]].
        * unfold M. rewrite Hmt. apply alookup_aset_same.
        * unfold M. rewrite Hmt. apply alookup_aset_same.
        * (* rejected although j is achievable for s: (s', j) blocks mu *)
          exfalso.
          assert (Hs's : s' <> s) by (intros ->; exact (Hsfree j HM)).
          assert (Hj_s : In j (Os s)) by (rewrite Hps; apply in_or_app; right; left; reflexivity).
          destruct (Ia _ _ _ I s') as (ps' & Hq').
          assert (Hj_ps' : In j ps') by exact (Ie _ _ _ I j s' ps' HM Hq').
          assert (Hj_s' : In j (Os s')) by (rewrite Hq'; apply in_or_app; left; exact Hj_ps').
          assert (Hstrict : (pref j s < pref j s')%Z).
          { pose proof (strict j s s' Hj_s Hj_s' (not_eq_sym Hs's)). lia. }
          apply (st_noblock mu Hmu s' j Hj_s').
          -- intros H. rewrite Hmuj in H. inversion H. congruence.
          -- (* s' would gain *)
             destruct (ms mu s') as [jm|] eqn:Ems; [|left; reflexivity].
             right. exists jm. split; [reflexivity|].
             assert (Hjm : mr mu jm = Some s') by (apply (st_consistent mu Hmu); exact Ems).
             assert (Hjm_in : In jm (Os s')) by exact (st_edge mu Hmu jm s' Hjm).
             assert (Hne : j <> jm) by (intros ->; rewrite Hmuj in Hjm; inversion Hjm; congruence).
             destruct (before_total (Os s') j jm Hj_s' Hjm_in Hne) as [H|H]; [exact H|].
             exfalso.
             assert (Hjm_p : In jm ps').
             { apply (before_prefix ps' (R st s') jm j); [rewrite <- Hq'; apply lists_nodup|exact Hj_ps'|rewrite <- Hq'; exact H]. }
             pose proof (P mu s' jm ps' Hmu Hjm Hq' Hjm_p) as Hheld.
             apply Hne. exact (If_ _ _ _ I j jm s' HM Hheld).
          -- right. exists s. split; [exact Hmuj|exact Hstrict].
    - (* another storm *)
      rewrite (HRo s0 Hs0) in Hp.
      pose proof (P mu s0 j0 p Hmu Hmuj Hp Hin) as Hheld.
      destruct Hcases as [(HM & Hmt)|[(s' & HM & Hlt & Hmt)|(s' & HM & Hle & Hmt)]].
      + unfold M. rewrite Hmt. rewrite alookup_aset_other; [exact Hheld|].
        intros ->. unfold M in *. congruence.
      + destruct (Nat.eq_dec j0 j) as [->|Hj0].
        * (* s0 = s' is displaced from j although j is achievable for it: (s, j) blocks mu *)
          exfalso. unfold M in Hheld, HM. rewrite HM in Hheld. inversion Hheld; subst s0. clear Hheld. fold (M st j) in HM.
          assert (Hj_s : In j (Os s)) by (rewrite Hps; apply in_or_app; right; left; reflexivity).
          apply (st_noblock mu Hmu s j Hj_s).
          -- intros H. rewrite Hmuj in H. inversion H. congruence.
          -- apply (storm_would_gain st mu s j rest ps P Hmu Hps HRs).
             ++ intros j' _. exact (Hsfree j').
             ++ intros H. rewrite Hmuj in H. inversion H. congruence.
          -- right. exists s'. split; [exact Hmuj|exact Hlt].
        * unfold M. rewrite Hmt. rewrite alookup_aset_other by exact Hj0. exact Hheld.
      + unfold M. rewrite Hmt. exact Hheld.
  Qed.

  Lemma run_nar : forall fuel sched st st',
    Inv' st -> NoAchievableRejected st -> run pref sched fuel st = Ok st' -> NoAchievableRejected st'.
  Proof.
    induction fuel as [|f IH]; intros sched st st' I P Hrun; simpl in Hrun.
    - destruct (free st); [inversion Hrun; subst; exact P|discriminate].
    - destruct (free st) as [|s0 ft] eqn:Efree; [inversion Hrun; subst; exact P|].
      destruct (step_ok pref orig (hd 0 sched) st I) as (st1 & Hstep & I1 & _); [rewrite Efree; discriminate|].
      rewrite Hstep in Hrun. simpl in Hrun.
      apply (IH (tl sched) st1 st' I1); [|exact Hrun].
      apply (step_nar (hd 0 sched) st st1 I P); [rewrite Efree; discriminate|exact Hstep].
  Qed.

  Lemma holds_dec st s : Inv' st -> (exists j, M st j = Some s) \/ (forall j, M st j <> Some s).
  Proof.
    intros I. destruct (in_dec Nat.eq_dec s (map snd (mt st))) as [Hin|Hnot].
    - left. apply in_map_iff in Hin. destruct Hin as ([j s'] & Hs' & Hin). simpl in Hs'. subst s'.
      exists j. apply in_alookup; [exact (Ik _ _ _ I)|exact Hin].
    - right. intros j H. apply Hnot. apply alookup_in in H. change s with (snd (j, s)). apply in_map. exact H.
  Qed.

  (** ** Storm-optimality: in the final matching every storm holds a rise at
      least as good (for it) as the one any stable matching gives it. *)
  Theorem storm_optimal st mu s j :
    Inv' st -> free st = [] -> NoAchievableRejected st -> stable mu -> mr mu j = Some s ->
    exists j', M st j' = Some s /\ (j' = j \/ before (Os s) j' j).
  Proof.
    intros I Hfree P Hmu Hmuj.
    destruct (Ia _ _ _ I s) as (p & Hp).
    assert (Hj_in : In j (Os s)) by exact (st_edge mu Hmu j s Hmuj).
    rewrite Hp in Hj_in. apply in_app_or in Hj_in. destruct Hj_in as [Hjp|HjR].
    - (* s proposed to j: j still holds s *)
      exists j. split; [exact (P mu s j p Hmu Hmuj Hp Hjp)|left; reflexivity].
    - (* s has not reached j yet: it is matched (not free, list not empty) to something it proposed to *)
      assert (Hmatched : exists j', M st j' = Some s).
      { destruct (holds_dec st s I) as [H|H]; [exact H|]. exfalso.
        assert (HR : R st s = []) by (apply (Ih _ _ _ I s); [rewrite Hfree; simpl; tauto|exact H]).
        rewrite HR in HjR. destruct HjR. }
      destruct Hmatched as (j' & Hj'). exists j'. split; [exact Hj'|]. right.
      pose proof (Ie _ _ _ I j' s p Hj' Hp) as Hj'p. rewrite Hp. apply prefix_before; assumption.
  Qed.

  (** ** The final matching is itself stable *)
  Definition Ms (st : mstate) (s : nat) : option nat :=
    match find (fun p => Nat.eqb (snd p) s) (mt st) with Some p => Some (fst p) | None => None end.

  Lemma Ms_spec st j s : Inv' st -> (M st j = Some s <-> Ms st s = Some j).
  Proof.
    intros I. unfold Ms. split.
    - intros HM. destruct (find _ (mt st)) as [[j' s']|] eqn:Ef.
      + apply find_some in Ef. destruct Ef as (Hin & Heq). simpl in Heq. apply Nat.eqb_eq in Heq. subst s'.
        simpl. f_equal. apply (If_ _ _ _ I j' j s); [|exact HM].
        apply in_alookup; [exact (Ik _ _ _ I)|exact Hin].
      + exfalso. apply alookup_in in HM. pose proof (find_none _ _ Ef (j, s) HM) as H. simpl in H.
        rewrite Nat.eqb_refl in H. discriminate.
    - destruct (find _ (mt st)) as [[j' s']|] eqn:Ef; [|discriminate].
      intros H. simpl in H. inversion H; subst j'. apply find_some in Ef. destruct Ef as (Hin & Heq).
      simpl in Heq. apply Nat.eqb_eq in Heq. subst s'. apply in_alookup; [exact (Ik _ _ _ I)|exact Hin].
  Qed.

  Definition final_matching (st : mstate) : matching := {| mr := M st; ms := Ms st |}.

  Lemma final_stable st : Inv' st -> free st = [] -> stable (final_matching st).
  Proof.
    intros I Hfree. constructor; simpl.
    - intros j s. apply Ms_spec. exact I.
    - intros j s HM. exact (final_edge pref orig st I j s HM).
    - intros s j Hin Hnot Hgain Hrise.
      destruct (Ia _ _ _ I s) as (p & Hp).
      assert (Hjp : In j p).
      { destruct Hgain as [Hun|(j0 & Hj0 & Hbef)].
        - assert (HR : R st s = []).
          { apply (Ih _ _ _ I s); [rewrite Hfree; simpl; tauto|].
            intros j' HM. apply (Ms_spec st j' s I) in HM. congruence. }
          rewrite HR, app_nil_r in Hp. rewrite <- Hp. exact Hin.
        - apply (Ms_spec st j0 s I) in Hj0.
          pose proof (Ie _ _ _ I j0 s p Hj0 Hp) as Hj0p.
          apply (before_prefix p (R st s) j j0); [rewrite <- Hp; apply lists_nodup|exact Hj0p|rewrite <- Hp; exact Hbef]. }
      destruct (Ig _ _ _ I s p j Hp Hjp) as (s' & HM' & Hle).
      destruct Hrise as [Hnone|(s0 & HM0 & Hlt)]; [congruence|].
      rewrite HM' in HM0. inversion HM0; subst s0. lia.
  Qed.

  (** ** Schedule independence *)
  Theorem final_unique st1 st2 :
    Inv' st1 -> free st1 = [] -> NoAchievableRejected st1 ->
    Inv' st2 -> free st2 = [] -> NoAchievableRejected st2 ->
    forall j s, M st1 j = Some s -> M st2 j = Some s.
  Proof.
    intros I1 F1 P1 I2 F2 P2 j s HM1.
    pose proof (final_stable st1 I1 F1) as S1. pose proof (final_stable st2 I2 F2) as S2.
    destruct (storm_optimal st2 (final_matching st1) s j I2 F2 P2 S1 HM1) as (j2 & HM2 & Hrel2).
    destruct (storm_optimal st1 (final_matching st2) s j2 I1 F1 P1 S2 HM2) as (j1 & HM1' & Hrel1).
    assert (j1 = j) by exact (If_ _ _ _ I1 j1 j s HM1' HM1). subst j1.
    destruct Hrel2 as [->|Hb2]; [exact HM2|].
    destruct Hrel1 as [->|Hb1]; [exact HM2|].
    exfalso. exact (before_antisym (Os s) j j2 (lists_nodup s) Hb1 Hb2).
  Qed.

  Theorem schedule_independent sched1 sched2 m1 m2 :
    stable_matching pref orig sched1 = Ok m1 -> stable_matching pref orig sched2 = Ok m2 ->
    forall j s, alookup j m1 = Some s <-> alookup j m2 = Some s.
  Proof.
    intros H1 H2.
    destruct (stable_matching_total pref orig orig_keys sched1) as (st1 & Hr1 & I1 & F1 & E1).
    destruct (stable_matching_total pref orig orig_keys sched2) as (st2 & Hr2 & I2 & F2 & E2).
    rewrite E1 in H1. rewrite E2 in H2. inversion H1; subst m1. inversion H2; subst m2.
    pose proof (run_nar _ _ _ _ (init_inv pref orig orig_keys) init_nar Hr1) as P1.
    pose proof (run_nar _ _ _ _ (init_inv pref orig orig_keys) init_nar Hr2) as P2.
    intros j s. split.
    - exact (final_unique st1 st2 I1 F1 P1 I2 F2 P2 j s).
    - exact (final_unique st2 st1 I2 F2 P2 I1 F1 P1 j s).
  Qed.

  (** the result is best for every storm among ALL stable matchings *)
  Theorem result_storm_optimal sched m mu s j :
    stable_matching pref orig sched = Ok m -> stable mu -> mr mu j = Some s ->
    exists j', alookup j' m = Some s /\ (j' = j \/ before (Os s) j' j).
  Proof.
    intros H Hmu Hj.
    destruct (stable_matching_total pref orig orig_keys sched) as (st & Hr & I & F & E).
    rewrite E in H. inversion H; subst m.
    pose proof (run_nar _ _ _ _ (init_inv pref orig orig_keys) init_nar Hr) as P.
    exact (storm_optimal st mu s j I F P Hmu Hj).
  Qed.

  (** and it is stable itself *)
  Theorem result_stable sched m :
    stable_matching pref orig sched = Ok m ->
    exists st, m = mt st /\ stable (final_matching st).
  Proof.
    intros H.
    destruct (stable_matching_total pref orig orig_keys sched) as (st & Hr & I & F & E).
    rewrite E in H. inversion H; subst m. exists st. split; [reflexivity|apply final_stable; assumption].
  Qed.
End Optimal.
