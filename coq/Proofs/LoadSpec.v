(** What `spowtd load` stores, stated over the rows of the three input files
    (in any order) and the resulting tables only. *)
From Spowtd Require Import Model.Load Proofs.LoadStage Proofs.LoadGrid Proofs.LoadLevel.
From Coq Require Import Lia Sorted Permutation QArith Field.
Local Open Scope Z_scope.

(** ** Vocabulary of the statements *)

Definition grid_epochs (L : loaded) : list Z := map fst (ld_grid L).

(** The rainfall timestamps within the span of the water-level record, in time order. *)
Definition span_grid (rain wl : list row) (G : list Z) : Prop :=
  incr G /\ forall e, In e G <-> In e (keys rain) /\ in_span (keys wl) e.

(** A gap of the source record: two adjacent samples further apart than some
    other two adjacent samples (i.e. than the smallest source step). *)
Definition is_gap (wl : list row) (u v : Z) : Prop :=
  (exists za zb, adjacent wl (u, za) (v, zb)) /\
  (exists ra rb, adjacent wl ra rb /\ fst rb - fst ra < v - u).

Definition in_a_gap (wl : list row) (g : Z) : Prop :=
  exists u v, is_gap wl u v /\ u < g < v.

Definition nodup3 (rain et wl : list row) : Prop :=
  NoDup (keys rain) /\ NoDup (keys et) /\ NoDup (keys wl).

(** The input is acceptable: the rainfall instants within the water-level span
    are uniformly spaced (at least two of them) and ET is given at each of them
    and at the closing instant. *)
Definition acceptable (rain et wl : list row) : Prop :=
  exists G d, span_grid rain wl G /\ uniform G d /\
              forall e, In e (G ++ [last_Z G + d]) -> In e (keys et).

(** ** Transport along "same rows" *)

Lemma keys_ext : forall l1 l2 : list row, (forall x, In x l1 <-> In x l2) ->
  forall e, In e (keys l1) <-> In e (keys l2).
Proof.
  intros l1 l2 H e. unfold keys. rewrite !in_map_iff.
  split; intros (x & E & Hx); exists x; (split; [assumption|]); apply H; assumption.
Qed.

Lemma in_span_ext : forall k1 k2, (forall e, In e k1 <-> In e k2) ->
  forall e, in_span k1 e <-> in_span k2 e.
Proof.
  assert (A : forall k1 k2, (forall e, In e k1 <-> In e k2) -> forall e, in_span k1 e -> in_span k2 e).
  { intros k1 k2 H e (lo & hi & [L1 L2] & [H1 H2] & R). exists lo, hi. repeat split.
    - apply H; assumption.
    - intros x Hx. apply L2. apply H; assumption.
    - apply H; assumption.
    - intros x Hx. apply H2. apply H; assumption.
    - lia.
    - lia. }
  intros k1 k2 H e. split; apply A; [assumption|]. intros x. symmetry. apply H.
Qed.

Lemma adjacent_ext : forall l1 l2, (forall x, In x l1 <-> In x l2) ->
  forall ra rb, adjacent l1 ra rb <-> adjacent l2 ra rb.
Proof.
  assert (A : forall l1 l2, (forall x, In x l1 <-> In x l2) ->
                            forall ra rb, adjacent l1 ra rb -> adjacent l2 ra rb).
  { intros l1 l2 H ra rb (H1 & H2 & H3 & H4). repeat split; try (apply H; assumption); try assumption.
    intros r Hr. apply H4. apply H; assumption. }
  intros l1 l2 H ra rb. split; apply A; [assumption|]. intros x. symmetry. apply H.
Qed.

Lemma span_grid_unique : forall rain wl G G', span_grid rain wl G -> span_grid rain wl G' -> G = G'.
Proof.
  intros rain wl G G' [S1 M1] [S2 M2]. apply incr_ext; try assumption.
  intros x. rewrite M1, M2. reflexivity.
Qed.

Lemma uniform_unique : forall g d d', uniform g d -> uniform g d' -> d = d'.
Proof.
  intros g d d' U1 U2. apply uniform_step_complete in U1, U2. congruence.
Qed.

(** ** Gaps of the model = gaps of the source record *)

Lemma gap_bridge : forall wl wl_t mn, stage wl = Ok wl_t -> min_step (keys wl_t) = Ok mn ->
  forall u v, In (u, v) (wl_gaps (keys wl_t) mn) <-> is_gap wl u v.
Proof.
  intros wl wl_t mn Hst Hmin u v. destruct (stage_ok _ _ Hst) as (Hs & Hin & _).
  destruct (min_step_ok _ _ Hmin) as [(p & Hp & Hpm) Hle].
  assert (Hadj : forall a b, In (a, b) (adjacent_pairs (keys wl_t)) <->
                             exists za zb, adjacent wl (a, za) (b, zb)).
  { intros a b. unfold keys. rewrite adjacent_pairs_map, in_map_iff. split.
    - intros ([[ta za] [tb zb]] & E & Hpair). simpl in E. inversion E; subst.
      exists za, zb. apply (adjacent_ext wl_t wl Hin). apply adjacent_pairs_spec; assumption.
    - intros (za & zb & Hab). exists ((a, za), (b, zb)). split; [reflexivity|].
      apply adjacent_pairs_spec; [assumption|]. apply (adjacent_ext wl_t wl Hin). assumption. }
  rewrite wl_gaps_In. split.
  - intros [Hpair Hne]. split; [apply Hadj; assumption|].
    destruct p as [a b]. destruct (proj1 (Hadj a b) Hp) as (za & zb & Hab).
    exists (a, za), (b, zb). split; [assumption|]. simpl in *. specialize (Hle _ Hpair). simpl in Hle. lia.
  - intros [Hex (ra & rb & Hab & Hlt)]. split; [apply Hadj; assumption|].
    assert (Hpair : In (fst ra, fst rb) (adjacent_pairs (keys wl_t))).
    { apply Hadj. exists (snd ra), (snd rb). destruct ra, rb; assumption. }
    specialize (Hle _ Hpair). simpl in Hle. lia.
Qed.

Lemma in_gapb_bridge : forall wl wl_t mn g, stage wl = Ok wl_t -> min_step (keys wl_t) = Ok mn ->
  (in_gapb (wl_gaps (keys wl_t) mn) g = true <-> in_a_gap wl g).
Proof.
  intros wl wl_t mn g Hst Hmin. rewrite in_gapb_true. unfold in_a_gap.
  split; intros (u & v & H & R); exists u, v; (split; [|assumption]);
    apply (gap_bridge wl wl_t mn Hst Hmin); assumption.
Qed.

(** ** Everything a successful load determines *)

Record load_facts (tz : String.string) (rain et wl : list row) (L : loaded)
  (rain_t et_t : list row) (a : row) (rest : list row) (mn a0 : Z) (n : nat) : Prop := {
  lf_rain : stage rain = Ok rain_t;
  lf_et : stage et = Ok et_t;
  lf_wl : stage wl = Ok (a :: rest);
  lf_n : (2 <= n)%nat;
  lf_step : 0 < ld_step L;
  lf_g : grid_rain_epochs rain_t (a :: rest) = arith a0 (ld_step L) n;
  lf_min : min_step (keys (a :: rest)) = Ok mn;
  lf_et_all : forall e, In e (arith a0 (ld_step L) (S n)) -> In e (keys et_t);
  lf_grid : ld_grid L = map (fun t => (t, label_spec (wl_gaps (keys (a :: rest)) mn) t))
                            (arith a0 (ld_step L) (S n));
  lf_rain_g : ld_rain L = on_steps (arith a0 (ld_step L) n) (ld_step L) rain_t;
  lf_et_g : ld_et L = on_steps (arith a0 (ld_step L) n) (ld_step L) et_t;
  lf_wl_g : ld_wl L = map (fun t => (t, interp a rest t))
                          (filter (fun t => is_some (label_spec (wl_gaps (keys (a :: rest)) mn) t))
                                  (arith a0 (ld_step L) n));
  lf_tz : ld_tz L = tz;
  lf_rain_s : ld_rain_staging L = rain_t;
  lf_et_s : ld_et_staging L = et_t;
  lf_wl_s : ld_wl_staging L = a :: rest }.

Lemma arith_range : forall a d n t, 0 < d -> In t (arith a d (S n)) ->
  hd 0 (arith a d (S n)) <= t <= last_Z (arith a d (S n)).
Proof.
  intros a d n t Hd Ht. unfold last_Z. rewrite arith_last. simpl hd.
  apply arith_In in Ht. destruct Ht as (k & Hk & ->). nia.
Qed.

Lemma arith_sub : forall a d n e, In e (arith a d n) -> In e (arith a d (S n)).
Proof.
  intros a d n e H. apply arith_In in H. apply arith_In. destruct H as (k & Hk & ->).
  exists k. split; [lia|reflexivity].
Qed.

Lemma populate_et_inv : forall et_t a0 d n x, 0 < d -> (1 <= n)%nat ->
  populate_et et_t (arith a0 d (S n)) d = Ok x ->
  (forall e, In e (arith a0 d (S n)) -> In e (keys et_t)) /\ x = on_steps (arith a0 d n) d et_t.
Proof.
  intros et_t a0 d n x Hd Hn E.
  assert (Hall : forall e, In e (arith a0 d (S n)) -> In e (keys et_t)).
  { apply et_missing_nil. unfold populate_et in E.
    destruct (et_missing et_t (arith a0 d (S n))); [reflexivity|discriminate]. }
  split; [assumption|]. rewrite populate_et_ok in E by assumption. congruence.
Qed.

Theorem load_ok_facts : forall pop tz rain et wl L, load_model pop tz rain et wl = Ok L ->
  pop = false /\ exists rain_t et_t a rest mn a0 n, load_facts tz rain et wl L rain_t et_t a rest mn a0 n.
Proof.
  intros pop tz rain et wl L E. unfold load_model in E.
  destruct pop; [discriminate|]. split; [reflexivity|].
  destruct (stage rain) as [rain_t|] eqn:E1; [|discriminate].
  destruct (stage et) as [et_t|] eqn:E2; [|discriminate].
  destruct (stage wl) as [wl_t|] eqn:E3; [|discriminate].
  cbv beta iota zeta delta [bind load_staged] in E.
  destruct (populate_grid_time rain_t wl_t) as [[tg step]|] eqn:E4; [|discriminate].
  simpl fst in E. simpl snd in E.
  destruct (regrid rain_t tg step) as [rain_g|] eqn:E5; [|discriminate].
  destruct (populate_et et_t tg step) as [et_g|] eqn:E6; [|discriminate].
  destruct (populate_water_level wl_t tg) as [gw|] eqn:E7; [|discriminate].
  inversion E; subst L; clear E. simpl.
  destruct (stage_ok _ _ E1) as (Sr & _ & _). destruct (stage_ok _ _ E3) as (Sw & _ & _).
  destruct (populate_grid_time_ok _ _ _ _ E4 Sr) as (a0 & n & Hn & Hpos & Hg & Htg & Htg').
  destruct wl_t as [|a rest]; [discriminate|].
  destruct (min_step (keys (a :: rest))) as [mn|] eqn:Em.
  2:{ unfold populate_water_level in E7. change (map fst (a :: rest)) with (keys (a :: rest)) in E7.
      rewrite Em in E7. discriminate. }
  exists rain_t, et_t, a, rest, mn, a0, n.
  subst tg. rewrite regrid_ok in E5 by lia. inversion E5; subst rain_g; clear E5.
  assert (Hn1 : (1 <= n)%nat) by lia.
  destruct (populate_et_inv _ _ _ _ _ Hpos Hn1 E6) as [Hall ->].
  rewrite <- (arith_snoc n a0 step) in E7.
  rewrite (populate_water_level_ok a rest mn (arith a0 step n) (a0 + Z.of_nat n * step) Sw Em) in E7.
  2:{ rewrite arith_snoc. intros t Ht. apply arith_range; assumption. }
  inversion E7; subst gw; clear E7. rewrite arith_snoc. simpl.
  constructor; simpl; try assumption; try reflexivity.
Qed.

(** ** C10: the grid *)

Lemma grid_epochs_arith : forall tz rain et wl L rain_t et_t a rest mn a0 n,
  load_facts tz rain et wl L rain_t et_t a rest mn a0 n ->
  grid_epochs L = arith a0 (ld_step L) (S n).
Proof.
  intros. destruct H. unfold grid_epochs. rewrite lf_grid0, map_map.
  cbv beta iota delta [fst]. apply map_id.
Qed.

Theorem load_grid : forall pop tz rain et wl L, load_model pop tz rain et wl = Ok L ->
  exists G, span_grid rain wl G /\ grid_epochs L = G ++ [last_Z G + ld_step L].
Proof.
  intros pop tz rain et wl L E. destruct (load_ok_facts _ _ _ _ _ _ E) as (_ & rain_t & et_t & a & rest & mn & a0 & n & F).
  pose proof (grid_epochs_arith _ _ _ _ _ _ _ _ _ _ _ _ F) as HGE.
  destruct F. exists (arith a0 (ld_step L) n).
  destruct (stage_ok _ _ lf_rain0) as (Sr & Ir & _). destruct (stage_ok _ _ lf_wl0) as (Sw & Iw & _).
  split.
  - destruct (grid_rain_epochs_spec rain_t (a :: rest) Sr) as [Hs Hm]. rewrite lf_g0 in Hs, Hm.
    split; [assumption|]. intros e. rewrite Hm, (keys_ext _ _ Ir e).
    rewrite (in_span_ext _ _ (keys_ext _ _ Iw) e). reflexivity.
  - rewrite HGE.
    destruct n as [|n]; [lia|]. unfold last_Z. rewrite arith_last, <- (arith_snoc (S n)).
    replace (a0 + Z.of_nat n * ld_step L + ld_step L) with (a0 + Z.of_nat (S n) * ld_step L) by lia.
    reflexivity.
Qed.

Theorem load_uniform : forall pop tz rain et wl L, load_model pop tz rain et wl = Ok L ->
  0 < ld_step L /\ (3 <= length (grid_epochs L))%nat /\
  forall i, (i < length (grid_epochs L))%nat ->
            nth i (grid_epochs L) 0 = nth 0 (grid_epochs L) 0 + Z.of_nat i * ld_step L.
Proof.
  intros pop tz rain et wl L E. destruct (load_ok_facts _ _ _ _ _ _ E) as (_ & rain_t & et_t & a & rest & mn & a0 & n & F).
  rewrite (grid_epochs_arith _ _ _ _ _ _ _ _ _ _ _ _ F). destruct F. rewrite arith_length.
  split; [assumption|]. split; [lia|]. intros i Hi. rewrite !arith_nth by lia. lia.
Qed.

(** ** C10: rainfall and evapotranspiration on the grid steps *)

Theorem load_rain_verbatim : forall pop tz rain et wl L, load_model pop tz rain et wl = Ok L ->
  (forall f t v, In (f, t, v) (ld_rain L) <->
                 In (f, v) rain /\ In f (removelast (grid_epochs L)) /\ t = f + ld_step L) /\
  map (fun r : step_row => fst (fst r)) (ld_rain L) = removelast (grid_epochs L).
Proof.
  intros pop tz rain et wl L E. destruct (load_ok_facts _ _ _ _ _ _ E) as (_ & rain_t & et_t & a & rest & mn & a0 & n & F).
  rewrite (grid_epochs_arith _ _ _ _ _ _ _ _ _ _ _ _ F), arith_removelast. destruct F.
  destruct (stage_ok _ _ lf_rain0) as (Sr & Ir & _). rewrite lf_rain_g0. split.
  - intros f t v. rewrite on_steps_In, Ir. reflexivity.
  - apply on_steps_from_epochs; [apply arith_incr; assumption|assumption|].
    intros e He. rewrite <- lf_g0 in He. apply (grid_rain_epochs_spec rain_t (a :: rest) Sr) in He. tauto.
Qed.

Theorem load_et_verbatim : forall pop tz rain et wl L, load_model pop tz rain et wl = Ok L ->
  (forall f t v, In (f, t, v) (ld_et L) <->
                 In (f, v) et /\ In f (removelast (grid_epochs L)) /\ t = f + ld_step L) /\
  map (fun r : step_row => fst (fst r)) (ld_et L) = removelast (grid_epochs L).
Proof.
  intros pop tz rain et wl L E. destruct (load_ok_facts _ _ _ _ _ _ E) as (_ & rain_t & et_t & a & rest & mn & a0 & n & F).
  rewrite (grid_epochs_arith _ _ _ _ _ _ _ _ _ _ _ _ F), arith_removelast. destruct F.
  destruct (stage_ok _ _ lf_et0) as (Se & Ie & _). rewrite lf_et_g0. split.
  - intros f t v. rewrite on_steps_In, Ie. reflexivity.
  - apply on_steps_from_epochs; [apply arith_incr; assumption|assumption|].
    intros e He. apply lf_et_all0. apply arith_sub. assumption.
Qed.

(** ** C10: water level *)

Lemma wl_keys_filter : forall (f : Z -> bool) (h : Z -> Q) l,
  keys (map (fun t => (t, h t)) (filter f l)) = filter f l.
Proof. intros. unfold keys. rewrite map_map. simpl. apply map_id. Qed.

(** Which grid instants receive a water level: the starts of the grid steps
    that do not lie strictly inside a gap of the source record. *)
Theorem load_wl_rows : forall pop tz rain et wl L, load_model pop tz rain et wl = Ok L ->
  incr (keys (ld_wl L)) /\
  forall g, In g (keys (ld_wl L)) <-> In g (removelast (grid_epochs L)) /\ ~ in_a_gap wl g.
Proof.
  intros pop tz rain et wl L E. destruct (load_ok_facts _ _ _ _ _ _ E) as (_ & rain_t & et_t & a & rest & mn & a0 & n & F).
  rewrite (grid_epochs_arith _ _ _ _ _ _ _ _ _ _ _ _ F), arith_removelast. destruct F.
  rewrite lf_wl_g0, wl_keys_filter. split.
  - apply incr_filter. apply arith_incr. assumption.
  - intros g. rewrite filter_In. rewrite <- (in_gapb_bridge wl (a :: rest) mn g lf_wl0 lf_min0).
    unfold label_spec. destruct (in_gapb (wl_gaps (keys (a :: rest)) mn) g); simpl; intuition congruence.
Qed.

Lemma inject_Z_nonzero : forall k, k <> 0 -> ~ (inject_Z k == 0)%Q.
Proof. intros k Hk H. unfold Qeq in H. simpl in H. lia. Qed.

Lemma lerp_formula : forall ra rb x, fst ra < fst rb ->
  (lerp ra rb x == snd ra + inject_Z (x - fst ra) * (snd rb - snd ra) / inject_Z (fst rb - fst ra))%Q.
Proof.
  intros ra rb x H. unfold lerp. field. apply inject_Z_nonzero. lia.
Qed.

Lemma sorted_first_is_lo : forall (a : row) rest, incr (keys (a :: rest)) -> is_lo (keys (a :: rest)) (fst a).
Proof.
  intros a rest H. split; [left; reflexivity|]. intros x [<-|Hx]; [lia|].
  simpl in H. pose proof (incr_lt_in _ _ _ H Hx). lia.
Qed.

(** The value stored at a grid instant: the source value when the instant is a
    source instant, otherwise the straight line through the two adjacent source
    samples around it, which are never the two sides of a gap; one of the two
    cases always applies. *)
Theorem load_interp : forall pop tz rain et wl L g z, load_model pop tz rain et wl = Ok L ->
  In (g, z) (ld_wl L) ->
  (forall zs, In (g, zs) wl -> z = zs) /\
  (forall ra rb, adjacent wl ra rb -> fst ra < g < fst rb ->
     z = lerp ra rb g /\
     (z == snd ra + inject_Z (g - fst ra) * (snd rb - snd ra) / inject_Z (fst rb - fst ra))%Q /\
     ~ is_gap wl (fst ra) (fst rb)) /\
  ((exists zs, In (g, zs) wl) \/ (exists ra rb, adjacent wl ra rb /\ fst ra < g < fst rb)).
Proof.
  intros pop tz rain et wl L g z E Hin.
  destruct (load_ok_facts _ _ _ _ _ _ E) as (_ & rain_t & et_t & a & rest & mn & a0 & n & F). destruct F.
  destruct (stage_ok _ _ lf_rain0) as (Sr & Ir & _). destruct (stage_ok _ _ lf_wl0) as (Sw & Iw & _).
  rewrite lf_wl_g0 in Hin. apply in_map_iff in Hin. destruct Hin as (t & Et & Ht). inversion Et; subst t z. clear Et.
  apply filter_In in Ht. destruct Ht as [Hg Hvalid].
  assert (Hngap : in_gapb (wl_gaps (keys (a :: rest)) mn) g = false).
  { unfold label_spec in Hvalid. destruct (in_gapb (wl_gaps (keys (a :: rest)) mn) g); [discriminate|reflexivity]. }
  rewrite <- lf_g0 in Hg. apply (grid_rain_epochs_spec rain_t (a :: rest) Sr) in Hg.
  destruct Hg as [_ (lo & hi & Hlo & Hhi & Hr)].
  rewrite (is_lo_unique _ _ _ Hlo (sorted_first_is_lo a rest Sw)) in Hr.
  assert (Hag : fst a <= g) by lia.
  destruct (interp_spec a rest g Sw Hag) as [I1 I2]. split; [|split].
  - intros zs Hzs. apply I1. apply Iw. assumption.
  - intros ra rb Hab Hr'. apply (adjacent_ext (a :: rest) wl Iw) in Hab.
    assert (Hlt : fst ra < fst rb) by (destruct Hab as (_ & _ & H & _); assumption).
    pose proof (proj2 (adjacent_pairs_spec _ Sw ra rb) Hab) as Hpair.
    split; [apply I2; assumption|]. split.
    + rewrite (I2 ra rb Hpair Hr'). apply lerp_formula. assumption.
    + intro Hgap. apply (gap_bridge wl (a :: rest) mn lf_wl0 lf_min0) in Hgap.
      assert (in_gapb (wl_gaps (keys (a :: rest)) mn) g = true) as C
        by (apply in_gapb_true; exists (fst ra), (fst rb); tauto).
      congruence.
  - assert (Hrange : fst a <= g <= hi) by lia.
    destruct (bracket_exists rest a g hi Sw Hhi Hrange) as [(zs & Hzs)|(ra & rb & Hpair & Hr')].
    + left. exists zs. apply Iw. assumption.
    + right. exists ra, rb. split; [|assumption]. apply (adjacent_ext (a :: rest) wl Iw).
      apply adjacent_pairs_spec; assumption.
Qed.

Lemma grid_row_label : forall tz rain et wl L rain_t et_t a rest mn a0 n g lab,
  load_facts tz rain et wl L rain_t et_t a rest mn a0 n ->
  (In (g, lab) (ld_grid L) <->
   In g (grid_epochs L) /\ lab = label_spec (wl_gaps (keys (a :: rest)) mn) g).
Proof.
  intros tz rain et wl L rain_t et_t a rest mn a0 n g lab F.
  rewrite (grid_epochs_arith _ _ _ _ _ _ _ _ _ _ _ _ F). destruct F. rewrite lf_grid0, in_map_iff. split.
  - intros (t & Et & Ht). inversion Et; subst. tauto.
  - intros [H ->]. exists g. tauto.
Qed.

(** No value, and no label, strictly inside a gap. *)
Theorem load_no_value_in_gap : forall pop tz rain et wl L g, load_model pop tz rain et wl = Ok L ->
  in_a_gap wl g ->
  ~ In g (keys (ld_wl L)) /\ forall lab, In (g, lab) (ld_grid L) -> lab = None.
Proof.
  intros pop tz rain et wl L g E Hgap. split.
  - intro H. apply (load_wl_rows _ _ _ _ _ _ E) in H. tauto.
  - destruct (load_ok_facts _ _ _ _ _ _ E) as (_ & rain_t & et_t & a & rest & mn & a0 & n & F).
    intros lab Hl. apply (grid_row_label _ _ _ _ _ _ _ _ _ _ _ _ _ _ F) in Hl. destruct Hl as [_ ->].
    destruct F. apply (in_gapb_bridge wl (a :: rest) mn g lf_wl0 lf_min0) in Hgap.
    unfold label_spec. rewrite Hgap. reflexivity.
Qed.

(** Every grid instant has exactly one row; it is unlabelled iff it lies
    strictly inside a gap. *)
Theorem load_unlabelled_iff : forall pop tz rain et wl L g, load_model pop tz rain et wl = Ok L ->
  NoDup (grid_epochs L) /\
  (In (g, None) (ld_grid L) <-> In g (grid_epochs L) /\ in_a_gap wl g).
Proof.
  intros pop tz rain et wl L g E.
  destruct (load_ok_facts _ _ _ _ _ _ E) as (_ & rain_t & et_t & a & rest & mn & a0 & n & F). split.
  - rewrite (grid_epochs_arith _ _ _ _ _ _ _ _ _ _ _ _ F). apply incr_NoDup. apply arith_incr. destruct F; assumption.
  - rewrite (grid_row_label _ _ _ _ _ _ _ _ _ _ _ _ g None F). destruct F.
    rewrite <- (in_gapb_bridge wl (a :: rest) mn g lf_wl0 lf_min0). unfold label_spec.
    destruct (in_gapb (wl_gaps (keys (a :: rest)) mn) g); intuition congruence.
Qed.

(** Labels: equal within a stretch, distinct across a gap. *)
Theorem load_labels : forall pop tz rain et wl L g g' k k', load_model pop tz rain et wl = Ok L ->
  In (g, Some k) (ld_grid L) -> In (g', Some k') (ld_grid L) -> g <= g' ->
  (k = k' <-> ~ exists u v, is_gap wl u v /\ g <= u /\ v <= g').
Proof.
  intros pop tz rain et wl L g g' k k' E H1 H2 Hle.
  destruct (load_ok_facts _ _ _ _ _ _ E) as (_ & rain_t & et_t & a & rest & mn & a0 & n & F).
  apply (grid_row_label _ _ _ _ _ _ _ _ _ _ _ _ _ _ F) in H1, H2. destruct H1 as [_ H1], H2 as [_ H2].
  destruct F. destruct (stage_ok _ _ lf_wl0) as (Sw & _ & _).
  destruct (wl_gaps_chain (keys (a :: rest)) mn Sw) as [lo Hc].
  rewrite (label_spec_same _ lo g g' k k' Hc Hle (eq_sym H1) (eq_sym H2)).
  split; intros Hno (u & v & Hg & Hr); apply Hno; exists u, v; (split; [|assumption]);
    apply (gap_bridge wl (a :: rest) mn lf_wl0 lf_min0); assumption.
Qed.

(** ** C10: the order of the rows in the files is irrelevant *)

Theorem load_row_order_irrelevant : forall pop tz rain et wl rain' et' wl',
  Permutation rain rain' -> Permutation et et' -> Permutation wl wl' ->
  load_model pop tz rain et wl = load_model pop tz rain' et' wl'.
Proof.
  intros pop tz rain et wl rain' et' wl' P1 P2 P3. unfold load_model.
  rewrite (stage_perm _ _ P1), (stage_perm _ _ P2), (stage_perm _ _ P3). reflexivity.
Qed.

(** ** Refusals (C11): exactly when, and with which error *)

Lemma two_rows_of_grid : forall rain_t wl_t a0 d n, incr (keys rain_t) ->
  grid_rain_epochs rain_t wl_t = arith a0 d n -> (2 <= n)%nat -> 0 < d ->
  exists x y rest, wl_t = x :: y :: rest.
Proof.
  intros rain_t wl_t a0 d n Sr Hg Hn Hd.
  destruct (grid_rain_epochs_spec rain_t wl_t Sr) as [_ Hm]. rewrite Hg in Hm.
  assert (H0 : In a0 (arith a0 d n)) by (apply arith_In; exists 0; split; lia).
  assert (H1 : In (a0 + d) (arith a0 d n)) by (apply arith_In; exists 1; split; lia).
  apply Hm in H0, H1. destruct H0 as [_ (lo & hi & Hlo & Hhi & R0)]. destruct H1 as [_ (lo' & hi' & Hlo' & Hhi' & R1)].
  rewrite <- (is_hi_unique _ _ _ Hhi Hhi') in R1.
  destruct wl_t as [|x [|y rest]].
  - destruct Hlo as [[] _].
  - exfalso. destruct Hlo as [[<-|[]] _]. destruct Hhi as [[<-|[]] _]. lia.
  - exists x, y, rest. reflexivity.
Qed.

Lemma min_step_two : forall x y rest, exists mn, min_step (x :: y :: rest) = Ok mn.
Proof. intros. unfold min_step. simpl. eexists. reflexivity. Qed.

Theorem load_err_kind : forall pop tz rain et wl e, load_model pop tz rain et wl = Err e ->
  (pop = true /\ e = EValue) \/
  (pop = false /\ ~ nodup3 rain et wl /\ e = EIntegrity) \/
  (pop = false /\ nodup3 rain et wl /\ ~ acceptable rain et wl /\ e = EValue).
Proof.
  intros pop tz rain et wl e E. unfold load_model in E.
  destruct pop; [left; split; [reflexivity|congruence]|]. right.
  destruct (stage rain) as [rain_t|e1] eqn:E1.
  2:{ left. simpl in E. destruct (stage_err _ _ E1) as [-> Hno]. unfold nodup3. split; [reflexivity|]. split; [tauto|congruence]. }
  destruct (stage et) as [et_t|e2] eqn:E2.
  2:{ left. simpl in E. destruct (stage_err _ _ E2) as [-> Hno]. unfold nodup3. split; [reflexivity|]. split; [tauto|congruence]. }
  destruct (stage wl) as [wl_t|e3] eqn:E3.
  2:{ left. simpl in E. destruct (stage_err _ _ E3) as [-> Hno]. unfold nodup3. split; [reflexivity|]. split; [tauto|congruence]. }
  right. cbv beta iota zeta delta [bind load_staged] in E.
  destruct (stage_ok _ _ E1) as (Sr & Ir & N1). destruct (stage_ok _ _ E2) as (Se & Ie & N2).
  destruct (stage_ok _ _ E3) as (Sw & Iw & N3).
  split; [reflexivity|]. split; [unfold nodup3; tauto|].
  assert (HG : span_grid rain wl (grid_rain_epochs rain_t wl_t)).
  { destruct (grid_rain_epochs_spec rain_t wl_t Sr) as [Hs Hm]. split; [assumption|].
    intros x. rewrite Hm, (keys_ext _ _ Ir x), (in_span_ext _ _ (keys_ext _ _ Iw) x). reflexivity. }
  destruct (populate_grid_time rain_t wl_t) as [[tg step]|e4] eqn:E4.
  2:{ inversion E; subst e4. destruct (populate_grid_time_err _ _ _ E4) as [-> Hnu]. split; [|reflexivity].
      intros (G & d & HG' & Hu & _). rewrite (span_grid_unique _ _ _ _ HG' HG) in Hu. apply (Hnu d Hu). }
  simpl fst in E. simpl snd in E.
  destruct (populate_grid_time_ok _ _ _ _ E4 Sr) as (a0 & n & Hn & Hpos & Hg & Htg & Htg').
  rewrite Htg in E. rewrite regrid_ok in E by lia.
  destruct (populate_et et_t (arith a0 step (S n)) step) as [et_g|e6] eqn:E6.
  2:{ inversion E; subst e6. assert (Hn1 : (1 <= n)%nat) by lia.
      destruct (populate_et_err _ _ _ _ _ Hpos Hn1 E6) as [-> (g & Hgin & Hgno)].
      split; [|reflexivity]. intros (G & d & HG' & Hu & Hall).
      rewrite (span_grid_unique _ _ _ _ HG' HG) in Hu, Hall.
      assert (Hu' : uniform (grid_rain_epochs rain_t wl_t) step) by (exists a0, n; tauto).
      rewrite (uniform_unique _ _ _ Hu Hu') in Hall. rewrite <- Htg', Htg in Hall.
      apply Hgno. apply (keys_ext _ _ Ie). apply Hall. assumption. }
  exfalso.
  destruct (two_rows_of_grid _ _ _ _ _ Sr Hg Hn Hpos) as (x & y & rest & ->).
  destruct (min_step_two (fst x) (fst y) (keys rest)) as [mn Em].
  change (fst x :: fst y :: keys rest) with (keys (x :: y :: rest)) in Em.
  rewrite <- (arith_snoc n a0 step) in E.
  rewrite (populate_water_level_ok x (y :: rest) mn (arith a0 step n) (a0 + Z.of_nat n * step) Sw Em) in E.
  2:{ rewrite arith_snoc. intros t Ht. apply arith_range; assumption. }
  discriminate.
Qed.

Theorem load_accepts_iff : forall pop tz rain et wl,
  (exists L, load_model pop tz rain et wl = Ok L) <->
  pop = false /\ nodup3 rain et wl /\ acceptable rain et wl.
Proof.
  intros pop tz rain et wl. split.
  - intros [L E]. destruct (load_ok_facts _ _ _ _ _ _ E) as (Hp & rain_t & et_t & a & rest & mn & a0 & n & F).
    split; [assumption|]. destruct (load_grid _ _ _ _ _ _ E) as (G & HG & HGe).
    rewrite (grid_epochs_arith _ _ _ _ _ _ _ _ _ _ _ _ F) in HGe. destruct F.
    destruct (stage_ok _ _ lf_rain0) as (_ & _ & N1). destruct (stage_ok _ _ lf_et0) as (_ & Ie & N2).
    destruct (stage_ok _ _ lf_wl0) as (_ & _ & N3). split; [unfold nodup3; tauto|].
    exists G, (ld_step L). split; [assumption|].
    assert (HGa : G = arith a0 (ld_step L) n).
    { rewrite <- arith_snoc in HGe. apply app_inj_tail in HGe. symmetry. tauto. }
    split; [exists a0, n; tauto|]. rewrite <- HGe. intros e He. apply (keys_ext _ _ Ie). apply lf_et_all0. assumption.
  - intros (Hp & Hnd & Hacc). destruct (load_model pop tz rain et wl) as [L|e] eqn:E; [exists L; reflexivity|].
    exfalso. destruct (load_err_kind _ _ _ _ _ _ E) as [[H _]|[(_ & H & _)|(_ & _ & H & _)]]; [congruence|tauto|tauto].
Qed.
