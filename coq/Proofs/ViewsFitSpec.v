(** The view over the tables written from the result of find_offsets shows the
    master curve of the least-squares minimiser: links C05_find_offsets_minimises
    (Proofs/FindOffsetsSpec.v) to what average_rising_depth /
    average_recession_time list. *)
From Spowtd Require Import Model.Views Proofs.QSum Proofs.FitOffsetsSpec Proofs.FindOffsetsSpec
  Proofs.FindOffsetsComplete Proofs.ViewsSpec.
From Coq Require Import Lia.

Lemma in_entries_of hm c :
  In c (entries_of hm) <-> exists cs, In (e_head c, cs) hm /\ In (e_series c, e_val c) cs.
Proof.
  unfold entries_of. rewrite in_flat_map. split.
  - intros ((k, cs) & Hp & H). apply in_map_iff in H. destruct H as ((s, v) & <- & Hsv).
    exists cs. auto.
  - intros (cs & Hp & Hsv). exists (e_head c, cs). split; [exact Hp|].
    apply in_map_iff. exists (e_series c, e_val c). split; [destruct c; reflexivity|exact Hsv].
Qed.

Theorem view_shows_minimiser_curve (start_of : nat -> Z) hm sids offs grid step :
  find_offsets hm = Ok (sids, offs) ->
  NoDup grid ->
  (forall x y, In x sids -> In y sids -> start_of x = start_of y -> x = y) ->
  let E := entries_of (drop_single hm) in
  let x := assignment sids offs in
  let O := written_offsets start_of sids offs in
  let Cr := written_crossings start_of (drop_single hm) in
  (forall s, resid_sum E x s == 0) /\
  (forall y, objective E x <= objective E y) /\
  (forall z v, In (z, v) (view_average O Cr grid step) ->
     exists k, In k grid /\ z = inject_Z k * step /\ (exists c, In c (at_head E k)) /\
               v == head_mean E x k) /\
  (forall k, In k grid -> (exists c, In c (at_head E k)) ->
     exists v, In (inject_Z k * step, v) (view_average O Cr grid step) /\ v == head_mean E x k).
Proof.
  intros Hfo HG Hinj E x O Cr.
  destruct (find_offsets_sound hm sids offs Hfo) as (Hs & Hres & Hmin). fold E x in Hs, Hres, Hmin.
  assert (HN : NoDup sids) by (rewrite Hs; apply sorted_ids_nodup).
  assert (Hin : forall k cs s v, In (k, cs) (drop_single hm) -> In (s, v) cs -> In s sids).
  { intros k cs s v Hp Hsv. rewrite Hs. apply sorted_ids_in. apply in_map_iff.
    exists {| e_head := k; e_series := s; e_val := v |}. split; [reflexivity|].
    apply in_entries_of. exists cs. auto. }
  split; [exact Hres|]. split; [exact Hmin|]. split.
  - intros z v Hzv.
    destruct (written_view_rows start_of (drop_single hm) sids offs grid step HG HN Hinj Hin z v Hzv)
      as (k & Hk & Hz & (cs & (s, w) & Hp & Hc) & Hv).
    exists k. split; [exact Hk|]. split; [exact Hz|]. split; [|exact Hv].
    exists {| e_head := k; e_series := s; e_val := w |}. apply at_head_in. split; [|reflexivity].
    apply in_entries_of. exists cs. auto.
  - intros k Hk (c & Hc). apply at_head_in in Hc. destruct Hc as (Hc & <-).
    apply in_entries_of in Hc. destruct Hc as (cs & Hp & Hsv).
    assert (Hsid : In (e_series c) sids) by (eapply Hin; eassumption).
    exists (head_mean (aligned_entries O Cr) (offset_of O) (e_head c)). split.
    + apply (view_average_row _ _ _ _ _ _ HG). exists (e_head c). split; [|auto].
      apply view_levels_spec. split; [exact Hk|].
      exists (start_of (e_series c)), (assignment sids offs (e_series c)), (e_val c). split.
      * unfold O, written_offsets. apply in_map_iff. exists (e_series c). auto.
      * unfold Cr, written_crossings. apply in_flat_map. exists (e_head c, cs). split; [exact Hp|].
        apply in_map_iff. exists (e_series c, e_val c). auto.
    + apply (written_view_is_mapping_mean start_of (drop_single hm) sids offs HN Hinj Hin).
Qed.
