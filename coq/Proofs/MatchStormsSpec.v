(** Data level: match_storms on arbitrary flag vectors. Totality, validity of the
    recorded pairs (overlap), one-to-one, stability with the code's keys. *)
From Spowtd Require Import Model.Matching Proofs.RunsSpec Proofs.MatchingSpec.
From Coq Require Import Lia Sorting.Sorted.

(** * Starts of runs are pairwise distinct *)
Lemma map_fst_shift1 r : map fst (map shift1 r) = map S (map fst r).
Proof. induction r as [|[a b] t IH]; simpl; [reflexivity|f_equal; exact IH]. Qed.

Lemma NoDup_map_S l : NoDup l -> NoDup (map S l).
Proof.
  induction l as [|a t IH]; simpl; intros H; [constructor|].
  inversion H as [|x xs Hn Hd]; subst. constructor; [|apply IH; exact Hd].
  intros Hin. apply in_map_iff in Hin. destruct Hin as (y & Hy & Hin). inversion Hy; subst. contradiction.
Qed.

Lemma shift1_fst_nodup r : NoDup (map fst r) -> NoDup (map fst (map shift1 r)).
Proof. intros H. rewrite map_fst_shift1. apply NoDup_map_S. exact H. Qed.

Lemma shift1_fst_no0 r : ~ In 0 (map fst (map shift1 r)).
Proof.
  rewrite map_fst_shift1. intros Hin. apply in_map_iff in Hin. destruct Hin as (y & Hy & _). discriminate.
Qed.

Lemma true_runs_starts_nodup l : NoDup (map fst (true_runs l)).
Proof.
  induction l as [|[|] t IH]; cbn [true_runs]; [constructor| |].
  - destruct (true_runs t) as [|[[|s0] e0] r] eqn:E.
    + constructor; [simpl; tauto|constructor].
    + cbn [map fst]. cbn [map fst] in IH. inversion IH as [|x xs Hn Hd]; subst.
      constructor; [apply shift1_fst_no0|apply shift1_fst_nodup; exact Hd].
    + cbn [map fst]. constructor; [apply (shift1_fst_no0 ((S s0, e0) :: r))|].
      apply (shift1_fst_nodup ((S s0, e0) :: r)). exact IH.
  - apply shift1_fst_nodup. exact IH.
Qed.

Lemma rises_starts_nodup jumpf : NoDup (map fst (rises_of jumpf)).
Proof.
  unfold rises_of. rewrite map_map. simpl.
  change (map (fun x : nat * nat => fst x) (true_runs jumpf)) with (map fst (true_runs jumpf)).
  apply true_runs_starts_nodup.
Qed.

(** * insertion sort *)
Section Sort.
  Context {A : Type} (key : A -> Z).
  Let le (x y : A) : Prop := (key x <= key y)%Z.

  Lemma insert_by_in x y l : In y (insert_by key x l) <-> y = x \/ In y l.
  Proof.
    induction l as [|a t IH]; simpl; [intuition|].
    destruct (key x <=? key a)%Z; simpl; [intuition|]. rewrite IH. intuition.
  Qed.

  Lemma sort_by_in y l : In y (sort_by key l) <-> In y l.
  Proof.
    induction l as [|a t IH]; simpl; [tauto|]. rewrite insert_by_in, IH. intuition.
  Qed.

  Lemma insert_by_sorted x l : StronglySorted le l -> StronglySorted le (insert_by key x l).
  Proof.
    induction l as [|a t IH]; simpl; intros Hs.
    - constructor; constructor.
    - destruct (key x <=? key a)%Z eqn:E.
      + apply Z.leb_le in E. constructor; [exact Hs|].
        inversion Hs as [|y ys Hs' Hall]; subst. constructor; [exact E|].
        eapply Forall_impl; [|exact Hall]. intros b Hb. unfold le in *. lia.
      + apply Z.leb_gt in E. inversion Hs as [|y ys Hs' Hall]; subst.
        constructor; [apply IH; exact Hs'|].
        apply Forall_forall. intros b Hb. apply insert_by_in in Hb. destruct Hb as [->|Hb].
        * unfold le. lia.
        * rewrite Forall_forall in Hall. apply Hall. exact Hb.
  Qed.

  Lemma sort_by_sorted l : StronglySorted le (sort_by key l).
  Proof.
    induction l as [|a t IH]; simpl; [constructor|]. apply insert_by_sorted. exact IH.
  Qed.

  Lemma sorted_split l p a q b :
    StronglySorted le l -> l = p ++ a :: q -> In b q -> (key a <= key b)%Z.
  Proof.
    revert l. induction p as [|c p IH]; intros l Hs -> Hin; simpl in Hs.
    - inversion Hs as [|y ys Hs' Hall]; subst. rewrite Forall_forall in Hall. apply Hall. exact Hin.
    - inversion Hs as [|y ys Hs' Hall]; subst. eapply IH; [exact Hs'|reflexivity|exact Hin].
  Qed.
End Sort.

Lemma overlaps_spec st r :
  overlaps st r = true <-> exists i, fst st <= i /\ i < snd st /\ fst r <= i /\ i < snd r - 1.
Proof.
  unfold overlaps. rewrite Nat.ltb_lt. split.
  - intros H. exists (Nat.max (fst st) (fst r)). lia.
  - intros (i & H1 & H2 & H3 & H4). lia.
Qed.

Section MatchStorms.
  Variables heavy jumpf : list bool.
  Let storms := true_runs heavy.
  Let rises := rises_of jumpf.
  Let cands := all_candidates storms rises.

  Lemma storms_lookup s e : In (s, e) storms <-> alookup s storms = Some e.
  Proof.
    split; [apply in_alookup; apply true_runs_starts_nodup|apply alookup_in].
  Qed.

  Lemma rises_lookup a b : In (a, b) rises <-> alookup a rises = Some b.
  Proof.
    split; [apply in_alookup; apply rises_starts_nodup|apply alookup_in].
  Qed.

  Lemma cands_keys_nodup : NoDup (map fst cands).
  Proof.
    unfold cands, all_candidates.
    assert (H : forall (f : (nat * list nat) -> bool) l, NoDup (map fst l) -> NoDup (map fst (filter f l))).
    { intros f l. induction l as [|a t IH]; simpl; intros Hd; [constructor|].
      inversion Hd as [|x xs Hn Hd']; subst. destruct (f a); simpl; [|apply IH; exact Hd'].
      constructor; [|apply IH; exact Hd']. intros Hin. apply Hn.
      apply in_map_iff in Hin. destruct Hin as (y & Hy & Hin). apply filter_In in Hin.
      rewrite <- Hy. apply in_map. tauto. }
    apply H. rewrite map_map. simpl.
    change (map (fun x : nat * nat => fst x) storms) with (map fst storms).
    apply true_runs_starts_nodup.
  Qed.

  (** The candidate list of storm start [s]. *)
  Lemma cands_lookup s :
    lookup_list s cands = match alookup s storms with
                          | Some e => storm_candidates (s, e) rises
                          | None => []
                          end.
  Proof.
    unfold lookup_list. destruct (alookup s cands) as [l|] eqn:E.
    - apply alookup_in in E. unfold cands, all_candidates in E. apply filter_In in E.
      destruct E as (E & _). apply in_map_iff in E. destruct E as ([s0 e0] & Heq & Hin).
      simpl in Heq. inversion Heq; subst. apply storms_lookup in Hin. rewrite Hin. reflexivity.
    - destruct (alookup s storms) as [e|] eqn:Es; [|reflexivity].
      destruct (storm_candidates (s, e) rises) as [|a l] eqn:Ec; [reflexivity|].
      exfalso. assert (Hin : In (s, a :: l) cands).
      { unfold cands, all_candidates. apply filter_In. split; [|reflexivity].
        apply in_map_iff. exists (s, e). simpl. rewrite Ec. split; [reflexivity|].
        apply storms_lookup. exact Es. }
      rewrite (in_alookup _ _ _ cands_keys_nodup Hin) in E. discriminate.
  Qed.

  Lemma storm_candidates_in st j :
    In j (storm_candidates st rises) <-> exists b, In (j, b) rises /\ overlaps st (j, b) = true.
  Proof.
    unfold storm_candidates. rewrite in_map_iff. split.
    - intros ([a b] & Ha & Hin). simpl in Ha. subst a. apply in_rev in Hin.
      apply sort_by_in in Hin. apply filter_In in Hin. exists b. exact Hin.
    - intros (b & Hin & Hov). exists (j, b). split; [reflexivity|].
      apply -> in_rev. apply sort_by_in. apply filter_In. split; assumption.
  Qed.

  Definition result_of (m : list (nat * nat)) : list ((nat * nat) * (nat * nat)) :=
    map (fun js => ((snd js, stop_of (snd js) storms), (fst js, stop_of (fst js) rises))) m.

  (** Totality: no assertion fails, no schedule diverges. *)
  Theorem match_storms_total sched :
    exists st, Inv start_pref cands st /\ free st = [] /\
               match_storms_flags heavy jumpf sched = Ok (result_of (mt st)).
  Proof.
    destruct (stable_matching_total start_pref cands cands_keys_nodup sched) as (st & _ & I & Hf & Hsm).
    exists st. split; [exact I|]. split; [exact Hf|].
    unfold match_storms_flags. fold storms rises cands. rewrite Hsm. reflexivity.
  Qed.

  Section Final.
    Variable st : mstate.
    Hypothesis I : Inv start_pref cands st.
    Hypothesis Hfree : free st = [].

    Lemma matched_is_edge j s :
      In (j, s) (mt st) ->
      exists e b, In (s, e) storms /\ In (j, b) rises /\ overlaps (s, e) (j, b) = true.
    Proof.
      intros Hin. pose proof (final_pair_in start_pref cands st I j s Hin) as HM.
      pose proof (final_edge start_pref cands st I j s HM) as He. unfold O in He.
      rewrite cands_lookup in He. destruct (alookup s storms) as [e|] eqn:Es; [|destruct He].
      apply storm_candidates_in in He. destruct He as (b & Hb & Hov).
      exists e, b. split; [apply storms_lookup; exact Es|split; assumption].
    Qed.

    (** Every recorded pair consists of a storm run and a rise run that share a
        time step. *)
    Theorem pairs_valid sp rp :
      In (sp, rp) (result_of (mt st)) ->
      In sp storms /\ In rp rises /\
      exists i, fst sp <= i /\ i < snd sp /\ fst rp <= i /\ i < snd rp - 1.
    Proof.
      unfold result_of. rewrite in_map_iff. intros ([j s] & Heq & Hin). simpl in Heq.
      inversion Heq; subst. clear Heq.
      destruct (matched_is_edge j s Hin) as (e & b & Hs & Hr & Hov).
      unfold stop_of. rewrite (proj1 (storms_lookup s e) Hs), (proj1 (rises_lookup j b) Hr).
      split; [exact Hs|]. split; [exact Hr|]. apply overlaps_spec in Hov. exact Hov.
    Qed.

    (** No storm and no rise appears twice. *)
    Theorem pairs_one_to_one :
      NoDup (map fst (result_of (mt st))) /\ NoDup (map snd (result_of (mt st))).
    Proof.
      unfold result_of. rewrite !map_map. simpl. split.
      - pose proof (final_storms_nodup start_pref cands st I) as H.
        induction (mt st) as [|[j s] t IH]; simpl in *; [constructor|].
        inversion H as [|x xs Hn Hd]; subst. constructor; [|apply IH; exact Hd].
        intros Hin. apply Hn. apply in_map_iff in Hin. destruct Hin as ([j2 s2] & Heq & Hin2).
        simpl in Heq. inversion Heq; subst. change s with (snd (j2, s)). apply in_map. exact Hin2.
      - pose proof (final_rises_nodup start_pref cands st I) as H.
        induction (mt st) as [|[j s] t IH]; simpl in *; [constructor|].
        inversion H as [|x xs Hn Hd]; subst. constructor; [|apply IH; exact Hd].
        intros Hin. apply Hn. apply in_map_iff in Hin. destruct Hin as ([j2 s2] & Heq & Hin2).
        simpl in Heq. inversion Heq; subst. change j with (fst (j, s2)). apply in_map. exact Hin2.
    Qed.

    (** Key of a candidate rise for a storm, on start indices. *)
    Definition dkey (s j : nat) : Z := dur_key (s, stop_of s storms) (j, stop_of j rises).

    Lemma cands_sorted s p q a b :
      O cands s = p ++ a :: q -> In b q -> (dkey s a <= dkey s b)%Z.
    Proof.
      unfold O. rewrite cands_lookup. destruct (alookup s storms) as [e|] eqn:Es.
      2:{ intros H. destruct p; discriminate. }
      unfold storm_candidates. intros Hsplit Hb.
      set (key := fun r : nat * nat => (- dur_key (s, e) r)%Z) in *.
      set (srt := sort_by key (filter (overlaps (s, e)) rises)) in *.
      apply map_eq_app in Hsplit. destruct Hsplit as (p' & aq' & Hrev & Hp' & Haq').
      apply map_eq_cons in Haq'. destruct Haq' as (a' & q' & -> & Ha' & Hq').
      subst q. apply in_map_iff in Hb. destruct Hb as (b' & Hb' & Hinb').
      (* srt = rev q' ++ a' :: rev p' *)
      assert (Hsrt : srt = rev q' ++ a' :: rev p').
      { rewrite <- (rev_involutive srt). rewrite Hrev. rewrite rev_app_distr. simpl.
        rewrite <- app_assoc. reflexivity. }
      assert (Hsorted : StronglySorted (fun x y => (key x <= key y)%Z) srt) by apply sort_by_sorted.
      (* b' is before a' in srt *)
      assert (Hle : (key b' <= key a')%Z).
      { apply in_rev in Hinb'. apply in_split in Hinb'. destruct Hinb' as (l1 & l2 & Hl).
        rewrite Hl in Hsrt. rewrite <- app_assoc in Hsrt. simpl in Hsrt.
        apply (sorted_split key srt l1 b' (l2 ++ a' :: rev p') a' Hsorted Hsrt).
        apply in_or_app. right. left. reflexivity. }
      (* membership facts to rewrite stop_of *)
      assert (Hin_a : In a' srt) by (rewrite Hsrt; apply in_or_app; right; left; reflexivity).
      assert (Hin_b : In b' srt) by (rewrite Hsrt; apply in_or_app; left; apply in_rev in Hinb'; exact Hinb').
      unfold srt in Hin_a, Hin_b. apply sort_by_in in Hin_a. apply sort_by_in in Hin_b.
      apply filter_In in Hin_a. apply filter_In in Hin_b.
      destruct a' as [a1 a2]. destruct b' as [b1 b2]. simpl in Ha', Hb'. subst a1 b1.
      unfold dkey, stop_of. rewrite Es.
      rewrite (proj1 (rises_lookup a a2) (proj1 Hin_a)), (proj1 (rises_lookup b b2) (proj1 Hin_b)).
      unfold key in Hle. lia.
    Qed.

    (** Stability (no blocking pair) with the code's keys: for any overlapping
        storm [sp] and rise [rp] not matched to each other, if the storm is
        unmatched or would obtain a strictly smaller duration key, then the rise
        holds a storm at least as close in start. *)
    Theorem no_blocking_pair sp rp :
      In sp storms -> In rp rises -> overlaps sp rp = true ->
      ~ In (sp, rp) (result_of (mt st)) ->
      ((forall rp', ~ In (sp, rp') (result_of (mt st))) \/
       exists rp0, In (sp, rp0) (result_of (mt st)) /\ (dur_key sp rp < dur_key sp rp0)%Z) ->
      exists sp', In (sp', rp) (result_of (mt st)) /\
                  (start_pref (fst rp) (fst sp) <= start_pref (fst rp) (fst sp'))%Z.
    Proof.
      destruct sp as [s e]. destruct rp as [j b]. intros Hs Hr Hov Hnot Hgain. simpl fst.
      assert (Hedge : In j (O cands s)).
      { unfold O. rewrite cands_lookup. rewrite (proj1 (storms_lookup s e) Hs).
        apply storm_candidates_in. exists b. split; assumption. }
      (* membership in the result <-> membership in mt *)
      assert (Hres : forall s0 e0 j0 b0, In (s0, e0) storms -> In (j0, b0) rises ->
                (In ((s0, e0), (j0, b0)) (result_of (mt st)) <-> M st j0 = Some s0)).
      { intros s0 e0 j0 b0 Hs0 Hr0. unfold result_of. rewrite in_map_iff. split.
        - intros ([j1 s1] & Heq & Hin). simpl in Heq. inversion Heq; subst.
          apply (final_pair_in start_pref cands st I). exact Hin.
        - intros HM. exists (j0, s0). simpl. unfold stop_of.
          rewrite (proj1 (storms_lookup s0 e0) Hs0), (proj1 (rises_lookup j0 b0) Hr0).
          split; [reflexivity|]. apply alookup_in. exact HM. }
      assert (HMnot : M st j <> Some s) by (intros HM; apply Hnot; apply (Hres s e j b Hs Hr); exact HM).
      assert (Hconc : exists s', M st j = Some s' /\ (start_pref j s <= start_pref j s')%Z).
      { apply (final_no_blocking_pair start_pref cands st I Hfree dkey cands_sorted s j Hedge HMnot).
        destruct Hgain as [Hun|([j0 b0] & Hin0 & Hkey)].
        - left. intros j' HM. pose proof (alookup_in _ _ _ HM) as Hin'.
          destruct (matched_is_edge j' s Hin') as (e' & b' & Hs' & Hr' & _).
          assert (e' = e).
          { apply storms_lookup in Hs'. apply storms_lookup in Hs. congruence. }
          subst e'. apply (Hun (j', b')). apply (Hres s e j' b' Hs Hr'). exact HM.
        - right. exists j0.
          assert (Hr0 : In (j0, b0) rises).
          { unfold result_of in Hin0. apply in_map_iff in Hin0. destruct Hin0 as ([j1 s1] & Heq & Hin1).
            simpl in Heq. inversion Heq; subst.
            destruct (matched_is_edge j0 s Hin1) as (e' & b' & _ & Hr' & _).
            unfold stop_of. rewrite (proj1 (rises_lookup j0 b') Hr'). exact Hr'. }
          split; [apply (Hres s e j0 b0 Hs Hr0); exact Hin0|].
          unfold dkey, stop_of.
          rewrite (proj1 (storms_lookup s e) Hs), (proj1 (rises_lookup j b) Hr),
            (proj1 (rises_lookup j0 b0) Hr0). exact Hkey. }
      destruct Hconc as (s' & HM & Hpref).
      pose proof (alookup_in _ _ _ HM) as Hin'.
      destruct (matched_is_edge j s' Hin') as (e' & b' & Hs' & Hr' & _).
      assert (b' = b).
      { apply rises_lookup in Hr'. apply rises_lookup in Hr. congruence. }
      subst b'. exists (s', e'). split; [apply (Hres s' e' j b Hs' Hr); exact HM|exact Hpref].
    Qed.
  End Final.
End MatchStorms.
