(** Specification of the level-crossing model (Model/Regrid.v): which levels
    are reported for which pair of samples, how often, in which order, where;
    and what build_head_mapping stores.  All statements are over exact
    rationals / integers and hold for every input. *)
From Spowtd Require Import Model.Regrid.
From Coq Require Import Lia Lqa Sorting.Sorted.

(** * Integer ranges *)

Lemma in_zrange a b k : In k (zrange a b) <-> (a <= k < b)%Z.
Proof.
  unfold zrange. rewrite in_map_iff. split.
  - intros (i & <- & Hi). apply in_seq in Hi. lia.
  - intros H. exists (Z.to_nat (k - a)). split; [lia|]. apply in_seq. lia.
Qed.

Lemma zrange_sorted a b : StronglySorted Z.lt (zrange a b).
Proof.
  unfold zrange. generalize (Z.to_nat (b - a)) as n. intros n.
  generalize 0%nat as s. induction n as [|n IH]; intros s; simpl; constructor.
  - apply IH.
  - apply Forall_forall. intros z Hz. apply in_map_iff in Hz. destruct Hz as (i & <- & Hi).
    apply in_seq in Hi. lia.
Qed.

Lemma sorted_lt_NoDup l : StronglySorted Z.lt l -> NoDup l.
Proof.
  induction 1 as [|a l Hs IH Hf]; constructor; [|exact IH].
  intros Hin. rewrite Forall_forall in Hf. specialize (Hf a Hin). lia.
Qed.

Lemma sorted_gt_NoDup l : StronglySorted Z.gt l -> NoDup l.
Proof.
  induction 1 as [|a l Hs IH Hf]; constructor; [|exact IH].
  intros Hin. rewrite Forall_forall in Hf. specialize (Hf a Hin). lia.
Qed.

Lemma sorted_snoc (R : Z -> Z -> Prop) l a :
  StronglySorted R l -> Forall (fun x => R x a) l -> StronglySorted R (l ++ [a]).
Proof.
  induction 1 as [|b l Hs IH Hf]; intros Hall; simpl.
  - constructor; constructor.
  - inversion Hall as [|? ? Hba Hrest]; subst. constructor.
    + apply IH. exact Hrest.
    + apply Forall_app. split; [exact Hf|]. constructor; [exact Hba|constructor].
Qed.

Lemma sorted_rev l : StronglySorted Z.lt l -> StronglySorted Z.gt (rev l).
Proof.
  induction 1 as [|a l Hs IH Hf]; simpl; [constructor|].
  apply sorted_snoc; [exact IH|].
  apply Forall_forall. intros x Hx. apply in_rev in Hx.
  rewrite Forall_forall in Hf. specialize (Hf x Hx). lia.
Qed.

(** * Targets of one pair *)

Lemma in_targets c0 c1 k :
  In k (targets c0 c1) <-> (c0 <= k < c1 \/ c1 <= k < c0)%Z.
Proof.
  unfold targets. destruct (Z.gtb_spec c1 c0) as [H|H].
  - rewrite in_zrange. lia.
  - rewrite <- in_rev, in_zrange. lia.
Qed.

Lemma targets_ascending c0 c1 : (c0 <= c1)%Z -> StronglySorted Z.lt (targets c0 c1).
Proof.
  intros H. unfold targets. destruct (Z.gtb_spec c1 c0) as [H1|H1].
  - apply zrange_sorted.
  - assert (c1 = c0) by lia. subst. unfold zrange. rewrite Z.sub_diag. simpl. constructor.
Qed.

Lemma targets_descending c0 c1 : (c1 <= c0)%Z -> StronglySorted Z.gt (targets c0 c1).
Proof.
  intros H. unfold targets. destruct (Z.gtb_spec c1 c0) as [H1|H1]; [lia|].
  apply sorted_rev, zrange_sorted.
Qed.

Lemma NoDup_targets c0 c1 : NoDup (targets c0 c1).
Proof.
  destruct (Z.le_ge_cases c0 c1) as [H|H].
  - apply sorted_lt_NoDup, targets_ascending, H.
  - apply sorted_gt_NoDup, targets_descending, H.
Qed.

(** * Ceiling and half-open membership *)

Lemma ceil_le_iff (Y : Q) (k : Z) : (Qceiling Y <= k)%Z <-> Y <= inject_Z k.
Proof.
  split; intros H.
  - eapply Qle_trans; [apply Qle_ceiling|]. rewrite <- Zle_Qle. exact H.
  - rewrite <- (Qceiling_Z k). apply Qceiling_resp_le. exact H.
Qed.

Lemma lt_ceil_iff (Y : Q) (k : Z) : (k < Qceiling Y)%Z <-> inject_Z k < Y.
Proof.
  split; intros H.
  - apply Qnot_le_lt. intros C. apply ceil_le_iff in C. lia.
  - apply Z.nle_gt. intros C. apply ceil_le_iff in C. apply (Qlt_not_le _ _ H C).
Qed.

(** Level k is between the two samples, lower value included, upper excluded. *)
Definition between (Y0 Y1 : Q) (k : Z) : Prop :=
  Qmin Y0 Y1 <= inject_Z k /\ inject_Z k < Qmax Y0 Y1.

Lemma between_iff Y0 Y1 k :
  between Y0 Y1 k <->
  (Y0 <= inject_Z k /\ inject_Z k < Y1) \/ (Y1 <= inject_Z k /\ inject_Z k < Y0).
Proof.
  unfold between. rewrite Q.min_le_iff, Q.max_lt_iff. split.
  - intros ([A|A] & [B|B]); try (left; split; assumption); try (right; split; assumption).
    + exfalso. apply (Qlt_not_le _ _ B A).
    + exfalso. apply (Qlt_not_le _ _ B A).
  - intros [(A & B)|(A & B)]; split; auto.
Qed.

Lemma in_targets_ceil Y0 Y1 k :
  In k (targets (Qceiling Y0) (Qceiling Y1)) <-> between Y0 Y1 k.
Proof.
  rewrite in_targets, between_iff.
  rewrite <- !ceil_le_iff, <- !lt_ceil_iff. tauto.
Qed.

Lemma between_flat Y0 Y1 k : Y0 == Y1 -> ~ between Y0 Y1 k.
Proof.
  intros E H. apply between_iff in H. destruct H as [(A & B)|(A & B)]; lra.
Qed.

Lemma between_dec Y0 Y1 k : {between Y0 Y1 k} + {~ between Y0 Y1 k}.
Proof.
  destruct (in_dec Z.eq_dec k (targets (Qceiling Y0) (Qceiling Y1))) as [H|H].
  - left. apply in_targets_ceil, H.
  - right. intros C. apply H, in_targets_ceil, C.
Qed.

Lemma count_targets_ceil Y0 Y1 k :
  (between Y0 Y1 k -> count_occ Z.eq_dec (targets (Qceiling Y0) (Qceiling Y1)) k = 1%nat) /\
  (~ between Y0 Y1 k -> count_occ Z.eq_dec (targets (Qceiling Y0) (Qceiling Y1)) k = 0%nat).
Proof.
  split; intros H.
  - apply NoDup_count_occ'; [apply NoDup_targets|]. apply in_targets_ceil, H.
  - apply count_occ_not_In. intros C. apply H, in_targets_ceil, C.
Qed.

(** * One pair of samples *)

Lemma seg_out_levels p0 p1 :
  map fst (seg_out p0 p1) = targets (Qceiling (snd p0)) (Qceiling (snd p1)).
Proof. unfold seg_out. rewrite map_map. simpl. apply map_id. Qed.

Lemma in_seg_out p0 p1 k xs :
  In (k, xs) (seg_out p0 p1) <->
  between (snd p0) (snd p1) k /\ xs = cross (fst p0) (snd p0) (fst p1) (snd p1) k.
Proof.
  unfold seg_out. rewrite in_map_iff, <- in_targets_ceil. split.
  - intros (k' & E & Hin). inversion E; subst. split; [exact Hin|reflexivity].
  - intros (Hin & ->). exists k. split; [reflexivity|exact Hin].
Qed.

(** The reported point is on the straight line through the two samples. *)
Lemma cross_on_line x0 Y0 x1 Y1 k :
  ~ Y0 == Y1 -> ~ x0 == x1 ->
  Y0 + (cross x0 Y0 x1 Y1 k - x0) * (Y1 - Y0) / (x1 - x0) == inject_Z k.
Proof.
  intros HY Hx. unfold cross. field. split; intros C; [apply Hx|apply HY]; lra.
Qed.

Lemma cross_between_up x0 Y0 x1 Y1 (k : Z) :
  Y0 <= inject_Z k -> inject_Z k <= Y1 -> Y0 < Y1 -> x0 <= x1 ->
  x0 <= cross x0 Y0 x1 Y1 k /\ cross x0 Y0 x1 Y1 k <= x1.
Proof.
  intros H1 H2 H3 H4. unfold cross.
  set (K := inject_Z k) in *.
  set (lam := (K - Y0) / (Y1 - Y0)).
  assert (Hd : 0 < Y1 - Y0) by lra.
  assert (Hl0 : 0 <= lam). { unfold lam. apply Qle_shift_div_l; lra. }
  assert (Hl1 : lam <= 1). { unfold lam. apply Qle_shift_div_r; lra. }
  assert (E : x0 + (K - Y0) * (x1 - x0) / (Y1 - Y0) == x0 + lam * (x1 - x0)).
  { unfold lam. field. lra. }
  rewrite E. split; nra.
Qed.

Lemma cross_between_down x0 Y0 x1 Y1 (k : Z) :
  Y1 <= inject_Z k -> inject_Z k <= Y0 -> Y1 < Y0 -> x0 <= x1 ->
  x0 <= cross x0 Y0 x1 Y1 k /\ cross x0 Y0 x1 Y1 k <= x1.
Proof.
  intros H1 H2 H3 H4. unfold cross.
  set (K := inject_Z k) in *.
  set (lam := (Y0 - K) / (Y0 - Y1)).
  assert (Hd : 0 < Y0 - Y1) by lra.
  assert (Hl0 : 0 <= lam). { unfold lam. apply Qle_shift_div_l; lra. }
  assert (Hl1 : lam <= 1). { unfold lam. apply Qle_shift_div_r; lra. }
  assert (E : x0 + (K - Y0) * (x1 - x0) / (Y1 - Y0) == x0 + lam * (x1 - x0)).
  { unfold lam. field. split; lra. }
  rewrite E. split; nra.
Qed.

Lemma cross_between x0 Y0 x1 Y1 k :
  between Y0 Y1 k -> x0 <= x1 ->
  x0 <= cross x0 Y0 x1 Y1 k /\ cross x0 Y0 x1 Y1 k <= x1.
Proof.
  intros H Hx. apply between_iff in H. destruct H as [(A & B)|(A & B)].
  - apply cross_between_up; lra.
  - apply cross_between_down; lra.
Qed.

(** A sample exactly on a level: the crossing is the sample itself. *)
Lemma cross_at_sample x0 Y0 x1 Y1 k :
  Y0 == inject_Z k -> ~ Y0 == Y1 -> cross x0 Y0 x1 Y1 k == x0.
Proof.
  intros E H. unfold cross. rewrite <- E. field. intros C. apply H. lra.
Qed.

(** * The whole series *)

Lemma regrid_from_flat i pts :
  map snd (regrid_from i pts) = flat_map (fun s => seg_out (fst s) (snd s)) (segments pts).
Proof.
  revert i. induction pts as [|p0 t IH]; intros i; [reflexivity|].
  destruct t as [|p1 t']; [reflexivity|].
  change (regrid_from i (p0 :: p1 :: t'))
    with (map (pair i) (seg_out p0 p1) ++ regrid_from (S i) (p1 :: t')).
  change (segments (p0 :: p1 :: t')) with ((p0, p1) :: segments (p1 :: t')).
  rewrite map_app, map_map. simpl flat_map. rewrite (IH (S i)). f_equal.
  simpl. apply map_id.
Qed.

(** Output order: the pairs in order, each pair's items in the order of [seg_out]. *)
Lemma regrid_Q_flat pts :
  regrid_Q pts = flat_map (fun s => seg_out (fst s) (snd s)) (segments pts).
Proof. apply regrid_from_flat. Qed.

Lemma filter_tag_map i j (l : list (Z * Q)) :
  filter (fun it : nat * (Z * Q) => Nat.eqb (fst it) j) (map (pair i) l) =
  if Nat.eqb i j then map (pair i) l else [].
Proof.
  induction l as [|a l IH]; simpl.
  - destruct (Nat.eqb i j); reflexivity.
  - rewrite IH. destruct (Nat.eqb i j); reflexivity.
Qed.

Lemma items_of_pair_app j (l1 l2 : list (nat * (Z * Q))) :
  items_of_pair j (l1 ++ l2) = items_of_pair j l1 ++ items_of_pair j l2.
Proof. unfold items_of_pair. rewrite filter_app, map_app. reflexivity. Qed.

Lemma items_of_pair_map j i (l : list (Z * Q)) :
  items_of_pair j (map (pair i) l) = if Nat.eqb i j then l else [].
Proof.
  unfold items_of_pair. rewrite filter_tag_map. destruct (Nat.eqb i j); [|reflexivity].
  rewrite map_map. simpl. apply map_id.
Qed.

Lemma regrid_from_cons i p0 p1 t :
  regrid_from i (p0 :: p1 :: t) = map (pair i) (seg_out p0 p1) ++ regrid_from (S i) (p1 :: t).
Proof. reflexivity. Qed.

Lemma items_of_pair_lt j i pts : (j < i)%nat -> items_of_pair j (regrid_from i pts) = [].
Proof.
  revert i. induction pts as [|p0 t IH]; intros i Hj; [reflexivity|].
  destruct t as [|p1 t']; [reflexivity|].
  rewrite regrid_from_cons, items_of_pair_app, items_of_pair_map.
  destruct (Nat.eqb_spec i j) as [E|E]; [lia|]. simpl. apply IH. lia.
Qed.

Lemma items_of_pair_from n : forall i pts,
  items_of_pair (i + n) (regrid_from i pts) =
  match nth_error pts n, nth_error pts (S n) with
  | Some p0, Some p1 => seg_out p0 p1
  | _, _ => []
  end.
Proof.
  induction n as [|n IH]; intros i pts.
  - destruct pts as [|p0 t]; [reflexivity|]. destruct t as [|p1 t']; [reflexivity|].
    rewrite regrid_from_cons, items_of_pair_app, items_of_pair_map.
    replace (i + 0)%nat with i by lia. rewrite Nat.eqb_refl.
    rewrite items_of_pair_lt by lia. rewrite app_nil_r. reflexivity.
  - destruct pts as [|p0 t]; [reflexivity|]. destruct t as [|p1 t'].
    + simpl. destruct n; reflexivity.
    + rewrite regrid_from_cons, items_of_pair_app, items_of_pair_map.
      destruct (Nat.eqb_spec i (i + S n)) as [E|E]; [lia|]. rewrite app_nil_l.
      replace (i + S n)%nat with (S i + n)%nat by lia. rewrite (IH (S i) (p1 :: t')). reflexivity.
Qed.

(** What is reported for pair i is exactly [seg_out] of samples i and i+1. *)
Lemma items_of_pair_spec i pts :
  items_of_pair i (regrid_tagged pts) =
  match nth_error pts i, nth_error pts (S i) with
  | Some p0, Some p1 => seg_out p0 p1
  | _, _ => []
  end.
Proof. unfold regrid_tagged. rewrite <- (items_of_pair_from i 0 pts). reflexivity. Qed.

Lemma in_items_of_pair i it l : In it (items_of_pair i l) <-> In (i, it) l.
Proof.
  unfold items_of_pair. rewrite in_map_iff. split.
  - intros ((j & it') & E & Hin). simpl in E. subst it'. apply filter_In in Hin.
    destruct Hin as (Hin & Ht). simpl in Ht. apply Nat.eqb_eq in Ht. subst. exact Hin.
  - intros Hin. exists (i, it). split; [reflexivity|]. apply filter_In. split; [exact Hin|].
    simpl. apply Nat.eqb_refl.
Qed.

Lemma in_regrid_tagged i k xs pts :
  In (i, (k, xs)) (regrid_tagged pts) <->
  exists p0 p1, nth_error pts i = Some p0 /\ nth_error pts (S i) = Some p1 /\
    between (snd p0) (snd p1) k /\ xs = cross (fst p0) (snd p0) (fst p1) (snd p1) k.
Proof.
  rewrite <- in_items_of_pair, items_of_pair_spec. split.
  - destruct (nth_error pts i) as [p0|]; [|intros []].
    destruct (nth_error pts (S i)) as [p1|]; [|intros []].
    intros H. apply in_seg_out in H. exists p0, p1. tauto.
  - intros (p0 & p1 & -> & -> & H). apply in_seg_out. exact H.
Qed.

Lemma tags_sorted i pts :
  StronglySorted le (map fst (regrid_from i pts)) /\
  Forall (fun j => (i <= j)%nat) (map fst (regrid_from i pts)).
Proof.
  revert i. induction pts as [|p0 t IH]; intros i; [split; constructor|].
  destruct t as [|p1 t']; [split; constructor|].
  change (regrid_from i (p0 :: p1 :: t'))
    with (map (pair i) (seg_out p0 p1) ++ regrid_from (S i) (p1 :: t')).
  rewrite map_app, map_map. simpl.
  destruct (IH (S i)) as (Hs & Hf).
  induction (seg_out p0 p1) as [|a l IHl]; simpl.
  - split; [exact Hs|]. eapply Forall_impl; [|exact Hf]. simpl. intros; lia.
  - destruct IHl as (A & B). split; constructor; auto.
Qed.

(** * The interpolant *)

Definition increasing (pts : list (Q * Q)) : Prop :=
  StronglySorted (fun p q => fst p < fst q) pts.

Lemma increasing_nth pts : increasing pts -> forall n p, nth_error pts n = Some p ->
  match pts with [] => True | a :: _ => fst a <= fst p end.
Proof.
  intros H n p Hn. destruct pts as [|a t]; [exact I|].
  destruct n as [|n]; simpl in Hn.
  - inversion Hn; subst. apply Qle_refl.
  - inversion H as [|? ? Hs Hf]; subst. rewrite Forall_forall in Hf.
    apply Qlt_le_weak, Hf. eapply nth_error_In, Hn.
Qed.

Lemma interp_segment pts : increasing pts -> forall n p0 p1 t,
  nth_error pts n = Some p0 -> nth_error pts (S n) = Some p1 ->
  fst p0 <= t -> t <= fst p1 ->
  exists v, interp pts t = Some v /\
            v == snd p0 + (t - fst p0) * (snd p1 - snd p0) / (fst p1 - fst p0).
Proof.
  induction pts as [|a pts IH]; intros Hinc n p0 p1 t H0 H1 Hl Hr.
  - destruct n; discriminate.
  - destruct n as [|n].
    + simpl in H0. inversion H0; subst a. destruct pts as [|b tl]; [discriminate|].
      simpl in H1. inversion H1; subst b. simpl.
      assert (T1 : Qle_bool (fst p0) t = true) by (apply Qle_bool_iff; exact Hl).
      assert (T2 : Qle_bool t (fst p1) = true) by (apply Qle_bool_iff; exact Hr).
      rewrite T1, T2. simpl. eexists. split; [reflexivity|]. reflexivity.
    + change (nth_error pts n = Some p0) in H0.
      change (nth_error pts (S n) = Some p1) in H1.
      inversion Hinc as [|? ? Hs Hf]; subst.
      destruct (IH Hs n p0 p1 t H0 H1 Hl Hr) as (v2 & Hv2 & Ev2).
      destruct pts as [|b tl]; [destruct n; discriminate|].
      destruct tl as [|c tl']; [destruct n as [|[|n]]; discriminate|].
      change (interp (a :: b :: c :: tl') t) with
        (if Qle_bool (fst a) t && Qle_bool t (fst b)
         then Some (snd a + (t - fst a) * (snd b - snd a) / (fst b - fst a))
         else interp (b :: c :: tl') t).
      destruct (Qle_bool (fst a) t && Qle_bool t (fst b)) eqn:T.
      * apply andb_true_iff in T. destruct T as (T1 & T2).
        apply Qle_bool_iff in T1, T2.
        pose proof (increasing_nth _ Hs n p0 H0) as Hb. simpl in Hb.
        assert (Et : t == fst b) by lra.
        assert (Hab : fst a < fst b).
        { rewrite Forall_forall in Hf. apply Hf. left. reflexivity. }
        assert (Hbc : fst b < fst c).
        { inversion Hs as [|? ? _ Hf2]; subst. rewrite Forall_forall in Hf2. apply Hf2.
          left. reflexivity. }
        (* the value computed from the pair (b, c) at t *)
        assert (Hv : interp (b :: c :: tl') t =
                     Some (snd b + (t - fst b) * (snd c - snd b) / (fst c - fst b))).
        { simpl.
          assert (U1 : Qle_bool (fst b) t = true) by (apply Qle_bool_iff; lra).
          assert (U2 : Qle_bool t (fst c) = true) by (apply Qle_bool_iff; lra).
          rewrite U1, U2. reflexivity. }
        rewrite Hv in Hv2. inversion Hv2 as [Ev]. clear Hv2.
        eexists. split; [reflexivity|].
        rewrite <- Ev2, <- Ev. rewrite Et. field. split; lra.
      * exists v2. split; [exact Hv2|exact Ev2].
Qed.

(** Every reported point lies on the interpolant at an integer level, between
    the two samples of its pair. *)
Lemma reported_on_curve pts i k xs :
  increasing pts -> In (i, (k, xs)) (regrid_tagged pts) ->
  exists p0 p1, nth_error pts i = Some p0 /\ nth_error pts (S i) = Some p1 /\
    fst p0 <= xs /\ xs <= fst p1 /\
    exists v, interp pts xs = Some v /\ v == inject_Z k.
Proof.
  intros Hinc Hin. apply in_regrid_tagged in Hin.
  destruct Hin as (p0 & p1 & H0 & H1 & Hb & ->).
  exists p0, p1. split; [exact H0|]. split; [exact H1|].
  assert (Hx : fst p0 < fst p1).
  { clear Hb. revert i H0 H1. induction Hinc as [|a l Hs IH Hf]; intros i H0 H1.
    - destruct i; discriminate.
    - destruct i as [|i].
      + simpl in H0. inversion H0; subst. rewrite Forall_forall in Hf. apply Hf.
        eapply nth_error_In with (n := 0%nat). exact H1.
      + apply (IH i); assumption. }
  destruct (cross_between (fst p0) (snd p0) (fst p1) (snd p1) k Hb) as (A & B); [lra|].
  split; [exact A|]. split; [exact B|].
  destruct (interp_segment pts Hinc i p0 p1 _ H0 H1 A B) as (v & Hv & Ev).
  exists v. split; [exact Hv|]. rewrite Ev. apply cross_on_line.
  - intros C. apply (between_flat _ _ k C Hb).
  - intros C. lra.
Qed.

(** * build_head_mapping *)

Section Dict.
Context {V : Type}.

Lemma lookup_append_same k (v : V) d :
  dict_lookup k (dict_append k v d) = dict_lookup k d ++ [v].
Proof.
  unfold dict_lookup. induction d as [|(k', vs) t IH]; simpl.
  - rewrite Z.eqb_refl. reflexivity.
  - destruct (Z.eqb_spec k k') as [E|E]; simpl.
    + subst. rewrite Z.eqb_refl. reflexivity.
    + destruct (Z.eqb_spec k k'); [contradiction|]. exact IH.
Qed.

Lemma lookup_append_other k k' (v : V) d :
  k <> k' -> dict_lookup k (dict_append k' v d) = dict_lookup k d.
Proof.
  intros Hne. unfold dict_lookup. induction d as [|(k2, vs) t IH]; simpl.
  - destruct (Z.eqb_spec k k'); [contradiction|]. reflexivity.
  - destruct (Z.eqb_spec k' k2) as [E|E]; simpl.
    + subst k2. destruct (Z.eqb_spec k k'); [contradiction|]. reflexivity.
    + destruct (Z.eqb_spec k k2); [reflexivity|]. exact IH.
Qed.

Lemma keys_append k (v : V) d :
  map fst (dict_append k v d) =
  if existsb (Z.eqb k) (map fst d) then map fst d else map fst d ++ [k].
Proof.
  induction d as [|(k', vs) t IH]; simpl; [reflexivity|].
  destruct (Z.eqb_spec k k') as [E|E]; simpl; [reflexivity|].
  rewrite IH. destruct (existsb (Z.eqb k) (map fst t)); reflexivity.
Qed.

Lemma NoDup_snoc (l : list Z) a : NoDup l -> ~ In a l -> NoDup (l ++ [a]).
Proof.
  induction 1 as [|b l Hb Hl IH]; intros Ha; simpl.
  - constructor; [intros []|constructor].
  - constructor.
    + intros C. apply in_app_iff in C. destruct C as [C|[C|[]]]; [contradiction|].
      subst. apply Ha. left. reflexivity.
    + apply IH. intros C. apply Ha. right. exact C.
Qed.

Lemma NoDup_keys_append k (v : V) d :
  NoDup (map fst d) -> NoDup (map fst (dict_append k v d)).
Proof.
  intros H. rewrite keys_append. destruct (existsb (Z.eqb k) (map fst d)) eqn:E; [exact H|].
  apply NoDup_snoc; [exact H|]. intros Hin.
  assert (C : existsb (Z.eqb k) (map fst d) = true).
  { apply existsb_exists. exists k. split; [exact Hin|apply Z.eqb_refl]. }
  congruence.
Qed.

Lemma nonempty_append k (v : V) d :
  Forall (fun e => snd e <> []) d -> Forall (fun e => snd e <> []) (dict_append k v d).
Proof.
  induction 1 as [|(k', vs) t Hh Ht IH]; simpl.
  - constructor; [discriminate|constructor].
  - destruct (Z.eqb k k'); constructor; auto. simpl. intros C. apply app_eq_nil in C.
    destruct C; discriminate.
Qed.

Lemma in_dict_lookup k l (d : list (Z * list V)) :
  NoDup (map fst d) -> In (k, l) d -> dict_lookup k d = l.
Proof.
  unfold dict_lookup. induction d as [|(k', vs) t IH]; simpl; intros Hnd Hin; [contradiction|].
  inversion Hnd as [|? ? Hni Hnd']; subst.
  destruct Hin as [E|Hin].
  - inversion E; subst. rewrite Z.eqb_refl. reflexivity.
  - destruct (Z.eqb_spec k k') as [E|E].
    + subst. exfalso. apply Hni. apply in_map_iff. exists (k', l). split; [reflexivity|exact Hin].
    + apply IH; assumption.
Qed.

Lemma lookup_in k (d : list (Z * list V)) :
  dict_lookup k d <> [] -> In (k, dict_lookup k d) d.
Proof.
  unfold dict_lookup. induction d as [|(k', vs) t IH]; simpl; intros H; [contradiction|].
  destruct (Z.eqb_spec k k') as [E|E]; simpl in *.
  - subst. left. reflexivity.
  - right. apply IH, H.
Qed.

Lemma filter_key k (d : list (Z * list V)) :
  NoDup (map fst d) -> Forall (fun e => snd e <> []) d ->
  filter (fun e => Z.eqb k (fst e)) d =
  match dict_lookup k d with [] => [] | l => [(k, l)] end.
Proof.
  unfold dict_lookup. induction d as [|(k', vs) t IH]; simpl; intros Hnd Hne; [reflexivity|].
  inversion Hnd as [|? ? Hni Hnd']; subst. inversion Hne as [|? ? Hh Ht]; subst.
  destruct (Z.eqb_spec k k') as [E|E]; simpl.
  - subst k'. simpl in Hh. destruct vs as [|v vs]; [contradiction|].
    f_equal. clear IH Hne Ht Hnd Hnd' Hh.
    induction t as [|(k2, v2) t IHt]; [reflexivity|]. simpl.
    destruct (Z.eqb_spec k k2) as [E|E].
    + subst. exfalso. apply Hni. left. reflexivity.
    + apply IHt. intros C. apply Hni. right. exact C.
  - apply IH; assumption.
Qed.

(** all_times: keys are distinct, every list is non-empty, and the list of a
    level is the sequence of that level's crossings in order. *)
Lemma group_fold (items : list (Z * V)) : forall d,
  NoDup (map fst d) -> Forall (fun e => snd e <> []) d ->
  let d' := fold_left (fun d it => dict_append (fst it) (snd it) d) items d in
  NoDup (map fst d') /\ Forall (fun e => snd e <> []) d' /\
  forall k, dict_lookup k d' = dict_lookup k d ++ crossings_of k items.
Proof.
  induction items as [|(k0, v0) items IH]; intros d Hnd Hne; simpl.
  - split; [exact Hnd|]. split; [exact Hne|]. intros k. unfold crossings_of. simpl.
    rewrite app_nil_r. reflexivity.
  - destruct (IH (dict_append k0 v0 d)) as (A & B & C).
    + apply NoDup_keys_append, Hnd.
    + apply nonempty_append, Hne.
    + split; [exact A|]. split; [exact B|]. intros k. rewrite C.
      unfold crossings_of. simpl. destruct (Z.eqb_spec k k0) as [E|E].
      * subst. rewrite lookup_append_same, <- app_assoc. reflexivity.
      * rewrite lookup_append_other by exact E. reflexivity.
Qed.

Lemma group_items_spec (items : list (Z * V)) :
  NoDup (map fst (group_items items)) /\
  Forall (fun e => snd e <> []) (group_items items) /\
  forall k, dict_lookup k (group_items items) = crossings_of k items.
Proof.
  unfold group_items.
  destruct (group_fold items [] (NoDup_nil _) (Forall_nil _)) as (A & B & C).
  split; [exact A|]. split; [exact B|]. intros k. rewrite C. reflexivity.
Qed.

End Dict.

Section Mapping.
Context {V W : Type} (summ : list V -> W).

(** What level k receives from one series. *)
Definition entry_of (k : Z) (sid : nat) (items : list (Z * V)) : list (nat * W) :=
  match crossings_of k items with
  | [] => []
  | l => [(sid, summ l)]
  end.

Fixpoint entries_spec (k : Z) (sid : nat) (all_items : list (list (Z * V))) : list (nat * W) :=
  match all_items with
  | [] => []
  | items :: t => entry_of k sid items ++ entries_spec k (S sid) t
  end.

Lemma add_fold (sid : nat) (g : list (Z * list V)) : forall d : list (Z * list (nat * W)),
  NoDup (map fst d) ->
  let d' := fold_left (fun d (e : Z * list V) => dict_append (fst e) (sid, summ (snd e)) d) g d in
  NoDup (map fst d') /\
  forall k, dict_lookup k d' =
            dict_lookup k d ++ map (fun e : Z * list V => (sid, summ (snd e)))
                                   (filter (fun e => Z.eqb k (fst e)) g).
Proof.
  induction g as [|(k0, l0) g IH]; intros d Hnd; simpl.
  - split; [exact Hnd|]. intros k. rewrite app_nil_r. reflexivity.
  - destruct (IH (dict_append k0 (sid, summ l0) d)) as (A & C).
    + apply NoDup_keys_append, Hnd.
    + split; [exact A|]. intros k. rewrite C. destruct (Z.eqb_spec k k0) as [E|E].
      * subst. rewrite lookup_append_same, <- app_assoc. reflexivity.
      * rewrite lookup_append_other by exact E. reflexivity.
Qed.

Lemma add_series_spec d sid items :
  NoDup (map fst d) ->
  NoDup (map fst (add_series summ d sid items)) /\
  forall k, dict_lookup k (add_series summ d sid items) = dict_lookup k d ++ entry_of k sid items.
Proof.
  intros Hnd. unfold add_series.
  destruct (add_fold sid (group_items items) d Hnd) as (A & C).
  split; [exact A|]. intros k. rewrite C. f_equal.
  destruct (group_items_spec items) as (G1 & G2 & G3).
  rewrite filter_key by assumption. rewrite G3. unfold entry_of.
  destruct (crossings_of k items); reflexivity.
Qed.

Lemma head_mapping_from_spec all_items : forall sid d,
  NoDup (map fst d) ->
  NoDup (map fst (head_mapping_from summ sid all_items d)) /\
  forall k, dict_lookup k (head_mapping_from summ sid all_items d) =
            dict_lookup k d ++ entries_spec k sid all_items.
Proof.
  induction all_items as [|items t IH]; intros sid d Hnd; simpl.
  - split; [exact Hnd|]. intros k. rewrite app_nil_r. reflexivity.
  - destruct (add_series_spec d sid items Hnd) as (A & C).
    destruct (IH (S sid) _ A) as (A' & C').
    split; [exact A'|]. intros k. rewrite C', C, <- app_assoc. reflexivity.
Qed.

Lemma head_mapping_gen_spec all_items :
  NoDup (map fst (head_mapping_gen summ all_items)) /\
  forall k, dict_lookup k (head_mapping_gen summ all_items) = entries_spec k 0 all_items.
Proof.
  unfold head_mapping_gen.
  destruct (head_mapping_from_spec all_items 0%nat [] (NoDup_nil _)) as (A & C).
  split; [exact A|]. intros k. rewrite C. reflexivity.
Qed.

Lemma in_entries_spec k all_items : forall sid0 sid w,
  In (sid, w) (entries_spec k sid0 all_items) <->
  exists items, (sid0 <= sid)%nat /\ nth_error all_items (sid - sid0) = Some items /\
                crossings_of k items <> [] /\ w = summ (crossings_of k items).
Proof.
  induction all_items as [|items t IH]; intros sid0 sid w; simpl.
  - split; [intros []|]. intros (items & _ & H & _). destruct (sid - sid0)%nat; discriminate.
  - rewrite in_app_iff, IH. unfold entry_of. split.
    + intros [H|(it & Hle & Hn & Hne & Hw)].
      * destruct (crossings_of k items) as [|v l] eqn:E; [contradiction|].
        destruct H as [H|[]]. inversion H; subst. exists items.
        split; [lia|]. rewrite Nat.sub_diag. split; [reflexivity|]. rewrite E.
        split; [discriminate|reflexivity].
      * exists it. split; [lia|]. replace (sid - sid0)%nat with (S (sid - S sid0)) by lia.
        simpl. auto.
    + intros (it & Hle & Hn & Hne & Hw). destruct (Nat.eq_dec sid sid0) as [E|E].
      * subst sid0. rewrite Nat.sub_diag in Hn. simpl in Hn. inversion Hn; subst it.
        left. destruct (crossings_of k items); [contradiction|]. left. subst w. reflexivity.
      * right. exists it. split; [lia|].
        replace (sid - sid0)%nat with (S (sid - S sid0)) in Hn by lia. simpl in Hn. auto.
Qed.

(** A level's entry lists each series at most once, in increasing series id. *)
Lemma entries_sorted k all_items : forall sid0,
  StronglySorted lt (map fst (entries_spec k sid0 all_items)) /\
  Forall (fun s => (sid0 <= s)%nat) (map fst (entries_spec k sid0 all_items)).
Proof.
  induction all_items as [|items t IH]; intros sid0; simpl; [split; constructor|].
  destruct (IH (S sid0)) as (A & B). unfold entry_of.
  destruct (crossings_of k items); simpl.
  - split; [exact A|]. eapply Forall_impl; [|exact B]. simpl. intros; lia.
  - split; constructor; auto;
      eapply Forall_impl; try exact B; simpl; intros; lia.
Qed.

End Mapping.

(** The mapping built from scaled series: an entry (sid, m) under level k
    exists iff series sid crosses k, and m is the mean of that series' own
    crossings of k. *)
Lemma head_mapping_entry series k sid m :
  In (sid, m) (dict_lookup k (head_mapping series)) <->
  exists pts, nth_error series sid = Some pts /\
              crossings_of k (regrid_Q pts) <> [] /\
              m = qmean (crossings_of k (regrid_Q pts)).
Proof.
  unfold head_mapping.
  destruct (head_mapping_gen_spec qmean (map regrid_Q series)) as (_ & C).
  rewrite C, in_entries_spec. rewrite Nat.sub_0_r. split.
  - intros (items & _ & Hn & Hne & Hm). rewrite nth_error_map in Hn.
    destruct (nth_error series sid) as [pts|]; [|discriminate]. simpl in Hn.
    inversion Hn; subst items. exists pts. auto.
  - intros (pts & Hn & Hne & Hm). exists (regrid_Q pts). split; [lia|].
    rewrite nth_error_map, Hn. simpl. auto.
Qed.

Lemma head_mapping_keys series :
  NoDup (map fst (head_mapping series)) /\
  forall k l, In (k, l) (head_mapping series) -> l = dict_lookup k (head_mapping series).
Proof.
  unfold head_mapping.
  destruct (head_mapping_gen_spec qmean (map regrid_Q series)) as (A & _).
  split; [exact A|]. intros k l Hin. symmetry. apply in_dict_lookup; assumption.
Qed.

(** The crossings of level k in a series are exactly the reported items with
    that level. *)
Lemma in_crossings_of k x (items : list (Z * Q)) :
  In x (crossings_of k items) <-> In (k, x) items.
Proof.
  unfold crossings_of. rewrite in_map_iff. split.
  - intros ((k', x') & E & Hin). simpl in E. subst x'. apply filter_In in Hin.
    destruct Hin as (Hin & Hk). simpl in Hk. apply Z.eqb_eq in Hk. subst. exact Hin.
  - intros Hin. exists (k, x). split; [reflexivity|]. apply filter_In. split; [exact Hin|].
    simpl. apply Z.eqb_refl.
Qed.
