(** Staging tables: an executemany INSERT into a table with an integer primary
    key yields the rows sorted by key, whatever their order in the file, and
    fails with an integrity error exactly when a key occurs twice. *)
From Spowtd Require Import Model.Load.
From Coq Require Import Lia Sorted Permutation.
Local Open Scope Z_scope.

Definition keys (l : list row) : list Z := map fst l.
Definition incr (l : list Z) : Prop := StronglySorted Z.lt l.

Lemma incr_nil : incr []. Proof. constructor. Qed.

Lemma incr_cons_inv : forall a l, incr (a :: l) -> incr l /\ Forall (Z.lt a) l.
Proof. intros a l H. inversion H; subst. split; assumption. Qed.

Lemma incr_cons : forall a l, incr l -> Forall (Z.lt a) l -> incr (a :: l).
Proof. intros. constructor; assumption. Qed.

Lemma incr_lt_in : forall a l x, incr (a :: l) -> In x l -> a < x.
Proof.
  intros a l x H Hin. apply incr_cons_inv in H. destruct H as [_ F].
  rewrite Forall_forall in F. apply F; assumption.
Qed.

Lemma incr_NoDup : forall l, incr l -> NoDup l.
Proof.
  induction l as [|a l IH]; intros H.
  - constructor.
  - pose proof (incr_cons_inv _ _ H) as [Hl F]. constructor.
    + intro Hin. rewrite Forall_forall in F. specialize (F _ Hin). lia.
    + apply IH; assumption.
Qed.

Lemma incr_filter : forall f l, incr l -> incr (filter f l).
Proof.
  intros f l. induction l as [|a l IH]; intros H; simpl.
  - constructor.
  - pose proof (incr_cons_inv _ _ H) as [Hl F]. destruct (f a).
    + apply incr_cons; [apply IH; assumption|].
      rewrite Forall_forall in *. intros x Hx. apply filter_In in Hx. apply F. tauto.
    + apply IH; assumption.
Qed.

(** Two increasing lists with the same elements are equal. *)
Lemma incr_ext : forall l1 l2, incr l1 -> incr l2 ->
  (forall x, In x l1 <-> In x l2) -> l1 = l2.
Proof.
  induction l1 as [|a l1 IH]; intros l2 H1 H2 Hext.
  - destruct l2 as [|b l2]; [reflexivity|]. exfalso. apply (proj2 (Hext b)). left; reflexivity.
  - destruct l2 as [|b l2].
    + exfalso. apply (proj1 (Hext a)). left; reflexivity.
    + assert (a = b) as ->.
      { destruct (proj1 (Hext a) (or_introl eq_refl)) as [E|Ha]; [congruence|].
        destruct (proj2 (Hext b) (or_introl eq_refl)) as [E|Hb]; [congruence|].
        pose proof (incr_lt_in _ _ _ H1 Hb). pose proof (incr_lt_in _ _ _ H2 Ha). lia. }
      f_equal. apply IH.
      * apply incr_cons_inv in H1; tauto.
      * apply incr_cons_inv in H2; tauto.
      * intros x. split; intros Hx.
        -- destruct (proj1 (Hext x) (or_intror Hx)) as [E|Hx']; [|assumption].
           subst. pose proof (incr_lt_in _ _ _ H1 Hx). lia.
        -- destruct (proj2 (Hext x) (or_intror Hx)) as [E|Hx']; [|assumption].
           subst. pose proof (incr_lt_in _ _ _ H2 Hx). lia.
Qed.

(** Two key-sorted tables with the same rows are equal. *)
Lemma sorted_rows_ext : forall l1 l2 : list row, incr (keys l1) -> incr (keys l2) ->
  (forall x, In x l1 <-> In x l2) -> l1 = l2.
Proof.
  induction l1 as [|a l1 IH]; intros l2 H1 H2 Hext.
  - destruct l2 as [|b l2]; [reflexivity|]. exfalso. apply (proj2 (Hext b)). left; reflexivity.
  - destruct l2 as [|b l2].
    + exfalso. apply (proj1 (Hext a)). left; reflexivity.
    + simpl in H1, H2.
      assert (a = b) as ->.
      { destruct (proj1 (Hext a) (or_introl eq_refl)) as [E|Ha]; [congruence|].
        destruct (proj2 (Hext b) (or_introl eq_refl)) as [E|Hb]; [congruence|].
        pose proof (incr_lt_in _ _ (fst b) H1 (in_map fst _ _ Hb)).
        pose proof (incr_lt_in _ _ (fst a) H2 (in_map fst _ _ Ha)). lia. }
      f_equal. apply IH.
      * apply incr_cons_inv in H1; tauto.
      * apply incr_cons_inv in H2; tauto.
      * intros x. split; intros Hx.
        -- destruct (proj1 (Hext x) (or_intror Hx)) as [E|Hx']; [|assumption].
           subst x. pose proof (incr_lt_in _ _ (fst b) H1 (in_map fst _ _ Hx)). lia.
        -- destruct (proj2 (Hext x) (or_intror Hx)) as [E|Hx']; [|assumption].
           subst x. pose proof (incr_lt_in _ _ (fst b) H2 (in_map fst _ _ Hx)). lia.
Qed.

(** In a key-sorted table a key determines its row. *)
Lemma sorted_rows_functional : forall (l : list row) t v v', incr (keys l) ->
  In (t, v) l -> In (t, v') l -> v = v'.
Proof.
  induction l as [|a l IH]; intros t v v' H H1 H2; [destruct H1|].
  simpl in H. pose proof (incr_cons_inv _ _ H) as [Hl F].
  destruct H1 as [E1|H1], H2 as [E2|H2].
  - congruence.
  - subst a. pose proof (incr_lt_in _ _ t H (in_map fst _ _ H2)). simpl in *. lia.
  - subst a. pose proof (incr_lt_in _ _ t H (in_map fst _ _ H1)). simpl in *. lia.
  - eapply IH; eassumption.
Qed.

(** *** One INSERT *)

Lemma ins_row_ok : forall r l l', ins_row r l = Ok l' -> incr (keys l) ->
  incr (keys l') /\ (forall x, In x l' <-> x = r \/ In x l) /\ ~ In (fst r) (keys l).
Proof.
  intros r l. induction l as [|h t IH]; intros l' E Hs; simpl in E.
  - inversion E; subst. simpl. repeat split.
    + apply incr_cons; [constructor|constructor].
    + intros [H|[]]; left; congruence.
    + intros [H|[]]; left; congruence.
    + tauto.
  - simpl in Hs. pose proof (incr_cons_inv _ _ Hs) as [Ht F].
    destruct (fst r <? fst h) eqn:Elt.
    + apply Z.ltb_lt in Elt. inversion E; subst. repeat split.
      * simpl. apply incr_cons; [assumption|]. constructor; [assumption|].
        rewrite Forall_forall in *. intros x Hx. specialize (F x Hx). lia.
      * intros [H|H]; [left; congruence|right; assumption].
      * intros [H|H]; [left; congruence|right; assumption].
      * simpl. intros [H|H]; [lia|]. rewrite Forall_forall in F. specialize (F _ H). lia.
    + apply Z.ltb_ge in Elt. destruct (fst r =? fst h) eqn:Eeq; [discriminate|].
      apply Z.eqb_neq in Eeq.
      destruct (ins_row r t) as [t'|e] eqn:Et; [|discriminate]. inversion E; subst.
      destruct (IH t' eq_refl Ht) as (Hs' & Hin & Hnot). repeat split.
      * simpl. apply incr_cons; [assumption|].
        rewrite Forall_forall in *. intros x Hx. unfold keys in Hx. apply in_map_iff in Hx.
        destruct Hx as (y & <- & Hy). apply Hin in Hy. destruct Hy as [->|Hy]; [lia|].
        apply F. apply in_map; assumption.
      * intros [H|H]; [right; left; assumption|]. apply Hin in H. simpl. tauto.
      * intros [H|[H|H]]; [right; apply Hin; tauto|left; assumption|right; apply Hin; tauto].
      * simpl. intros [H|H]; [lia|tauto].
Qed.

Lemma ins_row_err : forall r l e, ins_row r l = Err e -> e = EIntegrity /\ In (fst r) (keys l).
Proof.
  intros r l. induction l as [|h t IH]; intros e E; simpl in E; [discriminate|].
  destruct (fst r <? fst h); [discriminate|].
  destruct (fst r =? fst h) eqn:Eeq.
  - apply Z.eqb_eq in Eeq. inversion E; subst. split; [reflexivity|]. left. congruence.
  - destruct (ins_row r t) as [t'|e'] eqn:Et; [discriminate|]. inversion E; subst.
    destruct (IH e eq_refl) as [-> Hin]. split; [reflexivity|]. right; assumption.
Qed.

(** *** The whole file *)

Lemma stage_from_ok : forall rows acc t, stage_from acc rows = Ok t -> incr (keys acc) ->
  incr (keys t) /\ (forall x, In x t <-> In x rows \/ In x acc) /\ NoDup (keys rows)
  /\ (forall x, In x (keys rows) -> ~ In x (keys acc)).
Proof.
  induction rows as [|r rows IH]; intros acc t E Hs; simpl in E.
  - inversion E; subst. split; [assumption|]. split; [intros x; simpl; tauto|].
    split; [constructor|]. intros x [].
  - destruct (ins_row r acc) as [acc'|e] eqn:Ei; simpl in E; [|discriminate].
    destruct (ins_row_ok _ _ _ Ei Hs) as (Hs' & Hin & Hnot).
    destruct (IH _ _ E Hs') as (Hst & Hint & Hnd & Hdisj).
    split; [assumption|]. split; [intros x; split|split].
    + intros H. apply Hint in H. destruct H as [H|H]; [left; right; assumption|].
      apply Hin in H. destruct H as [->|H]; [left; left; reflexivity|right; assumption].
    + intros [[H|H]|H]; apply Hint.
      * right. apply Hin. left. congruence.
      * left; assumption.
      * right. apply Hin. right; assumption.
    + simpl. constructor; [|assumption]. intro H. apply (Hdisj _ H).
      unfold keys. apply in_map_iff. exists r. split; [reflexivity|]. apply Hin. left; reflexivity.
    + intros x [Hx|Hx] Hacc.
      * subst x. contradiction.
      * apply (Hdisj _ Hx). unfold keys in *. apply in_map_iff in Hacc. destruct Hacc as (y & <- & Hy).
        apply in_map. apply Hin. right; assumption.
Qed.

Lemma stage_from_err : forall rows acc e, stage_from acc rows = Err e -> incr (keys acc) ->
  e = EIntegrity /\ ~ (NoDup (keys rows) /\ forall x, In x (keys rows) -> ~ In x (keys acc)).
Proof.
  induction rows as [|r rows IH]; intros acc e E Hs; simpl in E; [discriminate|].
  destruct (ins_row r acc) as [acc'|e'] eqn:Ei; simpl in E.
  - destruct (ins_row_ok _ _ _ Ei Hs) as (Hs' & Hin & Hnot).
    destruct (IH _ _ E Hs') as (-> & Hno). split; [reflexivity|]. intros [Hnd Hdisj]. apply Hno.
    simpl in Hnd. inversion Hnd; subst. split; [assumption|]. intros x Hx Hacc.
    unfold keys in Hacc. apply in_map_iff in Hacc. destruct Hacc as (y & <- & Hy).
    apply Hin in Hy. destruct Hy as [->|Hy]; [contradiction|].
    apply (Hdisj (fst y)); [right; assumption|]. apply in_map; assumption.
  - inversion E; subst. destruct (ins_row_err _ _ _ Ei) as [-> Hin]. split; [reflexivity|].
    intros [_ Hdisj]. apply (Hdisj (fst r)); [left; reflexivity|assumption].
Qed.

Theorem stage_ok : forall rows t, stage rows = Ok t ->
  incr (keys t) /\ (forall x, In x t <-> In x rows) /\ NoDup (keys rows).
Proof.
  intros rows t E. destruct (stage_from_ok _ _ _ E incr_nil) as (H1 & H2 & H3 & _).
  repeat split; try assumption; intros H; apply H2 in H || apply H2; simpl in *; tauto.
Qed.

Theorem stage_err : forall rows e, stage rows = Err e -> e = EIntegrity /\ ~ NoDup (keys rows).
Proof.
  intros rows e E. destruct (stage_from_err _ _ _ E incr_nil) as (H1 & H2).
  split; [assumption|]. intro Hnd. apply H2. split; [assumption|]. intros x _ [].
Qed.

Theorem stage_ok_iff : forall rows, (exists t, stage rows = Ok t) <-> NoDup (keys rows).
Proof.
  intros rows. split.
  - intros [t E]. apply stage_ok in E. tauto.
  - intros Hnd. destruct (stage rows) as [t|e] eqn:E; [eexists; reflexivity|].
    apply stage_err in E. tauto.
Qed.

(** The order of the rows in the file does not matter, for the staged table
    and for the refusal alike. *)
Theorem stage_perm : forall rows rows', Permutation rows rows' -> stage rows = stage rows'.
Proof.
  intros rows rows' P.
  assert (Pk : Permutation (keys rows) (keys rows')) by (apply Permutation_map; assumption).
  destruct (stage rows) as [t|e] eqn:E1, (stage rows') as [t'|e'] eqn:E2.
  - f_equal. destruct (stage_ok _ _ E1) as (S1 & I1 & _). destruct (stage_ok _ _ E2) as (S2 & I2 & _).
    apply sorted_rows_ext; try assumption. intros x. rewrite I1, I2.
    split; intros H; [eapply Permutation_in; eassumption|].
    eapply Permutation_in; [apply Permutation_sym|]; eassumption.
  - exfalso. destruct (stage_ok _ _ E1) as (_ & _ & Hnd). destruct (stage_err _ _ E2) as [_ Hno].
    apply Hno. eapply Permutation_NoDup; eassumption.
  - exfalso. destruct (stage_ok _ _ E2) as (_ & _ & Hnd). destruct (stage_err _ _ E1) as [_ Hno].
    apply Hno. eapply Permutation_NoDup; [apply Permutation_sym|]; eassumption.
  - destruct (stage_err _ _ E1) as [-> _]. destruct (stage_err _ _ E2) as [-> _]. reflexivity.
Qed.
