(** C07: a common shift of all epochs shifts every row and changes nothing else. *)
From Spowtd Require Import Model.ClassifyEpochs Proofs.RunsSpec Proofs.MysterySpec Proofs.FlagsSpec
  Proofs.MatchingSpec Proofs.MatchStormsSpec Proofs.ClassifySpec.
From Coq Require Import Lia.

Lemma epoch_at_shift d ep i : i < length ep -> epoch_at (map (fun t => (t + d)%Z) ep) i = (epoch_at ep i + d)%Z.
Proof.
  intros Hi. unfold epoch_at.
  rewrite (nth_indep _ 0%Z ((fun t => (t + d)%Z) 0%Z)) by (rewrite map_length; exact Hi).
  rewrite (map_nth (fun t => (t + d)%Z)). reflexivity.
Qed.

Lemma combine_map_l {A B} (f : A -> A) (l : list A) (m : list B) :
  combine (map f l) m = map (fun p => (f (fst p), snd p)) (combine l m).
Proof.
  revert m. induction l as [|a t IH]; intros [|b m]; simpl; try reflexivity. rewrite IH. reflexivity.
Qed.

Lemma jump_sample_flags_length thr step z : length (jump_sample_flags thr step z) = length z.
Proof.
  unfold jump_sample_flags, jump_incr_flags. destruct z as [|a t]; [reflexivity|].
  cbn [length]. rewrite map_length, increments_length. simpl. lia.
Qed.

Theorem classify_stretch_shift d ep step thr_s thr_j rain zeta sched r :
  length ep = length rain -> length zeta = length rain ->
  classify_stretch ep step thr_s thr_j rain zeta sched = Ok r ->
  classify_stretch (map (fun t => (t + d)%Z) ep) step thr_s thr_j rain zeta sched = Ok (shift_rows d r).
Proof.
  intros Hep Hz. unfold classify_stretch. intros H.
  destruct (match_storms_data thr_s (jump_delta thr_j step) rain zeta sched) as [pairs|e] eqn:Em; [|discriminate].
  simpl in H. inversion H; subst r. clear H. simpl. f_equal. unfold shift_rows. simpl.
  (* ranges of the indices the model looks up *)
  assert (Hint : forall p, In p (sf_intervals (classify_interstorms_stretch thr_j step rain zeta)) ->
                           fst p < length ep /\ snd p < length ep).
  { intros [a b] Hp. simpl in Hp. apply interstorm_intervals_exact in Hp.
    destruct Hp as (Hab & (_ & Hle & _)).
    rewrite interstorm_flags_length in Hle
      by (rewrite jump_sample_flags_length; unfold raining_flags; rewrite map_length; exact Hz).
    unfold raining_flags in Hle. rewrite map_length in Hle. simpl. lia. }
  assert (Hpairs : forall p, In p pairs -> fst (fst p) < length ep /\ snd (fst p) - 1 < length ep /\
                                           fst (snd p) < length ep /\ snd (snd p) - 1 < length ep).
  { intros [[s e] [a b]] Hp. unfold match_storms_data in Em.
    destruct (ms_pairs _ _ _ pairs (s, e) (a, b) Em Hp) as ((H1 & H2 & _) & Hb & (G1 & G2 & _) & _).
    simpl in *. unfold heavy_flags in H2. rewrite map_length in H2.
    rewrite map_length, increments_length in G2. lia. }
  f_equal.
  - apply (combine_map_l (fun t => (t + d)%Z)).
  - rewrite map_map. apply map_ext_in. intros p Hp. destruct (Hint p Hp) as (H1 & H2).
    unfold shift_pair. simpl. rewrite !epoch_at_shift by assumption. reflexivity.
  - rewrite map_map. apply map_ext_in. intros p Hp. destruct (Hpairs p Hp) as (H1 & H2 & _).
    unfold shift_pair. simpl. rewrite !epoch_at_shift by assumption. f_equal. lia.
  - rewrite map_map. apply map_ext_in. intros p Hp. destruct (Hpairs p Hp) as (_ & _ & H3 & H4).
    unfold shift_pair. simpl. rewrite !epoch_at_shift by assumption. reflexivity.
  - rewrite map_map. apply map_ext_in. intros p Hp. destruct (Hpairs p Hp) as (H1 & _ & H3 & _).
    unfold shift_pair. simpl. rewrite !epoch_at_shift by assumption. reflexivity.
Qed.
