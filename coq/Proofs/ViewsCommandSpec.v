(** The master-curve views on the tables written by the model of the commands
    (Model/Curves.v, Model/ZetaGrid.v): every level stored by [rise] /
    [recession] for the data of the table lies in the grid computed by
    set-zeta-grid (Proofs/CurvesGridSpec.v), hence the view drops no level of
    the assembled curve. *)
From Spowtd Require Import Model.Curves Proofs.RegridSpec Proofs.RegridFloatSpec
  Proofs.CurvesSpec Proofs.ZetaGridSpec Proofs.CurvesGridSpec.
From Spowtd Require Import Model.Views Proofs.ViewsSpec.
From Coq Require Import Lia Sorted.

Lemma populate_zeta_grid_nodup zetas step g : populate_zeta_grid zetas step = Ok g -> NoDup g.
Proof.
  unfold populate_zeta_grid. destruct zetas as [|z0 t]; [discriminate|].
  destruct (float_to_Q z0) as [q0|]; [|discriminate]. unfold grid_of_bounds.
  destruct (float_to_Q _) as [lo|]; [|discriminate].
  destruct (float_to_Q _) as [hi|]; [|discriminate].
  intros H. inversion H; subst. apply sorted_nodup, zrange_sorted.
Qed.

Section Command.
Variables (t : tables) (ivs : list Z) (rows : list (Z * Z * Q)) (step : float) (qs : Q) (g : list Z).
Hypothesis Hcmd : rise_rows t = Ok (ivs, rows) \/ recession_rows t = Ok (ivs, rows).
Hypothesis Hgrid : t_grid t = Some step.
Hypothesis Hqs : float_to_Q step = Some qs.
Hypothesis Hpos : 0 < qs.
Hypothesis Hpop : populate_zeta_grid (map snd (water_levels t)) step = Ok g.
(** the offsets table: one row per interval that received an offset, whatever
    the values (the least-squares solver is not part of this model) *)
Variable offsets : list (Z * Q).
Hypothesis Hoff : forall e, In e ivs <-> In e (map fst offsets).

Lemma stored_in_grid e k m : In (e, k, m) rows -> In k g.
Proof.
  destruct Hcmd as [H|H].
  - exact (rise_levels_in_grid t ivs rows step qs g H Hgrid Hqs Hpos Hpop e k m).
  - exact (recession_levels_in_grid t ivs rows step qs g H Hgrid Hqs Hpos Hpop e k m).
Qed.

Lemma stored_is_aligned e k m : In (e, k, m) rows -> exists o, In (e, o) offsets.
Proof.
  intros Hin.
  assert (He : In e ivs).
  { destruct Hcmd as [H|H].
    - apply (proj2 (rise_command_rows regrid qmean t ivs rows H)). eauto.
    - apply (proj2 (recession_command_rows regrid qmean t ivs rows H)). eauto. }
  apply Hoff, in_map_iff in He. destruct He as ((e', o) & <- & Ho). exists o. exact Ho.
Qed.

Theorem view_shows_every_stored_level :
  NoDup g /\
  view_levels offsets rows g = group_keys (map (fun r => snd (fst r)) rows) /\
  (forall e k m, In (e, k, m) rows ->
     In (inject_Z k * qs, head_mean (aligned_entries offsets rows) (offset_of offsets) k)
        (view_average offsets rows g qs)) /\
  (forall e k m, In (e, k, m) rows -> (k <= last (view_levels offsets rows g) 0)%Z).
Proof.
  pose proof (populate_zeta_grid_nodup _ _ _ Hpop) as HN.
  assert (HL : view_levels offsets rows g = group_keys (map (fun r => snd (fst r)) rows)).
  { rewrite view_complete by (intros e o k v _ Hc; exact (stored_in_grid e k v Hc)).
    unfold curve_levels. apply group_keys_ext. intros k.
    pose proof (curve_levels_spec offsets rows k) as S. unfold curve_levels in S.
    rewrite in_group_keys in S. rewrite S, in_map_iff. split.
    - intros (e & o & v & _ & Hc). exists (e, k, v). auto.
    - intros (((e, k'), v) & E & Hc). cbn in E. subst k'.
      destruct (stored_is_aligned e k v Hc) as (o & Ho). exists e, o, v. auto. }
  assert (Hin : forall e k m, In (e, k, m) rows -> In k (view_levels offsets rows g)).
  { intros e k m Hc. rewrite HL, in_group_keys, in_map_iff. exists (e, k, m). auto. }
  split; [exact HN|]. split; [exact HL|]. split.
  - intros e k m Hc. apply (view_average_row _ _ _ _ _ _ HN). exists k. eauto.
  - intros e k m Hc. apply sorted_last_max; [apply view_levels_sorted|eauto].
Qed.
End Command.

(** * rising_curve_line_segment on the tables of the model of [rise]

    The tables of Model/Curves.v hold binary64 columns; [fq] reads a finite one
    as the rational it denotes.  Every interval that [rise] gives an offset has
    its pairing, interval, end levels, storm and rainfall rows (C13_rise_rows),
    hence its row in the view; under the PRIMARY KEYs exactly one. *)
From Spowtd Require Import Model.ViewsCase.
From Coq Require Import Permutation.

Definition tables_zint (t : tables) : list (Z * Z) := map fst (t_zeta_interval t).
Definition tables_wl (t : tables) : list (Z * Q) := map (fun r => (fst r, fq (snd r))) (t_water_level t).
Definition tables_rain (t : tables) : list DepthView.rain_row :=
  map (fun r => {| DepthView.r_from := fst (fst r); DepthView.r_thru := snd (fst r);
                   DepthView.r_mm_h := fq (snd r) |}) (t_rain t).

Lemma nth_error_map_fst_in {A B} (l : list (A * B)) i a :
  nth_error (map fst l) i = Some a -> exists b, In (a, b) l.
Proof.
  rewrite nth_error_map. destruct (nth_error l i) as [(a', b)|] eqn:E; [|discriminate].
  intros H. inversion H; subst. exists b. eapply nth_error_In, E.
Qed.

Lemma storm_has_rain t s sthru d :
  storm_depth t s sthru = Ok d -> filter (DepthView.in_storm s sthru) (tables_rain t) <> [].
Proof.
  unfold storm_depth, tables_rain.
  destruct (filter (fun r => Z.leb s (fst (fst r)) && Z.leb (snd (fst r)) sthru) (t_rain t))
    as [|r rest] eqn:F; [discriminate|]. intros _.
  assert (Hr : In r (filter (fun r => Z.leb s (fst (fst r)) && Z.leb (snd (fst r)) sthru) (t_rain t)))
    by (rewrite F; left; reflexivity).
  apply filter_In in Hr. destruct Hr as (Hin & Hb). intros C.
  assert (Hq : In {| DepthView.r_from := fst (fst r); DepthView.r_thru := snd (fst r);
                     DepthView.r_mm_h := fq (snd r) |}
                  (filter (DepthView.in_storm s sthru)
                     (map (fun r => {| DepthView.r_from := fst (fst r); DepthView.r_thru := snd (fst r);
                                       DepthView.r_mm_h := fq (snd r) |}) (t_rain t)))).
  { apply filter_In. split; [apply in_map_iff; exists r; auto|exact Hb]. }
  rewrite C in Hq. exact Hq.
Qed.

Theorem rise_line_segments t ivs rows (offsets : list (Z * Q)) :
  rise_rows t = Ok (ivs, rows) ->
  (forall e, In e ivs <-> In e (map fst offsets)) ->
  let V := view_line_segments (t_pairing t) (tables_zint t) (tables_wl t) (t_storm t) (tables_rain t) offsets in
  (forall e o, In (e, o) offsets -> exists d zi zf, In (e, o, d, zi, zf) V) /\
  (forall r, In r V -> In (seg_epoch r) ivs /\ In (seg_epoch r, seg_offset r) offsets) /\
  (NoDup (map fst (t_pairing t)) -> NoDup (map fst (tables_zint t)) -> NoDup (map fst (tables_wl t)) ->
   NoDup (map fst (t_storm t)) -> NoDup (map fst offsets) ->
   Permutation (map (fun r => (seg_epoch r, seg_offset r)) V) offsets).
Proof.
  intros Hr Hoff V.
  assert (Hfk : forall e o, In (e, o) offsets -> exists s thru sthru zi zf,
            In (e, s) (t_pairing t) /\ In (e, thru) (tables_zint t) /\ In (e, zi) (tables_wl t) /\
            In (thru, zf) (tables_wl t) /\ In (s, sthru) (t_storm t) /\
            filter (DepthView.in_storm s sthru) (tables_rain t) <> []).
  { intros e o Ho.
    assert (He : In e ivs) by (apply Hoff, in_map_iff; exists (e, o); auto).
    destruct (rise_command_rows regrid qmean t ivs rows Hr) as (A & B).
    apply B in He. destruct He as (k & m & Hrow).
    destruct (A e k m Hrow) as (s_start & s_thru & z_thru & ty & step & epochs & zetas & a & b & depth &
                                items & Hs & Hp & Hz & _ & HR & Ha & Hb & _ & Hd & _).
    destruct (read_levels_ok _ _ _ HR) as (He' & _ & _). subst epochs.
    apply nth_error_map_fst_in in Ha. destruct Ha as (za & Ha).
    apply nth_error_map_fst_in in Hb. destruct Hb as (zb & Hb).
    unfold water_levels in Ha, Hb. apply in_sort_by in Ha. apply in_sort_by in Hb.
    exists s_start, z_thru, s_thru, (fq za), (fq zb). repeat split.
    - exact Hp.
    - unfold tables_zint. apply in_map_iff. exists (e, z_thru, ty). auto.
    - unfold tables_wl. apply in_map_iff. exists (e, za). auto.
    - unfold tables_wl. apply in_map_iff. exists (z_thru, zb). auto.
    - exact Hs.
    - eapply storm_has_rain, Hd. }
  destruct (line_segments_only_main_body (t_pairing t) (tables_zint t) (tables_wl t) (t_storm t)
              (tables_rain t) offsets) as (L1 & _ & L3).
  fold V in L1, L3. split; [|split].
  - intros e o Ho. destruct (Hfk e o Ho) as (s & thru & sthru & zi & zf & A1 & A2 & A3 & A4 & A5 & A6).
    exists (DepthView.view_depth s sthru (tables_rain t)), zi, zf. apply L3 with (thru := thru); assumption.
  - intros r Hin. destruct (L1 r Hin) as (Ho & _). split; [|exact Ho].
    apply Hoff, in_map_iff. exists (seg_epoch r, seg_offset r). auto.
  - intros K1 K2 K3 K4 K5. apply line_segments_one_per_aligned_rise; assumption.
Qed.
