(** C02, second sentence at data level, the "best for every storm" half: on the
    candidate lists built from the flag vectors of a stretch, with no rise
    equally close in start to two of its candidate storms, the recorded matching
    is stable and gives every storm a rise at least as early in its own proposal
    order as ANY stable matching gives it. *)
From Spowtd Require Import Model.Matching Proofs.RunsSpec Proofs.MatchingSpec Proofs.MatchStormsSpec
  Proofs.ClassifySpec Proofs.OptimalSpec Proofs.MatchStormsOptimal.
From Coq Require Import Lia.

Theorem ms_storm_optimal heavy jumpf :
  no_rise_ties heavy jumpf ->
  let cands := all_candidates (true_runs heavy) (rises_of jumpf) in
  forall sched m, stable_matching start_pref cands sched = Ok m ->
    (exists st, m = mt st /\ stable start_pref cands (final_matching st)) /\
    (forall mu s j, stable start_pref cands mu -> mr mu j = Some s ->
       exists j', alookup j' m = Some s /\ (j' = j \/ before (O cands s) j' j)).
Proof.
  intros Hnt cands sched m H.
  pose proof (cands_keys_nodup heavy jumpf) as Hk.
  pose proof (cands_lists_nodup heavy jumpf) as Hl.
  pose proof (strict_of_no_ties heavy jumpf Hnt) as Hs.
  fold cands in Hk, Hl, Hs. split.
  - eapply result_stable; eassumption.
  - intros mu s j Hmu Hj. eapply result_storm_optimal; eassumption.
Qed.
