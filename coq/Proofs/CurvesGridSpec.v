(** Levels stored in the master-curve tables belong to the water-level grid
    (combines Proofs/CurvesSpec.v with Proofs/ZetaGridSpec.v). *)
From Spowtd Require Import Model.Curves Proofs.RegridSpec Proofs.RegridFloatSpec
  Proofs.CurvesSpec Proofs.ZetaGridSpec.
From Coq Require Import Lia.

Lemma read_levels_ok t epochs zetas :
  read_levels t = Ok (epochs, zetas) ->
  epochs = map fst (water_levels t) /\ zetas = map snd (water_levels t) /\
  forallb finiteb zetas = true.
Proof.
  unfold read_levels. destruct (water_levels t) as [|r wl] eqn:E; [discriminate|].
  destruct (forallb finiteb (map snd (r :: wl))) eqn:F; [|discriminate].
  intros H. inversion H; subst. auto.
Qed.

Lemma crossings_nonempty_in {V} k (items : list (Z * V)) :
  crossings_of k items <> [] -> exists v, In (k, v) items.
Proof.
  unfold crossings_of. induction items as [|(k', v) items IH]; simpl; [contradiction|].
  destruct (Z.eqb_spec k k') as [E|E].
  - subst. intros _. exists v. left. reflexivity.
  - intros H. destruct (IH H) as (v' & Hv). exists v'. right. exact Hv.
Qed.

Lemma nth_in_of_nth_error {A B} (l1 : list A) (l2 : list B) a (e : A) d :
  length l1 = length l2 -> nth_error l1 a = Some e -> In (nth a l2 d) l2.
Proof.
  intros HL Hn. apply nth_In. rewrite <- HL. apply nth_error_Some. congruence.
Qed.

(** Every level stored by [rise] is a grid level. *)
Lemma rise_levels_in_grid t ivs rows step qs g :
  rise_rows t = Ok (ivs, rows) ->
  t_grid t = Some step -> float_to_Q step = Some qs -> 0 < qs ->
  populate_zeta_grid (map snd (water_levels t)) step = Ok g ->
  forall e k w, In (e, k, w) rows -> In k g.
Proof.
  intros Hr Hg Hs Hpos Hpop e k w Hin.
  destruct (rise_command_rows regrid qmean t ivs rows Hr) as (A & _).
  destruct (A e k w Hin) as (s_start & s_thru & z_thru & ty & step' & epochs & zetas & a & b &
                             depth & items & _ & _ & _ & Hg' & HR & Ha & Hb & _ & _ & Hrg & Hne & _).
  rewrite Hg in Hg'. inversion Hg'; subst step'. clear Hg'.
  destruct (read_levels_ok _ _ _ HR) as (He & Hz & Hfin).
  assert (HL : length epochs = length zetas) by (subst; rewrite !map_length; reflexivity).
  destruct (crossings_nonempty_in _ _ Hne) as (x & Hx).
  rewrite <- Hz in Hpop.
  eapply (regrid_levels_in_grid zetas step qs g _ _ items Hpop Hs Hpos Hfin); [|exact Hrg|exact Hx].
  intros v [<-|[<-|[]]].
  - eapply nth_in_of_nth_error; eassumption.
  - eapply nth_in_of_nth_error; eassumption.
Qed.

(** Every level stored by [recession] is a grid level. *)
Lemma recession_levels_in_grid t ivs rows step qs g :
  recession_rows t = Ok (ivs, rows) ->
  t_grid t = Some step -> float_to_Q step = Some qs -> 0 < qs ->
  populate_zeta_grid (map snd (water_levels t)) step = Ok g ->
  forall e k w, In (e, k, w) rows -> In k g.
Proof.
  intros Hr Hg Hs Hpos Hpop e k w Hin.
  assert (HR : exists ez, read_levels t = Ok ez).
  { unfold recession_rows, recession_command, recession_series in Hr.
    destruct (read_levels t) as [ez|err]; [exists ez; reflexivity|discriminate]. }
  destruct HR as ((epochs, zetas) & HR).
  destruct (read_levels_ok _ _ _ HR) as (_ & Hz & Hfin).
  destruct (recession_command_rows regrid qmean t ivs rows Hr) as (A & _).
  destruct (A e k w Hin) as (thru & step' & items & _ & Hg' & Hrg & Hne & _).
  rewrite Hg in Hg'. inversion Hg'; subst step'. clear Hg'.
  destruct (crossings_nonempty_in _ _ Hne) as (x & Hx).
  rewrite <- Hz in Hpop.
  eapply (regrid_levels_in_grid zetas step qs g _ _ items Hpop Hs Hpos Hfin); [|exact Hrg|exact Hx].
  intros v Hv. apply in_map_iff in Hv. destruct Hv as (r & <- & Hr').
  apply filter_In in Hr'. destruct Hr' as (Hr' & _). rewrite Hz. apply in_map, Hr'.
Qed.
