(** Existence of a minimiser of the squared spread (C05, "solver completeness",
    mathematical half).

    Part A: every weighted graph-Laplacian system with a right-hand side that
    is the divergence of an antisymmetric flow carried by the edges is
    solvable over Q (induction on the vertex list, one vertex eliminated per
    step; the Schur complement keeps the structure).
    Part B: the zero-residual conditions of [Model.FitOffsets] are such a
    system, for EVERY list of entries (no hypothesis at all: an interval may
    occur twice at one level, the overlap graph may be disconnected).
    Hence a global minimiser of [objective E] always exists; on a connected
    overlap graph it is unique up to a common shift. *)
From Spowtd Require Import Model.FitOffsets Proofs.QSum Proofs.FitOffsetsSpec.
From Coq Require Import Lia Lqa Relations.

(** * Small facts about finite sums *)

Lemma qsum_nonneg_zero l :
  (forall a, In a l -> 0 <= a) -> qsum l == 0 -> forall a, In a l -> a == 0.
Proof.
  induction l as [|b t IH]; simpl; intros Hn Hz a Ha; [contradiction|].
  assert (Hb : 0 <= b) by (apply Hn; left; reflexivity).
  assert (Ht : 0 <= qsum t) by (apply qsum_nonneg; intros c Hc; apply Hn; right; exact Hc).
  destruct Ha as [->|Ha]; [lra|].
  apply IH; [intros c Hc; apply Hn; right; exact Hc|lra|exact Ha].
Qed.

Lemma qsum_map_nonneg_zero {A} (g : A -> Q) l :
  (forall a, In a l -> 0 <= g a) -> qsum (map g l) == 0 -> forall a, In a l -> g a == 0.
Proof.
  intros Hn Hz a Ha. apply (qsum_nonneg_zero (map g l)).
  - intros q Hq. apply in_map_iff in Hq. destruct Hq as (b & <- & Hb). apply Hn. exact Hb.
  - exact Hz.
  - apply in_map. exact Ha.
Qed.

Lemma qsum_map_minus {A} (g h : A -> Q) l :
  qsum (map (fun a => g a - h a) l) == qsum (map g l) - qsum (map h l).
Proof. induction l as [|a t IH]; simpl; [ring|rewrite IH; ring]. Qed.

Lemma qsum_swap {A B} (g : A -> B -> Q) (l1 : list A) (l2 : list B) :
  qsum (map (fun a => qsum (map (g a) l2)) l1)
  == qsum (map (fun b => qsum (map (fun a => g a b) l1)) l2).
Proof.
  induction l1 as [|a t IH]; cbn [map qsum].
  - symmetry. apply qsum_map_zero. intros; reflexivity.
  - rewrite IH. rewrite <- qsum_map_plus. reflexivity.
Qed.

Lemma qsum_filter_ind {A} (p : A -> bool) (g : A -> Q) l :
  qsum (map g (filter p l)) == qsum (map (fun a => if p a then g a else 0) l).
Proof.
  induction l as [|a t IH]; cbn [filter map qsum]; [reflexivity|].
  destruct (p a); cbn [map qsum]; rewrite IH; ring.
Qed.

Lemma qsum_if_in {A} (p : bool) (g : A -> Q) l :
  (if p then qsum (map g l) else 0) == qsum (map (fun a => if p then g a else 0) l).
Proof.
  destruct p; [reflexivity|]. symmetry. apply qsum_map_zero. intros; reflexivity.
Qed.

(** weighted differences against a constant *)
Lemma qsum_wdiff {A} (p y : A -> Q) (c : Q) l :
  qsum (map (fun b => p b * (c - y b)) l)
  == c * qsum (map p l) - qsum (map (fun b => p b * y b) l).
Proof. induction l as [|a t IH]; simpl; [ring|rewrite IH; ring]. Qed.

(** * Part A: solvability of Laplacian systems *)

Definition lap_solves (vs : list nat) (w f : nat -> nat -> Q) (x : nat -> Q) : Prop :=
  forall a, In a vs ->
    qsum (map (fun b => w a b * (x a - x b)) vs) == qsum (map (f a) vs).

Record lap_ok (w f : nat -> nat -> Q) : Prop := {
  lap_sym : forall a b, w a b == w b a;
  lap_nonneg : forall a b, 0 <= w a b;
  lap_anti : forall a b, f a b == - f b a;
  lap_supp : forall a b, w a b == 0 -> f a b == 0 }.

Lemma lap_diag w f : lap_ok w f -> forall a, f a a == 0.
Proof. intros H a. pose proof (lap_anti w f H a a). lra. Qed.

(** the system after elimination of vertex [v] of (off-diagonal) degree [d] *)
Definition schur_w (w : nat -> nat -> Q) (v : nat) (d : Q) (a b : nat) : Q :=
  w a b + w a v * w v b / d.
Definition schur_f (w f : nat -> nat -> Q) (v : nat) (d : Q) (a b : nat) : Q :=
  f a b + (f a v * w v b + w a v * f v b) / d.

Lemma schur_ok w f v d : lap_ok w f -> 0 < d -> lap_ok (schur_w w v d) (schur_f w f v d).
Proof.
  intros H Hd. assert (Hdz : ~ d == 0) by lra.
  assert (Hinv : 0 <= / d) by (apply Qinv_le_0_compat; lra).
  constructor; intros a b; unfold schur_w, schur_f.
  - pose proof (lap_sym w f H a b) as H1. pose proof (lap_sym w f H a v) as H2.
    pose proof (lap_sym w f H v b) as H3.
    set (p := w a b) in *. set (q := w a v) in *. set (r := w v b) in *.
    set (p' := w b a) in *. set (q' := w v a) in *. set (r' := w b v) in *.
    rewrite H1, H2, H3. field. exact Hdz.
  - pose proof (lap_nonneg w f H a b). pose proof (lap_nonneg w f H a v).
    pose proof (lap_nonneg w f H v b).
    assert (0 <= w a v * w v b / d).
    { unfold Qdiv. apply Qmult_le_0_compat; [nra|exact Hinv]. }
    lra.
  - pose proof (lap_anti w f H a b) as H1. pose proof (lap_anti w f H a v) as H2.
    pose proof (lap_anti w f H v b) as H3.
    pose proof (lap_sym w f H a v) as H4. pose proof (lap_sym w f H v b) as H5.
    set (p := f a b) in *. set (q := f a v) in *. set (r := f v b) in *.
    set (p' := f b a) in *. set (q' := f v a) in *. set (r' := f b v) in *.
    set (s := w a v) in *. set (t := w v b) in *. set (s' := w v a) in *. set (t' := w b v) in *.
    rewrite H1, H2, H3, H4, H5. field. exact Hdz.
  - intros Hz.
    pose proof (lap_nonneg w f H a b) as N1. pose proof (lap_nonneg w f H a v) as N2.
    pose proof (lap_nonneg w f H v b) as N3.
    assert (N4 : 0 <= w a v * w v b / d).
    { unfold Qdiv. apply Qmult_le_0_compat; [nra|exact Hinv]. }
    assert (Z1 : w a b == 0) by lra.
    assert (Z2 : w a v * w v b / d == 0) by lra.
    assert (Z3 : w a v * w v b == 0).
    { assert (E : w a v * w v b == (w a v * w v b / d) * d) by (field; exact Hdz).
      rewrite E, Z2. ring. }
    rewrite (lap_supp w f H a b Z1).
    apply Qmult_integral in Z3. destruct Z3 as [Z3|Z3].
    + rewrite (lap_supp w f H a v Z3). rewrite Z3. field. exact Hdz.
    + rewrite (lap_supp w f H v b Z3). rewrite Z3. field. exact Hdz.
Qed.

Theorem laplacian_solvable vs :
  NoDup vs -> forall w f, lap_ok w f -> exists x, lap_solves vs w f x.
Proof.
  induction vs as [|v vs IH]; intros Hnd w f Hok.
  - exists (fun _ => 0). intros a [].
  - inversion Hnd as [|v0 vs0 Hv Hnd']; subst v0 vs0.
    set (d := qsum (map (w v) vs)).
    assert (Hd0 : 0 <= d).
    { apply qsum_nonneg. intros q Hq. apply in_map_iff in Hq. destruct Hq as (b & <- & _).
      apply (lap_nonneg w f Hok). }
    destruct (Qeq_dec d 0) as [Hdz|Hdz].
    + (* isolated vertex: any value will do *)
      assert (Hw0 : forall b, In b vs -> w v b == 0).
      { intros b Hb. apply (qsum_map_nonneg_zero (w v) vs); [|exact Hdz|exact Hb].
        intros c _. apply (lap_nonneg w f Hok). }
      destruct (IH Hnd' w f Hok) as (x & Hx). exists x. intros a Ha. cbn [map qsum].
      destruct Ha as [<-|Ha].
      * rewrite (lap_diag w f Hok v).
        rewrite (qsum_map_zero (fun b => w v b * (x v - x b)) vs)
          by (intros b Hb; rewrite (Hw0 b Hb); ring).
        rewrite (qsum_map_zero (f v) vs)
          by (intros b Hb; apply (lap_supp w f Hok); apply Hw0; exact Hb).
        ring.
      * assert (Hav : w a v == 0) by (rewrite (lap_sym w f Hok a v); apply Hw0; exact Ha).
        rewrite (lap_supp w f Hok a v Hav), Hav. rewrite (Hx a Ha). ring.
    + assert (Hd : 0 < d) by lra.
      destruct (IH Hnd' _ _ (schur_ok w f v d Hok Hd)) as (x' & Hx').
      set (Swx := qsum (map (fun b => w v b * x' b) vs)).
      set (Sf := qsum (map (f v) vs)).
      set (xv := (Swx + Sf) / d).
      set (x := fun a => if Nat.eqb a v then xv else x' a).
      assert (Hxv : x v = xv) by (unfold x; rewrite Nat.eqb_refl; reflexivity).
      assert (Hxo : forall b, In b vs -> x b = x' b).
      { intros b Hb. unfold x. destruct (Nat.eqb b v) eqn:Eb; [|reflexivity].
        apply Nat.eqb_eq in Eb. subst b. contradiction. }
      exists x. intros a Ha. cbn [map qsum]. destruct Ha as [<-|Ha].
      * rewrite Hxv. rewrite (lap_diag w f Hok v).
        rewrite (qsum_map_ext (fun b => w v b * (xv - x b)) (fun b => w v b * (xv - x' b)))
          by (intros b Hb; rewrite (Hxo b Hb); reflexivity).
        rewrite qsum_wdiff. fold d. fold Swx. fold Sf. unfold xv. field. exact Hdz.
      * rewrite Hxv, (Hxo a Ha).
        rewrite (qsum_map_ext (fun b => w a b * (x' a - x b)) (fun b => w a b * (x' a - x' b)))
          by (intros b Hb; rewrite (Hxo b Hb); reflexivity).
        pose proof (Hx' a Ha) as He. unfold schur_w, schur_f in He.
        rewrite (qsum_map_ext (fun b => (w a b + w a v * w v b / d) * (x' a - x' b))
                   (fun b => w a b * (x' a - x' b) + (w a v / d) * (w v b * (x' a - x' b)))) in He
          by (intros b _; field; exact Hdz).
        rewrite qsum_map_plus, qsum_map_scal, (qsum_wdiff (w v) x' (x' a) vs) in He.
        rewrite (qsum_map_ext (fun b => f a b + (f a v * w v b + w a v * f v b) / d)
                   (fun b => f a b + ((f a v / d) * w v b + (w a v / d) * f v b))) in He
          by (intros b _; field; exact Hdz).
        rewrite qsum_map_plus, qsum_map_plus, !qsum_map_scal in He.
        fold d in He. fold Swx in He. fold Sf in He.
        set (S1 := qsum (map (fun b => w a b * (x' a - x' b)) vs)) in *.
        set (Sfa := qsum (map (f a) vs)) in *.
        set (wav := w a v) in *. set (fav := f a v) in *. set (xa := x' a) in *.
        assert (HS1 : S1 == Sfa + (fav / d * d + wav / d * Sf) - wav / d * (xa * d - Swx)) by lra.
        rewrite HS1. unfold xv. field. exact Hdz.
Qed.

(** * Part B: the zero-residual conditions are a Laplacian system *)

Section Entries.
  Variable E : list entry.

  (** [c] is an entry of interval [s], [c'] an entry of interval [s'] at the same level *)
  Definition pair_ind (s s' : nat) (c c' : entry) : bool :=
    Nat.eqb (e_series c) s && (Z.eqb (e_head c') (e_head c) && Nat.eqb (e_series c') s').

  (** weight of the edge s -- s' : sum over shared levels (with multiplicity) of 1/n_h *)
  Definition ov_w (s s' : nat) : Q :=
    qsum (map (fun c => qsum (map (fun c' =>
      if pair_ind s s' c c' then / nh E (e_head c) else 0) E)) E).

  (** flow on the edge: sum over shared levels of (value of s' - value of s)/n_h *)
  Definition ov_f (s s' : nat) : Q :=
    qsum (map (fun c => qsum (map (fun c' =>
      if pair_ind s s' c c' then (e_val c' - e_val c) / nh E (e_head c) else 0) E)) E).

  Lemma nh_pos c : In c E -> 0 < nh E (e_head c).
  Proof.
    intros Hc. assert (Hin : In c (at_head E (e_head c))) by (apply at_head_in; split; [exact Hc|reflexivity]).
    pose proof (nh_nonzero E (e_head c) c Hin) as Hnz.
    assert (0 <= nh E (e_head c)).
    { unfold nh. change 0 with (inject_Z 0). rewrite <- Zle_Qle. lia. }
    lra.
  Qed.

  Lemma pair_ind_swap s s' c c' :
    pair_ind s s' c c' = true -> pair_ind s' s c' c = true /\ e_head c' = e_head c.
  Proof.
    unfold pair_ind. rewrite !andb_true_iff, !Nat.eqb_eq, !Z.eqb_eq. intros (H1 & H2 & H3).
    repeat split; auto.
  Qed.

  Lemma pair_ind_swap_eq s s' c c' : pair_ind s s' c c' = pair_ind s' s c' c.
  Proof.
    destruct (pair_ind s s' c c') eqn:E1.
    - symmetry. apply (pair_ind_swap s s' c c' E1).
    - destruct (pair_ind s' s c' c) eqn:E2; [|reflexivity].
      apply pair_ind_swap in E2. destruct E2 as (E2 & _). congruence.
  Qed.

  Lemma ov_sym s s' : ov_w s s' == ov_w s' s.
  Proof.
    unfold ov_w. rewrite qsum_swap. apply qsum_map_ext. intros c' _. apply qsum_map_ext. intros c _.
    rewrite (pair_ind_swap_eq s s' c c').
    destruct (pair_ind s' s c' c) eqn:E1; [|reflexivity].
    apply pair_ind_swap in E1. destruct E1 as (_ & ->). reflexivity.
  Qed.

  Lemma ov_anti s s' : ov_f s s' == - ov_f s' s.
  Proof.
    unfold ov_f. rewrite qsum_swap.
    rewrite <- (Qmult_1_l (qsum _)) at 1.
    assert (Hneg : forall q, - q == (-1) * q) by (intros; ring). rewrite Hneg. clear Hneg.
    rewrite <- !qsum_map_scal. apply qsum_map_ext. intros c' _.
    rewrite <- !qsum_map_scal. apply qsum_map_ext. intros c _.
    rewrite (pair_ind_swap_eq s s' c c').
    destruct (pair_ind s' s c' c) eqn:E1; [|ring].
    apply pair_ind_swap in E1. destruct E1 as (_ & ->). unfold Qdiv. ring.
  Qed.

  Lemma ov_nonneg s s' : 0 <= ov_w s s'.
  Proof.
    unfold ov_w. apply qsum_nonneg. intros q Hq. apply in_map_iff in Hq. destruct Hq as (c & <- & Hc).
    apply qsum_nonneg. intros q Hq. apply in_map_iff in Hq. destruct Hq as (c' & <- & Hc').
    destruct (pair_ind s s' c c'); [|lra].
    apply Qinv_le_0_compat. pose proof (nh_pos c Hc). lra.
  Qed.

  Lemma ov_inner_nonneg s s' c : In c E ->
    0 <= qsum (map (fun c' => if pair_ind s s' c c' then / nh E (e_head c) else 0) E).
  Proof.
    intros Hc. apply qsum_nonneg. intros q Hq. apply in_map_iff in Hq. destruct Hq as (c' & <- & Hc').
    destruct (pair_ind s s' c c'); [|lra].
    apply Qinv_le_0_compat. pose proof (nh_pos c Hc). lra.
  Qed.

  Lemma ov_supp s s' : ov_w s s' == 0 -> ov_f s s' == 0.
  Proof.
    intros Hz. unfold ov_f. apply qsum_map_zero. intros c Hc. apply qsum_map_zero. intros c' Hc'.
    destruct (pair_ind s s' c c') eqn:E1; [|reflexivity]. exfalso.
    unfold ov_w in Hz.
    pose proof (qsum_map_nonneg_zero _ E (ov_inner_nonneg s s') Hz c Hc) as H1.
    cbv beta in H1.
    assert (H2 : (if pair_ind s s' c c' then / nh E (e_head c) else 0) == 0).
    { apply (qsum_map_nonneg_zero (fun c'0 => if pair_ind s s' c c'0 then / nh E (e_head c) else 0) E);
        [|exact H1|exact Hc'].
      intros b _. destruct (pair_ind s s' c b); [|lra].
      apply Qinv_le_0_compat. pose proof (nh_pos c Hc). lra. }
    rewrite E1 in H2. pose proof (nh_pos c Hc) as Hp.
    assert (Hq : 0 < / nh E (e_head c)) by (apply Qinv_lt_0_compat; exact Hp). lra.
  Qed.

  Lemma ov_ok : lap_ok ov_w ov_f.
  Proof. constructor; [exact ov_sym|exact ov_nonneg|exact ov_anti|exact ov_supp]. Qed.

  (** a deviation is the mean of the differences to the other entries of its level *)
  Lemma dev_as_differences x c : In c E ->
    dev E x c == qsum (map (fun c' =>
      if Z.eqb (e_head c') (e_head c)
      then ((x (e_series c) - x (e_series c')) + (e_val c - e_val c')) / nh E (e_head c)
      else 0) E).
  Proof.
    intros Hc. pose proof (nh_pos c Hc) as Hp.
    rewrite <- (qsum_filter_ind (fun c' => Z.eqb (e_head c') (e_head c))
                  (fun c' => ((x (e_series c) - x (e_series c')) + (e_val c - e_val c')) / nh E (e_head c)) E).
    fold (at_head E (e_head c)).
    rewrite (qsum_map_ext _ (fun c' => / nh E (e_head c) * (shifted x c + (-1) * shifted x c')))
      by (intros c' _; unfold shifted; field; lra).
    rewrite qsum_map_scal, qsum_map_plus, qsum_map_const, qsum_map_scal.
    unfold dev, head_mean. fold (nh E (e_head c)). field. lra.
  Qed.

  Lemma pick_series (V : nat -> Q) c' : In c' E ->
    V (e_series c') == qsum (map (fun s' => if Nat.eqb (e_series c') s' then V s' else 0) (ids E)).
  Proof.
    intros Hc'. symmetry.
    apply (pick_sum Nat.eqb Nateqb_spec' (ids E) (e_series c') V (ids_nodup E) (series_in E c' Hc')).
  Qed.

  (** The bridge: the residual sum of interval [s] is row [s] of the Laplacian system. *)
  Theorem resid_as_laplacian x s :
    resid_sum E x s
    == qsum (map (fun s' => ov_w s s' * (x s - x s')) (ids E)) - qsum (map (ov_f s) (ids E)).
  Proof.
    unfold resid_sum, of_series. rewrite qsum_filter_ind.
    transitivity (qsum (map (fun c => qsum (map (fun c' => qsum (map (fun s' =>
        if pair_ind s s' c c'
        then ((x s - x s') + (e_val c - e_val c')) / nh E (e_head c) else 0) (ids E))) E)) E)).
    { apply qsum_map_ext. intros c Hc. unfold pair_ind.
      destruct (Nat.eqb (e_series c) s) eqn:Es; cbn [andb].
      - apply Nat.eqb_eq in Es. rewrite (dev_as_differences x c Hc). rewrite Es.
        apply qsum_map_ext. intros c' Hc'.
        destruct (Z.eqb (e_head c') (e_head c)); cbn [andb].
        + apply (pick_series (fun s' => ((x s - x s') + (e_val c - e_val c')) / nh E (e_head c)) c' Hc').
        + symmetry. apply qsum_map_zero. intros; reflexivity.
      - symmetry. apply qsum_map_zero. intros c' _. apply qsum_map_zero. intros; reflexivity. }
    transitivity (qsum (map (fun s' => qsum (map (fun c => qsum (map (fun c' =>
        if pair_ind s s' c c'
        then ((x s - x s') + (e_val c - e_val c')) / nh E (e_head c) else 0) E)) E)) (ids E))).
    { rewrite <- (qsum_swap (fun c s' => qsum (map (fun c' =>
        if pair_ind s s' c c'
        then ((x s - x s') + (e_val c - e_val c')) / nh E (e_head c) else 0) E)) E (ids E)).
      apply qsum_map_ext. intros c _.
      apply (qsum_swap (fun c' s' => if pair_ind s s' c c'
        then ((x s - x s') + (e_val c - e_val c')) / nh E (e_head c) else 0) E (ids E)). }
    rewrite <- qsum_map_minus. apply qsum_map_ext. intros s' _.
    unfold ov_w, ov_f. set (k := x s - x s').
    transitivity (qsum (map (fun c =>
        k * qsum (map (fun c' => if pair_ind s s' c c' then / nh E (e_head c) else 0) E)
        - qsum (map (fun c' => if pair_ind s s' c c' then (e_val c' - e_val c) / nh E (e_head c) else 0) E)) E)).
    { apply qsum_map_ext. intros c Hc. pose proof (nh_pos c Hc) as Hp.
      rewrite <- qsum_map_scal, <- qsum_map_minus. apply qsum_map_ext. intros c' _.
      destruct (pair_ind s s' c c'); [field; lra|ring]. }
    rewrite qsum_map_minus, qsum_map_scal. ring.
  Qed.

  (** ** Existence *)
  Theorem zero_resid_exists : exists x, forall s, resid_sum E x s == 0.
  Proof.
    destruct (laplacian_solvable (ids E) (ids_nodup E) ov_w ov_f ov_ok) as (x & Hx).
    exists x. intros s. destruct (in_dec Nat.eq_dec s (ids E)) as [Hin|Hnot].
    - rewrite resid_as_laplacian. rewrite (Hx s Hin). ring.
    - unfold resid_sum. assert (of_series E s = []) as ->; [|reflexivity].
      destruct (of_series E s) as [|c t] eqn:Es; [reflexivity|]. exfalso. apply Hnot.
      assert (Hc : In c (of_series E s)) by (rewrite Es; left; reflexivity).
      apply of_series_in in Hc. destruct Hc as (Hc & <-). apply series_in. exact Hc.
  Qed.

  Theorem minimiser_exists :
    exists x, (forall s, resid_sum E x s == 0) /\ (forall y, objective E x <= objective E y).
  Proof.
    destruct zero_resid_exists as (x & Hx). exists x. split; [exact Hx|].
    apply zero_resid_minimises. intros s _. apply Hx.
  Qed.

  (** the reference convention of the code: some minimiser vanishes at any chosen interval *)
  Theorem minimiser_exists_pinned (ref : nat) :
    exists x, x ref == 0 /\ (forall s, resid_sum E x s == 0) /\
              (forall y, objective E x <= objective E y).
  Proof.
    destruct zero_resid_exists as (x & Hx).
    exists (fun s => x s + (- x ref)). split; [ring|].
    assert (Hres : forall s, resid_sum E (fun s0 => x s0 + (- x ref)) s == 0).
    { intros s. rewrite (resid_shift_invariant E x (fun s0 => x s0 + (- x ref)) (- x ref) s)
        by (intros; reflexivity). apply Hx. }
    split; [exact Hres|]. apply zero_resid_minimises. intros s _. apply Hres.
  Qed.

  (** ** Existence and uniqueness together, on a connected overlap graph *)
  Theorem minimiser_exists_unique :
    connected E ->
    exists x, (forall s, resid_sum E x s == 0) /\
              (forall y, objective E x <= objective E y) /\
              (forall y, (forall z, objective E y <= objective E z) ->
                 forall s s', In s (ids E) -> In s' (ids E) -> y s - x s == y s' - x s').
  Proof.
    intros Hconn. destruct minimiser_exists as (x & Hres & Hmin). exists x.
    split; [exact Hres|]. split; [exact Hmin|].
    intros y Hy. apply (minimisers_differ_by_shift E x y Hconn (fun s _ => Hres s)).
    pose proof (Hmin y). pose proof (Hy x). lra.
  Qed.
End Entries.
