(** Link between the model of `spowtd load` (Model/Load.v) and the model of the
    `spowtd classify` command (Model/ClassifyCommand.v).

    [stretches_of_load fr fz L] = the list of stretches that classify.py reads
    from the tables [L] written by load:

      SELECT DISTINCT data_interval FROM grid_time
      WHERE data_interval IS NOT NULL ORDER BY data_interval          -- [labels_of]

    and, for each label k (both passes issue the same join),

      SELECT water_level.epoch, zeta_mm, rainfall_intensity_mm_h
      FROM grid_time
      JOIN rainfall_intensity ON rainfall_intensity.from_epoch = grid_time.epoch
                             AND grid_time.data_interval = k
      JOIN water_level ON rainfall_intensity.from_epoch = water_level.epoch
      ORDER BY from_epoch                                              -- [join_rows]

    The join is written as the nested loop it is (every grid_time row with label
    k x every rainfall row starting there x every water-level row at that
    instant), in the order of the grid_time rows.  That this order IS the order
    of `ORDER BY from_epoch`, with no two rows for one instant, is part of the
    theorem (the epochs of a stretch are strictly increasing), not of the
    definition.  harness/dataset.py `stretches(db)` computes the same lists.

    What is abstracted: Load.v carries values as exact rationals Q, the
    [stretch] record of ClassifyCommand.v as binary64 floats.  The two
    functions [fr], [fz : Q -> float] (how a stored rainfall intensity / level
    is read back as a float) are ARBITRARY: every statement below is
    universally quantified over them.  Nothing about the values is claimed
    (in particular not that the levels are finite: `load` does not guarantee
    it); the structure - labels, epochs, one rain value and one level per
    epoch - is derived in full, i.e. the whole predicate [loaded_ok]. *)
From Spowtd Require Import Model.Load Proofs.LoadStage Proofs.LoadGrid Proofs.LoadLevel Proofs.LoadSpec.
From Spowtd Require Import Model.ClassifyCommand Proofs.ClassifyCommandSpec.
From Coq Require Import Lia Sorted QArith PrimFloat.
Local Open Scope Z_scope.

(** * The stretches classify reads *)

Definition label_is (k : Z) (o : option Z) : bool :=
  match o with Some k' => k' =? k | None => false end.

(** INSERT of one label into the sorted list of distinct labels *)
Fixpoint ins_label (k : Z) (l : list Z) : list Z :=
  match l with
  | [] => [k]
  | h :: t => if k <? h then k :: l else if k =? h then l else h :: ins_label k t
  end.

(** SELECT DISTINCT data_interval FROM grid_time WHERE data_interval IS NOT NULL
    ORDER BY data_interval *)
Definition labels_of (L : loaded) : list Z :=
  fold_right ins_label []
    (flat_map (fun gr : Z * option Z => match snd gr with Some k => [k] | None => [] end) (ld_grid L)).

(** ... JOIN water_level ON rainfall_intensity.from_epoch = water_level.epoch:
    rows (water_level.epoch, rainfall_intensity_mm_h, zeta_mm) *)
Definition join_wl (wlt : list row) (rr : step_row) : list (Z * Q * Q) :=
  flat_map (fun wr : row => if fst wr =? fst (fst rr) then [(fst wr, snd rr, snd wr)] else []) wlt.

(** ... JOIN rainfall_intensity ON rainfall_intensity.from_epoch = grid_time.epoch *)
Definition join_rain (raint : list step_row) (wlt : list row) (e : Z) : list (Z * Q * Q) :=
  flat_map (fun rr : step_row => if fst (fst rr) =? e then join_wl wlt rr else []) raint.

(** FROM grid_time ... AND grid_time.data_interval = k *)
Definition join_grid (grid : list (Z * option Z)) (raint : list step_row) (wlt : list row) (k : Z)
  : list (Z * Q * Q) :=
  flat_map (fun gr : Z * option Z =>
              if label_is k (snd gr) then join_rain raint wlt (fst gr) else []) grid.

Definition join_rows (L : loaded) (k : Z) : list (Z * Q * Q) :=
  join_grid (ld_grid L) (ld_rain L) (ld_wl L) k.

Definition ep3 (x : Z * Q * Q) : Z := fst (fst x).

Section Link.
(** how a stored REAL is read back as a binary64 value: arbitrary *)
Variables fr fz : Q -> float.

Definition stretch_of_rows (k : Z) (rows : list (Z * Q * Q)) : stretch :=
  {| s_label := k;
     s_epochs := map ep3 rows;
     s_rain := map (fun x : Z * Q * Q => fr (snd (fst x))) rows;
     s_zeta := map (fun x : Z * Q * Q => fz (snd x)) rows |}.

Definition stretches_of_load (L : loaded) : list stretch :=
  map (fun k => stretch_of_rows k (join_rows L k)) (labels_of L).

End Link.

(** * Lists *)

Lemma incr_increasing : forall l, incr l -> increasing l = true.
Proof.
  induction l as [|a l IH]; intros H; [reflexivity|].
  destruct l as [|b t]; [reflexivity|].
  destruct (incr_cons_inv _ _ H) as [H1 H2]. cbn [increasing].
  apply andb_true_iff. split; [|apply IH; assumption].
  apply Z.ltb_lt. inversion H2; assumption.
Qed.

Lemma incr_app : forall l1 l2, incr l1 -> incr l2 ->
  (forall x y, In x l1 -> In y l2 -> x < y) -> incr (l1 ++ l2).
Proof.
  induction l1 as [|a l1 IH]; intros l2 H1 H2 Hc; [assumption|].
  destruct (incr_cons_inv _ _ H1) as [Ha Hf]. simpl. apply incr_cons.
  - apply IH; [assumption|assumption|]. intros x y Hx Hy. apply Hc; [right|]; assumption.
  - apply Forall_app. split; [assumption|]. apply Forall_forall. intros y Hy.
    apply Hc; [left; reflexivity|assumption].
Qed.

Lemma incr_flat_map : forall (E : Z -> list Z) ks,
  (forall k, incr (E k)) -> incr ks ->
  (forall k k' t t', k < k' -> In t (E k) -> In t' (E k') -> t < t') ->
  incr (flat_map E ks).
Proof.
  intros E ks HE. induction ks as [|k ks IH]; intros Hs Hc; [constructor|].
  destruct (incr_cons_inv _ _ Hs) as [Hs' Hf]. simpl. apply incr_app.
  - apply HE.
  - apply IH; assumption.
  - intros x y Hx Hy. apply in_flat_map in Hy. destruct Hy as (k' & Hk' & Hy).
    rewrite Forall_forall in Hf. apply (Hc k k'); [apply Hf; assumption|assumption|assumption].
Qed.

Lemma flat_map_map_l : forall {A B C} (f : B -> list C) (g : A -> B) l,
  flat_map f (map g l) = flat_map (fun x => f (g x)) l.
Proof. intros A B C f g l. induction l as [|a l IH]; simpl; [reflexivity|]. rewrite IH. reflexivity. Qed.

Definition one_if (b : bool) (e : Z) : list Z := if b then [e] else [].

Lemma filter_eq_key : forall l f, NoDup l -> filter (fun e => e =? f) l = one_if (mem_Z f l) f.
Proof.
  induction l as [|x t IH]; intros f Hn; [reflexivity|].
  inversion Hn as [|? ? Hx Ht]; subst. simpl. rewrite (IH f Ht).
  destruct (x =? f) eqn:E.
  - apply Z.eqb_eq in E. subst x. rewrite Z.eqb_refl. simpl.
    destruct (mem_Z f t) eqn:M; [|reflexivity]. apply mem_Z_In in M. contradiction.
  - rewrite Z.eqb_sym, E. reflexivity.
Qed.

Lemma flat_map_eq_key : forall (g : Z -> list Z) l e, NoDup l ->
  flat_map (fun f => if f =? e then g f else []) l = if mem_Z e l then g e else [].
Proof.
  intros g. induction l as [|x t IH]; intros e Hn; [reflexivity|].
  inversion Hn as [|? ? Hx Ht]; subst. simpl. rewrite (IH e Ht).
  destruct (x =? e) eqn:E.
  - apply Z.eqb_eq in E. subst x. rewrite Z.eqb_refl. simpl.
    destruct (mem_Z e t) eqn:M; [|apply app_nil_r]. apply mem_Z_In in M. contradiction.
  - rewrite Z.eqb_sym, E. reflexivity.
Qed.

(** * The join, in closed form (any tables with keyed rainfall and water level) *)

Lemma join_wl_epochs : forall wlt rr,
  map ep3 (join_wl wlt rr) = filter (fun e => e =? fst (fst rr)) (keys wlt).
Proof.
  intros wlt rr. unfold join_wl. induction wlt as [|w t IH]; [reflexivity|].
  simpl. rewrite map_app, IH. destruct (fst w =? fst (fst rr)); reflexivity.
Qed.

Lemma join_rain_epochs : forall raint wlt e,
  NoDup (map (fun r : step_row => fst (fst r)) raint) -> NoDup (keys wlt) ->
  map ep3 (join_rain raint wlt e)
  = one_if (mem_Z e (map (fun r : step_row => fst (fst r)) raint) && mem_Z e (keys wlt)) e.
Proof.
  intros raint wlt e Hr Hw.
  assert (E : map ep3 (join_rain raint wlt e)
              = flat_map (fun f => if f =? e then one_if (mem_Z f (keys wlt)) f else [])
                         (map (fun r : step_row => fst (fst r)) raint)).
  { unfold join_rain. clear Hr. induction raint as [|r t IH]; [reflexivity|].
    simpl. rewrite map_app, IH. f_equal.
    destruct (fst (fst r) =? e); [|reflexivity].
    rewrite join_wl_epochs. apply filter_eq_key. assumption. }
  rewrite E, flat_map_eq_key by assumption.
  destruct (mem_Z e (map (fun r : step_row => fst (fst r)) raint)); reflexivity.
Qed.

Lemma join_grid_epochs : forall grid raint wlt k,
  NoDup (map (fun r : step_row => fst (fst r)) raint) -> NoDup (keys wlt) ->
  map ep3 (join_grid grid raint wlt k)
  = map fst (filter (fun gr : Z * option Z =>
                       label_is k (snd gr)
                       && (mem_Z (fst gr) (map (fun r : step_row => fst (fst r)) raint)
                           && mem_Z (fst gr) (keys wlt))) grid).
Proof.
  intros grid raint wlt k Hr Hw. unfold join_grid.
  induction grid as [|gr t IH]; [reflexivity|].
  simpl. rewrite map_app, IH. destruct (label_is k (snd gr)); simpl; [|reflexivity].
  rewrite join_rain_epochs by assumption.
  destruct (mem_Z (fst gr) (map (fun r : step_row => fst (fst r)) raint) && mem_Z (fst gr) (keys wlt));
    reflexivity.
Qed.

Lemma map_fst_filter_graph : forall (lab : Z -> option Z) (p : Z * option Z -> bool) G,
  map fst (filter p (map (fun t => (t, lab t)) G)) = filter (fun t => p (t, lab t)) G.
Proof.
  intros lab p G. induction G as [|t G IH]; [reflexivity|].
  simpl. destruct (p (t, lab t)); simpl; rewrite IH; reflexivity.
Qed.

(** * A convex selection of an arithmetic progression is a chain of steps *)

Lemma step_chain_filter_arith : forall (p : Z -> bool) d, 0 < d -> forall n a,
  (forall x y z, In x (arith a d n) -> In y (arith a d n) -> In z (arith a d n) ->
                 x < y < z -> p x = true -> p z = true -> p y = true) ->
  step_chain d (filter p (arith a d n)) = true.
Proof.
  intros p d Hd. induction n as [|n IH]; intros a Hc; [reflexivity|].
  assert (IHn : step_chain d (filter p (arith (a + d) d n)) = true).
  { apply IH. intros x y z Hx Hy Hz. apply Hc; right; assumption. }
  cbn [arith filter]. destruct (p a) eqn:Pa; [|exact IHn].
  destruct n as [|m]; [reflexivity|].
  cbn [arith filter] in IHn |- *. destruct (p (a + d)) eqn:Pb.
  - cbn [step_chain]. rewrite Z.eqb_refl. exact IHn.
  - destruct (filter p (arith (a + d + d) d m)) as [|z rest] eqn:Ef; [reflexivity|]. exfalso.
    assert (Hz : In z (filter p (arith (a + d + d) d m))) by (rewrite Ef; left; reflexivity).
    apply filter_In in Hz. destruct Hz as [Hz Pz].
    assert (Hlt : a + d < z).
    { apply arith_In in Hz. destruct Hz as (j & Hj & ->). nia. }
    assert (Pb' : p (a + d) = true).
    { apply (Hc a (a + d) z).
      - left; reflexivity.
      - right; left; reflexivity.
      - right; right; assumption.
      - lia.
      - assumption.
      - assumption. }
    congruence.
Qed.

(** * Labels *)

Lemma ins_label_spec : forall k l, incr l ->
  incr (ins_label k l) /\ forall x, In x (ins_label k l) <-> x = k \/ In x l.
Proof.
  intros k. induction l as [|h t IH]; intros Hs.
  - simpl. split; [apply incr_cons; constructor|]. intros x. split.
    + intros [<-|[]]. left; reflexivity.
    + intros [->|[]]. left; reflexivity.
  - simpl. destruct (k <? h) eqn:E1.
    + apply Z.ltb_lt in E1. split.
      * apply incr_cons; [assumption|]. constructor; [assumption|].
        destruct (incr_cons_inv _ _ Hs) as [_ Hf]. eapply Forall_impl; [|exact Hf].
        intros y Hy. simpl in Hy. lia.
      * intros x. split.
        -- intros [<-|H]; [left; reflexivity|right; exact H].
        -- intros [->|H]; [left; reflexivity|right; exact H].
    + apply Z.ltb_ge in E1. destruct (k =? h) eqn:E2.
      * apply Z.eqb_eq in E2. subst h. split; [assumption|]. intros x. split.
        -- intros H; right; exact H.
        -- intros [->|H]; [left; reflexivity|exact H].
      * apply Z.eqb_neq in E2. destruct (incr_cons_inv _ _ Hs) as [Ht Hf].
        destruct (IH Ht) as [I1 I2]. split.
        -- apply incr_cons; [assumption|]. apply Forall_forall. intros x Hx.
           apply I2 in Hx. destruct Hx as [->|Hx]; [lia|].
           rewrite Forall_forall in Hf. apply Hf; assumption.
        -- intros x. simpl. rewrite I2. tauto.
Qed.

Lemma fold_ins_label_spec : forall raw,
  incr (fold_right ins_label [] raw) /\ forall x, In x (fold_right ins_label [] raw) <-> In x raw.
Proof.
  induction raw as [|k raw [I1 I2]]; [split; [constructor|tauto]|].
  simpl. destruct (ins_label_spec k _ I1) as [J1 J2]. split; [assumption|].
  intros x. rewrite J2, I2. split; intros [H|H]; auto.
Qed.

Lemma labels_of_spec : forall L,
  incr (labels_of L) /\ forall k, In k (labels_of L) <-> exists e, In (e, Some k) (ld_grid L).
Proof.
  intros L. unfold labels_of. destruct (fold_ins_label_spec
    (flat_map (fun gr : Z * option Z => match snd gr with Some k => [k] | None => [] end) (ld_grid L)))
    as [I1 I2].
  split; [assumption|]. intros k. rewrite I2, in_flat_map. split.
  - intros ([e [k'|]] & Hin & Hk); simpl in Hk; [|contradiction].
    destruct Hk as [<-|[]]. exists e. assumption.
  - intros (e & Hin). exists (e, Some k). split; [assumption|]. left; reflexivity.
Qed.

(** [label_spec] in terms of its two ingredients *)
Lemma label_spec_some : forall gaps t k, label_spec gaps t = Some k ->
  in_gapb gaps t = false /\ k = 1 + n_before gaps t.
Proof.
  intros gaps t k H. unfold label_spec in H. destruct (in_gapb gaps t); [discriminate|].
  split; [reflexivity|congruence].
Qed.

Lemma n_before_mono : forall gaps t t', t <= t' -> n_before gaps t <= n_before gaps t'.
Proof.
  intros gaps t t' Hle. unfold n_before.
  destruct (filter_length_le (fun p : Z * Z => snd p <=? t) (fun p => snd p <=? t') gaps) as [Hl _].
  { intros x _ Hx. apply Z.leb_le in Hx. apply Z.leb_le. lia. }
  lia.
Qed.

(** labels do not decrease along the grid *)
Lemma label_spec_mono : forall gaps t t' k k', t <= t' ->
  label_spec gaps t = Some k -> label_spec gaps t' = Some k' -> k <= k'.
Proof.
  intros gaps t t' k k' Hle H1 H2.
  destruct (label_spec_some _ _ _ H1) as [_ ->]. destruct (label_spec_some _ _ _ H2) as [_ ->].
  pose proof (n_before_mono gaps t t' Hle). lia.
Qed.

(** the instants carrying one label form an interval of the grid *)
Lemma label_spec_convex : forall gaps lo x y z k, chain lo gaps -> x < y < z ->
  label_spec gaps x = Some k -> label_spec gaps z = Some k -> label_spec gaps y = Some k.
Proof.
  intros gaps lo x y z k Hc Hxyz Hx Hz.
  pose proof (proj1 (label_spec_same gaps lo x z k k Hc ltac:(lia) Hx Hz) eq_refl) as Hno.
  destruct (label_spec_some _ _ _ Hx) as [Gx _]. destruct (label_spec_some _ _ _ Hz) as [Gz _].
  destruct (in_gapb gaps y) eqn:Gy.
  - exfalso. apply in_gapb_true in Gy. destruct Gy as (u & v & Hin & Huv).
    apply Hno. exists u, v. split; [assumption|].
    split.
    + destruct (Z_le_gt_dec x u) as [|Hgt]; [assumption|]. exfalso.
      assert (C : in_gapb gaps x = true) by (apply in_gapb_true; exists u, v; split; [assumption|lia]).
      congruence.
    + destruct (Z_le_gt_dec v z) as [|Hgt]; [assumption|]. exfalso.
      assert (C : in_gapb gaps z = true) by (apply in_gapb_true; exists u, v; split; [assumption|lia]).
      congruence.
  - assert (Hy : label_spec gaps y = Some (1 + n_before gaps y)) by (unfold label_spec; rewrite Gy; reflexivity).
    rewrite Hy. f_equal. symmetry.
    apply (label_spec_same gaps lo x y k (1 + n_before gaps y) Hc ltac:(lia) Hx Hy).
    intros (u & v & Hin & Hu & Hv). apply Hno. exists u, v. split; [assumption|]. lia.
Qed.

(** * The stretches of a loaded dataset, in closed form *)

Definition sel (lab : Z -> option Z) (R : list Z) (k : Z) (t : Z) : bool :=
  label_is k (lab t) && (mem_Z t R && mem_Z t (filter (fun t => is_some (lab t)) R)).

Lemma label_is_true : forall k o, label_is k o = true <-> o = Some k.
Proof.
  intros k [k'|]; simpl; [|split; discriminate].
  rewrite Z.eqb_eq. split; congruence.
Qed.

Lemma sel_true : forall lab R k t, sel lab R k t = true <-> lab t = Some k /\ In t R.
Proof.
  intros lab R k t. unfold sel. rewrite !andb_true_iff, label_is_true, !mem_Z_In, filter_In.
  split; [tauto|]. intros [H1 H2]. repeat split; try assumption. rewrite H1. reflexivity.
Qed.

Lemma stretch_epochs_closed : forall tz rain et wl L rain_t et_t a rest mn a0 n k,
  load_facts tz rain et wl L rain_t et_t a rest mn a0 n ->
  map ep3 (join_rows L k)
  = filter (sel (label_spec (wl_gaps (keys (a :: rest)) mn)) (arith a0 (ld_step L) n) k)
           (arith a0 (ld_step L) (S n)).
Proof.
  intros tz rain et wl L rain_t et_t a rest mn a0 n k F.
  pose proof (grid_epochs_arith _ _ _ _ _ _ _ _ _ _ _ _ F) as HG.
  assert (HR : map (fun r : step_row => fst (fst r)) (ld_rain L) = arith a0 (ld_step L) n).
  { destruct F as [f_rain f_et f_wl f_n f_step f_g f_min f_et_all f_grid f_rain_g f_et_g f_wl_g f_tz f_rs f_es f_ws]. destruct (stage_ok _ _ f_rain) as (Sr & _ & _). rewrite f_rain_g.
    apply on_steps_from_epochs; [apply arith_incr; assumption|assumption|].
    intros e He. rewrite <- f_g in He. apply (grid_rain_epochs_spec rain_t (a :: rest) Sr) in He. tauto. }
  destruct F as [f_rain f_et f_wl f_n f_step f_g f_min f_et_all f_grid f_rain_g f_et_g f_wl_g f_tz f_rs f_es f_ws].
  assert (HW : keys (ld_wl L) = filter (fun t => is_some (label_spec (wl_gaps (keys (a :: rest)) mn) t))
                                       (arith a0 (ld_step L) n)).
  { rewrite f_wl_g. apply wl_keys_filter. }
  assert (IR : incr (arith a0 (ld_step L) n)) by (apply arith_incr; assumption).
  unfold join_rows. rewrite join_grid_epochs.
  - rewrite HR, HW, f_grid. rewrite map_fst_filter_graph. reflexivity.
  - rewrite HR. apply incr_NoDup. assumption.
  - rewrite HW. apply incr_NoDup. apply incr_filter. assumption.
Qed.

(** * The structure `load` guarantees *)

Section Structure.
Variables fr fz : Q -> float.

Lemma all_epochs_stretches : forall L,
  all_epochs (stretches_of_load fr fz L) = flat_map (fun k => map ep3 (join_rows L k)) (labels_of L).
Proof. intros L. unfold all_epochs, stretches_of_load. rewrite flat_map_map_l. reflexivity. Qed.

Lemma labels_stretches : forall L, map s_label (stretches_of_load fr fz L) = labels_of L.
Proof. intros L. unfold stretches_of_load. rewrite map_map. apply map_id. Qed.

Theorem load_then_classify_structure : forall pop tz rain et wl L,
  load_model pop tz rain et wl = Ok L ->
  loaded_ok (ld_step L) (stretches_of_load fr fz L) = true.
Proof.
  intros pop tz rain et wl L E.
  destruct (load_ok_facts _ _ _ _ _ _ E) as (_ & rain_t & et_t & a & rest & mn & a0 & n & F).
  pose proof (fun k => stretch_epochs_closed _ _ _ _ _ _ _ _ _ _ _ _ k F) as HE.
  pose proof F as F'. destruct F' as [f_rain f_et f_wl f_n f_step f_g f_min f_et_all f_grid f_rain_g f_et_g f_wl_g f_tz f_rs f_es f_ws].
  destruct (stage_ok _ _ f_wl) as (Sw & _ & _).
  destruct (wl_gaps_chain (keys (a :: rest)) mn Sw) as [lo Hc].
  set (gaps := wl_gaps (keys (a :: rest)) mn) in *.
  assert (IG : incr (arith a0 (ld_step L) (S n))) by (apply arith_incr; assumption).
  unfold loaded_ok. rewrite !andb_true_iff. repeat split.
  - apply Z.ltb_lt. assumption.
  - apply forallb_forall. intros s Hs. unfold stretches_of_load in Hs. apply in_map_iff in Hs.
    destruct Hs as (k & <- & _). unfold stretch_ok, stretch_of_rows. cbn [s_epochs s_rain s_zeta].
    rewrite !map_length, Nat.eqb_refl, !andb_true_r. rewrite HE.
    apply step_chain_filter_arith; [assumption|].
    intros x y z Hx Hy Hz Hxyz Px Pz. apply sel_true in Px, Pz. apply sel_true.
    destruct Px as [Lx Rx], Pz as [Lz Rz]. split.
    + apply (label_spec_convex gaps lo x y z k); assumption.
    + apply arith_In in Hy, Rz. apply arith_In.
      destruct Hy as (j & Hj & Ey), Rz as (j' & Hj' & Ez). exists j. split; [|assumption]. nia.
  - rewrite all_epochs_stretches. apply incr_increasing.
    apply incr_flat_map.
    + intros k. rewrite HE. apply incr_filter. assumption.
    + apply labels_of_spec.
    + intros k k' t t' Hk Ht Ht'. rewrite HE in Ht, Ht'. apply filter_In in Ht, Ht'.
      destruct Ht as [_ Pt], Ht' as [_ Pt']. apply sel_true in Pt, Pt'.
      destruct (Z_lt_le_dec t t') as [|Hge]; [assumption|]. exfalso.
      pose proof (label_spec_mono gaps t' t k' k Hge (proj1 Pt') (proj1 Pt)). lia.
  - rewrite labels_stretches. apply incr_increasing. apply labels_of_spec.
Qed.

(** The epochs of the stretch with label k are exactly the starts of grid steps
    (every grid instant but the closing one) that carry label k. *)
Theorem stretch_epochs_char : forall pop tz rain et wl L k e,
  load_model pop tz rain et wl = Ok L ->
  (In e (map ep3 (join_rows L k)) <->
   In (e, Some k) (ld_grid L) /\ In e (removelast (grid_epochs L))).
Proof.
  intros pop tz rain et wl L k e E.
  destruct (load_ok_facts _ _ _ _ _ _ E) as (_ & rain_t & et_t & a & rest & mn & a0 & n & F).
  rewrite (stretch_epochs_closed _ _ _ _ _ _ _ _ _ _ _ _ k F).
  rewrite (grid_row_label _ _ _ _ _ _ _ _ _ _ _ _ e (Some k) F).
  rewrite (grid_epochs_arith _ _ _ _ _ _ _ _ _ _ _ _ F), arith_removelast.
  rewrite filter_In, sel_true. split.
  - intros (H1 & H2 & H3). repeat split; try assumption. symmetry; assumption.
  - intros ((H1 & H2) & H3). repeat split; try assumption. symmetry; assumption.
Qed.

(** Load, then classify: on every input accepted by the model of `load`, for all
    thresholds that are not NaN and all pop orders, the model of the `classify`
    command on the loaded tables commits - provided the loaded dataset has at
    least one data interval and finite levels (the two known findings: `load`
    guarantees neither). *)
Corollary load_then_classify_total : forall pop tz rain et wl L thr_s thr_j scheds,
  load_model pop tz rain et wl = Ok L ->
  stretches_of_load fr fz L <> [] -> levels_finite (stretches_of_load fr fz L) = true ->
  PrimFloat.is_nan thr_s = false -> PrimFloat.is_nan thr_j = false ->
  exists rows, classify_command (ld_step L) thr_s thr_j (stretches_of_load fr fz L) scheds = Ok rows.
Proof.
  intros pop tz rain et wl L thr_s thr_j scheds E Hne Hfin Hn1 Hn2.
  apply command_total_ok; try assumption.
  apply (load_then_classify_structure _ _ _ _ _ _ E).
Qed.

End Structure.
