(** The water-level grid (Model/ZetaGrid.v): which integers it contains, that
    it contains every level that regrid can report for ordinates drawn from the
    water-level table, and that it covers the observed range. *)
From Spowtd Require Import Model.ZetaGrid Proofs.RegridSpec Proofs.RegridFloatSpec Proofs.RegridFlocq.
From Coq Require Import Lia Lqa.

Lemma floor_le_iff (Y : Q) (k : Z) : (Qfloor Y <= k)%Z <-> Y < inject_Z (k + 1).
Proof.
  split; intros H.
  - eapply Qlt_le_trans; [apply Qlt_floor|]. rewrite <- Zle_Qle. lia.
  - assert (H1 : (Qfloor Y < k + 1)%Z).
    { apply Z.nle_gt. intros C. apply (Qlt_not_le _ _ H).
      eapply Qle_trans; [|apply Qfloor_le]. rewrite <- Zle_Qle. exact C. }
    lia.
Qed.

Lemma le_floor_of_le (Y : Q) (k : Z) : Y <= inject_Z k -> (Qfloor Y <= k)%Z.
Proof.
  intros H. rewrite <- (Qfloor_Z k). apply Qfloor_resp_le, H.
Qed.

(** Contents of the grid built from two bounds. *)
Lemma grid_of_bounds_spec zmin zmax step g :
  grid_of_bounds zmin zmax step = Ok g ->
  exists lo hi, float_to_Q (PrimFloat.div zmin step) = Some lo /\
                float_to_Q (PrimFloat.div zmax step) = Some hi /\
                forall k, In k g <-> (Qfloor lo <= k < Qceiling hi)%Z.
Proof.
  unfold grid_of_bounds.
  destruct (float_to_Q (PrimFloat.div zmin step)) as [lo|]; [|discriminate].
  destruct (float_to_Q (PrimFloat.div zmax step)) as [hi|]; [|discriminate].
  intros H. inversion H; subst. exists lo, hi. split; [reflexivity|]. split; [reflexivity|].
  intros k. apply in_zrange.
Qed.

(** arg_min / arg_max return a member that bounds all finite members. *)
Lemma arg_min_spec l : forall best bq,
  float_to_Q best = Some bq ->
  exists m mq, arg_min l best bq = m /\ float_to_Q m = Some mq /\
    (m = best \/ In m l) /\ mq <= bq /\
    forall z zq, In z l -> float_to_Q z = Some zq -> mq <= zq.
Proof.
  induction l as [|f t IH]; intros best bq Hb; simpl.
  - exists best, bq. split; [reflexivity|]. split; [exact Hb|]. split; [left; reflexivity|].
    split; [apply Qle_refl|]. intros z zq [].
  - destruct (float_to_Q f) as [q|] eqn:Ef.
    + destruct (Qle_bool bq q) eqn:Ec.
      * apply Qle_bool_iff in Ec.
        destruct (IH best bq Hb) as (m & mq & Hm & Hmq & Hin & Hle & Hall).
        exists m, mq. split; [exact Hm|]. split; [exact Hmq|]. split; [tauto|]. split; [exact Hle|].
        intros z zq [->|Hz] Hzq.
        -- rewrite Ef in Hzq. inversion Hzq; subst. lra.
        -- apply (Hall z zq Hz Hzq).
      * assert (Hlt : q < bq).
        { apply Qnot_le_lt. intros C. apply Qle_bool_iff in C. congruence. }
        destruct (IH f q Ef) as (m & mq & Hm & Hmq & Hin & Hle & Hall).
        exists m, mq. split; [exact Hm|]. split; [exact Hmq|]. split.
        { destruct Hin as [->|Hin]; right; [left; reflexivity|right; exact Hin]. }
        split; [lra|]. intros z zq [->|Hz] Hzq.
        -- rewrite Ef in Hzq. inversion Hzq; subst. exact Hle.
        -- apply (Hall z zq Hz Hzq).
    + destruct (IH best bq Hb) as (m & mq & Hm & Hmq & Hin & Hle & Hall).
      exists m, mq. split; [exact Hm|]. split; [exact Hmq|]. split; [tauto|]. split; [exact Hle|].
      intros z zq [->|Hz] Hzq; [congruence|]. apply (Hall z zq Hz Hzq).
Qed.

Lemma arg_max_spec l : forall best bq,
  float_to_Q best = Some bq ->
  exists m mq, arg_max l best bq = m /\ float_to_Q m = Some mq /\
    (m = best \/ In m l) /\ bq <= mq /\
    forall z zq, In z l -> float_to_Q z = Some zq -> zq <= mq.
Proof.
  induction l as [|f t IH]; intros best bq Hb; simpl.
  - exists best, bq. split; [reflexivity|]. split; [exact Hb|]. split; [left; reflexivity|].
    split; [apply Qle_refl|]. intros z zq [].
  - destruct (float_to_Q f) as [q|] eqn:Ef.
    + destruct (Qle_bool q bq) eqn:Ec.
      * apply Qle_bool_iff in Ec.
        destruct (IH best bq Hb) as (m & mq & Hm & Hmq & Hin & Hle & Hall).
        exists m, mq. split; [exact Hm|]. split; [exact Hmq|]. split; [tauto|]. split; [exact Hle|].
        intros z zq [->|Hz] Hzq.
        -- rewrite Ef in Hzq. inversion Hzq; subst. lra.
        -- apply (Hall z zq Hz Hzq).
      * assert (Hlt : bq < q).
        { apply Qnot_le_lt. intros C. apply Qle_bool_iff in C. congruence. }
        destruct (IH f q Ef) as (m & mq & Hm & Hmq & Hin & Hle & Hall).
        exists m, mq. split; [exact Hm|]. split; [exact Hmq|]. split.
        { destruct Hin as [->|Hin]; right; [left; reflexivity|right; exact Hin]. }
        split; [lra|]. intros z zq [->|Hz] Hzq.
        -- rewrite Ef in Hzq. inversion Hzq; subst. exact Hle.
        -- apply (Hall z zq Hz Hzq).
    + destruct (IH best bq Hb) as (m & mq & Hm & Hmq & Hin & Hle & Hall).
      exists m, mq. split; [exact Hm|]. split; [exact Hmq|]. split; [tauto|]. split; [exact Hle|].
      intros z zq [->|Hz] Hzq; [congruence|]. apply (Hall z zq Hz Hzq).
Qed.

(** The grid written by populate_zeta_grid: bounds lo = value of min/step,
    hi = value of max/step in binary64; every stored level's scaled value lies
    between them (division by a positive step is monotone); the grid is
    floor(lo) .. ceil(hi) - 1. *)
Lemma populate_zeta_grid_spec zetas step qs g :
  populate_zeta_grid zetas step = Ok g ->
  float_to_Q step = Some qs -> 0 < qs ->
  exists lo hi,
    (forall k, In k g <-> (Qfloor lo <= k < Qceiling hi)%Z) /\
    (forall z zq Y, In z zetas -> float_to_Q z = Some zq ->
                    float_to_Q (PrimFloat.div z step) = Some Y -> lo <= Y /\ Y <= hi) /\
    (exists zlo zhi, In zlo zetas /\ In zhi zetas /\
                     float_to_Q (PrimFloat.div zlo step) = Some lo /\
                     float_to_Q (PrimFloat.div zhi step) = Some hi).
Proof.
  unfold populate_zeta_grid. destruct zetas as [|z0 t]; [discriminate|].
  destruct (float_to_Q z0) as [q0|] eqn:E0; [|discriminate].
  intros Hg Hs Hpos.
  destruct (arg_min_spec t z0 q0 E0) as (zlo & qlo & Hlo & Eqlo & Hinlo & Hle0 & Hminall).
  destruct (arg_max_spec t z0 q0 E0) as (zhi & qhi & Hhi & Eqhi & Hinhi & Hge0 & Hmaxall).
  rewrite Hlo, Hhi in Hg.
  destruct (grid_of_bounds_spec _ _ _ _ Hg) as (lo & hi & Elo & Ehi & Hin).
  exists lo, hi. split; [exact Hin|]. split.
  - intros z zq Y Hz Ezq EY. split.
    + apply (div_mono_Q zlo z step qlo zq qs lo Y); try assumption.
      destruct Hz as [<-|Hz].
      * rewrite E0 in Ezq. inversion Ezq; subst. exact Hle0.
      * apply (Hminall z zq Hz Ezq).
    + apply (div_mono_Q z zhi step zq qhi qs Y hi); try assumption.
      destruct Hz as [<-|Hz].
      * rewrite E0 in Ezq. inversion Ezq; subst. exact Hge0.
      * apply (Hmaxall z zq Hz Ezq).
  - exists zlo, zhi. split; [destruct Hinlo as [->|H]; [left; reflexivity|right; exact H]|].
    split; [destruct Hinhi as [->|H]; [left; reflexivity|right; exact H]|]. auto.
Qed.

(** Every level that can be reported between two samples drawn from the
    water-level table is in the grid.  In particular a level equal to max/step
    is never reported (upper value excluded), which is why the grid may stop at
    ceil(max/step) - 1. *)
Lemma levels_in_grid zetas step qs g :
  populate_zeta_grid zetas step = Ok g ->
  float_to_Q step = Some qs -> 0 < qs ->
  forall z0 z1 q0 q1 Y0 Y1 k,
    In z0 zetas -> In z1 zetas ->
    float_to_Q z0 = Some q0 -> float_to_Q z1 = Some q1 ->
    float_to_Q (PrimFloat.div z0 step) = Some Y0 ->
    float_to_Q (PrimFloat.div z1 step) = Some Y1 ->
    between Y0 Y1 k -> In k g.
Proof.
  intros Hg Hs Hpos z0 z1 q0 q1 Y0 Y1 k Hz0 Hz1 E0 E1 EY0 EY1 Hb.
  destruct (populate_zeta_grid_spec _ _ _ _ Hg Hs Hpos) as (lo & hi & Hin & Hbnd & _).
  destruct (Hbnd z0 q0 Y0 Hz0 E0 EY0) as (A0 & B0).
  destruct (Hbnd z1 q1 Y1 Hz1 E1 EY1) as (A1 & B1).
  apply Hin. apply between_iff in Hb. split.
  - apply le_floor_of_le. destruct Hb as [(A & B)|(A & B)]; lra.
  - apply lt_ceil_iff. destruct Hb as [(A & B)|(A & B)]; lra.
Qed.

(** ... hence every level [regrid] yields for a series whose ordinates are
    water levels of the table. *)
Lemma regrid_levels_in_grid zetas step qs g x y items :
  populate_zeta_grid zetas step = Ok g ->
  float_to_Q step = Some qs -> 0 < qs ->
  forallb finiteb zetas = true ->
  (forall v, In v y -> In v zetas) ->
  regrid x y step = Ok items ->
  forall k xs, In (k, xs) items -> In k g.
Proof.
  intros Hg Hs Hpos Hfin Hsub Hr k xs Hin.
  destruct (regrid_ok _ _ _ _ Hr) as (pts & (HL1 & HL2 & Hpts) & ->).
  unfold regrid_Q in Hin. apply in_map_iff in Hin. destruct Hin as ((i, (k', xs')) & E & Hin).
  simpl in E. inversion E; subst k' xs'. clear E.
  apply in_regrid_tagged in Hin. destruct Hin as (p0 & p1 & H0 & H1 & Hb & _).
  assert (Hi1 : (S i < length pts)%nat) by (apply nth_error_Some; congruence).
  assert (Hget : forall j p, (j < length pts)%nat -> nth_error pts j = Some p ->
            exists yj qj, In yj zetas /\ float_to_Q yj = Some qj /\
                          float_to_Q (PrimFloat.div yj step) = Some (snd p)).
  { intros j p Hj Hp.
    destruct (nth_error x j) as [xj|] eqn:Ex; [|apply nth_error_None in Ex; lia].
    destruct (nth_error y j) as [yj|] eqn:Ey; [|apply nth_error_None in Ey; lia].
    destruct (Hpts j xj yj Ex Ey) as (Yj & EY & Hpj). rewrite Hp in Hpj. inversion Hpj; subst p.
    assert (Hyz : In yj zetas) by (apply Hsub; eapply nth_error_In, Ey).
    rewrite forallb_forall in Hfin. specialize (Hfin yj Hyz). unfold finiteb in Hfin.
    destruct (float_to_Q yj) as [qj|] eqn:Eq; [|discriminate].
    exists yj, qj. auto. }
  destruct (Hget i p0) as (y0 & q0 & Hz0 & E0 & EY0); [lia|exact H0|].
  destruct (Hget (S i) p1) as (y1 & q1 & Hz1 & E1 & EY1); [lia|exact H1|].
  eapply (levels_in_grid zetas step qs g Hg Hs Hpos y0 y1 q0 q1); eassumption.
Qed.

(** The grid covers the observed range: every integer level k with
    min/step <= k < max/step (scaled, binary64 quotients) is a grid level, and
    every sample lies in the hull of the grid cells, floor(lo) <= Y <= ceil(hi). *)
Lemma grid_covers zetas step qs g :
  populate_zeta_grid zetas step = Ok g ->
  float_to_Q step = Some qs -> 0 < qs ->
  exists lo hi,
    (forall k, lo <= inject_Z k -> inject_Z k < hi -> In k g) /\
    (forall z zq Y, In z zetas -> float_to_Q z = Some zq ->
       float_to_Q (PrimFloat.div z step) = Some Y ->
       inject_Z (Qfloor lo) <= Y /\ Y <= inject_Z (Qceiling hi)) /\
    (forall z zq Y, In z zetas -> float_to_Q z = Some zq ->
       float_to_Q (PrimFloat.div z step) = Some Y -> g <> [] ->
       exists k, In k g /\ inject_Z k <= Y /\ Y <= inject_Z (k + 1)).
Proof.
  intros Hg Hs Hpos.
  destruct (populate_zeta_grid_spec _ _ _ _ Hg Hs Hpos) as (lo & hi & Hin & Hbnd & _).
  exists lo, hi. split; [|split].
  - intros k A B. apply Hin. split; [apply le_floor_of_le, A|apply lt_ceil_iff, B].
  - intros z zq Y Hz Ez EY. destruct (Hbnd z zq Y Hz Ez EY) as (A & B). split.
    + eapply Qle_trans; [apply Qfloor_le|exact A].
    + eapply Qle_trans; [exact B|apply Qle_ceiling].
  - intros z zq Y Hz Ez EY Hne. destruct (Hbnd z zq Y Hz Ez EY) as (A & B).
    assert (Hlt : (Qfloor lo < Qceiling hi)%Z).
    { destruct g as [|k0 g']; [contradiction|]. assert (H0 : In k0 (k0 :: g')) by (left; reflexivity).
      apply Hin in H0. lia. }
    (* the cell of Y, clipped to the last cell when Y = hi is an integer *)
    destruct (Z_lt_le_dec (Qfloor Y) (Qceiling hi)) as [C|C].
    + exists (Qfloor Y). split; [|split].
      * apply Hin. split; [apply Qfloor_resp_le, A|exact C].
      * apply Qfloor_le.
      * apply Qlt_le_weak, Qlt_floor.
    + exists (Qceiling hi - 1)%Z. split; [|split].
      * apply Hin. lia.
      * assert (H1 : inject_Z (Qceiling hi) <= Y).
        { eapply Qle_trans; [|apply Qfloor_le]. rewrite <- Zle_Qle. exact C. }
        eapply Qle_trans; [|exact H1]. rewrite <- Zle_Qle. lia.
      * replace (Qceiling hi - 1 + 1)%Z with (Qceiling hi) by lia.
        eapply Qle_trans; [exact B|apply Qle_ceiling].
Qed.
