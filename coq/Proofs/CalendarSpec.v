(** Calendar arithmetic: days-from-civil and its inverse round-trip on every
    valid date of every year (one 400-year era checked exhaustively by
    vm_compute — a complete sweep of a finite domain — and lifted to all years by
    the proved 400-year periodicity); seconds <-> civil fields; text <-> fields. *)
From Spowtd Require Import Model.Calendar.
From Coq Require Import Lia String Ascii.
Local Open Scope Z_scope.

(** ** 400-year periodicity *)

Lemma is_leap_period : forall y k, is_leap (y + 400 * k) = is_leap y.
Proof.
  intros y k. unfold is_leap.
  replace (y + 400 * k) with (y + (100 * k) * 4) at 1 by lia. rewrite Z_mod_plus_full.
  replace (y + 400 * k) with (y + (4 * k) * 100) at 1 by lia. rewrite Z_mod_plus_full.
  replace (y + 400 * k) with (y + k * 400) by lia. rewrite Z_mod_plus_full. reflexivity.
Qed.

Lemma valid_dateb_period : forall y k m d, valid_dateb (y + 400 * k) m d = valid_dateb y m d.
Proof. intros. unfold valid_dateb, days_in_month. rewrite is_leap_period. reflexivity. Qed.

Lemma days_from_civil_period : forall y k m d,
  days_from_civil (y + 400 * k) m d = days_from_civil y m d + 146097 * k.
Proof.
  intros y k m d. unfold days_from_civil. cbv zeta.
  assert (P : forall y', (y' + 400 * k) / 400 = y' / 400 + k).
  { intros y'. replace (y' + 400 * k) with (y' + k * 400) by lia. apply Z.div_add. lia. }
  destruct (m <=? 2).
  - replace (y + 400 * k - 1) with (y - 1 + 400 * k) by lia. rewrite P.
    replace (y - 1 + 400 * k - ((y - 1) / 400 + k) * 400) with (y - 1 - (y - 1) / 400 * 400) by lia. lia.
  - rewrite P.
    replace (y + 400 * k - (y / 400 + k) * 400) with (y - y / 400 * 400) by lia. lia.
Qed.

Lemma civil_from_days_period : forall z k,
  civil_from_days (z + 146097 * k) =
  let '(y, m, d) := civil_from_days z in (y + 400 * k, m, d).
Proof.
  intros z k. unfold civil_from_days. cbv zeta.
  assert (P : (z + 146097 * k + 719468) / 146097 = (z + 719468) / 146097 + k).
  { replace (z + 146097 * k + 719468) with (z + 719468 + k * 146097) by lia. apply Z.div_add. lia. }
  rewrite P.
  replace (z + 146097 * k + 719468 - ((z + 719468) / 146097 + k) * 146097)
    with (z + 719468 - (z + 719468) / 146097 * 146097) by lia.
  set (doe := z + 719468 - (z + 719468) / 146097 * 146097).
  set (yoe := (doe - doe / 1460 + doe / 36524 - doe / 146096) / 365).
  set (doy := doe - (365 * yoe + yoe / 4 - yoe / 100)).
  set (mp := (5 * doy + 2) / 153).
  destruct (mp <? 10); [destruct (mp + 3 <=? 2)|destruct (mp - 9 <=? 2)]; f_equal; f_equal; lia.
Qed.

(** ** The exhaustive sweep of one era *)

Definition zrange (a : Z) (n : nat) : list Z := map (fun k => a + Z.of_nat k) (seq 0 n).

Lemma zrange_In : forall a n x, a <= x < a + Z.of_nat n -> In x (zrange a n).
Proof.
  intros a n x H. unfold zrange. apply in_map_iff. exists (Z.to_nat (x - a)). split; [lia|].
  apply in_seq. lia.
Qed.

Definition check_date (y m d : Z) : bool :=
  if valid_dateb y m d then
    (let '(y2, m2, d2) := civil_from_days (days_from_civil y m d) in
     (y2 =? y) && (m2 =? m) && (d2 =? d))
  else true.

Definition era_sweep : bool :=
  forallb (fun y => forallb (fun m => forallb (fun d => check_date y m d) (zrange 1 31)) (zrange 1 12))
          (zrange 0 400).

Lemma era_sweep_ok : era_sweep = true.
Proof. vm_compute. reflexivity. Qed.

Lemma valid_dateb_bounds : forall y m d, valid_dateb y m d = true -> 1 <= m <= 12 /\ 1 <= d <= 31.
Proof.
  intros y m d H. unfold valid_dateb in H. rewrite !andb_true_iff, !Z.leb_le in H.
  destruct H as [[[H1 H2] H3] H4]. split; [lia|]. split; [lia|].
  unfold days_in_month in H4. destruct (m =? 2); [destruct (is_leap y); lia|].
  destruct ((m =? 4) || (m =? 6) || (m =? 9) || (m =? 11)); lia.
Qed.

Lemma roundtrip_era0 : forall y m d, 0 <= y < 400 -> valid_dateb y m d = true ->
  civil_from_days (days_from_civil y m d) = (y, m, d).
Proof.
  intros y m d Hy Hv. pose proof (valid_dateb_bounds _ _ _ Hv) as [Hm Hd].
  pose proof era_sweep_ok as S. unfold era_sweep in S. rewrite forallb_forall in S.
  specialize (S y (zrange_In 0 400 y ltac:(lia))). rewrite forallb_forall in S.
  specialize (S m (zrange_In 1 12 m ltac:(lia))). rewrite forallb_forall in S.
  specialize (S d (zrange_In 1 31 d ltac:(lia))). unfold check_date in S. rewrite Hv in S.
  destruct (civil_from_days (days_from_civil y m d)) as [[y2 m2] d2].
  rewrite !andb_true_iff, !Z.eqb_eq in S. destruct S as [[-> ->] ->]. reflexivity.
Qed.

(** Every valid civil date of every year (in particular of years 1..9999, the
    whole domain of datetime) is recovered from its day number. *)
Theorem civil_roundtrip : forall y m d, valid_dateb y m d = true ->
  civil_from_days (days_from_civil y m d) = (y, m, d).
Proof.
  intros y m d Hv. pose proof (Z.div_mod y 400 ltac:(lia)) as E.
  pose proof (Z.mod_pos_bound y 400 ltac:(lia)) as B.
  set (y0 := y mod 400) in *. set (k := y / 400) in *.
  assert (Ey : y = y0 + 400 * k) by lia. rewrite Ey in Hv |- *.
  rewrite valid_dateb_period in Hv. rewrite days_from_civil_period, civil_from_days_period.
  rewrite (roundtrip_era0 y0 m d B Hv). reflexivity.
Qed.

(** ** Seconds on the local clock <-> civil fields *)

Lemma divmod_unique : forall q b r, 0 <= r < b -> (q * b + r) / b = q /\ (q * b + r) mod b = r.
Proof.
  intros q b r H. split.
  - symmetry. apply (Z.div_unique (q * b + r) b q r); [left; assumption|lia].
  - symmetry. apply (Z.mod_unique (q * b + r) b q r); [left; assumption|lia].
Qed.

Definition valid_civil (c : civil) : Prop := valid_civilb c = true.

Lemma valid_civil_fields : forall c, valid_civil c ->
  1 <= c_y c <= 9999 /\ valid_dateb (c_y c) (c_mo c) (c_d c) = true /\
  0 <= c_h c <= 23 /\ 0 <= c_mi c <= 59 /\ 0 <= c_s c <= 59.
Proof.
  intros c H. unfold valid_civil, valid_civilb in H. rewrite !andb_true_iff, !Z.leb_le in H. tauto.
Qed.

Theorem civil_of_local_secs : forall c, valid_civil c -> civil_of_secs (local_secs c) = c.
Proof.
  intros [y m d h mi s] H. destruct (valid_civil_fields _ H) as (_ & Hd & Hh & Hmi & Hs). simpl in *.
  unfold civil_of_secs, local_secs. simpl.
  set (D := days_from_civil y m d).
  replace (D * 86400 + h * 3600 + mi * 60 + s) with (D * 86400 + (h * 3600 + mi * 60 + s)) by lia.
  destruct (divmod_unique D 86400 (h * 3600 + mi * 60 + s) ltac:(lia)) as [-> ->].
  unfold D. rewrite (civil_roundtrip y m d Hd).
  replace (h * 3600 + mi * 60 + s) with (h * 3600 + (mi * 60 + s)) by lia.
  destruct (divmod_unique h 3600 (mi * 60 + s) ltac:(lia)) as [-> ->].
  destruct (divmod_unique mi 60 s ltac:(lia)) as [-> E2].
  replace (h * 3600 + (mi * 60 + s)) with ((h * 60 + mi) * 60 + s) by lia.
  destruct (divmod_unique (h * 60 + mi) 60 s ltac:(lia)) as [_ ->]. reflexivity.
Qed.

(** ** Text <-> fields *)

Lemma digit_of_inv : forall c d, digit_of c = Some d -> c = ascii_of_digit d /\ 0 <= d <= 9.
Proof.
  intros [[] [] [] [] [] [] [] []] d; vm_compute; intros H; try discriminate;
    inversion H; subst; vm_compute; split; try reflexivity; split; discriminate.
Qed.

Definition digits4_ok (n : Z) : bool :=
  ((n / 1000) mod 10 * 1000 + (n / 100) mod 10 * 100 + (n / 10) mod 10 * 10 + (n / 1) mod 10 =? n).

Lemma pairs_sweep : forallb (fun a => forallb (fun b =>
    ((((10 * a + b) / 10) mod 10 =? a) && (((10 * a + b) / 1) mod 10 =? b))) (zrange 0 10)) (zrange 0 10) = true.
Proof. vm_compute. reflexivity. Qed.

Lemma num2_digits : forall a b, 0 <= a <= 9 -> 0 <= b <= 9 ->
  ((10 * a + b) / 10) mod 10 = a /\ ((10 * a + b) / 1) mod 10 = b.
Proof.
  intros a b Ha Hb. pose proof pairs_sweep as S. rewrite forallb_forall in S.
  specialize (S a (zrange_In 0 10 a ltac:(lia))). rewrite forallb_forall in S.
  specialize (S b (zrange_In 0 10 b ltac:(lia))). rewrite andb_true_iff, !Z.eqb_eq in S. exact S.
Qed.

Lemma quads_sweep : forallb (fun x => forallb (fun y =>
    ((((100 * x + y) / 1000) mod 10 =? (x / 10) mod 10) && (((100 * x + y) / 100) mod 10 =? (x / 1) mod 10)
     && (((100 * x + y) / 10) mod 10 =? (y / 10) mod 10) && (((100 * x + y) / 1) mod 10 =? (y / 1) mod 10)))
    (zrange 0 100)) (zrange 0 100) = true.
Proof. vm_compute. reflexivity. Qed.

Lemma num4_digits : forall x y, 0 <= x <= 99 -> 0 <= y <= 99 ->
  ((100 * x + y) / 1000) mod 10 = (x / 10) mod 10 /\ ((100 * x + y) / 100) mod 10 = (x / 1) mod 10 /\
  ((100 * x + y) / 10) mod 10 = (y / 10) mod 10 /\ ((100 * x + y) / 1) mod 10 = (y / 1) mod 10.
Proof.
  intros x y Hx Hy. pose proof quads_sweep as S. rewrite forallb_forall in S.
  specialize (S x (zrange_In 0 100 x ltac:(lia))). rewrite forallb_forall in S.
  specialize (S y (zrange_In 0 100 y ltac:(lia))). rewrite !andb_true_iff, !Z.eqb_eq in S. tauto.
Qed.

Lemma num2_inv : forall a b n, num2 a b = Some n ->
  a = dig n 10 /\ b = dig n 1 /\ 0 <= n <= 99.
Proof.
  intros a b n H. unfold num2 in H.
  destruct (digit_of a) as [x|] eqn:Ea; [|discriminate]. destruct (digit_of b) as [y|] eqn:Eb; [|discriminate].
  inversion H; subst n. destruct (digit_of_inv _ _ Ea) as [-> Hx]. destruct (digit_of_inv _ _ Eb) as [-> Hy].
  destruct (num2_digits x y Hx Hy) as [E1 E2]. unfold dig. rewrite E1, E2. repeat split; lia.
Qed.

Lemma num4_inv : forall a b c d n, num4 a b c d = Some n ->
  a = dig n 1000 /\ b = dig n 100 /\ c = dig n 10 /\ d = dig n 1.
Proof.
  intros a b c d n H. unfold num4 in H.
  destruct (num2 a b) as [x|] eqn:E1; [|discriminate]. destruct (num2 c d) as [y|] eqn:E2; [|discriminate].
  inversion H; subst n. destruct (num2_inv _ _ _ E1) as (-> & -> & Hx). destruct (num2_inv _ _ _ E2) as (-> & -> & Hy).
  destruct (num4_digits x y Hx Hy) as (Q1 & Q2 & Q3 & Q4). unfold dig. rewrite Q1, Q2, Q3, Q4. tauto.
Qed.

(** Parsing is injective in the strongest sense: the parsed fields render back
    to exactly the text that was parsed; and they are a valid civil time. *)
Theorem parse_render : forall s c, parse_datetime s = Some c ->
  render_datetime c = s /\ valid_civil c.
Proof.
  intros s c H. unfold parse_datetime in H.
  rewrite <- (string_of_list_ascii_of_string s).
  destruct (list_ascii_of_string s) as [|y1 [|y2 [|y3 [|y4 [|k1 [|m1 [|m2 [|k2 [|d1 [|d2 [|k3 [|h1 [|h2 [|k4
    [|i1 [|i2 [|k5 [|s1 [|s2 [|x l]]]]]]]]]]]]]]]]]]]]; try discriminate.
  destruct (Ascii.eqb k1 dash) eqn:K1; [|discriminate]. destruct (Ascii.eqb k2 dash) eqn:K2; [|discriminate].
  destruct (Ascii.eqb k3 blank) eqn:K3; [|discriminate]. destruct (Ascii.eqb k4 colon) eqn:K4; [|discriminate].
  destruct (Ascii.eqb k5 colon) eqn:K5; [|discriminate]. simpl in H.
  apply Ascii.eqb_eq in K1, K2, K3, K4, K5. subst.
  destruct (num4 y1 y2 y3 y4) as [y|] eqn:EY; [|discriminate].
  destruct (num2 m1 m2) as [m|] eqn:EM; [|discriminate].
  destruct (num2 d1 d2) as [d|] eqn:ED; [|discriminate].
  destruct (num2 h1 h2) as [h|] eqn:EH; [|discriminate].
  destruct (num2 i1 i2) as [i|] eqn:EI; [|discriminate].
  destruct (num2 s1 s2) as [sec|] eqn:ES; [|discriminate].
  destruct (valid_civilb {| c_y := y; c_mo := m; c_d := d; c_h := h; c_mi := i; c_s := sec |}) eqn:V; [|discriminate].
  inversion H; subst c. split; [|exact V].
  destruct (num4_inv _ _ _ _ _ EY) as (-> & -> & -> & ->).
  destruct (num2_inv _ _ _ EM) as (-> & -> & _). destruct (num2_inv _ _ _ ED) as (-> & -> & _).
  destruct (num2_inv _ _ _ EH) as (-> & -> & _). destruct (num2_inv _ _ _ EI) as (-> & -> & _).
  destruct (num2_inv _ _ _ ES) as (-> & -> & _). reflexivity.
Qed.
