(** Calendar arithmetic, for every year (no bound, no sweep): days-from-civil
    and its inverse are mutually inverse on the valid dates / on all day
    numbers — proved stage by stage (era, year of era, month) by linear integer
    arithmetic over the Euclidean-division equations of the constants in
    Howard Hinnant's algorithms; seconds <-> civil fields; text <-> fields. *)
From Spowtd Require Import Model.Calendar.
From Coq Require Import Lia String Ascii.
Local Open Scope Z_scope.

(** lia with the Euclidean-division equations of every quotient / remainder by a constant *)
Ltac dlia := Z.to_euclidean_division_equations; lia.

(** ** Year stage *)

(** The March-based year number yoe of an era (0..399) has a 366th day iff the
    civil year that holds its February, yoe + 1, is leap. *)
Definition leap1 (yoe : Z) : Prop := (yoe + 1) mod 4 = 0 /\ ((yoe + 1) mod 100 <> 0 \/ yoe + 1 = 400).

Lemma year_stage : forall yoe doy, 0 <= yoe < 400 -> 0 <= doy <= 365 -> (doy = 365 -> leap1 yoe) ->
  let doe := yoe * 365 + yoe / 4 - yoe / 100 + doy in
  0 <= doe < 146097 /\ (doe - doe / 1460 + doe / 36524 - doe / 146096) / 365 = yoe.
Proof. intros yoe doy H1 H2 H3 doe. unfold doe, leap1 in *. dlia. Qed.

Lemma year_stage_inv : forall doe, 0 <= doe < 146097 ->
  let yoe := (doe - doe / 1460 + doe / 36524 - doe / 146096) / 365 in
  let doy := doe - (365 * yoe + yoe / 4 - yoe / 100) in
  0 <= yoe < 400 /\ 0 <= doy <= 365 /\ (doy = 365 -> leap1 yoe).
Proof. intros doe H yoe doy. unfold yoe, doy, leap1 in *. dlia. Qed.

Lemma leap1_iff : forall y', is_leap (y' + 1) = true <-> leap1 (y' - y' / 400 * 400).
Proof.
  intros y'. unfold is_leap, leap1.
  rewrite orb_true_iff, andb_true_iff, negb_true_iff, !Z.eqb_eq, Z.eqb_neq. dlia.
Qed.

(** ** Month stage *)

Definition mlen (mp : Z) : Z := (153 * (mp + 1) + 2) / 5 - (153 * mp + 2) / 5.

Lemma month_stage : forall mp d, 0 <= mp <= 11 -> 1 <= d <= mlen mp -> (mp = 11 -> d <= 29) ->
  let doy := (153 * mp + 2) / 5 + d - 1 in
  (5 * doy + 2) / 153 = mp /\ 0 <= doy <= 365 /\ (doy = 365 -> mp = 11 /\ d = 29).
Proof. intros mp d H1 H2 H3 doy. unfold doy, mlen in *. dlia. Qed.

Lemma month_stage_inv : forall doy, 0 <= doy <= 365 ->
  let mp := (5 * doy + 2) / 153 in
  let d := doy - (153 * mp + 2) / 5 + 1 in
  0 <= mp <= 11 /\ 1 <= d <= mlen mp /\ (mp = 11 -> d <= 29 /\ (d = 29 -> doy = 365)).
Proof. intros doy H mp d. unfold mp, d, mlen in *. dlia. Qed.

(** The civil month m and the March-based month mp; lengths of the months. *)
Definition mp_of (m : Z) : Z := if m <=? 2 then m + 9 else m - 3.
Definition m_of (mp : Z) : Z := if mp <? 10 then mp + 3 else mp - 9.

Lemma twelve : forall m, 1 <= m <= 12 ->
  m = 1 \/ m = 2 \/ m = 3 \/ m = 4 \/ m = 5 \/ m = 6 \/ m = 7 \/ m = 8 \/ m = 9 \/ m = 10 \/ m = 11 \/ m = 12.
Proof. intros. lia. Qed.

(** days_in_month in terms of the March-based month: the formula's length,
    except February: 28, or 29 in a leap year. *)
Lemma dim_mlen : forall y m, 1 <= m <= 12 ->
  0 <= mp_of m <= 11 /\ m_of (mp_of m) = m /\
  (m <> 2 -> days_in_month y m = mlen (mp_of m)) /\
  (m = 2 -> mp_of m = 11 /\ days_in_month y m = if is_leap y then 29 else 28).
Proof.
  intros y m H.
  destruct (twelve m H) as [E|[E|[E|[E|[E|[E|[E|[E|[E|[E|[E|E]]]]]]]]]]]; subst m;
    (split; [vm_compute; split; discriminate|]); (split; [reflexivity|]);
    (split; [intros N; try (exfalso; apply N; reflexivity); reflexivity|]);
    intros N; try discriminate N; split; reflexivity.
Qed.

Lemma valid_date_facts : forall y m d, valid_dateb y m d = true ->
  1 <= m <= 12 /\ 1 <= d <= mlen (mp_of m) /\
  (mp_of m = 11 -> d <= 29 /\ (d = 29 -> is_leap y = true)).
Proof.
  intros y m d H. unfold valid_dateb in H. rewrite !andb_true_iff, !Z.leb_le in H.
  destruct H as [[[H1 H2] H3] H4]. assert (Hm : 1 <= m <= 12) by lia.
  destruct (dim_mlen y m Hm) as (Hmp & _ & Hne & Heq). split; [exact Hm|].
  destruct (Z.eq_dec m 2) as [E2|N2].
  - destruct (Heq E2) as [Emp Edim]. rewrite Edim in H4. rewrite Emp.
    assert (mlen 11 = 30) by reflexivity.
    destruct (is_leap y); (split; [lia|]); intros _; (split; [lia|]); intros E; [reflexivity|lia].
  - rewrite (Hne N2) in H4. split; [lia|]. intros E11. exfalso. apply N2.
    unfold mp_of in E11. destruct (Z.leb_spec m 2); lia.
Qed.

Lemma valid_dateb_bounds : forall y m d, valid_dateb y m d = true -> 1 <= m <= 12 /\ 1 <= d <= 31.
Proof.
  intros y m d H. unfold valid_dateb in H. rewrite !andb_true_iff, !Z.leb_le in H.
  destruct H as [[[H1 H2] H3] H4]. split; [lia|]. split; [lia|].
  unfold days_in_month in H4. destruct (m =? 2); [destruct (is_leap y); lia|].
  destruct ((m =? 4) || (m =? 6) || (m =? 9) || (m =? 11)); lia.
Qed.

(** ** Date -> day number -> date, for every valid date of every year *)

Theorem civil_roundtrip : forall y m d, valid_dateb y m d = true ->
  civil_from_days (days_from_civil y m d) = (y, m, d).
Proof.
  intros y m d Hv. destruct (valid_date_facts y m d Hv) as (Hm & Hd & H11).
  destruct (dim_mlen y m Hm) as (Hmp & Hmo & _ & _).
  unfold days_from_civil. cbv zeta. fold (mp_of m).
  set (y' := if m <=? 2 then y - 1 else y).
  set (mp := mp_of m) in *.
  set (era := y' / 400). set (yoe := y' - era * 400).
  set (doy := (153 * mp + 2) / 5 + d - 1).
  assert (Hyoe : 0 <= yoe < 400) by (unfold yoe, era; dlia).
  destruct (month_stage mp d Hmp Hd (fun E => proj1 (H11 E))) as (M1 & M2 & M3). fold doy in M1, M2, M3.
  assert (L : doy = 365 -> leap1 yoe).
  { intros E. destruct (M3 E) as [E11 E29]. destruct (H11 E11) as [_ Hl]. specialize (Hl E29).
    unfold yoe, era. apply leap1_iff.
    assert (Em : m = 2). { unfold mp, mp_of in E11. destruct (Z.leb_spec m 2); lia. }
    unfold y'. rewrite Em. simpl. replace (y - 1 + 1) with y by lia. exact Hl. }
  destruct (year_stage yoe doy Hyoe M2 L) as (Y1 & Y2).
  set (doe := yoe * 365 + yoe / 4 - yoe / 100 + doy) in *.
  unfold civil_from_days. cbv zeta.
  replace (era * 146097 + doe - 719468 + 719468) with (era * 146097 + doe) by lia.
  assert (E1 : (era * 146097 + doe) / 146097 = era).
  { symmetry. apply (Z.div_unique (era * 146097 + doe) 146097 era doe); [left; exact Y1|lia]. }
  rewrite E1. replace (era * 146097 + doe - era * 146097) with doe by lia.
  rewrite Y2. replace (doe - (365 * yoe + yoe / 4 - yoe / 100)) with doy by (unfold doe; lia).
  rewrite M1. fold (m_of mp). rewrite Hmo.
  f_equal; [f_equal|unfold doy; lia].
  unfold yoe, y'. destruct (m <=? 2); lia.
Qed.

(** ** Day number -> date -> day number, for every day *)

Theorem days_roundtrip : forall z,
  let '(y, m, d) := civil_from_days z in valid_dateb y m d = true /\ days_from_civil y m d = z.
Proof.
  intros z. unfold civil_from_days. cbv zeta.
  set (z' := z + 719468). set (era := z' / 146097). set (doe := z' - era * 146097).
  assert (Hdoe : 0 <= doe < 146097) by (unfold doe, era; dlia).
  destruct (year_stage_inv doe Hdoe) as (Hyoe & Hdoy & Hleap).
  set (yoe := (doe - doe / 1460 + doe / 36524 - doe / 146096) / 365) in *.
  set (doy := doe - (365 * yoe + yoe / 4 - yoe / 100)) in *.
  destruct (month_stage_inv doy Hdoy) as (Hmp & Hd & H11).
  set (mp := (5 * doy + 2) / 153) in *.
  set (d := doy - (153 * mp + 2) / 5 + 1) in *.
  fold (m_of mp). set (m := m_of mp).
  set (y := if m <=? 2 then yoe + era * 400 + 1 else yoe + era * 400).
  assert (Hm : 1 <= m <= 12) by (unfold m, m_of; destruct (Z.ltb_spec mp 10); lia).
  assert (Emp : mp_of m = mp).
  { unfold m, m_of, mp_of. destruct (Z.ltb_spec mp 10); [destruct (Z.leb_spec (mp + 3) 2)|destruct (Z.leb_spec (mp - 9) 2)]; lia. }
  assert (Ey' : (if m <=? 2 then y - 1 else y) = yoe + era * 400) by (unfold y; destruct (m <=? 2); lia).
  destruct (dim_mlen y m Hm) as (_ & _ & Hne & Heq). rewrite Emp in *.
  split.
  - (* the date is valid *)
    unfold valid_dateb. rewrite !andb_true_iff, !Z.leb_le. repeat split; try lia.
    destruct (Z.eq_dec m 2) as [E2|N2].
    + destruct (Heq E2) as [E11 Edim]. rewrite Edim. destruct (H11 E11) as [H29 Hl].
      destruct (is_leap y) eqn:Ly; [lia|].
      destruct (Z.eq_dec d 29) as [E29|N29]; [|lia]. exfalso.
      specialize (Hleap (Hl E29)).
      assert (Ly' : is_leap y = true).
      { replace y with (yoe + era * 400 + 1) by (unfold y; rewrite E2; reflexivity).
        apply leap1_iff. replace (yoe + era * 400 - (yoe + era * 400) / 400 * 400) with yoe by dlia. exact Hleap. }
      congruence.
    + rewrite (Hne N2). lia.
  - (* and gives the day number back *)
    unfold days_from_civil. cbv zeta. fold (mp_of m). rewrite Emp, Ey'.
    assert (Ee : (yoe + era * 400) / 400 = era) by dlia. rewrite Ee.
    replace (yoe + era * 400 - era * 400) with yoe by lia.
    replace ((153 * mp + 2) / 5 + d - 1) with doy by (unfold d; lia).
    unfold doy, doe, z'. lia.
Qed.

(** ** Seconds on the local clock <-> civil fields *)

Lemma divmod_unique : forall q b r, 0 <= r < b -> (q * b + r) / b = q /\ (q * b + r) mod b = r.
Proof.
  intros q b r H. split.
  - symmetry. apply (Z.div_unique (q * b + r) b q r); [left; assumption|lia].
  - symmetry. apply (Z.mod_unique (q * b + r) b q r); [left; assumption|lia].
Qed.

Definition valid_civil (c : civil) : Prop := valid_civilb c = true.

Lemma valid_civil_fields : forall c, valid_civil c ->
  1 <= c_y c <= 9999 /\ valid_dateb (c_y c) (c_mo c) (c_d c) = true /\
  0 <= c_h c <= 23 /\ 0 <= c_mi c <= 59 /\ 0 <= c_s c <= 59.
Proof.
  intros c H. unfold valid_civil, valid_civilb in H. rewrite !andb_true_iff, !Z.leb_le in H. tauto.
Qed.

Theorem civil_of_local_secs : forall c, valid_civil c -> civil_of_secs (local_secs c) = c.
Proof.
  intros [y m d h mi s] H. destruct (valid_civil_fields _ H) as (_ & Hd & Hh & Hmi & Hs).
  cbn [c_y c_mo c_d c_h c_mi c_s] in *.
  unfold civil_of_secs, local_secs. cbn [c_y c_mo c_d c_h c_mi c_s].
  set (D := days_from_civil y m d).
  replace (D * 86400 + h * 3600 + mi * 60 + s) with (D * 86400 + (h * 3600 + mi * 60 + s)) by lia.
  destruct (divmod_unique D 86400 (h * 3600 + mi * 60 + s) ltac:(lia)) as [-> ->].
  unfold D. rewrite (civil_roundtrip y m d Hd).
  replace (h * 3600 + mi * 60 + s) with (h * 3600 + (mi * 60 + s)) by lia.
  destruct (divmod_unique h 3600 (mi * 60 + s) ltac:(lia)) as [-> ->].
  destruct (divmod_unique mi 60 s ltac:(lia)) as [-> E2].
  replace (h * 3600 + (mi * 60 + s)) with ((h * 60 + mi) * 60 + s) by lia.
  destruct (divmod_unique (h * 60 + mi) 60 s ltac:(lia)) as [_ ->]. reflexivity.
Qed.

(** ** Text <-> fields *)

Lemma digit_of_inv : forall c d, digit_of c = Some d -> c = ascii_of_digit d /\ 0 <= d <= 9.
Proof.
  intros [[] [] [] [] [] [] [] []] d; vm_compute; intros H; try discriminate;
    inversion H; subst; vm_compute; split; try reflexivity; split; discriminate.
Qed.

Lemma num2_digits : forall a b, 0 <= a <= 9 -> 0 <= b <= 9 ->
  ((10 * a + b) / 10) mod 10 = a /\ ((10 * a + b) / 1) mod 10 = b.
Proof. intros a b Ha Hb. dlia. Qed.

Lemma num4_digits : forall x y, 0 <= x <= 99 -> 0 <= y <= 99 ->
  ((100 * x + y) / 1000) mod 10 = (x / 10) mod 10 /\ ((100 * x + y) / 100) mod 10 = (x / 1) mod 10 /\
  ((100 * x + y) / 10) mod 10 = (y / 10) mod 10 /\ ((100 * x + y) / 1) mod 10 = (y / 1) mod 10.
Proof. intros x y Hx Hy. dlia. Qed.

Lemma num2_inv : forall a b n, num2 a b = Some n ->
  a = dig n 10 /\ b = dig n 1 /\ 0 <= n <= 99.
Proof.
  intros a b n H. unfold num2 in H.
  destruct (digit_of a) as [x|] eqn:Ea; [|discriminate]. destruct (digit_of b) as [y|] eqn:Eb; [|discriminate].
  assert (En : n = 10 * x + y) by (injection H as E; rewrite <- E; reflexivity). subst n.
  destruct (digit_of_inv _ _ Ea) as [-> Hx]. destruct (digit_of_inv _ _ Eb) as [-> Hy].
  destruct (num2_digits x y Hx Hy) as [E1 E2]. unfold dig. rewrite E1, E2. repeat split; lia.
Qed.

Lemma num4_inv : forall a b c d n, num4 a b c d = Some n ->
  a = dig n 1000 /\ b = dig n 100 /\ c = dig n 10 /\ d = dig n 1.
Proof.
  intros a b c d n H. unfold num4 in H.
  destruct (num2 a b) as [x|] eqn:E1; [|discriminate]. destruct (num2 c d) as [y|] eqn:E2; [|discriminate].
  assert (En : n = 100 * x + y) by (injection H as E; rewrite <- E; reflexivity). subst n.
  destruct (num2_inv _ _ _ E1) as (-> & -> & Hx). destruct (num2_inv _ _ _ E2) as (-> & -> & Hy).
  destruct (num4_digits x y Hx Hy) as (Q1 & Q2 & Q3 & Q4). unfold dig. rewrite Q1, Q2, Q3, Q4. tauto.
Qed.

(** Parsing is injective in the strongest sense: the parsed fields render back
    to exactly the text that was parsed; and they are a valid civil time. *)
Theorem parse_render : forall s c, parse_datetime s = Some c ->
  render_datetime c = s /\ valid_civil c.
Proof.
  intros s c H. unfold parse_datetime in H.
  rewrite <- (string_of_list_ascii_of_string s).
  destruct (list_ascii_of_string s) as [|y1 [|y2 [|y3 [|y4 [|k1 [|m1 [|m2 [|k2 [|d1 [|d2 [|k3 [|h1 [|h2 [|k4
    [|i1 [|i2 [|k5 [|s1 [|s2 [|x l]]]]]]]]]]]]]]]]]]]]; try discriminate.
  destruct (Ascii.eqb k1 dash) eqn:K1; [|discriminate]. destruct (Ascii.eqb k2 dash) eqn:K2; [|discriminate].
  destruct (Ascii.eqb k3 blank) eqn:K3; [|discriminate]. destruct (Ascii.eqb k4 colon) eqn:K4; [|discriminate].
  destruct (Ascii.eqb k5 colon) eqn:K5; [|discriminate]. simpl in H.
  apply Ascii.eqb_eq in K1, K2, K3, K4, K5. subst.
  destruct (num4 y1 y2 y3 y4) as [y|] eqn:EY; [|discriminate].
  destruct (num2 m1 m2) as [m|] eqn:EM; [|discriminate].
  destruct (num2 d1 d2) as [d|] eqn:ED; [|discriminate].
  destruct (num2 h1 h2) as [h|] eqn:EH; [|discriminate].
  destruct (num2 i1 i2) as [i|] eqn:EI; [|discriminate].
  destruct (num2 s1 s2) as [sec|] eqn:ES; [|discriminate].
  destruct (valid_civilb {| c_y := y; c_mo := m; c_d := d; c_h := h; c_mi := i; c_s := sec |}) eqn:V; [|discriminate].
  injection H as <-. split; [|exact V].
  destruct (num4_inv _ _ _ _ _ EY) as (-> & -> & -> & ->).
  destruct (num2_inv _ _ _ EM) as (-> & -> & _). destruct (num2_inv _ _ _ ED) as (-> & -> & _).
  destruct (num2_inv _ _ _ EH) as (-> & -> & _). destruct (num2_inv _ _ _ EI) as (-> & -> & _).
  destruct (num2_inv _ _ _ ES) as (-> & -> & _). reflexivity.
Qed.

(** ** The other direction: every instant has valid fields, which give it back *)

Theorem secs_of_civil_of_secs : forall t,
  local_secs (civil_of_secs t) = t /\
  (1 <= c_y (civil_of_secs t) <= 9999 -> valid_civil (civil_of_secs t)).
Proof.
  intros t. unfold civil_of_secs.
  pose proof (days_roundtrip (t / 86400)) as R. destruct (civil_from_days (t / 86400)) as [[y m] d].
  destruct R as [Rv Rd].
  pose proof (Z.div_mod t 86400 ltac:(lia)) as E1. pose proof (Z.mod_pos_bound t 86400 ltac:(lia)) as B1.
  set (sod := t mod 86400) in *.
  pose proof (Z.div_mod sod 3600 ltac:(lia)) as E2. pose proof (Z.mod_pos_bound sod 3600 ltac:(lia)) as B2.
  pose proof (Z.div_mod (sod mod 3600) 60 ltac:(lia)) as E3. pose proof (Z.mod_pos_bound (sod mod 3600) 60 ltac:(lia)) as B3.
  assert (E4 : sod mod 60 = (sod mod 3600) mod 60).
  { rewrite E2 at 1. replace (3600 * (sod / 3600) + sod mod 3600) with (sod mod 3600 + (60 * (sod / 3600)) * 60) by lia.
    apply Z_mod_plus_full. }
  split.
  - unfold local_secs. cbn [c_y c_mo c_d c_h c_mi c_s]. rewrite Rd. lia.
  - cbn [c_y]. intros Hy. unfold valid_civil, valid_civilb. cbn [c_y c_mo c_d c_h c_mi c_s].
    rewrite Rv. rewrite !andb_true_iff, !Z.leb_le.
    assert (0 <= sod / 3600 <= 23) by lia.
    assert (0 <= (sod mod 3600) / 60 <= 59) by lia.
    pose proof (Z.mod_pos_bound sod 60 ltac:(lia)). intuition lia.
Qed.

(** Fields -> text -> fields *)

Lemma digit_of_digit : forall k, 0 <= k <= 9 -> digit_of (ascii_of_digit k) = Some k.
Proof.
  intros k H.
  assert (E : k = 0 \/ k = 1 \/ k = 2 \/ k = 3 \/ k = 4 \/ k = 5 \/ k = 6 \/ k = 7 \/ k = 8 \/ k = 9) by lia.
  destruct E as [E|[E|[E|[E|[E|[E|[E|[E|[E|E]]]]]]]]]; subst k; reflexivity.
Qed.

Lemma num2_dig : forall n, 0 <= n <= 99 -> num2 (dig n 10) (dig n 1) = Some n.
Proof.
  intros n H. unfold num2, dig. rewrite !digit_of_digit by dlia. f_equal. dlia.
Qed.

Lemma num4_dig : forall n, 0 <= n <= 9999 -> num4 (dig n 1000) (dig n 100) (dig n 10) (dig n 1) = Some n.
Proof.
  intros n H. unfold num4, num2, dig. rewrite !digit_of_digit by dlia. f_equal. dlia.
Qed.

Theorem parse_of_render : forall c, valid_civil c -> parse_datetime (render_datetime c) = Some c.
Proof.
  intros c H. destruct (valid_civil_fields _ H) as (Hy & Hd & Hh & Hmi & Hs).
  destruct (valid_dateb_bounds _ _ _ Hd) as [Hm Hdd].
  unfold parse_datetime, render_datetime. rewrite list_ascii_of_string_of_list_ascii.
  cbv beta iota. rewrite !Ascii.eqb_refl. cbn [andb].
  rewrite (num4_dig (c_y c)) by lia. rewrite (num2_dig (c_mo c)) by lia. rewrite (num2_dig (c_d c)) by lia.
  rewrite (num2_dig (c_h c)) by lia. rewrite (num2_dig (c_mi c)) by lia. rewrite (num2_dig (c_s c)) by lia.
  destruct c as [y m d h mi s]. cbn [c_y c_mo c_d c_h c_mi c_s] in *. unfold valid_civil in H. rewrite H. reflexivity.
Qed.
