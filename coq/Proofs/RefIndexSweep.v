(** A complete sweep of a finite domain, lifted to a quantified statement: for
    the grid steps listed and every |k| <= 3000, the float product k*step (the
    way the master-curve views compute their levels) is accepted as a reference
    and mapped to level k.  The bound is part of the statement. *)
From Spowtd Require Import Model.RefIndex.
From Coq Require Import PrimFloat Lia.

Definition sweep_steps : list float :=
  [1; 0x1p-1; 0x1.999999999999ap-4; 0x1.999999999999ap-3; 0x1.3333333333333p-2;
   0x1.4p+1; 5; 0x1.5555555555555p-2; 0x1.0624dd2f1a9fcp-10; 2; 0x1p-2; 10]%float.
   (* 1, .5, .1, .2, .3, 2.5, 5, 1/3, .001, 2, .25, 10 *)

Definition zrange (n : nat) : list Z := map (fun i => (Z.of_nat i - Z.of_nat n)%Z) (seq 0 (2 * n + 1)).

Lemma zrange_in n k : (- Z.of_nat n <= k <= Z.of_nat n)%Z -> In k (zrange n).
Proof.
  intros H. unfold zrange. apply in_map_iff. exists (Z.to_nat (k + Z.of_nat n)). split; [lia|].
  apply in_seq. lia.
Qed.

Definition accepted_as (step : float) (k : Z) : bool :=
  match reference_index (PrimFloat.mul (float_of_Z k) step) step with
  | Ok k' => Z.eqb k k'
  | Err _ => false
  end.

Lemma sweep_true :
  forallb (fun step => forallb (accepted_as step) (zrange 3000)) sweep_steps = true.
Proof. vm_compute. reflexivity. Qed.

Theorem multiples_accepted_bounded step k :
  In step sweep_steps -> (-3000 <= k <= 3000)%Z ->
  reference_index (PrimFloat.mul (float_of_Z k) step) step = Ok k.
Proof.
  intros Hs Hk. pose proof sweep_true as H. rewrite forallb_forall in H.
  specialize (H step Hs). rewrite forallb_forall in H.
  specialize (H k (zrange_in 3000 k Hk)). unfold accepted_as in H.
  destruct (reference_index _ _) as [k'|e]; [|discriminate].
  apply Z.eqb_eq in H. subst. reflexivity.
Qed.
