(** Stretch-level consequences combining run detection, the interstorm flags and
    the matching: statements used by C01 and C03. *)
From Spowtd Require Import Model.Matching Model.Mystery Proofs.RunsSpec Proofs.MysterySpec
  Proofs.MatchingSpec Proofs.MatchStormsSpec.
From Coq Require Import Lia.

(** A rise (head interval (a,b)) is a maximal run of fast increments a..b-2. *)
Lemma rises_of_spec jumpf a b :
  In (a, b) (rises_of jumpf) <-> 1 <= b /\ is_run jumpf a (b - 1).
Proof.
  unfold rises_of. rewrite in_map_iff. split.
  - intros ([s e] & Heq & Hin). simpl in Heq. inversion Heq; subst.
    split; [lia|]. replace (S e - 1) with e by lia. apply true_runs_spec. exact Hin.
  - intros (Hb & Hrun). exists (a, b - 1). simpl. split; [f_equal; lia|].
    apply true_runs_spec. exact Hrun.
Qed.

(** zeta_interval has PRIMARY KEY (start_epoch): a rise and an interstorm
    interval of the same stretch never start at the same sample, because the
    two passes use the same flag for the same increment (sample flag i+1 =
    increment flag i). *)
Theorem rise_interstorm_distinct_starts rain jumpf a b c :
  length rain = S (length jumpf) ->
  In (a, b) (rises_of jumpf) -> ~ In (a, c) (interstorm_intervals (false :: jumpf) rain).
Proof.
  intros Hlen Hr Hi. apply rises_of_spec in Hr. destruct Hr as (Hb & (H1 & H2 & H3 & _)).
  apply interstorm_intervals_exact in Hi. destruct Hi as (Hac & (G1 & G2 & G3 & _)).
  assert (Hlen' : length (false :: jumpf) = length rain) by (simpl; lia).
  assert (Hflags : length (interstorm_flags (false :: jumpf) rain) = length rain)
    by (apply interstorm_flags_length; exact Hlen').
  specialize (G3 (S a)). assert (Hf : nth (S a) (interstorm_flags (false :: jumpf) rain) false = true)
    by (apply G3; lia).
  apply (interstorm_char (false :: jumpf) rain (S a) Hlen') in Hf; [|lia].
  destruct Hf as (_ & r & Hr & _ & Hq). specialize (Hq (S a)).
  destruct Hq as (_ & Hq); [lia|lia|]. simpl in Hq.
  rewrite (H3 a) in Hq; [discriminate|lia|lia].
Qed.

(** CHECK (start_epoch < thru_epoch) of storm and zeta_interval. *)
Lemma run_proper l s e : is_run l s e -> s < e.
Proof. intros (H & _). exact H. Qed.

(** * Wrappers on the result of match_storms_flags *)
Section Wrap.
  Variables heavy jumpf : list bool.
  Variable sched : list nat.

  Lemma match_result r :
    match_storms_flags heavy jumpf sched = Ok r ->
    exists st, Inv start_pref (all_candidates (true_runs heavy) (rises_of jumpf)) st /\ free st = [] /\
               r = result_of heavy jumpf (mt st).
  Proof.
    intros H. destruct (match_storms_total heavy jumpf sched) as (st & I & Hf & Heq).
    exists st. split; [exact I|]. split; [exact Hf|]. congruence.
  Qed.

  Theorem ms_total : exists r, match_storms_flags heavy jumpf sched = Ok r.
  Proof. destruct (match_storms_total heavy jumpf sched) as (st & _ & _ & H). eauto. Qed.

  Theorem ms_one_to_one r :
    match_storms_flags heavy jumpf sched = Ok r -> NoDup (map fst r) /\ NoDup (map snd r).
  Proof.
    intros H. destruct (match_result r H) as (st & I & Hf & ->).
    apply pairs_one_to_one. exact I.
  Qed.

  Theorem ms_pairs r sp rp :
    match_storms_flags heavy jumpf sched = Ok r -> In (sp, rp) r ->
    is_run heavy (fst sp) (snd sp) /\ 1 <= snd rp /\ is_run jumpf (fst rp) (snd rp - 1) /\
    exists i, fst sp <= i /\ i < snd sp /\ fst rp <= i /\ i < snd rp - 1.
  Proof.
    intros H Hin. destruct (match_result r H) as (st & I & Hf & ->).
    destruct (pairs_valid heavy jumpf st I sp rp Hin) as (Hs & Hr & Hov).
    destruct sp as [s e]. destruct rp as [a b]. simpl in *.
    apply true_runs_spec in Hs. apply rises_of_spec in Hr. destruct Hr as (Hb & Hr).
    split; [exact Hs|]. split; [exact Hb|]. split; [exact Hr|exact Hov].
  Qed.

  Theorem ms_stable r sp rp :
    match_storms_flags heavy jumpf sched = Ok r ->
    is_run heavy (fst sp) (snd sp) -> 1 <= snd rp -> is_run jumpf (fst rp) (snd rp - 1) ->
    (exists i, fst sp <= i /\ i < snd sp /\ fst rp <= i /\ i < snd rp - 1) ->
    ~ In (sp, rp) r ->
    ((forall rp', ~ In (sp, rp') r) \/
     exists rp0, In (sp, rp0) r /\ (dur_key sp rp < dur_key sp rp0)%Z) ->
    exists sp', In (sp', rp) r /\ (start_pref (fst rp) (fst sp) <= start_pref (fst rp) (fst sp'))%Z.
  Proof.
    intros H Hs Hb Hr Hov Hnot Hgain. destruct (match_result r H) as (st & I & Hf & ->).
    destruct sp as [s e]. destruct rp as [a b]. simpl in *.
    apply (no_blocking_pair heavy jumpf st I Hf (s, e) (a, b)).
    - apply true_runs_spec. exact Hs.
    - apply rises_of_spec. split; assumption.
    - apply overlaps_spec. exact Hov.
    - exact Hnot.
    - exact Hgain.
  Qed.
End Wrap.
