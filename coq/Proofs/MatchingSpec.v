(** Deferred acceptance (find_stable_matching): invariants, totality, stability,
    for every candidate graph, every preference function and every schedule. *)
From Spowtd Require Import Model.Matching.
From Coq Require Import Lia.

(** * Association lists *)
Lemma alookup_aset_same {A} k (v : A) l : alookup k (aset k v l) = Some v.
Proof.
  induction l as [|[k' v'] t IH]; simpl.
  - rewrite Nat.eqb_refl. reflexivity.
  - destruct (Nat.eqb k k') eqn:E; simpl; rewrite ?Nat.eqb_refl, ?E; auto.
Qed.

Lemma alookup_aset_other {A} k k' (v : A) l : k' <> k -> alookup k' (aset k v l) = alookup k' l.
Proof.
  intros Hne. induction l as [|[k0 v0] t IH]; simpl.
  - destruct (Nat.eqb k' k) eqn:E; [apply Nat.eqb_eq in E; contradiction|reflexivity].
  - destruct (Nat.eqb k k0) eqn:E; simpl.
    + apply Nat.eqb_eq in E. subst k0.
      destruct (Nat.eqb k' k) eqn:E2; [apply Nat.eqb_eq in E2; contradiction|reflexivity].
    + destruct (Nat.eqb k' k0); [reflexivity|exact IH].
Qed.

Lemma alookup_in {A} k (v : A) l : alookup k l = Some v -> In (k, v) l.
Proof.
  induction l as [|[k' v'] t IH]; simpl; [discriminate|].
  destruct (Nat.eqb k k') eqn:E.
  - intros H. inversion H; subst. apply Nat.eqb_eq in E. subst. left; reflexivity.
  - intros H. right. apply IH. exact H.
Qed.

Lemma in_alookup {A} k (v : A) l : NoDup (map fst l) -> In (k, v) l -> alookup k l = Some v.
Proof.
  induction l as [|[k' v'] t IH]; simpl; intros Hnd Hin; [contradiction|].
  inversion Hnd as [|x xs Hnotin Hnd']; subst.
  destruct Hin as [Heq|Hin].
  - inversion Heq; subst. rewrite Nat.eqb_refl. reflexivity.
  - destruct (Nat.eqb k k') eqn:E.
    + apply Nat.eqb_eq in E. subst k'. exfalso. apply Hnotin.
      change k with (fst (k, v)). apply in_map. exact Hin.
    + apply IH; assumption.
Qed.

Lemma aset_keys_nodup {A} k (v : A) l : NoDup (map fst l) -> NoDup (map fst (aset k v l)).
Proof.
  induction l as [|[k' v'] t IH]; simpl; intros Hnd.
  - constructor; [simpl; tauto|constructor].
  - inversion Hnd as [|x xs Hnotin Hnd']; subst.
    destruct (Nat.eqb k k') eqn:E; simpl.
    + apply Nat.eqb_eq in E. subst. constructor; assumption.
    + constructor; [|apply IH; exact Hnd'].
      intros Hin. apply Hnotin. clear - Hin E.
      induction t as [|[k0 v0] t IH]; simpl in *.
      * destruct Hin as [Hin|[]]. subst. rewrite Nat.eqb_refl in E. discriminate.
      * destruct (Nat.eqb k k0) eqn:E0; simpl in Hin.
        -- apply Nat.eqb_eq in E0. subst k0. destruct Hin as [Hin|Hin]; [subst; rewrite Nat.eqb_refl in E; discriminate|right; exact Hin].
        -- destruct Hin as [Hin|Hin]; [left; exact Hin|right; apply IH; exact Hin].
Qed.

Lemma lookup_list_aset_same s l c : lookup_list s (aset s l c) = l.
Proof. unfold lookup_list. rewrite alookup_aset_same. reflexivity. Qed.

Lemma lookup_list_aset_other s x l c : x <> s -> lookup_list x (aset s l c) = lookup_list x c.
Proof. intros H. unfold lookup_list. rewrite alookup_aset_other by exact H. reflexivity. Qed.

(** * remove_at *)
Lemma remove_at_in (l : list nat) i x :
  NoDup l -> i < length l -> (In x (remove_at i l) <-> In x l /\ x <> nth i l 0).
Proof.
  revert i. induction l as [|a t IH]; intros i Hnd Hi; simpl in Hi; [lia|].
  inversion Hnd as [|y ys Hnotin Hnd']; subst.
  destruct i as [|i]; unfold remove_at; simpl.
  - split.
    + intros Hin. split; [right; exact Hin|]. intros ->. contradiction.
    + intros ([Heq|Hin] & Hne); [congruence|exact Hin].
  - fold (remove_at i t). rewrite (IH i Hnd') by lia. split.
    + intros [Heq|(Hin & Hne)].
      * subst. split; [left; reflexivity|]. intros Heq. apply Hnotin. rewrite Heq. apply nth_In. lia.
      * split; [right; exact Hin|exact Hne].
    + intros ([Heq|Hin] & Hne); [left; exact Heq|right; split; assumption].
Qed.

Lemma in_remove_at x i (l : list nat) : In x (remove_at i l) -> In x l.
Proof.
  revert i. induction l as [|a t IH]; intros i; unfold remove_at.
  - destruct i; simpl; tauto.
  - destruct i as [|i]; simpl.
    + intros H. right. exact H.
    + fold (remove_at i t). intros [H|H]; [left; exact H|right; exact (IH i H)].
Qed.

Lemma remove_at_nodup (l : list nat) i : NoDup l -> NoDup (remove_at i l).
Proof.
  revert i. induction l as [|a t IH]; intros i Hnd.
  - unfold remove_at. destruct i; simpl; constructor.
  - inversion Hnd as [|y ys Hnotin Hnd']; subst. destruct i as [|i]; unfold remove_at; simpl.
    + exact Hnd'.
    + fold (remove_at i t). constructor; [|apply IH; exact Hnd'].
      intros Hin. apply Hnotin. exact (in_remove_at _ _ _ Hin).
Qed.

Lemma NoDup_app_intro_single (l : list nat) x : NoDup l -> ~ In x l -> NoDup (l ++ [x]).
Proof.
  induction l as [|a t IH]; simpl; intros Hnd Hnot.
  - constructor; [simpl; tauto|constructor].
  - inversion Hnd as [|y ys Hnotin Hnd']; subst. constructor.
    + rewrite in_app_iff. simpl. intros [H|[H|[]]]; [contradiction|]. apply Hnot. left. symmetry. exact H.
    + apply IH; [exact Hnd'|]. intros H. apply Hnot. right. exact H.
Qed.

(** * total number of remaining candidates *)
Lemma total_aset s j rest c :
  alookup s c = Some (j :: rest) -> total_cands (aset s rest c) + 1 = total_cands c.
Proof.
  induction c as [|[k v] t IH]; simpl; [discriminate|].
  destruct (Nat.eqb s k) eqn:E; intros H.
  - inversion H; subst. simpl. lia.
  - simpl. specialize (IH H). lia.
Qed.

Lemma total_lookup s c l : alookup s c = Some l -> length l <= total_cands c.
Proof.
  induction c as [|[k v] t IH]; simpl; [discriminate|].
  destruct (Nat.eqb s k); intros H.
  - inversion H; subst. lia.
  - specialize (IH H). lia.
Qed.

Section Stability.
  Variable pref : nat -> nat -> Z.
  Variable orig : list (nat * list nat).
  Hypothesis orig_keys : NoDup (map fst orig).

  Definition O (s : nat) : list nat := lookup_list s orig.
  Definition R (st : mstate) (s : nat) : list nat := rem_of st s.
  Definition M (st : mstate) (j : nat) : option nat := alookup j (mt st).

  Record Inv (st : mstate) : Prop := {
    Ia : forall s, exists p, O s = p ++ R st s;
    Ib : forall s, In s (free st) -> R st s <> [];
    Ic : forall s j, In s (free st) -> M st j <> Some s;
    Id : NoDup (free st);
    Ie : forall j s p, M st j = Some s -> O s = p ++ R st s -> In j p;
    If_ : forall j1 j2 s, M st j1 = Some s -> M st j2 = Some s -> j1 = j2;
    Ig : forall s p j, O s = p ++ R st s -> In j p ->
                       exists s', M st j = Some s' /\ (pref j s <= pref j s')%Z;
    Ih : forall s, ~ In s (free st) -> (forall j, M st j <> Some s) -> R st s = [];
    Ik : NoDup (map fst (mt st))
  }.

  Lemma init_inv : Inv (init_state orig).
  Proof.
    constructor; unfold R, M, rem_of, init_state; simpl.
    - intros s. exists []. reflexivity.
    - intros s Hin. apply in_map_iff in Hin. destruct Hin as ([k l] & Hk & Hin). simpl in Hk. subst k.
      apply filter_In in Hin. destruct Hin as (Hin & Hne). simpl in Hne.
      unfold lookup_list. rewrite (in_alookup _ _ _ orig_keys Hin). destruct l; [discriminate|discriminate].
    - intros s j _. discriminate.
    - clear -orig_keys. induction orig as [|[k l] t IH]; simpl; [constructor|].
      inversion orig_keys as [|x xs Hnotin Hnd]; subst.
      destruct l; simpl.
      + apply IH. exact Hnd.
      + constructor; [|apply IH; exact Hnd].
        intros Hin. apply Hnotin. apply in_map_iff in Hin. destruct Hin as (x & Hx & Hin).
        apply filter_In in Hin. destruct Hin as (Hin & _). rewrite <- Hx. apply in_map. exact Hin.
    - intros j s p H. discriminate.
    - intros j1 j2 s H. discriminate.
    - intros s p j Heq Hin. fold (O s) in Heq.
      assert (p = []) as ->.
      { destruct p; [reflexivity|]. exfalso.
        apply (f_equal (@length nat)) in Heq. rewrite app_length in Heq. simpl in Heq. lia. }
      destruct Hin.
    - intros s Hnotin _. unfold lookup_list. destruct (alookup s orig) as [l|] eqn:E; [|reflexivity].
      destruct l as [|a l]; [reflexivity|]. exfalso. apply Hnotin.
      apply in_map_iff. exists (s, a :: l). split; [reflexivity|].
      apply filter_In. split; [apply alookup_in; exact E|reflexivity].
    - constructor.
  Qed.

  (** One proposal preserves the invariant, never trips an assertion, and uses up
      exactly one candidate. *)
  Lemma step_ok k st :
    Inv st -> free st <> [] ->
    exists st', step pref k st = Ok st' /\ Inv st' /\
                total_cands (rem st') + 1 = total_cands (rem st).
  Proof.
    intros I Hfree. unfold step.
    destruct (free st) as [|f0 ft] eqn:Efree; [contradiction|]. rewrite <- Efree in *. clear Hfree.
    set (i := k mod length (free st)).
    assert (Hi : i < length (free st)).
    { apply Nat.mod_upper_bound. rewrite Efree. simpl. lia. }
    set (s := nth i (free st) 0).
    assert (Hs : In s (free st)) by (apply nth_In; exact Hi).
    set (free' := remove_at i (free st)).
    assert (Hfree' : forall x, In x free' <-> In x (free st) /\ x <> s).
    { intros x. apply remove_at_in; [exact (Id _ I)|exact Hi]. }
    assert (Hnd' : NoDup free') by (apply remove_at_nodup; exact (Id _ I)).
    assert (Hsnot : ~ In s free') by (intros H; apply Hfree' in H; destruct H; congruence).
    pose proof (Ib _ I s Hs) as HRs. unfold R in HRs.
    destruct (rem_of st s) as [|j rest] eqn:ERs; [contradiction|]. clear HRs.
    assert (Halk : alookup s (rem st) = Some (j :: rest)).
    { unfold rem_of, lookup_list in ERs. destruct (alookup s (rem st)); [congruence|discriminate]. }
    set (rem' := aset s rest (rem st)).
    assert (HR's : lookup_list s rem' = rest) by apply lookup_list_aset_same.
    assert (HR'o : forall x, x <> s -> lookup_list x rem' = rem_of st x).
    { intros x Hx. unfold rem'. rewrite lookup_list_aset_other by exact Hx. reflexivity. }
    assert (Htot : total_cands rem' + 1 = total_cands (rem st)) by (apply total_aset with (j := j); exact Halk).
    destruct (Ia _ I s) as (ps & Hps). unfold R in Hps. rewrite ERs in Hps.
    assert (Hps' : O s = (ps ++ [j]) ++ rest) by (rewrite <- app_assoc; exact Hps).
    (* uniqueness of the popped prefix *)
    assert (Hpfx : forall p, O s = p ++ rest -> p = ps ++ [j]).
    { intros p Hp. rewrite Hps' in Hp. apply app_inv_tail in Hp. symmetry. exact Hp. }
    destruct (alookup j (mt st)) as [s'|] eqn:EMj.
    - (* rise j currently holds storm s' *)
      assert (Hs's : s' <> s) by (intros ->; exact (Ic _ I s j Hs EMj)).
      assert (Hs'free : ~ In s' (free st)) by (intros H; exact (Ic _ I s' j H EMj)).
      assert (Hs'free' : ~ In s' free') by (intros H; apply Hfree' in H; tauto).
      destruct (pref j s' <? pref j s)%Z eqn:Epref.
      + (* displaced *)
        apply Z.ltb_lt in Epref.
        assert (Hmem : mem_nat s' free' = false).
        { destruct (mem_nat s' free') eqn:Em; [|reflexivity]. exfalso. apply Hs'free'.
          clear -Em. induction free' as [|a t IH]; simpl in Em; [discriminate|].
          apply orb_true_iff in Em. destruct Em as [Em|Em]; [apply Nat.eqb_eq in Em; left; congruence|right; auto]. }
        rewrite Hmem.
        set (free'' := match lookup_list s' rem' with [] => free' | _ => free' ++ [s'] end).
        eexists. split; [reflexivity|]. split; [|exact Htot].
        assert (Hfree'' : forall x, In x free'' <-> In x free' \/ (x = s' /\ lookup_list s' rem' <> [])).
        { intros x. unfold free''. destruct (lookup_list s' rem') as [|a l].
          - split; [intros H; left; exact H|intros [H|(_ & H)]; [exact H|contradiction]].
          - rewrite in_app_iff. simpl. split.
            + intros [H|[H|[]]]; [left; exact H|right; split; [auto|discriminate]].
            + intros [H|(H & _)]; [left; exact H|right; left; auto]. }
        constructor; unfold R, M, rem_of; simpl.
        * intros x. destruct (Nat.eq_dec x s) as [->|Hx].
          -- exists (ps ++ [j]). rewrite HR's. exact Hps'.
          -- rewrite HR'o by exact Hx. exact (Ia _ I x).
        * intros x Hx. apply Hfree'' in Hx. destruct Hx as [Hx|(-> & Hne)]; [|exact Hne].
          apply Hfree' in Hx. destruct Hx as (Hx & Hxs). rewrite HR'o by exact Hxs. exact (Ib _ I x Hx).
        * intros x j' Hx HM. apply Hfree'' in Hx.
          destruct (Nat.eq_dec j' j) as [->|Hj'].
          -- rewrite alookup_aset_same in HM. inversion HM; subst x.
             destruct Hx as [Hx|(Hx & _)]; [exact (Hsnot Hx)|congruence].
          -- rewrite alookup_aset_other in HM by exact Hj'.
             destruct Hx as [Hx|(-> & _)].
             ++ apply Hfree' in Hx. exact (Ic _ I x j' (proj1 Hx) HM).
             ++ apply Hj'. exact (If_ _ I j' j s' HM EMj).
        * unfold free''. destruct (lookup_list s' rem'); [exact Hnd'|].
          apply NoDup_app_intro_single; assumption.
        * intros j' x p HM Hp. destruct (Nat.eq_dec j' j) as [->|Hj'].
          -- rewrite alookup_aset_same in HM. inversion HM; subst x. rewrite HR's in Hp.
             rewrite (Hpfx p Hp). apply in_or_app. right. left. reflexivity.
          -- rewrite alookup_aset_other in HM by exact Hj'.
             assert (Hxs : x <> s) by (intros ->; exact (Ic _ I s j' Hs HM)).
             rewrite HR'o in Hp by exact Hxs. exact (Ie _ I j' x p HM Hp).
        * intros j1 j2 x H1 H2.
          destruct (Nat.eq_dec j1 j) as [->|Hj1]; destruct (Nat.eq_dec j2 j) as [->|Hj2]; [reflexivity| | |].
          -- rewrite alookup_aset_same in H1. inversion H1; subst x.
             rewrite alookup_aset_other in H2 by exact Hj2. exfalso. exact (Ic _ I s j2 Hs H2).
          -- rewrite alookup_aset_same in H2. inversion H2; subst x.
             rewrite alookup_aset_other in H1 by exact Hj1. exfalso. exact (Ic _ I s j1 Hs H1).
          -- rewrite alookup_aset_other in H1 by exact Hj1. rewrite alookup_aset_other in H2 by exact Hj2.
             exact (If_ _ I j1 j2 x H1 H2).
        * intros x p j' Hp Hin.
          assert (Hold : exists t, alookup j' (mt st) = Some t /\ (pref j' x <= pref j' t)%Z \/ (x = s /\ j' = j)).
          { destruct (Nat.eq_dec x s) as [->|Hxs].
            - rewrite HR's in Hp. rewrite (Hpfx p Hp) in Hin. apply in_app_or in Hin.
              destruct Hin as [Hin|[Hin|[]]].
              + destruct (Ig _ I s ps j') as (t & Ht1 & Ht2); [unfold R; rewrite ERs; exact Hps|exact Hin|].
                exists t. left. split; assumption.
              + exists 0. right. split; [reflexivity|symmetry; exact Hin].
            - rewrite HR'o in Hp by exact Hxs.
              destruct (Ig _ I x p j' Hp Hin) as (t & Ht1 & Ht2). exists t. left. split; assumption. }
          destruct Hold as (t & [(Ht1 & Ht2)|(-> & ->)]).
          -- destruct (Nat.eq_dec j' j) as [->|Hj'].
             ++ exists s. rewrite alookup_aset_same. split; [reflexivity|].
                rewrite EMj in Ht1. inversion Ht1; subst t. lia.
             ++ exists t. rewrite alookup_aset_other by exact Hj'. split; assumption.
          -- exists s. rewrite alookup_aset_same. split; [reflexivity|lia].
        * intros x Hnotin Hun. destruct (Nat.eq_dec x s) as [->|Hxs].
          -- exfalso. apply (Hun j). apply alookup_aset_same.
          -- rewrite HR'o by exact Hxs. destruct (Nat.eq_dec x s') as [->|Hxs'].
             ++ assert (Hcase : lookup_list s' rem' = [] \/ lookup_list s' rem' <> [])
                  by (destruct (lookup_list s' rem'); [left; reflexivity|right; discriminate]).
                destruct Hcase as [El|El].
                ** rewrite HR'o in El by exact Hs's. exact El.
                ** exfalso. apply Hnotin. apply Hfree''. right. split; [reflexivity|exact El].
             ++ apply (Ih _ I x).
                ** intros Hx. apply Hnotin. apply Hfree''. left. apply Hfree'. split; assumption.
                ** intros j' HM. destruct (Nat.eq_dec j' j) as [->|Hj'].
                   --- unfold M in HM. rewrite EMj in HM. inversion HM. congruence.
                   --- apply (Hun j'). rewrite alookup_aset_other by exact Hj'. exact HM.
        * apply aset_keys_nodup. exact (Ik _ I).
      + (* rejected *)
        apply Z.ltb_ge in Epref.
        set (free'' := match rest with [] => free' | _ => free' ++ [s] end).
        eexists. split; [reflexivity|]. split; [|exact Htot].
        assert (Hfree'' : forall x, In x free'' <-> In x free' \/ (x = s /\ rest <> [])).
        { intros x. unfold free''. destruct rest as [|a l].
          - split; [intros H; left; exact H|intros [H|(_ & H)]; [exact H|contradiction]].
          - rewrite in_app_iff. simpl. split.
            + intros [H|[H|[]]]; [left; exact H|right; split; [auto|discriminate]].
            + intros [H|(H & _)]; [left; exact H|right; left; auto]. }
        constructor; unfold R, M, rem_of; simpl.
        * intros x. destruct (Nat.eq_dec x s) as [->|Hx].
          -- exists (ps ++ [j]). rewrite HR's. exact Hps'.
          -- rewrite HR'o by exact Hx. exact (Ia _ I x).
        * intros x Hx. apply Hfree'' in Hx. destruct Hx as [Hx|(-> & Hne)].
          -- apply Hfree' in Hx. destruct Hx as (Hx & Hxs). rewrite HR'o by exact Hxs. exact (Ib _ I x Hx).
          -- rewrite HR's. exact Hne.
        * intros x j' Hx HM. apply Hfree'' in Hx. destruct Hx as [Hx|(-> & _)].
          -- apply Hfree' in Hx. exact (Ic _ I x j' (proj1 Hx) HM).
          -- exact (Ic _ I s j' Hs HM).
        * unfold free''. destruct rest; [exact Hnd'|]. apply NoDup_app_intro_single; assumption.
        * intros j' x p HM Hp.
          assert (Hxs : x <> s) by (intros ->; exact (Ic _ I s j' Hs HM)).
          rewrite HR'o in Hp by exact Hxs. exact (Ie _ I j' x p HM Hp).
        * exact (If_ _ I).
        * intros x p j' Hp Hin. destruct (Nat.eq_dec x s) as [->|Hxs].
          -- rewrite HR's in Hp. rewrite (Hpfx p Hp) in Hin. apply in_app_or in Hin.
             destruct Hin as [Hin|[Hin|[]]].
             ++ apply (Ig _ I s ps j'); [unfold R; rewrite ERs; exact Hps|exact Hin].
             ++ subst j'. exists s'. split; [exact EMj|exact Epref].
          -- rewrite HR'o in Hp by exact Hxs. exact (Ig _ I x p j' Hp Hin).
        * intros x Hnotin Hun. destruct (Nat.eq_dec x s) as [->|Hxs].
          -- rewrite HR's. destruct rest as [|a l]; [reflexivity|].
             exfalso. apply Hnotin. apply Hfree''. right. split; [reflexivity|discriminate].
          -- rewrite HR'o by exact Hxs. apply (Ih _ I x); [|exact Hun].
             intros Hx. apply Hnotin. apply Hfree''. left. apply Hfree'. split; assumption.
        * exact (Ik _ I).
    - (* rise j is unmatched: accept *)
      eexists. split; [reflexivity|]. split; [|exact Htot].
      constructor; unfold R, M, rem_of; simpl.
      * intros x. destruct (Nat.eq_dec x s) as [->|Hx].
        -- exists (ps ++ [j]). rewrite HR's. exact Hps'.
        -- rewrite HR'o by exact Hx. exact (Ia _ I x).
      * intros x Hx. apply Hfree' in Hx. destruct Hx as (Hx & Hxs).
        rewrite HR'o by exact Hxs. exact (Ib _ I x Hx).
      * intros x j' Hx HM. apply Hfree' in Hx. destruct Hx as (Hx & Hxs).
        destruct (Nat.eq_dec j' j) as [->|Hj'].
        -- rewrite alookup_aset_same in HM. inversion HM. congruence.
        -- rewrite alookup_aset_other in HM by exact Hj'. exact (Ic _ I x j' Hx HM).
      * exact Hnd'.
      * intros j' x p HM Hp. destruct (Nat.eq_dec j' j) as [->|Hj'].
        -- rewrite alookup_aset_same in HM. inversion HM; subst x. rewrite HR's in Hp.
           rewrite (Hpfx p Hp). apply in_or_app. right. left. reflexivity.
        -- rewrite alookup_aset_other in HM by exact Hj'.
           assert (Hxs : x <> s) by (intros ->; exact (Ic _ I s j' Hs HM)).
           rewrite HR'o in Hp by exact Hxs. exact (Ie _ I j' x p HM Hp).
      * intros j1 j2 x H1 H2.
        destruct (Nat.eq_dec j1 j) as [->|Hj1]; destruct (Nat.eq_dec j2 j) as [->|Hj2]; [reflexivity| | |].
        -- rewrite alookup_aset_same in H1. inversion H1; subst x.
           rewrite alookup_aset_other in H2 by exact Hj2. exfalso. exact (Ic _ I s j2 Hs H2).
        -- rewrite alookup_aset_same in H2. inversion H2; subst x.
           rewrite alookup_aset_other in H1 by exact Hj1. exfalso. exact (Ic _ I s j1 Hs H1).
        -- rewrite alookup_aset_other in H1 by exact Hj1. rewrite alookup_aset_other in H2 by exact Hj2.
           exact (If_ _ I j1 j2 x H1 H2).
      * intros x p j' Hp Hin. destruct (Nat.eq_dec x s) as [->|Hxs].
        -- rewrite HR's in Hp. rewrite (Hpfx p Hp) in Hin. apply in_app_or in Hin.
           destruct Hin as [Hin|[Hin|[]]].
           ++ destruct (Ig _ I s ps j') as (t & Ht1 & Ht2); [unfold R; rewrite ERs; exact Hps|exact Hin|].
              assert (Hj' : j' <> j) by (intros ->; unfold M in Ht1; congruence).
              exists t. rewrite alookup_aset_other by exact Hj'. split; assumption.
           ++ subst j'. exists s. rewrite alookup_aset_same. split; [reflexivity|lia].
        -- rewrite HR'o in Hp by exact Hxs.
           destruct (Ig _ I x p j' Hp Hin) as (t & Ht1 & Ht2).
           assert (Hj' : j' <> j) by (intros ->; unfold M in Ht1; congruence).
           exists t. rewrite alookup_aset_other by exact Hj'. split; assumption.
      * intros x Hnotin Hun. destruct (Nat.eq_dec x s) as [->|Hxs].
        -- exfalso. apply (Hun j). apply alookup_aset_same.
        -- rewrite HR'o by exact Hxs. apply (Ih _ I x).
           ++ intros Hx. apply Hnotin. apply Hfree'. split; assumption.
           ++ intros j' HM. destruct (Nat.eq_dec j' j) as [->|Hj'].
              ** unfold M in HM. congruence.
              ** apply (Hun j'). rewrite alookup_aset_other by exact Hj'. exact HM.
      * apply aset_keys_nodup. exact (Ik _ I).
  Qed.

  (** The loop ends, with no assertion failure and without running out of fuel,
      for every schedule. *)
  Lemma run_total : forall fuel sched st,
    Inv st -> total_cands (rem st) <= fuel ->
    exists st', run pref sched fuel st = Ok st' /\ Inv st' /\ free st' = [].
  Proof.
    induction fuel as [|f IH]; intros sched st I Hfuel.
    - simpl. destruct (free st) as [|s0 ft] eqn:Efree; [exists st; auto|].
      exfalso. assert (Hs : In s0 (free st)) by (rewrite Efree; left; reflexivity).
      pose proof (Ib _ I s0 Hs) as Hne. unfold R, rem_of, lookup_list in Hne.
      destruct (alookup s0 (rem st)) as [l|] eqn:El; [|contradiction].
      pose proof (total_lookup _ _ _ El) as Hle. destruct l; [contradiction|]. simpl in Hle. lia.
    - simpl. destruct (free st) as [|s0 ft] eqn:Efree; [exists st; auto|].
      destruct (step_ok (hd 0 sched) st I) as (st1 & Hstep & I1 & Htot); [rewrite Efree; discriminate|].
      rewrite Hstep. simpl. apply IH; [exact I1|lia].
  Qed.

  Theorem stable_matching_total sched :
    exists st, run pref sched (total_cands orig) (init_state orig) = Ok st /\ Inv st /\ free st = []
               /\ stable_matching pref orig sched = Ok (mt st).
  Proof.
    destruct (run_total (total_cands orig) sched (init_state orig) init_inv) as (st & Hrun & I & Hf).
    - simpl. lia.
    - exists st. split; [exact Hrun|]. split; [exact I|]. split; [exact Hf|].
      unfold stable_matching. rewrite Hrun. reflexivity.
  Qed.

  (** ** Consequences for a final state *)
  Section Final.
    Variable st : mstate.
    Hypothesis I : Inv st.
    Hypothesis Hfree : free st = [].

    (** every recorded pair is a candidate edge *)
    Lemma final_edge j s : M st j = Some s -> In j (O s).
    Proof.
      intros HM. destruct (Ia _ I s) as (p & Hp). rewrite Hp. apply in_or_app. left.
      exact (Ie _ I j s p HM Hp).
    Qed.

    (** a storm left unmatched has proposed to every candidate *)
    Lemma final_unmatched_exhausted s : (forall j, M st j <> Some s) -> R st s = [].
    Proof. intros Hun. apply (Ih _ I s); [rewrite Hfree; simpl; tauto|exact Hun]. Qed.

    (** No blocking pair, in the order-of-proposal form: if storm [s] is
        unmatched, or [j] comes before its partner in its proposal order, then
        rise [j] holds a storm it likes at least as much as [s]. *)
    Lemma final_no_blocking_unmatched s j :
      In j (O s) -> (forall j', M st j' <> Some s) ->
      exists s', M st j = Some s' /\ (pref j s <= pref j s')%Z.
    Proof.
      intros Hin Hun. pose proof (final_unmatched_exhausted s Hun) as HR.
      destruct (Ia _ I s) as (p & Hp). rewrite HR, app_nil_r in Hp. subst p.
      apply (Ig _ I s (O s) j); [rewrite HR, app_nil_r; reflexivity|exact Hin].
    Qed.

    Lemma final_proposed s j p : O s = p ++ R st s -> In j p ->
      exists s', M st j = Some s' /\ (pref j s <= pref j s')%Z.
    Proof. intros Hp Hin. exact (Ig _ I s p j Hp Hin). Qed.

    (** Key form: the proposal order of every storm is sorted by a key
        (ascending = better first). *)
    Variable key : nat -> nat -> Z.
    Hypothesis sorted : forall s p q a b, O s = p ++ a :: q -> In b q -> (key s a <= key s b)%Z.

    Theorem final_no_blocking_pair s j :
      In j (O s) -> M st j <> Some s ->
      (* the storm would strictly gain ... *)
      ((forall j', M st j' <> Some s) \/ exists j0, M st j0 = Some s /\ (key s j < key s j0)%Z) ->
      (* ... then the rise would not *)
      exists s', M st j = Some s' /\ (pref j s <= pref j s')%Z.
    Proof.
      intros Hin Hnot [Hun|(j0 & HM0 & Hkey)].
      - apply final_no_blocking_unmatched; assumption.
      - destruct (Ia _ I s) as (p & Hp).
        pose proof (Ie _ I j0 s p HM0 Hp) as Hj0.
        rewrite Hp in Hin. apply in_app_or in Hin. destruct Hin as [Hin|Hin].
        + exact (Ig _ I s p j Hp Hin).
        + exfalso. apply in_split in Hj0. destruct Hj0 as (p1 & p2 & ->).
          assert (Hle : (key s j0 <= key s j)%Z).
          { apply (sorted s p1 (p2 ++ R st s) j0 j).
            - rewrite Hp. rewrite <- app_assoc. reflexivity.
            - apply in_or_app. right. exact Hin. }
          lia.
    Qed.

    (** one-to-one *)
    Lemma final_storms_nodup : NoDup (map snd (mt st)).
    Proof.
      pose proof (Ik _ I) as Hk. pose proof (If_ _ I) as Hinj. unfold M in Hinj.
      induction (mt st) as [|[j s] t IH]; simpl; [constructor|].
      simpl in Hk. inversion Hk as [|x xs Hnotin Hk']; subst.
      constructor.
      - intros Hin. apply in_map_iff in Hin. destruct Hin as ([j2 s2] & Hs2 & Hin2). simpl in Hs2. subst s2.
        assert (j2 = j).
        { apply (Hinj j2 j s).
          - simpl. destruct (Nat.eqb j2 j) eqn:E; [apply Nat.eqb_eq in E; subst; exfalso; apply Hnotin;
              change j with (fst (j, s)); apply in_map; exact Hin2|].
            apply in_alookup; assumption.
          - simpl. rewrite Nat.eqb_refl. reflexivity. }
        subst j2. apply Hnotin. change j with (fst (j, s)). apply in_map. exact Hin2.
      - apply IH; [exact Hk'|].
        intros j1 j2 x H1 H2. apply (Hinj j1 j2 x); simpl.
        + destruct (Nat.eqb j1 j) eqn:E; [|exact H1]. apply Nat.eqb_eq in E. subst j1.
          exfalso. apply Hnotin. change j with (fst (j, x)). apply in_map. apply alookup_in. exact H1.
        + destruct (Nat.eqb j2 j) eqn:E; [|exact H2]. apply Nat.eqb_eq in E. subst j2.
          exfalso. apply Hnotin. change j with (fst (j, x)). apply in_map. apply alookup_in. exact H2.
    Qed.

    Lemma final_rises_nodup : NoDup (map fst (mt st)).
    Proof. exact (Ik _ I). Qed.

    Lemma final_pair_in j s : In (j, s) (mt st) -> M st j = Some s.
    Proof. intros Hin. apply in_alookup; [exact (Ik _ I)|exact Hin]. Qed.
  End Final.
End Stability.
