(** Provenance of the master-curve rows (Model/Curves.v): every stored triple
    (start epoch, level, value) comes from a classified interval of the right
    kind, and the value is the summary (mean) of the crossings of that level by
    the interval's own series.  Generic in the regridding function and the
    summary, so that it covers both the exact instance and the instance with
    tolerances that the generated case files evaluate. *)
From Spowtd Require Import Model.Curves Proofs.RegridSpec Proofs.RegridFloatSpec.
From Coq Require Import Lia.

(** * Lists *)

Lemma in_insert_by {A} (key : A -> Z) x y (l : list A) :
  In y (insert_by key x l) <-> y = x \/ In y l.
Proof.
  induction l as [|a l IH]; simpl.
  - intuition.
  - destruct (key x <=? key a)%Z; simpl; [intuition|]. rewrite IH. intuition.
Qed.

Lemma in_sort_by {A} (key : A -> Z) y (l : list A) : In y (sort_by key l) <-> In y l.
Proof.
  induction l as [|a l IH]; simpl; [tauto|]. rewrite in_insert_by, IH. intuition.
Qed.

Lemma in_insert_q {A} (key : A -> Q) x y (l : list A) :
  In y (insert_q key x l) <-> y = x \/ In y l.
Proof.
  induction l as [|a l IH]; simpl.
  - intuition.
  - destruct (Qle_bool (key x) (key a)); simpl; [intuition|]. rewrite IH. intuition.
Qed.

Lemma in_sort_q {A} (key : A -> Q) y (l : list A) : In y (sort_q key l) <-> In y l.
Proof.
  induction l as [|a l IH]; simpl; [tauto|]. rewrite in_insert_q, IH. intuition.
Qed.

Lemma in_enumerate_from {A} (l : list A) : forall n i a,
  In (i, a) (enumerate_from n l) <-> (n <= i)%nat /\ nth_error l (i - n) = Some a.
Proof.
  induction l as [|b l IH]; intros n i a; simpl.
  - split; [intros []|]. intros (_ & H). destruct (i - n)%nat; discriminate.
  - rewrite IH. split.
    + intros [E|(Hle & Hn)].
      * inversion E; subst. split; [lia|]. rewrite Nat.sub_diag. reflexivity.
      * split; [lia|]. replace (i - n)%nat with (S (i - S n)) by lia. exact Hn.
    + intros (Hle & Hn). destruct (Nat.eq_dec i n) as [E|E].
      * subst. rewrite Nat.sub_diag in Hn. simpl in Hn. inversion Hn. left. reflexivity.
      * right. split; [lia|]. replace (i - n)%nat with (S (i - S n)) in Hn by lia. exact Hn.
Qed.

Lemma in_insert_nat x y l : In y (insert_nat x l) <-> y = x \/ In y l.
Proof.
  induction l as [|a l IH]; simpl.
  - intuition.
  - destruct (Nat.ltb x a); simpl; [intuition|].
    destruct (Nat.eqb_spec x a) as [E|E]; simpl.
    + subst. intuition.
    + rewrite IH. intuition.
Qed.

Lemma in_sorted_set y l : In y (sorted_set l) <-> In y l.
Proof.
  unfold sorted_set. induction l as [|a l IH]; simpl; [tauto|].
  rewrite in_insert_nat, IH. intuition.
Qed.

Lemma nth_map_fst_error {A B} (l : list (A * B)) i a b d :
  nth_error l i = Some (a, b) -> nth i (map fst l) d = a.
Proof.
  revert i. induction l as [|x l IH]; intros i H; destruct i; simpl in *; try discriminate.
  - inversion H. reflexivity.
  - apply IH, H.
Qed.

Lemma nth_error_map_snd {A B} (l : list (A * B)) i b :
  nth_error (map snd l) i = Some b -> exists a, nth_error l i = Some (a, b).
Proof.
  rewrite nth_error_map. destruct (nth_error l i) as [(a, b')|]; simpl; [|discriminate].
  intros H. inversion H. exists a. reflexivity.
Qed.

Section Provenance.
Context {V W : Type}.
Variable rg : list Q -> list float -> float -> res (list (Z * V)).
Variable summ : list V -> W.

(** * build_head_mapping (generic) *)

Lemma build_head_mapping_gen_entry series step mapping :
  build_head_mapping_gen rg summ series step = Ok mapping ->
  forall k l j w, In (k, l) mapping -> In (j, w) l ->
    exists s items, nth_error series j = Some s /\
                    rg (fst s) (snd s) step = Ok items /\
                    crossings_of k items <> [] /\
                    w = summ (crossings_of k items).
Proof.
  unfold build_head_mapping_gen.
  destruct (all_ok (map (fun s => rg (fst s) (snd s) step) series)) as [all_items|e] eqn:E;
    simpl; [|discriminate].
  intros H k l j w Hkl Hjw. inversion H; subst. clear H.
  destruct (head_mapping_gen_spec summ all_items) as (A & C).
  rewrite <- (in_dict_lookup k l _ A Hkl) in Hjw.
  rewrite C, in_entries_spec, Nat.sub_0_r in Hjw.
  destruct Hjw as (items & _ & Hn & Hne & Hw).
  destruct (all_ok_nth _ _ E) as (_ & HN). apply HN in Hn. rewrite nth_error_map in Hn.
  destruct (nth_error series j) as [s|]; [|discriminate]. simpl in Hn.
  inversion Hn as [Hr]. exists s, items. auto.
Qed.

(** * get_series_time_offsets: what is stored, for which series *)

Lemma series_time_offsets_entry series step ids mapping :
  series_time_offsets rg summ series step = Ok (ids, mapping) ->
  forall k l o w, In (k, l) mapping -> In (o, w) l ->
    exists s items, nth_error series o = Some s /\
                    rg (shift_min (fst s)) (snd s) step = Ok items /\
                    crossings_of k items <> [] /\
                    w = summ (crossings_of k items).
Proof.
  unfold series_time_offsets. destruct series as [|s0 series']; [discriminate|].
  set (series := s0 :: series').
  destruct (existsb _ series); [discriminate|]. destruct (existsb _ series); [discriminate|].
  set (dec := sort_q (head_key) (enumerate_from 0 series)).
  set (sorted_list := map (fun d => (shift_min (fst (snd d)), snd (snd d))) dec).
  destruct (build_head_mapping_gen rg summ sorted_list step) as [hm|e] eqn:EH; simpl; [|discriminate].
  destruct (filter (fun e => Nat.ltb 1 (length (snd e))) hm) as [|sh0 shared]; [discriminate|].
  set (cc := first_component (sh0 :: shared)).
  remember (filter (fun e => negb (Nat.eqb (length (snd e)) 1))
                   (filter (fun e => mem_Z (fst e) cc) hm)) as used eqn:EU.
  destruct used as [|u0 used']; [discriminate|].
  set (orig := fun j => nth j (map fst dec) 0%nat).
  intros H k l o w Hkl How.
  assert (Hmap : mapping = map (fun e => (fst e, map (fun p => (orig (fst p), snd p)) (snd e)))
                               (u0 :: used')) by (inversion H; reflexivity).
  clear H. rewrite Hmap in Hkl. apply in_map_iff in Hkl. destruct Hkl as ((k', l') & E & Hin).
  simpl in E. inversion E; subst k l. clear E.
  apply in_map_iff in How. destruct How as ((j, w') & E & Hjw). simpl in E.
  inversion E; subst o w'. clear E.
  assert (Hhm : In (k', l') hm).
  { rewrite EU in Hin. apply filter_In in Hin. destruct Hin as (Hin & _).
    apply filter_In in Hin. tauto. }
  destruct (build_head_mapping_gen_entry _ _ _ EH k' l' j w Hhm Hjw)
    as (s' & items & Hn & Hr & Hne & Hw).
  unfold sorted_list in Hn. rewrite nth_error_map in Hn.
  destruct (nth_error dec j) as [(o, s)|] eqn:Ed; [|discriminate]. simpl in Hn.
  inversion Hn; subst s'. clear Hn. simpl in Hr.
  exists s, items.
  assert (Ho : orig j = o) by (eapply nth_map_fst_error, Ed).
  rewrite Ho. split; [|auto].
  apply nth_error_In in Ed. unfold dec in Ed. apply in_sort_q in Ed.
  apply in_enumerate_from in Ed. destruct Ed as (_ & Ed). rewrite Nat.sub_0_r in Ed. exact Ed.
Qed.

(** The series that receive an offset are exactly those with a stored crossing. *)
Lemma series_time_offsets_ids series step ids mapping :
  series_time_offsets rg summ series step = Ok (ids, mapping) ->
  forall o, In o ids <-> exists k l w, In (k, l) mapping /\ In (o, w) l.
Proof.
  unfold series_time_offsets. destruct series as [|s0 series']; [discriminate|].
  set (series := s0 :: series').
  destruct (existsb _ series); [discriminate|]. destruct (existsb _ series); [discriminate|].
  set (dec := sort_q (head_key) (enumerate_from 0 series)).
  set (sorted_list := map (fun d => (shift_min (fst (snd d)), snd (snd d))) dec).
  destruct (build_head_mapping_gen rg summ sorted_list step) as [hm|e] eqn:EH; simpl; [|discriminate].
  destruct (filter (fun e => Nat.ltb 1 (length (snd e))) hm) as [|sh0 shared]; [discriminate|].
  set (cc := first_component (sh0 :: shared)).
  remember (filter (fun e => negb (Nat.eqb (length (snd e)) 1))
                   (filter (fun e => mem_Z (fst e) cc) hm)) as used eqn:EU.
  destruct used as [|u0 used']; [discriminate|].
  set (orig := fun j => nth j (map fst dec) 0%nat).
  intros H o.
  assert (Hmap : mapping = map (fun e => (fst e, map (fun p => (orig (fst p), snd p)) (snd e)))
                               (u0 :: used')) by (inversion H; reflexivity).
  assert (Hids : ids = map orig (sorted_set (concat (map (fun e => map fst (snd e)) (u0 :: used')))))
    by (inversion H; reflexivity).
  clear H EU. rewrite Hmap, Hids. clear Hmap Hids. generalize (u0 :: used') as used. intros used.
  rewrite in_map_iff. split.
  - intros (j & Ho & Hj). apply in_sorted_set, in_concat in Hj.
    destruct Hj as (lj & Hlj & Hjl). apply in_map_iff in Hlj. destruct Hlj as ((k, l) & E & Hin).
    simpl in E. subst lj. apply in_map_iff in Hjl. destruct Hjl as ((j', w) & E & Hjw).
    simpl in E. subst j'.
    exists k, (map (fun p => (orig (fst p), snd p)) l), w. split.
    + apply in_map_iff. exists (k, l). split; [reflexivity|exact Hin].
    + apply in_map_iff. exists (j, w). split; [simpl; rewrite <- Ho; reflexivity|exact Hjw].
  - intros (k & l & w & Hkl & How). apply in_map_iff in Hkl.
    destruct Hkl as ((k', l') & E & Hin). simpl in E. inversion E; subst k l. clear E.
    apply in_map_iff in How. destruct How as ((j, w') & E & Hjw). simpl in E.
    inversion E; subst w'. exists j. split; [reflexivity|].
    apply in_sorted_set, in_concat. exists (map fst l'). split.
    + apply in_map_iff. exists (k', l'). split; [reflexivity|exact Hin].
    + apply in_map_iff. exists (j, w). split; [reflexivity|exact Hjw].
Qed.

(** * The rows *)

Lemma in_curve_rows start_of ids (mapping : list (Z * list (nat * W))) e k (w : W) :
  In (e, k, w) (snd (curve_rows start_of (ids, mapping))) <->
  exists l o, In (k, l) mapping /\ In (o, w) l /\ e = start_of o.
Proof.
  unfold curve_rows. simpl. rewrite in_flat_map. split.
  - intros ((k', l) & Hkl & Hin). apply in_map_iff in Hin. destruct Hin as ((o, w') & E & How).
    simpl in E. inversion E; subst. exists l, o. auto.
  - intros (l & o & Hkl & How & ->). exists (k, l). split; [exact Hkl|].
    apply in_map_iff. exists (o, w). split; [reflexivity|exact How].
Qed.

(** Both commands have the same shape: a list of (start epoch, series) built
    from the tables, then [series_time_offsets], then [curve_rows]. *)
Lemma command_rows (ss : list (Z * (list Q * list float))) step ivs rows :
  bind (series_time_offsets rg summ (map snd ss) step)
       (fun r => Ok (curve_rows (fun i => nth i (map fst ss) 0%Z) r)) = Ok (ivs, rows) ->
  (forall e k w, In (e, k, w) rows ->
     exists o s items, nth_error ss o = Some (e, s) /\
                       rg (shift_min (fst s)) (snd s) step = Ok items /\
                       crossings_of k items <> [] /\
                       w = summ (crossings_of k items)) /\
  (forall e, In e ivs <-> exists k w, In (e, k, w) rows).
Proof.
  destruct (series_time_offsets rg summ (map snd ss) step) as [(ids, mapping)|err] eqn:E;
    simpl; [|discriminate].
  intros H. set (start_of := fun i => nth i (map fst ss) 0%Z) in *.
  assert (Hrows' : rows = snd (curve_rows start_of (ids, mapping))) by (inversion H; reflexivity).
  assert (Hiv : ivs = map start_of ids) by (inversion H; reflexivity).
  clear H. rewrite Hiv. clear Hiv.
  split.
  - intros e k w Hin. rewrite Hrows' in Hin. apply in_curve_rows in Hin.
    destruct Hin as (l & o & Hkl & How & He).
    destruct (series_time_offsets_entry _ _ _ _ E k l o w Hkl How) as (s & items & Hn & Hr & Hne & Hw).
    apply nth_error_map_snd in Hn. destruct Hn as (e' & Hn).
    exists o, s, items. split; [|auto].
    rewrite He. unfold start_of. rewrite (nth_map_fst_error ss o e' s 0%Z Hn). exact Hn.
  - intros e. rewrite in_map_iff. split.
    + intros (o & He & Ho). apply (series_time_offsets_ids _ _ _ _ E) in Ho.
      destruct Ho as (k & l & w & Hkl & How). exists k, w. rewrite Hrows'.
      apply in_curve_rows. exists l, o. auto.
    + intros (k & w & Hin). rewrite Hrows' in Hin. apply in_curve_rows in Hin.
      destruct Hin as (l & o & Hkl & How & He). exists o. split; [symmetry; exact He|].
      apply (series_time_offsets_ids _ _ _ _ E). exists k, l, w. auto.
Qed.

(** * rise *)

(** The join lists exactly the (storm, pairing, interval) triples that match. *)
Lemma in_rise_join t s_start s_thru z_start z_thru :
  In (s_start, s_thru, z_start, z_thru) (rise_join t) <->
  In (s_start, s_thru) (t_storm t) /\ In (z_start, s_start) (t_pairing t) /\
  exists ty, In (z_start, z_thru, ty) (t_zeta_interval t).
Proof.
  unfold rise_join. rewrite in_flat_map. split.
  - intros ((a, b) & Hs & H). apply in_sort_by in Hs. apply in_flat_map in H.
    destruct H as ((iv, st) & Hp & H). simpl in H.
    destruct (Z.eqb_spec st a) as [E|E]; [|contradiction]. subst st.
    apply in_flat_map in H. destruct H as (((zs, zt), ty) & Hz & H). simpl in H.
    destruct (Z.eqb_spec zs iv) as [E|E]; [|contradiction]. subst zs.
    destruct H as [H|[]]. inversion H; subst. split; [exact Hs|]. split; [exact Hp|].
    exists ty. exact Hz.
  - intros (Hs & Hp & ty & Hz). exists (s_start, s_thru). split; [apply in_sort_by, Hs|].
    apply in_flat_map. exists (z_start, s_start). split; [exact Hp|]. simpl.
    rewrite Z.eqb_refl. apply in_flat_map. exists (z_start, z_thru, ty). split; [exact Hz|].
    simpl. rewrite Z.eqb_refl. left. reflexivity.
Qed.

(** What the series of one matched storm is made of. *)
Lemma rise_series_row_ok t epochs zetas s_start s_thru z_start z_thru e s :
  rise_series_row t epochs zetas (s_start, s_thru, z_start, z_thru) = Ok (e, s) ->
  e = z_start /\
  exists a b depth,
    index_of z_start epochs = Some a /\ index_of z_thru epochs = Some b /\ (a < b)%nat /\
    storm_depth t s_start s_thru = Ok depth /\
    s = ([0; depth], [nth a zetas 0%float; nth b zetas 0%float]).
Proof.
  unfold rise_series_row.
  destruct (index_of z_start epochs) as [a|]; [|discriminate].
  destruct (index_of z_thru epochs) as [b|]; [|discriminate].
  destruct (storm_depth t s_start s_thru) as [depth|err]; simpl; [|discriminate].
  destruct (Nat.ltb_spec a b) as [Hab|Hab]; simpl; [|discriminate].
  destruct (strictly_increasing (slice a (S b) zetas)); simpl; [|discriminate].
  intros H. inversion H; subst. split; [reflexivity|]. exists a, b, depth. auto.
Qed.

Lemma index_of_nth e l a : index_of e l = Some a -> nth_error l a = Some e.
Proof.
  revert a. induction l as [|x l IH]; intros a H; simpl in H; [discriminate|].
  destruct (Z.eqb_spec x e) as [E|E].
  - inversion H; subst. reflexivity.
  - destruct (index_of e l) as [a'|]; [|discriminate]. simpl in H. inversion H; subst.
    simpl. apply IH. reflexivity.
Qed.

(** Rows written by [rise]: each belongs to a matched rise (a pairing whose
    storm and interval exist), and its value summarises the crossings of the
    two-point series (0, its storm's total depth) x (level at the interval's
    start, level at its end). *)
Lemma rise_command_rows t ivs rows :
  rise_command rg summ t = Ok (ivs, rows) ->
  (forall e k w, In (e, k, w) rows ->
     exists s_start s_thru z_thru ty step epochs zetas a b depth items,
       In (s_start, s_thru) (t_storm t) /\ In (e, s_start) (t_pairing t) /\
       In (e, z_thru, ty) (t_zeta_interval t) /\
       t_grid t = Some step /\
       read_levels t = Ok (epochs, zetas) /\
       nth_error epochs a = Some e /\ nth_error epochs b = Some z_thru /\ (a < b)%nat /\
       storm_depth t s_start s_thru = Ok depth /\
       rg (shift_min [0; depth]) [nth a zetas 0%float; nth b zetas 0%float] step = Ok items /\
       crossings_of k items <> [] /\
       w = summ (crossings_of k items)) /\
  (forall e, In e ivs <-> exists k w, In (e, k, w) rows).
Proof.
  unfold rise_command, rise_series.
  destruct (read_levels t) as [(epochs, zetas)|err] eqn:ER; simpl; [|discriminate].
  destruct (all_ok (map (rise_series_row t epochs zetas) (rise_join t))) as [ss|err] eqn:ES;
    simpl; [|discriminate].
  unfold grid_step. destruct (t_grid t) as [step|] eqn:EG; simpl; [|discriminate].
  intros H. destruct (command_rows ss step ivs rows H) as (A & B). split; [|exact B].
  intros e k w Hin. destruct (A e k w Hin) as (o & s & items & Hn & Hr & Hne & Hw).
  destruct (all_ok_nth _ _ ES) as (_ & HN). apply HN in Hn. rewrite nth_error_map in Hn.
  destruct (nth_error (rise_join t) o) as [(((s_start, s_thru), z_start), z_thru)|] eqn:EJ;
    [|discriminate].
  simpl in Hn. inversion Hn as [Hrow]. clear Hn.
  apply rise_series_row_ok in Hrow. destruct Hrow as (-> & a & b & depth & Ha & Hb & Hab & Hd & ->).
  apply nth_error_In, in_rise_join in EJ. destruct EJ as (Hs & Hp & ty & Hz).
  exists s_start, s_thru, z_thru, ty, step, epochs, zetas, a, b, depth, items.
  simpl in Hr. repeat split; auto using index_of_nth.
Qed.

(** * recession *)

Lemma in_interstorm_intervals t a b :
  In (a, b) (interstorm_intervals t) <-> In (a, b, false) (t_zeta_interval t).
Proof.
  unfold interstorm_intervals. rewrite in_map_iff. split.
  - intros (((a', b'), ty) & E & Hin). simpl in E. inversion E; subst.
    apply filter_In in Hin. destruct Hin as (Hin & Hty). apply in_sort_by in Hin.
    simpl in Hty. destruct ty; [discriminate|]. exact Hin.
  - intros Hin. exists (a, b, false). split; [reflexivity|]. apply filter_In.
    split; [apply in_sort_by, Hin|reflexivity].
Qed.

Lemma last_cons_indep {A} (l : list A) : forall x d d', last (x :: l) d = last (x :: l) d'.
Proof.
  induction l as [|y l IH]; intros x d d'; [reflexivity|].
  change (last (y :: l) d = last (y :: l) d'). apply IH.
Qed.

Lemma recession_series_row_ok wl a b e s :
  recession_series_row wl (a, b) = Ok (e, s) ->
  e = a /\
  let sel := filter (fun r => Z.leb a (fst r) && Z.leb (fst r) b) wl in
  s = (map (fun r => inject_Z (fst r)) sel, map snd sel) /\
  (exists z rest, sel = (a, z) :: rest) /\ fst (last sel (a, 0%float)) = b.
Proof.
  unfold recession_series_row. cbn [fst snd].
  generalize (filter (fun r => Z.leb a (fst r) && Z.leb (fst r) b) wl) as sel. intros sel.
  destruct sel as [|first rest]; [discriminate|].
  destruct (Z.eqb_spec (fst first) a) as [E1|E1]; cbn [negb]; [|discriminate].
  destruct (Z.eqb_spec (fst (last (first :: rest) first)) b) as [E2|E2]; cbn [negb]; [|discriminate].
  intros H. inversion H; subst. split; [reflexivity|]. cbv zeta. split; [reflexivity|]. split.
  - exists (snd first), rest. destruct first; reflexivity.
  - rewrite (last_cons_indep rest first (fst first, 0%float) first). reflexivity.
Qed.

(** Rows written by [recession]: each belongs to an interval recorded as
    'interstorm', and its value summarises the crossings of the series made of
    exactly the water-level samples whose epoch lies in that interval. *)
Lemma recession_command_rows t ivs rows :
  recession_command rg summ t = Ok (ivs, rows) ->
  (forall e k w, In (e, k, w) rows ->
     exists thru step items,
       In (e, thru, false) (t_zeta_interval t) /\
       t_grid t = Some step /\
       let sel := filter (fun r => Z.leb e (fst r) && Z.leb (fst r) thru) (water_levels t) in
       rg (shift_min (map (fun r => inject_Z (fst r)) sel)) (map snd sel) step = Ok items /\
       crossings_of k items <> [] /\
       w = summ (crossings_of k items)) /\
  (forall e, In e ivs <-> exists k w, In (e, k, w) rows).
Proof.
  unfold recession_command, recession_series.
  destruct (read_levels t) as [ez|err] eqn:ER; simpl; [|discriminate].
  destruct (all_ok (map (recession_series_row (water_levels t)) (interstorm_intervals t)))
    as [ss|err] eqn:ES; simpl; [|discriminate].
  unfold grid_step. destruct (t_grid t) as [step|] eqn:EG; simpl; [|discriminate].
  intros H. destruct (command_rows ss step ivs rows H) as (A & B). split; [|exact B].
  intros e k w Hin. destruct (A e k w Hin) as (o & s & items & Hn & Hr & Hne & Hw).
  destruct (all_ok_nth _ _ ES) as (_ & HN). apply HN in Hn. rewrite nth_error_map in Hn.
  destruct (nth_error (interstorm_intervals t) o) as [(a, b)|] eqn:EJ; [|discriminate].
  simpl in Hn. inversion Hn as [Hrow]. clear Hn.
  apply recession_series_row_ok in Hrow. destruct Hrow as (-> & Hs & _).
  apply nth_error_In, in_interstorm_intervals in EJ.
  exists b, step, items. split; [exact EJ|]. split; [reflexivity|].
  cbv zeta in Hs |- *. rewrite Hs in Hr. simpl in Hr. auto.
Qed.

End Provenance.
