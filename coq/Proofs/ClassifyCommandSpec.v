(** The `classify` COMMAND at table level (Model/ClassifyCommand.v): for every
    dataset with the structure `load` guarantees, all thresholds and all pop
    orders of the arbitration work sets, no assertion fails and no PRIMARY KEY /
    UNIQUE / CHECK / NOT NULL constraint of schema.sql is violated, within a
    stretch and across stretches; the unenforced foreign keys hold; pairs
    overlap in TIME; storms and rises are maximal above-threshold runs of ONE
    stretch in epoch terms; the command commutes with a shift of all epochs. *)
From Spowtd Require Import Model.ClassifyCommand Proofs.RunsSpec Proofs.MysterySpec Proofs.FlagsSpec
  Proofs.MatchingSpec Proofs.MatchStormsSpec Proofs.ClassifySpec Proofs.ShiftSpec.
From Coq Require Import Lia.

(** * Lists *)
Lemma mem_Z_in x l : mem_Z x l = true <-> In x l.
Proof.
  induction l as [|y t IH]; simpl; [split; [discriminate|tauto]|].
  rewrite orb_true_iff, IH, Z.eqb_eq. split; intros [H|H]; auto.
Qed.

Lemma nodup_Z_spec l : nodup_Z l = true <-> NoDup l.
Proof.
  induction l as [|x t IH]; simpl; [split; [constructor|reflexivity]|].
  rewrite andb_true_iff, negb_true_iff, IH. split.
  - intros (Hm & Hd). constructor; [|exact Hd]. intros Hin. apply mem_Z_in in Hin. congruence.
  - intros Hd. inversion Hd as [|y ys Hn Hd']; subst. split; [|exact Hd'].
    destruct (mem_Z x t) eqn:E; [|reflexivity]. apply mem_Z_in in E. contradiction.
Qed.

Lemma nodup_app_intro {A} (a b : list A) :
  NoDup a -> NoDup b -> (forall x, In x a -> ~ In x b) -> NoDup (a ++ b).
Proof.
  induction a as [|x t IH]; simpl; intros Ha Hb Hd; [exact Hb|].
  inversion Ha as [|y ys Hn Ha']; subst. constructor.
  - intros Hin. apply in_app_or in Hin. destruct Hin as [Hin|Hin]; [contradiction|].
    exact (Hd x (or_introl eq_refl) Hin).
  - apply IH; [exact Ha'|exact Hb|]. intros y Hy. apply Hd. right. exact Hy.
Qed.

Lemma nodup_app_l {A} (a b : list A) : NoDup (a ++ b) -> NoDup a.
Proof.
  induction a as [|x t IH]; simpl; intros H; [constructor|].
  inversion H as [|y ys Hn H']; subst. constructor; [|apply IH; exact H'].
  intros Hin. apply Hn. apply in_or_app. left. exact Hin.
Qed.

Lemma nodup_app_r {A} (a b : list A) : NoDup (a ++ b) -> NoDup b.
Proof. induction a as [|x t IH]; simpl; intros H; [exact H|]. inversion H; subst. apply IH. assumption. Qed.

Lemma nodup_app_disj {A} (a b : list A) x : NoDup (a ++ b) -> In x a -> ~ In x b.
Proof.
  induction a as [|y t IH]; simpl; intros H Hin; [destruct Hin|].
  inversion H as [|z zs Hn H']; subst. destruct Hin as [->|Hin].
  - intros Hb. apply Hn. apply in_or_app. right. exact Hb.
  - apply IH; assumption.
Qed.

Lemma nodup_map_inj_on {A B} (f : A -> B) l :
  (forall x y, In x l -> In y l -> f x = f y -> x = y) -> NoDup l -> NoDup (map f l).
Proof.
  induction l as [|a t IH]; simpl; intros Hinj Hd; [constructor|].
  inversion Hd as [|y ys Hn Hd']; subst. constructor.
  - intros Hin. apply in_map_iff in Hin. destruct Hin as (b & Hb & Hin).
    assert (b = a) by (apply Hinj; auto). subst b. contradiction.
  - apply IH; [|exact Hd']. intros x y Hx Hy. apply Hinj; auto.
Qed.

Lemma nodup_map_filter {A B} (g : A -> B) (f : A -> bool) l :
  NoDup (map g l) -> NoDup (map g (filter f l)).
Proof.
  induction l as [|a t IH]; simpl; intros Hd; [constructor|].
  inversion Hd as [|x xs Hn Hd']; subst. destruct (f a); simpl; [|apply IH; exact Hd'].
  constructor; [|apply IH; exact Hd']. intros Hin. apply Hn.
  apply in_map_iff in Hin. destruct Hin as (y & Hy & Hin). apply filter_In in Hin.
  rewrite <- Hy. apply in_map. tauto.
Qed.

(** a key determines its row *)
Lemma nodup_key_unique {A B} (k : A -> B) l x y :
  NoDup (map k l) -> In x l -> In y l -> k x = k y -> x = y.
Proof.
  induction l as [|a t IH]; simpl; intros Hd Hx Hy Hk; [destruct Hx|].
  inversion Hd as [|z zs Hn Hd']; subst.
  destruct Hx as [->|Hx]; destruct Hy as [->|Hy]; [reflexivity| | |apply IH; assumption].
  - exfalso. apply Hn. rewrite Hk. apply in_map. exact Hy.
  - exfalso. apply Hn. rewrite <- Hk. apply in_map. exact Hx.
Qed.

Lemma map_fst_combine {A B} (l : list A) (m : list B) :
  length l <= length m -> map fst (combine l m) = l.
Proof.
  revert m. induction l as [|a t IH]; intros [|b m] H; simpl in *; try reflexivity; try lia.
  f_equal. apply IH. lia.
Qed.

Lemma zip3_length a : forall b c, length b = length a -> length c = length a -> length (zip3 a b c) = length a.
Proof.
  induction a as [|x t IH]; intros [|y b] [|z c] Hb Hc; simpl in *; try reflexivity; try lia.
  f_equal. apply IH; lia.
Qed.

Lemma nth_skipn_add {A} (d : A) s : forall l k, nth k (skipn s l) d = nth (s + k) l d.
Proof.
  induction s as [|s IH]; intros l k; [reflexivity|].
  destruct l as [|a t]; simpl; [destruct k; reflexivity|apply IH].
Qed.

Lemma forallb_firstn_nth m : forall (l : list bool),
  (forall k, k < m -> k < length l -> nth k l false = true) ->
  forallb (fun b : bool => b) (firstn m l) = true.
Proof.
  induction m as [|m IH]; intros [|a t] H; simpl; try reflexivity.
  assert (Ha : a = true) by (apply (H 0); simpl; lia). subst a. simpl. apply IH. intros k H1 H2. apply (H (S k)); simpl; lia.
Qed.

(** l[s:e] is all true when the flags s..e-1 are *)
Lemma slice_all_true (l : list bool) s e :
  (forall i, s <= i -> i < e -> nth i l false = true) ->
  forallb (fun b : bool => b) (slice l s e) = true.
Proof.
  intros H. unfold slice. apply forallb_firstn_nth. intros k H1 _.
  rewrite nth_skipn_add. apply H; lia.
Qed.

Lemma forall2_in_r {A B} (R : A -> B -> Prop) l l' y :
  Forall2 R l l' -> In y l' -> exists x, In x l /\ R x y.
Proof.
  induction 1 as [|a b l l' Hab _ IH]; simpl; intros Hin; [destruct Hin|].
  destruct Hin as [->|Hin]; [exists a; auto|].
  destruct (IH Hin) as (x & Hx & HR). exists x. auto.
Qed.

(** keys of the concatenated rows are distinct when, stretch by stretch, they
    are distinct and lie among the epochs of that stretch, and all epochs are
    distinct *)
Lemma nodup_flat_map_within {A B K} (R : A -> B -> Prop) (f : A -> list K) (g : B -> list K) l l' :
  Forall2 R l l' ->
  (forall x y, R x y -> NoDup (g y) /\ incl (g y) (f x)) ->
  NoDup (flat_map f l) -> NoDup (flat_map g l').
Proof.
  intros HF HR. induction HF as [|a b l l' Hab HF IH]; simpl; intros Hd; [constructor|].
  destruct (HR a b Hab) as (Hg & Hincl).
  apply nodup_app_intro; [exact Hg|apply IH; exact (nodup_app_r _ _ Hd)|].
  intros x Hx Hin. apply in_flat_map in Hin. destruct Hin as (b' & Hb' & Hxb').
  destruct (forall2_in_r R l l' b' HF Hb') as (a' & Ha' & Hab').
  destruct (HR a' b' Hab') as (_ & Hincl').
  apply (nodup_app_disj _ _ x Hd); [apply Hincl; exact Hx|].
  apply in_flat_map. exists a'. split; [exact Ha'|apply Hincl'; exact Hxb'].
Qed.

Lemma map_flat_map {A B C} (h : B -> C) (g : A -> list B) l :
  map h (flat_map g l) = flat_map (fun x => map h (g x)) l.
Proof. induction l as [|a t IH]; simpl; [reflexivity|]. rewrite map_app, IH. reflexivity. Qed.

Lemma forallb_flat_map {A B} (p : B -> bool) (g : A -> list B) l :
  (forall x, In x l -> forallb p (g x) = true) -> forallb p (flat_map g l) = true.
Proof.
  induction l as [|a t IH]; simpl; intros H; [reflexivity|].
  rewrite forallb_app, (H a) by auto. simpl. apply IH. intros x Hx. apply H. auto.
Qed.

(** * Epochs on the grid *)
Lemma step_chain_nth step ep : forall i, step_chain step ep = true -> i < length ep ->
  nth i ep 0%Z = (nth 0 ep 0 + Z.of_nat i * step)%Z.
Proof.
  induction ep as [|a t IH]; intros i Hc Hi; simpl in Hi; [lia|].
  destruct i as [|i]; [simpl; lia|].
  destruct t as [|b t']; [simpl in Hi; lia|].
  cbn [step_chain] in Hc. apply andb_true_iff in Hc. destruct Hc as (Hb & Hc). apply Z.eqb_eq in Hb.
  change (nth (S i) (a :: b :: t') 0%Z) with (nth i (b :: t') 0%Z).
  rewrite (IH i Hc) by (simpl in *; lia). simpl nth. lia.
Qed.

Lemma increasing_head a t x : increasing (a :: t) = true -> In x t -> (a < x)%Z.
Proof.
  revert a. induction t as [|b t IH]; intros a H Hin; [destruct Hin|].
  cbn [increasing] in H. apply andb_true_iff in H. destruct H as (Hab & H). apply Z.ltb_lt in Hab.
  destruct Hin as [->|Hin]; [exact Hab|]. specialize (IH b H Hin). lia.
Qed.

Lemma increasing_tail a t : increasing (a :: t) = true -> increasing t = true.
Proof. destruct t as [|b t]; [reflexivity|]. cbn [increasing]. intros H. apply andb_true_iff in H. tauto. Qed.

Lemma increasing_nodup l : increasing l = true -> NoDup l.
Proof.
  induction l as [|a t IH]; intros H; [constructor|]. constructor.
  - intros Hin. pose proof (increasing_head a t a H Hin). lia.
  - apply IH. exact (increasing_tail a t H).
Qed.

Lemma uniform_of_chain step ep : step_chain step ep = true -> uniform_steps ep = true.
Proof.
  destruct ep as [|a [|b t]]; try reflexivity. intros H. unfold uniform_steps.
  pose proof H as H'. cbn [step_chain] in H'. apply andb_true_iff in H'. destruct H' as (Hb & _).
  apply Z.eqb_eq in Hb. replace (b - a)%Z with step by lia. exact H.
Qed.

Lemma jump_sample_flags_cons thr step z : 0 < length z ->
  jump_sample_flags thr step z = false :: jump_incr_flags thr step z.
Proof. destruct z; simpl; [lia|reflexivity]. Qed.

(** * One stretch *)
Section Stretch.
  Variables (step : Z) (thr_s thr_j : float) (s : stretch) (sched : list nat).
  Hypothesis Hstep : (0 < step)%Z.
  Hypothesis Hok : stretch_ok step s = true.
  Let ep := s_epochs s.
  Let rain := s_rain s.
  Let zeta := s_zeta s.
  Let n := length ep.
  Let heavy := heavy_flags thr_s rain.
  Let jumpf := jump_incr_flags thr_j step zeta.
  Let E := epoch_at ep.

  Lemma ok_chain : step_chain step ep = true.
  Proof. unfold stretch_ok in Hok. rewrite !andb_true_iff in Hok. tauto. Qed.
  Lemma ok_rain : length rain = n.
  Proof. unfold stretch_ok in Hok. rewrite !andb_true_iff, !Nat.eqb_eq in Hok. tauto. Qed.
  Lemma ok_zeta : length zeta = n.
  Proof. unfold stretch_ok in Hok. rewrite !andb_true_iff, !Nat.eqb_eq in Hok. tauto. Qed.
  Lemma len_heavy : length heavy = n.
  Proof. unfold heavy, heavy_flags. rewrite map_length. exact ok_rain. Qed.
  Lemma len_jumpf : length jumpf = n - 1.
  Proof. unfold jumpf, jump_incr_flags. rewrite map_length, increments_length, ok_zeta. reflexivity. Qed.

  Lemma E_lin i : i < n -> E i = (E 0 + Z.of_nat i * step)%Z.
  Proof. intros Hi. unfold E, epoch_at. apply step_chain_nth; [exact ok_chain|exact Hi]. Qed.
  Lemma E_in i : i < n -> In (E i) ep.
  Proof. intros Hi. unfold E, epoch_at. apply nth_In. exact Hi. Qed.
  Lemma E_lt i j : i < n -> j < n -> i < j -> (E i < E j)%Z.
  Proof. intros Hi Hj Hij. rewrite (E_lin i Hi), (E_lin j Hj). nia. Qed.
  Lemma E_inj i j : i < n -> j < n -> E i = E j -> i = j.
  Proof. intros Hi Hj. rewrite (E_lin i Hi), (E_lin j Hj). intros H. nia. Qed.

  (** the recorded pairs of the stretch *)
  Record pairs_wf (pairs : list ((nat * nat) * (nat * nat))) : Prop := {
    pw_storms : NoDup (map (fun p => fst (fst p)) pairs);
    pw_rises : NoDup (map (fun p => fst (snd p)) pairs);
    pw_each : forall sp rp, In (sp, rp) pairs ->
      is_run heavy (fst sp) (snd sp) /\ 1 <= snd rp /\ is_run jumpf (fst rp) (snd rp - 1) /\
      exists i, fst sp <= i /\ i < snd sp /\ fst rp <= i /\ i < snd rp - 1 }.

  Lemma ms_pairs_wf pairs : match_storms_flags heavy jumpf sched = Ok pairs -> pairs_wf pairs.
  Proof.
    intros H. destruct (match_result heavy jumpf sched pairs H) as (st & I & Hf & Hr).
    constructor.
    - rewrite Hr. unfold result_of. rewrite map_map. simpl.
      exact (final_storms_nodup start_pref _ st I).
    - rewrite Hr. unfold result_of. rewrite map_map. simpl.
      exact (final_rises_nodup start_pref _ st I).
    - intros sp rp Hin. exact (ms_pairs heavy jumpf sched pairs sp rp H Hin).
  Qed.

  Definition flags_of_stretch := classify_interstorms_stretch thr_j step rain zeta.
  Definition rows_of_pairs (pairs : list ((nat * nat) * (nat * nat))) : stretch_rows :=
    let f := flags_of_stretch in
    {| flag_rows := combine ep (zip3 (sf_jump f) (sf_mystery f) (sf_interstorm f));
       interstorm_rows := map (fun p => (E (fst p), E (snd p))) (sf_intervals f);
       storm_rows := map (fun p => (E (fst (fst p)), (E (snd (fst p) - 1) + step)%Z)) pairs;
       rise_rows := map (fun p => (E (fst (snd p)), E (snd (snd p) - 1))) pairs;
       link_rows := map (fun p => (E (fst (snd p)), E (fst (fst p)))) pairs |}.

  Lemma stretch_unfold r :
    classify_stretch ep step thr_s thr_j rain zeta sched = Ok r ->
    exists pairs, match_storms_flags heavy jumpf sched = Ok pairs /\ pairs_wf pairs /\ r = rows_of_pairs pairs.
  Proof.
    unfold classify_stretch, match_storms_data. fold heavy.
    change (map (fun d : float => fgt d (jump_delta thr_j step)) (increments zeta)) with jumpf.
    destruct (match_storms_flags heavy jumpf sched) as [pairs|e] eqn:Em; [|discriminate].
    simpl. intros H. injection H as <-. exists pairs. split; [reflexivity|].
    split; [apply ms_pairs_wf; exact Em|reflexivity].
  Qed.

  (** no exception in this data interval *)
  Lemma stretch_cmd_ok : forallb PrimFloat.is_finite zeta = true ->
    exists r, classify_stretch_cmd step thr_s thr_j s sched = Ok r /\
              classify_stretch ep step thr_s thr_j rain zeta sched = Ok r.
  Proof.
    intros Hfin. unfold classify_stretch_cmd. fold ep rain zeta heavy jumpf.
    rewrite (uniform_of_chain step ep ok_chain), Hfin. simpl negb. cbv iota.
    unfold match_storms_data. fold heavy.
    change (map (fun d : float => fgt d (jump_delta thr_j step)) (increments zeta)) with jumpf.
    destruct (ms_total heavy jumpf sched) as (pairs & Em). rewrite Em. simpl bind.
    assert (Ha : forallb (pair_asserts heavy jumpf) pairs = true).
    { apply forallb_forall. intros [sp rp] Hin.
      destruct (ms_pairs heavy jumpf sched pairs sp rp Em Hin) as ((_ & _ & Hs & _) & _ & (_ & _ & Hr & _) & _).
      unfold pair_asserts. cbn [fst snd]. rewrite (slice_all_true heavy _ _ Hs), (slice_all_true jumpf _ _ Hr).
      reflexivity. }
    rewrite Ha.
    assert (Hc : exists r, classify_stretch ep step thr_s thr_j rain zeta sched = Ok r).
    { unfold classify_stretch, match_storms_data. fold heavy.
      change (map (fun d : float => fgt d (jump_delta thr_j step)) (increments zeta)) with jumpf.
      rewrite Em. simpl. eauto. }
    destruct Hc as (r & Hr). exists r. split; exact Hr.
  Qed.

  (** Ok of the command's data interval = Ok of classify_stretch *)
  Lemma stretch_cmd_inv r : classify_stretch_cmd step thr_s thr_j s sched = Ok r ->
    classify_stretch ep step thr_s thr_j rain zeta sched = Ok r.
  Proof.
    unfold classify_stretch_cmd. fold ep rain zeta.
    destruct (negb (uniform_steps ep)); [discriminate|].
    destruct (negb (forallb PrimFloat.is_finite zeta)); [discriminate|].
    destruct (match_storms_data thr_s (jump_delta thr_j step) rain zeta sched) as [pairs|e]; [|discriminate].
    simpl. destruct (forallb _ pairs); [tauto|discriminate].
  Qed.

  (** ** Facts about the rows of the stretch *)
  Section Rows.
    Variable pairs : list ((nat * nat) * (nat * nat)).
    Hypothesis W : pairs_wf pairs.
    Let r := rows_of_pairs pairs.
    Let f := flags_of_stretch.

    Lemma pair_bounds sp rp : In (sp, rp) pairs ->
      fst sp < snd sp /\ snd sp <= n /\ fst rp < snd rp - 1 /\ snd rp <= n.
    Proof.
      intros Hin. destruct (pw_each _ W sp rp Hin) as ((H1 & H2 & _) & Hb & (G1 & G2 & _) & _).
      rewrite len_heavy in H2. rewrite len_jumpf in G2. lia.
    Qed.

    Lemma len_sample_flags : length (jump_sample_flags thr_j step zeta) = length (raining_flags rain).
    Proof. rewrite jump_sample_flags_length. unfold raining_flags. rewrite map_length, ok_zeta, ok_rain. reflexivity. Qed.

    Lemma interval_bounds a b : In (a, b) (sf_intervals f) -> a < b /\ b < n.
    Proof.
      intros Hin. simpl in Hin. apply interstorm_intervals_exact in Hin. destruct Hin as (Hab & (_ & Hle & _)).
      rewrite (interstorm_flags_length _ _ len_sample_flags) in Hle.
      unfold raining_flags in Hle. rewrite map_length, ok_rain in Hle. lia.
    Qed.

    (** grid_time_flags: one row per sample, keyed by its epoch *)
    Lemma flag_keys : map fst (flag_rows r) = ep.
    Proof.
      change (flag_rows r) with (combine ep (zip3 (sf_jump f) (sf_mystery f) (sf_interstorm f))).
      apply map_fst_combine.
      assert (L1 : length (sf_jump f) = n).
      { simpl. rewrite jump_sample_flags_length. exact ok_zeta. }
      assert (L2 : length (sf_mystery f) = n).
      { simpl. rewrite (mystery_from_length _ _ _ len_sample_flags). unfold raining_flags.
        rewrite map_length. exact ok_rain. }
      assert (L3 : length (sf_interstorm f) = n).
      { simpl. rewrite (interstorm_flags_length _ _ len_sample_flags). unfold raining_flags.
        rewrite map_length. exact ok_rain. }
      rewrite zip3_length; unfold n in *; lia.
    Qed.

    (** storm: keys distinct, among the epochs, start < thru *)
    Lemma storm_keys : NoDup (map fst (storm_rows r)) /\ incl (map fst (storm_rows r)) ep.
    Proof.
      simpl. rewrite map_map. simpl. split.
      - rewrite <- (map_map (fun p : (nat * nat) * (nat * nat) => fst (fst p)) E).
        apply nodup_map_inj_on; [|exact (pw_storms _ W)].
        intros x y Hx Hy. apply in_map_iff in Hx. destruct Hx as ([sp rp] & <- & Hx).
        apply in_map_iff in Hy. destruct Hy as ([sp' rp'] & <- & Hy). simpl.
        pose proof (pair_bounds sp rp Hx). pose proof (pair_bounds sp' rp' Hy). apply E_inj; lia.
      - intros x Hx. apply in_map_iff in Hx. destruct Hx as ([sp rp] & <- & Hx). simpl.
        pose proof (pair_bounds sp rp Hx). apply E_in. lia.
    Qed.

    Lemma storm_thru sp rp : In (sp, rp) pairs ->
      (E (snd sp - 1) + step = E (fst sp) + Z.of_nat (snd sp - fst sp) * step)%Z.
    Proof.
      intros Hin. pose proof (pair_bounds sp rp Hin).
      rewrite (E_lin (snd sp - 1)), (E_lin (fst sp)) by lia. nia.
    Qed.

    Lemma storm_check : forallb lt_row (storm_rows r) = true.
    Proof.
      apply forallb_forall. intros x Hx. simpl in Hx. apply in_map_iff in Hx.
      destruct Hx as ([sp rp] & <- & Hx). unfold lt_row. simpl. apply Z.ltb_lt.
      rewrite (storm_thru sp rp Hx). pose proof (pair_bounds sp rp Hx). nia.
    Qed.

    (** zeta_interval: the keys of interstorm and rise rows together *)
    Lemma interval_starts_nodup : NoDup (map fst (sf_intervals f)).
    Proof.
      simpl. unfold interstorm_intervals, long_runs. rewrite map_map. simpl.
      apply (nodup_map_filter fst). apply true_runs_starts_nodup.
    Qed.

    Lemma zi_keys : NoDup (map zi_start (zi_of r)) /\ incl (map zi_start (zi_of r)) ep.
    Proof.
      unfold zi_of. rewrite map_app, !map_map. unfold zi_start. simpl. rewrite !map_map. simpl. split.
      - apply nodup_app_intro.
        + rewrite <- (map_map fst E). apply nodup_map_inj_on; [|exact interval_starts_nodup].
          intros x y Hx Hy. apply in_map_iff in Hx. destruct Hx as ([a b] & <- & Hx).
          apply in_map_iff in Hy. destruct Hy as ([a' b'] & <- & Hy). simpl.
          pose proof (interval_bounds a b Hx). pose proof (interval_bounds a' b' Hy). apply E_inj; lia.
        + rewrite <- (map_map (fun p : (nat * nat) * (nat * nat) => fst (snd p)) E).
          apply nodup_map_inj_on; [|exact (pw_rises _ W)].
          intros x y Hx Hy. apply in_map_iff in Hx. destruct Hx as ([sp rp] & <- & Hx).
          apply in_map_iff in Hy. destruct Hy as ([sp' rp'] & <- & Hy). simpl.
          pose proof (pair_bounds sp rp Hx). pose proof (pair_bounds sp' rp' Hy). apply E_inj; lia.
        + (* a rise and an interstorm interval never start at the same sample *)
          intros x Hx Hx'. apply in_map_iff in Hx. destruct Hx as ([a b] & <- & Hi).
          apply in_map_iff in Hx'. destruct Hx' as ([sp [a' b']] & Heq & Hp). simpl in Heq.
          pose proof (interval_bounds a b Hi) as Hb. pose proof (pair_bounds sp (a', b') Hp) as Hb'. simpl in Hb'.
          assert (a' = a) by (apply E_inj; lia). subst a'.
          destruct (pw_each _ W sp (a, b') Hp) as (_ & H1 & Hrun & _). simpl in H1, Hrun.
          assert (Hrise : In (a, b') (rises_of jumpf)) by (apply rises_of_spec; split; assumption).
          simpl in Hi. rewrite jump_sample_flags_cons in Hi by (rewrite ok_zeta; lia).
          fold jumpf in Hi.
          refine (rise_interstorm_distinct_starts (raining_flags rain) jumpf a b' b _ Hrise Hi).
          unfold raining_flags. rewrite map_length, ok_rain, len_jumpf. lia.
      - intros x Hx. apply in_app_or in Hx. destruct Hx as [Hx|Hx].
        + apply in_map_iff in Hx. destruct Hx as ([a b] & <- & Hx). simpl.
          pose proof (interval_bounds a b Hx). apply E_in. lia.
        + apply in_map_iff in Hx. destruct Hx as ([sp rp] & <- & Hx). simpl.
          pose proof (pair_bounds sp rp Hx). apply E_in. lia.
    Qed.

    Lemma zi_check : forallb (fun x => (zi_start x <? zi_thru x)%Z) (zi_of r) = true.
    Proof.
      apply forallb_forall. intros x Hx. unfold zi_of in Hx. apply in_app_or in Hx. apply Z.ltb_lt.
      destruct Hx as [Hx|Hx]; apply in_map_iff in Hx; destruct Hx as ([u v] & <- & Hx); unfold zi_start, zi_thru; simpl.
      - simpl in Hx. apply in_map_iff in Hx. destruct Hx as ([a b] & Heq & Hx). injection Heq as <- <-.
        pose proof (interval_bounds a b Hx). apply E_lt; simpl; lia.
      - simpl in Hx. apply in_map_iff in Hx. destruct Hx as ([sp rp] & Heq & Hx). injection Heq as <- <-.
        pose proof (pair_bounds sp rp Hx). apply E_lt; lia.
    Qed.

    (** zeta_interval_storm *)
    Lemma link_keys :
      NoDup (map zi_start (links_of r)) /\ incl (map zi_start (links_of r)) ep /\
      NoDup (map zi_thru (links_of r)) /\ incl (map zi_thru (links_of r)) ep.
    Proof.
      unfold links_of. rewrite !map_map. unfold zi_start, zi_thru. simpl. rewrite !map_map. simpl.
      split; [|split; [|split]].
      - rewrite <- (map_map (fun p : (nat * nat) * (nat * nat) => fst (snd p)) E).
        apply nodup_map_inj_on; [|exact (pw_rises _ W)].
        intros x y Hx Hy. apply in_map_iff in Hx. destruct Hx as ([sp rp] & <- & Hx).
        apply in_map_iff in Hy. destruct Hy as ([sp' rp'] & <- & Hy). simpl.
        pose proof (pair_bounds sp rp Hx). pose proof (pair_bounds sp' rp' Hy). apply E_inj; lia.
      - intros x Hx. apply in_map_iff in Hx. destruct Hx as ([sp rp] & <- & Hx). simpl.
        pose proof (pair_bounds sp rp Hx). apply E_in. lia.
      - rewrite <- (map_map (fun p : (nat * nat) * (nat * nat) => fst (fst p)) E).
        apply nodup_map_inj_on; [|exact (pw_storms _ W)].
        intros x y Hx Hy. apply in_map_iff in Hx. destruct Hx as ([sp rp] & <- & Hx).
        apply in_map_iff in Hy. destruct Hy as ([sp' rp'] & <- & Hy). simpl.
        pose proof (pair_bounds sp rp Hx). pose proof (pair_bounds sp' rp' Hy). apply E_inj; lia.
      - intros x Hx. apply in_map_iff in Hx. destruct Hx as ([sp rp] & <- & Hx). simpl.
        pose proof (pair_bounds sp rp Hx). apply E_in. lia.
    Qed.

    Lemma link_types : forallb (fun x => itype_eqb (zi_type x) TStorm) (links_of r) = true.
    Proof.
      apply forallb_forall. intros x Hx. unfold links_of in Hx. apply in_map_iff in Hx.
      destruct Hx as (p & <- & _). reflexivity.
    Qed.

    (** every link row comes from a recorded pair, with its storm row and its rise row *)
    Lemma link_row_pair x : In x (links_of r) ->
      exists sp rp, In (sp, rp) pairs /\ x = (E (fst rp), TStorm, E (fst sp)) /\
        In (E (fst sp), (E (snd sp - 1) + step)%Z) (storm_rows r) /\
        In (E (fst rp), E (snd rp - 1)) (rise_rows r).
    Proof.
      intros Hx. unfold links_of in Hx. apply in_map_iff in Hx. destruct Hx as ([u v] & <- & Hx).
      simpl in Hx. apply in_map_iff in Hx. destruct Hx as ([sp rp] & Heq & Hp). injection Heq as <- <-.
      exists sp, rp. split; [exact Hp|]. split; [reflexivity|]. split; simpl.
      - apply in_map_iff. exists (sp, rp). split; [reflexivity|exact Hp].
      - apply in_map_iff. exists (sp, rp). split; [reflexivity|exact Hp].
    Qed.

    Lemma storm_row_pair x : In x (storm_rows r) ->
      exists sp rp, In (sp, rp) pairs /\ x = (E (fst sp), (E (snd sp - 1) + step)%Z) /\
        In (E (fst rp), TStorm, E (fst sp)) (links_of r).
    Proof.
      intros Hx. simpl in Hx. apply in_map_iff in Hx. destruct Hx as ([sp rp] & <- & Hp).
      exists sp, rp. split; [exact Hp|]. split; [reflexivity|].
      unfold links_of. apply in_map_iff. exists (E (fst rp), E (fst sp)). split; [reflexivity|].
      simpl. apply in_map_iff. exists (sp, rp). split; [reflexivity|exact Hp].
    Qed.

    Lemma rise_row_pair a t : In (a, TStorm, t) (zi_of r) ->
      exists sp rp, In (sp, rp) pairs /\ a = E (fst rp) /\ t = E (snd rp - 1) /\
        In (E (fst rp), TStorm, E (fst sp)) (links_of r).
    Proof.
      intros Hx. unfold zi_of in Hx. apply in_app_or in Hx. destruct Hx as [Hx|Hx].
      - apply in_map_iff in Hx. destruct Hx as (p & Heq & _). discriminate.
      - apply in_map_iff in Hx. destruct Hx as ([u v] & Heq & Hx). injection Heq as <- <-.
        simpl in Hx. apply in_map_iff in Hx. destruct Hx as ([sp rp] & Heq & Hp). injection Heq as <- <-.
        exists sp, rp. split; [exact Hp|]. split; [reflexivity|]. split; [reflexivity|].
        unfold links_of. apply in_map_iff. exists (E (fst rp), E (fst sp)). split; [reflexivity|].
        simpl. apply in_map_iff. exists (sp, rp). split; [reflexivity|exact Hp].
    Qed.

    (** a recorded pair in epoch terms *)
    Lemma pair_in_time sp rp : In (sp, rp) pairs ->
      let k := snd sp - fst sp in let m := snd rp - 1 - fst rp in
      1 <= k /\ fst sp + k <= n /\ 1 <= m /\ fst rp + m < n /\
      (forall j, j < k -> nth (fst sp + j) ep 0%Z = (E (fst sp) + Z.of_nat j * step)%Z) /\
      (E (snd sp - 1) + step = E (fst sp) + Z.of_nat k * step)%Z /\
      (forall j, j <= m -> nth (fst rp + j) ep 0%Z = (E (fst rp) + Z.of_nat j * step)%Z) /\
      (E (snd rp - 1) = E (fst rp) + Z.of_nat m * step)%Z /\
      is_run heavy (fst sp) (fst sp + k) /\ is_run jumpf (fst rp) (fst rp + m) /\
      exists i, i < n /\ S i < n /\ fst sp <= i /\ i < fst sp + k /\ fst rp <= i /\ i < fst rp + m.
    Proof.
      intros Hin k m. pose proof (pair_bounds sp rp Hin) as Hb.
      destruct (pw_each _ W sp rp Hin) as (Hs & H1 & Hr & (i & Hi)).
      assert (Hk : fst sp + k = snd sp) by (unfold k; lia).
      assert (Hm : fst rp + m = snd rp - 1) by (unfold m; lia).
      split; [unfold k; lia|]. split; [lia|]. split; [unfold m; lia|]. split; [lia|].
      split.
      { intros j Hj. change (nth (fst sp + j) ep 0%Z) with (E (fst sp + j)).
        rewrite (E_lin (fst sp + j)), (E_lin (fst sp)) by lia. nia. }
      split; [exact (storm_thru sp rp Hin)|].
      split.
      { intros j Hj. change (nth (fst rp + j) ep 0%Z) with (E (fst rp + j)).
        rewrite (E_lin (fst rp + j)), (E_lin (fst rp)) by lia. nia. }
      split.
      { rewrite (E_lin (snd rp - 1)), (E_lin (fst rp)) by lia. unfold m. nia. }
      rewrite Hk, Hm. split; [exact Hs|]. split; [exact Hr|]. exists i. lia.
    Qed.
  End Rows.
End Stretch.

(** * The command *)

(** what relates a stretch of the dataset to its rows in the tables *)
Definition stretch_rel (step : Z) (thr_s thr_j : float) (ds : list stretch) (s : stretch) (r : stretch_rows) : Prop :=
  In s ds /\ stretch_ok step s = true /\
  exists pairs, pairs_wf step thr_s thr_j s pairs /\ r = rows_of_pairs step thr_j s pairs.

Lemma forall2_strengthen {A B} (R : A -> B -> Prop) (P : A -> Prop) l l' :
  Forall2 R l l' -> (forall x, In x l -> P x) -> Forall2 (fun x y => P x /\ R x y) l l'.
Proof.
  induction 1 as [|a b l l' Hab _ IH]; intros HP; constructor.
  - split; [apply HP; left; reflexivity|exact Hab].
  - apply IH. intros x Hx. apply HP. right. exact Hx.
Qed.

Lemma forall2_impl {A B} (R R' : A -> B -> Prop) l l' :
  (forall x y, R x y -> R' x y) -> Forall2 R l l' -> Forall2 R' l l'.
Proof. intros H. induction 1; constructor; auto. Qed.

Lemma classify_all_rows step thr_s thr_j ds : forall scheds rs,
  classify_all step thr_s thr_j ds scheds = Ok rs ->
  Forall2 (fun s r => exists sched,
             classify_stretch (s_epochs s) step thr_s thr_j (s_rain s) (s_zeta s) sched = Ok r) ds rs.
Proof.
  induction ds as [|s ds IH]; intros scheds rs H; simpl in H.
  - injection H as <-. constructor.
  - destruct (classify_stretch_cmd step thr_s thr_j s (hd [] scheds)) as [r|e] eqn:Er; [|discriminate].
    simpl in H. destruct (classify_all step thr_s thr_j ds (tl scheds)) as [rs'|e] eqn:Ers; [|discriminate].
    simpl in H. injection H as <-. constructor.
    + exists (hd [] scheds). apply stretch_cmd_inv. exact Er.
    + eapply IH. exact Ers.
Qed.

Lemma classify_all_rel step thr_s thr_j ds scheds rs :
  forallb (stretch_ok step) ds = true ->
  classify_all step thr_s thr_j ds scheds = Ok rs ->
  Forall2 (stretch_rel step thr_s thr_j ds) ds rs.
Proof.
  intros Hall H. apply classify_all_rows in H.
  apply (forall2_strengthen _ (fun s => In s ds /\ stretch_ok step s = true)) in H.
  - eapply forall2_impl; [|exact H]. intros s r ((Hin & Hok) & (sched & Hr)).
    split; [exact Hin|]. split; [exact Hok|].
    destruct (stretch_unfold step thr_s thr_j s sched r Hr) as (pairs & _ & W & Heq). eauto.
  - intros s Hs. split; [exact Hs|]. rewrite forallb_forall in Hall. apply Hall. exact Hs.
Qed.

(** totality of the loop: no ValueError, no AssertionError in any data interval *)
Lemma classify_all_total step thr_s thr_j ds :
  forallb (stretch_ok step) ds = true -> levels_finite ds = true ->
  forall scheds, exists rs, classify_all step thr_s thr_j ds scheds = Ok rs.
Proof.
  induction ds as [|s ds IH]; intros Hall Hfin scheds; simpl; [eauto|].
  simpl in Hall, Hfin. apply andb_true_iff in Hall. destruct Hall as (Hs & Hall).
  apply andb_true_iff in Hfin. destruct Hfin as (Hf & Hfin).
  destruct (stretch_cmd_ok step thr_s thr_j s (hd [] scheds) Hs Hf) as (r & Hr & _). rewrite Hr. simpl.
  destruct (IH Hall Hfin (tl scheds)) as (rs & Hrs). rewrite Hrs. simpl. eauto.
Qed.

Lemma loaded_ok_parts step ds : loaded_ok step ds = true ->
  (0 < step)%Z /\ forallb (stretch_ok step) ds = true /\ NoDup (all_epochs ds).
Proof.
  unfold loaded_ok. rewrite !andb_true_iff. intros (((H1 & H2) & H3) & _).
  split; [apply Z.ltb_lt; exact H1|]. split; [exact H2|]. apply increasing_nodup. exact H3.
Qed.

Lemma nodup_flat_map_in {A B} (f : A -> list B) l x : NoDup (flat_map f l) -> In x l -> NoDup (f x).
Proof.
  induction l as [|a t IH]; simpl; intros Hd Hin; [destruct Hin|].
  destruct Hin as [->|Hin]; [exact (nodup_app_l _ _ Hd)|apply IH; [exact (nodup_app_r _ _ Hd)|exact Hin]].
Qed.

(** ** Keys and checks of the concatenated tables *)
Section Keys.
  Variables (step : Z) (thr_s thr_j : float) (ds : list stretch) (rs : list stretch_rows).
  Hypothesis Hstep : (0 < step)%Z.
  Hypothesis Hdistinct : NoDup (all_epochs ds).
  Hypothesis HF : Forall2 (stretch_rel step thr_s thr_j ds) ds rs.

  Let lift (g : stretch_rows -> list Z) :
    (forall s r, stretch_rel step thr_s thr_j ds s r -> NoDup (g r) /\ incl (g r) (s_epochs s)) ->
    NoDup (flat_map g rs).
  Proof. intros H. exact (nodup_flat_map_within _ s_epochs g ds rs HF H Hdistinct). Qed.

  Lemma flags_key : NoDup (map fst (flat_map flag_rows rs)).
  Proof.
    rewrite map_flat_map. apply lift. intros s r (Hin & Hok & pairs & W & ->).
    rewrite (flag_keys step thr_j s Hok pairs). split; [|apply incl_refl].
    exact (nodup_flat_map_in s_epochs ds s Hdistinct Hin).
  Qed.

  Lemma storm_key : NoDup (map fst (flat_map storm_rows rs)).
  Proof.
    rewrite map_flat_map. apply lift. intros s r (Hin & Hok & pairs & W & ->).
    exact (storm_keys step thr_s thr_j s Hstep Hok pairs W).
  Qed.

  Lemma zi_key : NoDup (map zi_start (flat_map zi_of rs)).
  Proof.
    rewrite map_flat_map. apply lift. intros s r (Hin & Hok & pairs & W & ->).
    exact (zi_keys step thr_s thr_j s Hstep Hok pairs W).
  Qed.

  Lemma link_key_rise : NoDup (map zi_start (flat_map links_of rs)).
  Proof.
    rewrite map_flat_map. apply lift. intros s r (Hin & Hok & pairs & W & ->).
    destruct (link_keys step thr_s thr_j s Hstep Hok pairs W) as (H1 & H2 & _). split; assumption.
  Qed.

  Lemma link_key_storm : NoDup (map zi_thru (flat_map links_of rs)).
  Proof.
    rewrite map_flat_map. apply lift. intros s r (Hin & Hok & pairs & W & ->).
    destruct (link_keys step thr_s thr_j s Hstep Hok pairs W) as (_ & _ & H3 & H4). split; assumption.
  Qed.

  Lemma rel_of_row r : In r rs -> exists s, stretch_rel step thr_s thr_j ds s r.
  Proof. intros Hr. destruct (forall2_in_r _ ds rs r HF Hr) as (s & _ & H). eauto. Qed.

  Lemma storm_checks : forallb lt_row (flat_map storm_rows rs) = true.
  Proof.
    apply forallb_flat_map. intros r Hr. destruct (rel_of_row r Hr) as (s & _ & Hok & pairs & W & ->).
    exact (storm_check step thr_s thr_j s Hstep Hok pairs W).
  Qed.

  Lemma zi_checks : forallb (fun x => (zi_start x <? zi_thru x)%Z) (flat_map zi_of rs) = true.
  Proof.
    apply forallb_flat_map. intros r Hr. destruct (rel_of_row r Hr) as (s & _ & Hok & pairs & W & ->).
    exact (zi_check step thr_s thr_j s Hstep Hok pairs W).
  Qed.

  Lemma link_checks : forallb (fun x => itype_eqb (zi_type x) TStorm) (flat_map links_of rs) = true.
  Proof.
    apply forallb_flat_map. intros r Hr. destruct (rel_of_row r Hr) as (s & _ & Hok & pairs & W & ->).
    exact (link_types step thr_j s pairs).
  Qed.

  Lemma mem_by_zpair x l : mem_by zpair_eqb x l = true -> In x l.
  Proof.
    induction l as [|y t IH]; simpl; [discriminate|]. rewrite orb_true_iff. intros [H|H]; [left|right; auto].
    unfold zpair_eqb, pair_eqb in H. apply andb_true_iff in H. destruct H as (H1 & H2).
    apply Z.eqb_eq in H1. apply Z.eqb_eq in H2. destruct x, y; simpl in *; congruence.
  Qed.

  Lemma no_repeated_pair (l : list (Z * Z)) : NoDup (map fst l) -> repeated_pair l = false.
  Proof.
    induction l as [|x t IH]; simpl; intros Hd; [reflexivity|]. inversion Hd as [|y ys Hn Hd']; subst.
    rewrite (IH Hd'), orb_false_r. destruct (mem_by zpair_eqb x t) eqn:E; [|reflexivity].
    exfalso. apply Hn. apply in_map. apply mem_by_zpair. exact E.
  Qed.

  (** the assertion "storm not already seen" holds and every constraint holds *)
  Lemma tables_ok :
    repeated_pair (c_storm (tables_of thr_s thr_j rs)) = false /\
    constraints_ok (tables_of thr_s thr_j rs) = true.
  Proof.
    split; [apply no_repeated_pair; exact storm_key|].
    unfold constraints_ok. cbn [tables_of c_thresholds c_flags c_storm c_zeta_interval c_link length Nat.eqb].
    rewrite (proj2 (nodup_Z_spec _) flags_key), (proj2 (nodup_Z_spec _) storm_key), storm_checks,
      (proj2 (nodup_Z_spec _) zi_key), zi_checks, (proj2 (nodup_Z_spec _) link_key_rise),
      (proj2 (nodup_Z_spec _) link_key_storm), link_checks. reflexivity.
  Qed.
End Keys.

(** ** (a) Totality of the command *)
Theorem command_total step thr_s thr_j ds scheds :
  loaded_ok step ds = true -> ds <> [] -> levels_finite ds = true ->
  PrimFloat.is_nan thr_s = false -> PrimFloat.is_nan thr_j = false ->
  exists rs, classify_all step thr_s thr_j ds scheds = Ok rs /\
             classify_command step thr_s thr_j ds scheds = Ok (tables_of thr_s thr_j rs).
Proof.
  intros Hload Hne Hfin Hn1 Hn2. destruct (loaded_ok_parts step ds Hload) as (Hstep & Hall & Hd).
  destruct (classify_all_total step thr_s thr_j ds Hall Hfin scheds) as (rs & Hrs).
  exists rs. split; [exact Hrs|]. unfold classify_command. rewrite Hn1, Hn2. simpl orb. cbv iota.
  destruct ds as [|s0 ds']; [contradiction|]. rewrite Hrs. cbn [bind]. cbv zeta.
  pose proof (classify_all_rel step thr_s thr_j _ scheds rs Hall Hrs) as HF.
  destruct (tables_ok step thr_s thr_j _ rs Hstep Hd HF) as (H1 & H2). rewrite H1, H2. reflexivity.
Qed.

Corollary command_total_ok step thr_s thr_j ds scheds :
  loaded_ok step ds = true -> ds <> [] -> levels_finite ds = true ->
  PrimFloat.is_nan thr_s = false -> PrimFloat.is_nan thr_j = false ->
  exists rows, classify_command step thr_s thr_j ds scheds = Ok rows.
Proof.
  intros H1 H2 H3 H4 H5. destruct (command_total step thr_s thr_j ds scheds H1 H2 H3 H4 H5) as (rs & _ & H). eauto.
Qed.

(** the refusals of the command *)
Lemma command_no_interval step thr_s thr_j scheds :
  PrimFloat.is_nan thr_s = false -> PrimFloat.is_nan thr_j = false ->
  classify_command step thr_s thr_j [] scheds = Err EValue.
Proof. intros H1 H2. unfold classify_command. rewrite H1, H2. reflexivity. Qed.

Lemma command_nan_threshold step thr_s thr_j ds scheds :
  PrimFloat.is_nan thr_s = true \/ PrimFloat.is_nan thr_j = true ->
  classify_command step thr_s thr_j ds scheds = Err EIntegrity.
Proof. intros [H|H]; unfold classify_command; rewrite H; [reflexivity|rewrite orb_true_r; reflexivity]. Qed.

(** Ok of the command, unfolded *)
Lemma command_inv step thr_s thr_j ds scheds c :
  classify_command step thr_s thr_j ds scheds = Ok c ->
  exists rs, classify_all step thr_s thr_j ds scheds = Ok rs /\ c = tables_of thr_s thr_j rs /\
             constraints_ok c = true /\ ds <> [].
Proof.
  unfold classify_command. destruct (PrimFloat.is_nan thr_s || PrimFloat.is_nan thr_j); [discriminate|].
  destruct ds as [|s0 ds']; [discriminate|].
  destruct (classify_all step thr_s thr_j (s0 :: ds') scheds) as [rs|e]; [|discriminate]. cbn [bind]. cbv zeta.
  destruct (repeated_pair _); [discriminate|].
  destruct (constraints_ok (tables_of thr_s thr_j rs)) eqn:Ec; [|discriminate].
  intros H. injection H as <-. exists rs. repeat split; try assumption; try reflexivity. discriminate.
Qed.

(** the rows of the command are the rows of classify_stretch, stretch by stretch *)
Theorem command_rows_by_stretch step thr_s thr_j ds scheds c :
  classify_command step thr_s thr_j ds scheds = Ok c ->
  exists rs, c = tables_of thr_s thr_j rs /\
    Forall2 (fun s r => exists sched,
               classify_stretch (s_epochs s) step thr_s thr_j (s_rain s) (s_zeta s) sched = Ok r) ds rs.
Proof.
  intros H. destruct (command_inv _ _ _ _ _ _ H) as (rs & Hrs & -> & _). exists rs.
  split; [reflexivity|]. eapply classify_all_rows. exact Hrs.
Qed.

Section Facts.
  Variables (step : Z) (thr_s thr_j : float) (ds : list stretch) (scheds : list (list nat)) (c : command_rows).
  Hypothesis Hload : loaded_ok step ds = true.
  Hypothesis Hc : classify_command step thr_s thr_j ds scheds = Ok c.

  Lemma command_struct : exists rs, c = tables_of thr_s thr_j rs /\ (0 < step)%Z /\
    Forall2 (stretch_rel step thr_s thr_j ds) ds rs /\ constraints_ok c = true.
  Proof.
    destruct (command_inv _ _ _ _ _ _ Hc) as (rs & Hrs & Heq & Hcon & _).
    destruct (loaded_ok_parts step ds Hload) as (Hstep & Hall & _).
    exists rs. split; [exact Heq|]. split; [exact Hstep|]. split; [|exact Hcon].
    exact (classify_all_rel step thr_s thr_j ds scheds rs Hall Hrs).
  Qed.

  Lemma constraints_parts : constraints_ok c = true ->
    NoDup (map fst (c_storm c)) /\ NoDup (map zi_start (c_zeta_interval c)) /\
    NoDup (map zi_start (c_link c)) /\ NoDup (map zi_thru (c_link c)).
  Proof.
    unfold constraints_ok. rewrite !andb_true_iff, !nodup_Z_spec. tauto.
  Qed.

  (** ** (b) one-to-one at table level; the unenforced foreign keys hold *)
  Theorem command_one_to_one :
    NoDup (map zi_start (c_link c)) /\ NoDup (map zi_thru (c_link c)) /\
    (forall l, In l (c_link c) ->
       zi_type l = TStorm /\
       (exists thru, In (zi_thru l, thru) (c_storm c)) /\
       (exists thru, In (zi_start l, TStorm, thru) (c_zeta_interval c))) /\
    (forall st, In st (c_storm c) -> exists a, In (a, TStorm, fst st) (c_link c)) /\
    (forall a thru, In (a, TStorm, thru) (c_zeta_interval c) -> exists s0, In (a, TStorm, s0) (c_link c)).
  Proof.
    destruct command_struct as (rs & Heq & Hstep & HF & Hcon).
    destruct (constraints_parts Hcon) as (_ & _ & K1 & K2).
    split; [exact K1|]. split; [exact K2|]. subst c. cbn [tables_of c_link c_storm c_zeta_interval].
    split; [|split].
    - intros l Hl. apply in_flat_map in Hl. destruct Hl as (r & Hr & Hl).
      destruct (rel_of_row step thr_s thr_j ds rs HF r Hr) as (s & _ & Hok & pairs & W & ->).
      destruct (link_row_pair step thr_j s pairs l Hl) as (sp & rp & Hp & -> & Hs & Hri).
      split; [reflexivity|]. unfold zi_thru, zi_start. cbn [fst snd]. split.
      + eexists. apply in_flat_map. exists (rows_of_pairs step thr_j s pairs). split; [exact Hr|exact Hs].
      + eexists. apply in_flat_map. exists (rows_of_pairs step thr_j s pairs). split; [exact Hr|].
        unfold zi_of. apply in_or_app. right. apply in_map_iff.
        eexists. split; [|exact Hri]. reflexivity.
    - intros st Hst. apply in_flat_map in Hst. destruct Hst as (r & Hr & Hst).
      destruct (rel_of_row step thr_s thr_j ds rs HF r Hr) as (s & _ & Hok & pairs & W & ->).
      destruct (storm_row_pair step thr_j s pairs st Hst) as (sp & rp & Hp & -> & Hl).
      eexists. apply in_flat_map. exists (rows_of_pairs step thr_j s pairs). split; [exact Hr|exact Hl].
    - intros a thru Hz. apply in_flat_map in Hz. destruct Hz as (r & Hr & Hz).
      destruct (rel_of_row step thr_s thr_j ds rs HF r Hr) as (s & _ & Hok & pairs & W & ->).
      destruct (rise_row_pair step thr_j s pairs a thru Hz) as (sp & rp & Hp & -> & -> & Hl).
      eexists. apply in_flat_map. exists (rows_of_pairs step thr_j s pairs). split; [exact Hr|exact Hl].
  Qed.

  (** ** (c) every pair overlaps in TIME: a grid step [e, e+step) of one stretch
      lies inside the storm [start, thru) and inside the rise (whose levels are
      read at start .. thru: the increment over [e, e+step] is one of its own) *)
  Theorem command_pairs_overlap_in_time :
    forall l, In l (c_link c) ->
    forall thru_s thru_r, In (zi_thru l, thru_s) (c_storm c) ->
                          In (zi_start l, TStorm, thru_r) (c_zeta_interval c) ->
    exists s e, In s ds /\ In e (s_epochs s) /\ In (e + step)%Z (s_epochs s) /\
      (zi_thru l <= e)%Z /\ (e + step <= thru_s)%Z /\ (zi_start l <= e)%Z /\ (e + step <= thru_r)%Z.
  Proof.
    destruct command_struct as (rs & Heq & Hstep & HF & Hcon).
    destruct (constraints_parts Hcon) as (K1 & K2 & _ & _).
    intros l Hl thru_s thru_r Hs Hr. subst c. cbn [tables_of c_link c_storm c_zeta_interval] in *.
    apply in_flat_map in Hl. destruct Hl as (r & Hrr & Hl).
    destruct (rel_of_row step thr_s thr_j ds rs HF r Hrr) as (s & Hin & Hok & pairs & W & ->).
    destruct (link_row_pair step thr_j s pairs l Hl) as (sp & rp & Hp & -> & Hs0 & Hr0).
    unfold zi_thru, zi_start in *. cbn [fst snd] in *.
    set (E := epoch_at (s_epochs s)) in *.
    (* the storm row and the rise row are the ones of this pair: keys *)
    assert (Hs1 : In (E (fst sp), (E (snd sp - 1)%nat + step)%Z) (flat_map storm_rows rs))
      by (apply in_flat_map; eexists; split; [exact Hrr|exact Hs0]).
    pose proof (nodup_key_unique fst _ _ _ K1 Hs Hs1 eq_refl) as Es. injection Es as Es.
    assert (Hr1 : In (E (fst rp), TStorm, E (snd rp - 1)%nat) (flat_map zi_of rs)).
    { apply in_flat_map. eexists. split; [exact Hrr|]. unfold zi_of. apply in_or_app. right.
      apply in_map_iff. eexists. split; [|exact Hr0]. reflexivity. }
    pose proof (nodup_key_unique zi_start _ _ _ K2 Hr Hr1 eq_refl) as Er. injection Er as Er.
    destruct (pair_in_time step thr_s thr_j s Hstep Hok pairs W sp rp Hp)
      as (Hk & Hkn & Hm & Hmn & _ & Hthru & _ & Hrthru & _ & _ & (i & Hi & HSi & Hi1 & Hi2 & Hi3 & Hi4)).
    fold E in Hthru, Hrthru.
    pose proof (pair_bounds step thr_s thr_j s Hok pairs W sp rp Hp) as Hb.
    pose proof (E_lin step s Hok i Hi) as Li. pose proof (E_lin step s Hok (S i) HSi) as LSi.
    pose proof (E_lin step s Hok (fst sp)) as Ls. pose proof (E_lin step s Hok (fst rp)) as Lr.
    fold E in Li, LSi, Ls, Lr. rewrite Ls in * by lia. rewrite Lr in * by lia.
    exists s, (E i). split; [exact Hin|]. split; [apply (E_in s i Hi)|].
    split. { replace (E i + step)%Z with (E (S i)) by (rewrite Li, LSi; lia). apply (E_in s (S i) HSi). }
    subst thru_s thru_r. rewrite Hthru, Hrthru, Li. nia.
  Qed.

  (** ** (d) C03: in epoch terms every storm row and every rise row is a maximal
      above-threshold run of ONE stretch: k >= 1 consecutive grid steps that all
      start at samples of that stretch *)
  Theorem command_storms_are_runs :
    forall start thru, In (start, thru) (c_storm c) ->
    exists s i k, In s ds /\ 1 <= k /\ i + k <= length (s_epochs s) /\
      (forall j, j < k -> nth (i + j) (s_epochs s) 0%Z = (start + Z.of_nat j * step)%Z) /\
      thru = (start + Z.of_nat k * step)%Z /\
      is_run (heavy_flags thr_s (s_rain s)) i (i + k).
  Proof.
    destruct command_struct as (rs & Heq & Hstep & HF & Hcon).
    intros start thru Hst. subst c. cbn [tables_of c_storm] in Hst.
    apply in_flat_map in Hst. destruct Hst as (r & Hr & Hst).
    destruct (rel_of_row step thr_s thr_j ds rs HF r Hr) as (s & Hin & Hok & pairs & W & ->).
    destruct (storm_row_pair step thr_j s pairs _ Hst) as (sp & rp & Hp & Heq & _). injection Heq as -> ->.
    destruct (pair_in_time step thr_s thr_j s Hstep Hok pairs W sp rp Hp)
      as (Hk & Hkn & _ & _ & Hsteps & Hthru & _ & _ & Hrun & _).
    exists s, (fst sp), (snd sp - fst sp). repeat (split; [assumption|]). exact Hrun.
  Qed.

  Theorem command_rises_are_runs :
    forall a thru, In (a, TStorm, thru) (c_zeta_interval c) ->
    exists s i k, In s ds /\ 1 <= k /\ i + k < length (s_epochs s) /\
      (forall j, j <= k -> nth (i + j) (s_epochs s) 0%Z = (a + Z.of_nat j * step)%Z) /\
      thru = (a + Z.of_nat k * step)%Z /\
      is_run (jump_incr_flags thr_j step (s_zeta s)) i (i + k).
  Proof.
    destruct command_struct as (rs & Heq & Hstep & HF & Hcon).
    intros a thru Hz. subst c. cbn [tables_of c_zeta_interval] in Hz.
    apply in_flat_map in Hz. destruct Hz as (r & Hr & Hz).
    destruct (rel_of_row step thr_s thr_j ds rs HF r Hr) as (s & Hin & Hok & pairs & W & ->).
    destruct (rise_row_pair step thr_j s pairs a thru Hz) as (sp & rp & Hp & -> & -> & _).
    destruct (pair_in_time step thr_s thr_j s Hstep Hok pairs W sp rp Hp)
      as (_ & _ & Hm & Hmn & _ & _ & Hsteps & Hthru & _ & Hrun & _).
    exists s, (fst rp), (snd rp - 1 - fst rp). repeat (split; [assumption|]). exact Hrun.
  Qed.

  Theorem command_intervals_are_runs :
    (forall start thru, In (start, thru) (c_storm c) ->
       exists s i k, In s ds /\ 1 <= k /\ i + k <= length (s_epochs s) /\
         (forall j, j < k -> nth (i + j) (s_epochs s) 0%Z = (start + Z.of_nat j * step)%Z) /\
         thru = (start + Z.of_nat k * step)%Z /\
         is_run (heavy_flags thr_s (s_rain s)) i (i + k)) /\
    (forall a thru, In (a, TStorm, thru) (c_zeta_interval c) ->
       exists s i k, In s ds /\ 1 <= k /\ i + k < length (s_epochs s) /\
         (forall j, j <= k -> nth (i + j) (s_epochs s) 0%Z = (a + Z.of_nat j * step)%Z) /\
         thru = (a + Z.of_nat k * step)%Z /\
         is_run (jump_incr_flags thr_j step (s_zeta s)) i (i + k)).
  Proof. split; [exact command_storms_are_runs|exact command_rises_are_runs]. Qed.
End Facts.

(** * (e) The command commutes with a shift of every epoch (C07 at command level) *)
Lemma step_chain_shift d step ep : step_chain step (map (fun t => (t + d)%Z) ep) = step_chain step ep.
Proof.
  induction ep as [|a t IH]; [reflexivity|]. destruct t as [|b t']; [reflexivity|].
  change (map (fun t => (t + d)%Z) (a :: b :: t')) with ((a + d)%Z :: map (fun t => (t + d)%Z) (b :: t')).
  change (map (fun t => (t + d)%Z) (b :: t')) with ((b + d)%Z :: map (fun t => (t + d)%Z) t') in *.
  cbn [step_chain] in *. rewrite IH. f_equal.
  destruct (Z.eqb_spec (b + d) (a + d + step)); destruct (Z.eqb_spec b (a + step)); try reflexivity; lia.
Qed.

Lemma increasing_shift d l : increasing (map (fun t => (t + d)%Z) l) = increasing l.
Proof.
  induction l as [|a t IH]; [reflexivity|]. destruct t as [|b t']; [reflexivity|].
  change (map (fun t => (t + d)%Z) (a :: b :: t')) with ((a + d)%Z :: map (fun t => (t + d)%Z) (b :: t')).
  change (map (fun t => (t + d)%Z) (b :: t')) with ((b + d)%Z :: map (fun t => (t + d)%Z) t') in *.
  cbn [increasing] in *. rewrite IH. f_equal.
  destruct (Z.ltb_spec (a + d) (b + d)); destruct (Z.ltb_spec a b); try reflexivity; lia.
Qed.

Lemma uniform_steps_shift d ep : uniform_steps (map (fun t => (t + d)%Z) ep) = uniform_steps ep.
Proof.
  destruct ep as [|a [|b t]]; try reflexivity. unfold uniform_steps. cbn [map].
  replace (b + d - (a + d))%Z with (b - a)%Z by lia. exact (step_chain_shift d (b - a) (a :: b :: t)).
Qed.

Lemma stretch_ok_shift d step s : stretch_ok step (shift_stretch d s) = stretch_ok step s.
Proof. unfold stretch_ok, shift_stretch. cbn [s_epochs s_rain s_zeta]. rewrite step_chain_shift, map_length. reflexivity. Qed.

Lemma all_epochs_shift d ds : all_epochs (map (shift_stretch d) ds) = map (fun t => (t + d)%Z) (all_epochs ds).
Proof.
  unfold all_epochs. induction ds as [|s ds IH]; [reflexivity|]. cbn [map flat_map]. rewrite map_app, IH. reflexivity.
Qed.

Lemma loaded_ok_shift d step ds : loaded_ok step (map (shift_stretch d) ds) = loaded_ok step ds.
Proof.
  unfold loaded_ok. rewrite all_epochs_shift, increasing_shift, map_map. cbn [shift_stretch s_label].
  f_equal. f_equal. f_equal. induction ds as [|s ds IH]; [reflexivity|]. cbn [map forallb].
  rewrite stretch_ok_shift, IH. reflexivity.
Qed.

Lemma stretch_cmd_shift d step thr_s thr_j s sched r : stretch_ok step s = true ->
  classify_stretch_cmd step thr_s thr_j s sched = Ok r ->
  classify_stretch_cmd step thr_s thr_j (shift_stretch d s) sched = Ok (shift_rows d r).
Proof.
  intros Hok. unfold classify_stretch_cmd, shift_stretch. cbn [s_epochs s_rain s_zeta].
  rewrite uniform_steps_shift. destruct (negb (uniform_steps (s_epochs s))); [discriminate|].
  destruct (negb (forallb PrimFloat.is_finite (s_zeta s))); [discriminate|].
  destruct (match_storms_data thr_s (jump_delta thr_j step) (s_rain s) (s_zeta s) sched) as [pairs|e]; [|discriminate].
  cbn [bind]. destruct (forallb _ pairs); [|discriminate].
  unfold stretch_ok in Hok. rewrite !andb_true_iff, !Nat.eqb_eq in Hok. destruct Hok as ((_ & H1) & H2).
  apply classify_stretch_shift; lia.
Qed.

Lemma classify_all_shift d step thr_s thr_j ds : forallb (stretch_ok step) ds = true ->
  forall scheds rs, classify_all step thr_s thr_j ds scheds = Ok rs ->
  classify_all step thr_s thr_j (map (shift_stretch d) ds) scheds = Ok (map (shift_rows d) rs).
Proof.
  induction ds as [|s ds IH]; intros Hall scheds rs H; simpl in H.
  - injection H as <-. reflexivity.
  - simpl in Hall. apply andb_true_iff in Hall. destruct Hall as (Hs & Hall).
    destruct (classify_stretch_cmd step thr_s thr_j s (hd [] scheds)) as [r|e] eqn:Er; [|discriminate].
    simpl in H. destruct (classify_all step thr_s thr_j ds (tl scheds)) as [rs'|e] eqn:Ers; [|discriminate].
    simpl in H. injection H as <-. cbn [map classify_all].
    rewrite (stretch_cmd_shift d step thr_s thr_j s _ r Hs Er). cbn [bind].
    rewrite (IH Hall (tl scheds) rs' Ers). reflexivity.
Qed.

Lemma flat_map_map_comm {A B C} (g : A -> list B) (h : A -> A) (k : B -> C) (g' : A -> list C) l :
  (forall x, g' (h x) = map k (g x)) -> flat_map g' (map h l) = map k (flat_map g l).
Proof.
  intros H. induction l as [|a t IH]; [reflexivity|]. cbn [map flat_map]. rewrite map_app, H, IH. reflexivity.
Qed.

Lemma tables_of_shift d thr_s thr_j rs :
  tables_of thr_s thr_j (map (shift_rows d) rs) = shift_command d (tables_of thr_s thr_j rs).
Proof.
  unfold tables_of, shift_command. cbn [c_thresholds c_flags c_storm c_zeta_interval c_link]. f_equal.
  - apply (flat_map_map_comm flag_rows). intros r. reflexivity.
  - apply (flat_map_map_comm storm_rows). intros r. reflexivity.
  - apply (flat_map_map_comm zi_of). intros r. unfold zi_of, shift_rows. cbn [interstorm_rows rise_rows].
    rewrite map_app, !map_map. reflexivity.
  - apply (flat_map_map_comm links_of). intros r. unfold links_of, shift_rows. cbn [link_rows].
    rewrite !map_map. reflexivity.
Qed.

Theorem command_shift d step thr_s thr_j ds scheds c :
  loaded_ok step ds = true ->
  classify_command step thr_s thr_j ds scheds = Ok c ->
  classify_command step thr_s thr_j (map (shift_stretch d) ds) scheds = Ok (shift_command d c).
Proof.
  intros Hload Hc. destruct (command_inv _ _ _ _ _ _ Hc) as (rs & Hrs & -> & _ & Hne).
  destruct (loaded_ok_parts step ds Hload) as (_ & Hall & _).
  pose proof (classify_all_shift d step thr_s thr_j ds Hall scheds rs Hrs) as Hrs'.
  rewrite <- (loaded_ok_shift d) in Hload.
  destruct (loaded_ok_parts step _ Hload) as (Hstep & Hall' & Hd').
  pose proof (classify_all_rel step thr_s thr_j _ scheds _ Hall' Hrs') as HF.
  destruct (tables_ok step thr_s thr_j _ _ Hstep Hd' HF) as (H1 & H2).
  unfold classify_command in *. destruct (PrimFloat.is_nan thr_s || PrimFloat.is_nan thr_j); [discriminate|].
  destruct ds as [|s0 ds']; [contradiction|]. cbn [map] in *. rewrite Hrs'. cbn [bind]. cbv zeta.
  rewrite H1, H2, tables_of_shift. reflexivity.
Qed.
