(** Bridge to Flocq: exact value of a binary64 number as computed by
    [float_to_Q], and monotonicity of the binary64 division by a positive step
    (rounding to nearest is monotone).  Used by C13 (levels lie in the grid). *)
From Coq Require Import ZArith QArith Reals Qreals Lra Lia.
From Flocq Require Import Core.Core IEEE754.BinarySingleNaN IEEE754.PrimFloat.
From Spowtd Require Import Model.RegridFloat.
From Coq Require Import FloatOps SpecFloat.

(** Real value of a float. *)
Definition fval (f : float) : R := B2R (Prim2B f).

Lemma Q2R_inject_Z z : Q2R (inject_Z z) = IZR z.
Proof. unfold Q2R, inject_Z. simpl. lra. Qed.

Lemma float_to_Q_val f q :
  float_to_Q f = Some q -> Q2R q = fval f /\ BinarySingleNaN.is_finite (Prim2B f) = true.
Proof.
  unfold float_to_Q, fval. rewrite <- B2SF_Prim2B.
  destruct (Prim2B f) as [s|s| |s m e H]; simpl; try discriminate.
  - intros E. inversion E. split; [|reflexivity]. unfold Q2R. simpl. lra.
  - intros E. inversion E. clear E. split; [|reflexivity].
    unfold F2R. simpl Fnum. simpl Fexp.
    assert (Hn : (if s then Z.neg m else Z.pos m) = cond_Zopp s (Z.pos m)) by (destruct s; reflexivity).
    rewrite Hn. destruct e as [|p|p].
    + rewrite Q2R_inject_Z. simpl. lra.
    + rewrite Q2R_inject_Z, mult_IZR. simpl bpow. reflexivity.
    + unfold Q2R. simpl Qnum. simpl Qden. simpl bpow. rewrite Pos2Z.inj_pow_pos. reflexivity.
Qed.

Lemma finite_of_Q f q : float_to_Q f = Some q -> BinarySingleNaN.is_finite (Prim2B f) = true.
Proof. intros H. apply (float_to_Q_val f q H). Qed.

(** Division by a positive float is monotone when the quotients are finite. *)
Lemma div_round a s :
  fval s <> 0%R -> BinarySingleNaN.is_finite (Prim2B (a / s)) = true ->
  fval (a / s) = round radix2 (SpecFloat.fexp prec emax) (round_mode mode_NE) (fval a / fval s).
Proof.
  intros Hs Hf. unfold fval in *. rewrite div_equiv in *.
  pose proof (Bdiv_correct prec emax Flocq.IEEE754.PrimFloat.Hprec Flocq.IEEE754.PrimFloat.Hmax mode_NE (Prim2B a) (Prim2B s) Hs) as H.
  destruct (Rlt_bool _ _).
  - apply H.
  - exfalso. rewrite <- is_finite_SF_B2SF, H in Hf. unfold binary_overflow in Hf.
    simpl in Hf. discriminate.
Qed.

Lemma div_mono_R a b s :
  (0 < fval s)%R -> (fval a <= fval b)%R ->
  BinarySingleNaN.is_finite (Prim2B (a / s)) = true ->
  BinarySingleNaN.is_finite (Prim2B (b / s)) = true ->
  (fval (a / s) <= fval (b / s))%R.
Proof.
  intros Hs Hab Ha Hb. rewrite !div_round by (assumption || lra).
  apply round_le; [apply (@fexp_correct prec emax Flocq.IEEE754.PrimFloat.Hprec)|apply valid_rnd_round_mode|].
  unfold Rdiv. apply Rmult_le_compat_r; [|exact Hab].
  left. apply Rinv_0_lt_compat, Hs.
Qed.

Lemma div_mono_Q a b s qa qb qs Ya Yb :
  float_to_Q a = Some qa -> float_to_Q b = Some qb -> float_to_Q s = Some qs ->
  float_to_Q (a / s) = Some Ya -> float_to_Q (b / s) = Some Yb ->
  0 < qs -> qa <= qb -> Ya <= Yb.
Proof.
  intros Ha Hb Hs HYa HYb Hpos Hab.
  destruct (float_to_Q_val _ _ Ha) as (Va & _). destruct (float_to_Q_val _ _ Hb) as (Vb & _).
  destruct (float_to_Q_val _ _ Hs) as (Vs & _).
  destruct (float_to_Q_val _ _ HYa) as (VYa & Fa). destruct (float_to_Q_val _ _ HYb) as (VYb & Fb).
  apply Rle_Qle. rewrite VYa, VYb. apply div_mono_R; try assumption.
  - rewrite <- Vs. replace 0%R with (Q2R 0) by (unfold Q2R; simpl; lra). apply Qlt_Rlt, Hpos.
  - rewrite <- Va, <- Vb. apply Qle_Rle, Hab.
Qed.
