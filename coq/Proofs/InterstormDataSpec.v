(** C04 on the data of one gap-free stretch: the model of classify_interstorms
    records (a, b) iff the samples a..b are at least two, each rain-free
    (intensity not above zero in binary64 comparison) with rain earlier in the
    stretch and, since that rain, no rain and no increment above
    threshold x step length ending at a rain-free sample - and neither
    neighbouring sample is so. *)
From Spowtd Require Import Model.Flags Model.Mystery Proofs.RunsSpec Proofs.MysterySpec Proofs.FlagsSpec
  Proofs.RunsRecordSpec Proofs.InterstormRecordSpec Proofs.ShiftSpec.
From Coq Require Import Lia.

Definition wet_at (rain : list float) (i : nat) : bool := PrimFloat.ltb 0%float (nth i rain 0%float).

Definition fast_into (thr : float) (step : Z) (z : list float) (j : nat) : Prop :=
  1 <= j /\ j < length z /\ fast_increment thr step z (j - 1).

Definition clean_on_data (thr : float) (step : Z) (rain z : list float) (i : nat) : Prop :=
  wet_at rain i = false /\
  exists r, r < i /\ wet_at rain r = true /\
    forall j, r < j -> j <= i -> wet_at rain j = false /\ ~ fast_into thr step z j.

Lemma raining_flags_nth rain i : nth i (raining_flags rain) false = wet_at rain i.
Proof.
  unfold raining_flags, wet_at, fgt.
  change false with ((fun r => PrimFloat.ltb 0%float r) 0%float) at 1.
  apply (map_nth (fun r => PrimFloat.ltb 0%float r)).
Qed.

Lemma jump_sample_flags_nth thr step z j :
  nth j (jump_sample_flags thr step z) false = true <-> fast_into thr step z j.
Proof.
  unfold fast_into, jump_sample_flags. destruct z as [|a t].
  - simpl. destruct j; split; try discriminate; intros (_ & H & _); simpl in H; lia.
  - destruct j as [|j].
    + simpl. split; [discriminate|intros (H & _); lia].
    + cbn [nth]. rewrite jump_flag_char. unfold fast_increment.
      replace (S j - 1) with j by lia.
      split; [intros (H1 & H2); split; [lia|split; [exact H1|exact H2]]
             |intros (_ & H1 & H2); split; [exact H1|exact H2]].
Qed.

Lemma clean_sample_on_data thr step rain z i :
  clean_sample (jump_sample_flags thr step z) (raining_flags rain) i <-> clean_on_data thr step rain z i.
Proof.
  unfold clean_sample, clean_on_data, quiet. rewrite raining_flags_nth. split.
  - intros (Hd & r & Hr & Hw & Hq). split; [exact Hd|]. exists r. split; [exact Hr|].
    rewrite raining_flags_nth in Hw. split; [exact Hw|].
    intros j H1 H2. destruct (Hq j H1 H2) as (Hrj & Hjj). rewrite raining_flags_nth in Hrj.
    split; [exact Hrj|]. intros Hf. apply jump_sample_flags_nth in Hf. rewrite Hf in Hjj. discriminate.
  - intros (Hd & r & Hr & Hw & Hq). split; [exact Hd|]. exists r. split; [exact Hr|].
    rewrite raining_flags_nth. split; [exact Hw|].
    intros j H1 H2. destruct (Hq j H1 H2) as (Hrj & Hnf). rewrite raining_flags_nth.
    split; [exact Hrj|].
    destruct (nth j (jump_sample_flags thr step z) false) eqn:En; [|reflexivity].
    exfalso. apply Hnf. apply jump_sample_flags_nth. exact En.
Qed.

Theorem stretch_intervals_on_the_data thr step rain z a b :
  length z = length rain ->
  (In (a, b) (sf_intervals (classify_interstorms_stretch thr step rain z)) <->
   a < b /\ b < length rain /\
   (forall i, a <= i -> i <= b -> clean_on_data thr step rain z i) /\
   (a = 0 \/ ~ clean_on_data thr step rain z (a - 1)) /\
   (S b = length rain \/ ~ clean_on_data thr step rain z (S b))).
Proof.
  intros Hlen. cbn [classify_interstorms_stretch sf_intervals].
  assert (Hl : length (jump_sample_flags thr step z) = length (raining_flags rain)).
  { rewrite jump_sample_flags_length. unfold raining_flags. rewrite map_length. exact Hlen. }
  rewrite (interstorm_intervals_on_the_record _ _ a b Hl).
  assert (Hr : length (raining_flags rain) = length rain) by (unfold raining_flags; apply map_length).
  rewrite Hr.
  split; intros (H1 & H2 & H3 & H4 & H5); (split; [exact H1|]; split; [exact H2|]; split; [|split]).
  - intros i Hi1 Hi2. apply clean_sample_on_data. apply H3; assumption.
  - destruct H4 as [H4|H4]; [left; exact H4|right]. intros Hc. apply H4. apply clean_sample_on_data. exact Hc.
  - destruct H5 as [H5|H5]; [left; exact H5|right]. intros Hc. apply H5. apply clean_sample_on_data. exact Hc.
  - intros i Hi1 Hi2. apply clean_sample_on_data. apply H3; assumption.
  - destruct H4 as [H4|H4]; [left; exact H4|right]. intros Hc. apply H4. apply clean_sample_on_data. exact Hc.
  - destruct H5 as [H5|H5]; [left; exact H5|right]. intros Hc. apply H5. apply clean_sample_on_data. exact Hc.
Qed.
