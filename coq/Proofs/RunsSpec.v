(** Specification of run detection: [true_runs l] lists exactly the maximal
    runs of [true] in [l]. *)
From Spowtd Require Import Model.Runs.
From Coq Require Import Lia.

Definition is_run (l : list bool) (s e : nat) : Prop :=
  s < e /\ e <= length l /\
  (forall i, s <= i -> i < e -> nth i l false = true) /\
  (s = 0 \/ nth (s - 1) l false = false) /\
  (e = length l \/ nth e l false = false).

Lemma is_run_nil s e : ~ is_run [] s e.
Proof. unfold is_run; simpl; intros (H1 & H2 & _); lia. Qed.

Lemma is_run_cons_S b t s e :
  is_run (b :: t) (S s) (S e) <-> is_run t s e /\ (s = 0 -> b = false).
Proof.
  unfold is_run; simpl length. split.
  - intros (H1 & H2 & H3 & H4 & H5). repeat split; try lia.
    + intros i Hi1 Hi2. specialize (H3 (S i)). simpl in H3. apply H3; lia.
    + destruct H4 as [H4|H4]; [lia|]. replace (S s - 1) with s in H4 by lia.
      destruct s as [|s]; [left; reflexivity|right].
      simpl in H4. replace (S s - 1) with s by lia. exact H4.
    + destruct H5 as [H5|H5]; [left; lia| right; exact H5].
    + intros ->. destruct H4 as [H4|H4]; [lia|]. simpl in H4. exact H4.
  - intros ((H1 & H2 & H3 & H4 & H5) & H6). repeat split; try lia.
    + intros i Hi1 Hi2. destruct i as [|i]; [lia|]. simpl. apply H3; lia.
    + right. replace (S s - 1) with s by lia. destruct s as [|s]; [simpl; apply H6; reflexivity|].
      simpl. destruct H4 as [H4|H4]; [lia|]. replace (S s - 1) with s in H4 by lia. exact H4.
    + destruct H5 as [H5|H5]; [left; lia| right; exact H5].
Qed.

Lemma is_run_cons_0 b t e :
  is_run (b :: t) 0 e <->
  b = true /\ ((e = 1 /\ (t = [] \/ hd false t = false)) \/ (exists e', e = S e' /\ is_run t 0 e')).
Proof.
  unfold is_run; simpl length. split.
  - intros (H1 & H2 & H3 & _ & H5). split.
    + specialize (H3 0). simpl in H3. apply H3; lia.
    + destruct e as [|e]; [lia|]. destruct e as [|e].
      * left. split; [reflexivity|]. destruct H5 as [H5|H5].
        -- left. destruct t; [reflexivity|simpl in H5; lia].
        -- simpl in H5. destruct t as [|x t]; [left; reflexivity|right; exact H5].
      * right. exists (S e). split; [reflexivity|]. repeat split; try lia.
        -- intros i Hi1 Hi2. specialize (H3 (S i)). simpl in H3. apply H3; lia.
        -- destruct H5 as [H5|H5]; [left; lia| right; exact H5].
  - intros (Hb & [(He & Ht) | (e' & He & (H1 & H2 & H3 & _ & H5))]); subst.
    + repeat split; try lia.
      * intros i Hi1 Hi2. assert (i = 0) by lia. subst. reflexivity.
      * destruct Ht as [->|Ht]; [left; reflexivity|]. right. simpl.
        destruct t; [reflexivity|exact Ht].
    + repeat split; try lia.
      * intros i Hi1 Hi2. destruct i as [|i]; [reflexivity|]. simpl. apply H3; lia.
      * destruct H5 as [H5|H5]; [left; lia| right; exact H5].
Qed.

Lemma is_run_pos_start b t s e : is_run (b :: t) s e -> b = false -> 0 < s.
Proof.
  intros (H1 & H2 & H3 & _) Hb. destruct s as [|s]; [|lia].
  specialize (H3 0). simpl in H3. rewrite Hb in H3. discriminate H3; lia.
Qed.

(** A run is determined by its start. *)
Lemma is_run_start_unique l s e e' : is_run l s e -> is_run l s e' -> e = e'.
Proof.
  intros (H1 & H2 & H3 & _ & H5) (H1' & H2' & H3' & _ & H5').
  destruct (Nat.lt_trichotomy e e') as [Hlt|[Heq|Hgt]]; [|exact Heq|].
  - exfalso. destruct H5 as [H5|H5]; [lia|]. rewrite H3' in H5; [discriminate|lia|lia].
  - exfalso. destruct H5' as [H5'|H5']; [lia|]. rewrite H3 in H5'; [discriminate|lia|lia].
Qed.

Lemma in_map_shift1 s e r :
  In (s, e) (map shift1 r) <-> exists s' e', s = S s' /\ e = S e' /\ In (s', e') r.
Proof.
  rewrite in_map_iff. split.
  - intros ([s' e'] & Heq & Hin). unfold shift1 in Heq. simpl in Heq.
    inversion Heq; subst. eauto.
  - intros (s' & e' & -> & -> & Hin). exists (s', e'). split; [reflexivity|exact Hin].
Qed.

Lemma shift1_pos X q : In q (map shift1 X) -> 0 < fst q.
Proof. intros Hq. apply in_map_iff in Hq. destruct Hq as (x & <- & _). simpl. lia. Qed.

(** Only the head of [true_runs l] can start at index 0. *)
Lemma true_runs_tail_pos l p r : true_runs l = p :: r -> forall q, In q r -> 0 < fst q.
Proof.
  destruct l as [|[|] t]; simpl; [discriminate| |].
  - destruct (true_runs t) as [|[[|s0] e0] r0]; intros H q Hq; inversion H; subst.
    + destruct Hq.
    + exact (shift1_pos r0 q Hq).
    + exact (shift1_pos ((S s0, e0) :: r0) q Hq).
  - destruct (true_runs t) as [|x r0]; simpl; [discriminate|].
    intros H q Hq; inversion H; subst. exact (shift1_pos r0 q Hq).
Qed.

Lemma true_runs_head_true t :
  exists e r, true_runs (true :: t) = (0, e) :: r.
Proof. simpl. destruct (true_runs t) as [|[[|s0] e0] r0]; eauto. Qed.

Theorem true_runs_spec l s e : In (s, e) (true_runs l) <-> is_run l s e.
Proof.
  revert s e. induction l as [|b t IH]; intros s e.
  - simpl. split; [tauto|apply is_run_nil].
  - destruct b.
    + (* true :: t *)
      simpl true_runs.
      destruct (true_runs t) as [|[s0 e0] r] eqn:Ht.
      * (* t has no run *)
        simpl. split.
        -- intros [H|[]]. inversion H; subst. apply is_run_cons_0. split; [reflexivity|left].
           split; [reflexivity|]. destruct t as [|[|] t']; [left; reflexivity| |right; reflexivity].
           destruct (true_runs_head_true t') as (e1 & r1 & H1). rewrite H1 in Ht. discriminate.
        -- intros H. left. destruct s as [|s].
           ++ apply is_run_cons_0 in H. destruct H as (_ & [(-> & _)|(e' & -> & H)]); [reflexivity|].
              apply IH in H. destruct H.
           ++ destruct e as [|e]; [destruct H; lia|]. apply is_run_cons_S in H. destruct H as (H & _).
              apply IH in H. destruct H.
      * destruct s0 as [|s0].
        -- (* t starts with the run (0,e0): extend it *)
           split.
           ++ intros [H|H].
              ** inversion H; subst. apply is_run_cons_0. split; [reflexivity|right].
                 exists e0. split; [reflexivity|]. apply IH. left; reflexivity.
              ** apply in_map_shift1 in H. destruct H as (s' & e' & -> & -> & Hin).
                 apply is_run_cons_S. split; [apply IH; right; exact Hin|].
                 intros ->. pose proof (true_runs_tail_pos _ _ _ Ht _ Hin) as Hp. simpl in Hp. lia.
           ++ intros H. destruct s as [|s].
              ** apply is_run_cons_0 in H. destruct H as (_ & [(-> & Hh)|(e' & -> & H)]).
                 --- exfalso. assert (H0 : is_run t 0 e0) by (apply IH; left; reflexivity).
                     destruct H0 as (H1 & H2 & H3 & _). specialize (H3 0).
                     destruct Hh as [->|Hh]; [simpl in H2; lia|].
                     destruct t as [|x t']; [simpl in H2; lia|]. simpl in Hh, H3. rewrite Hh in H3.
                     discriminate H3; lia.
                 --- left. f_equal. f_equal.
                     assert (H0 : is_run t 0 e0) by (apply IH; left; reflexivity).
                     exact (is_run_start_unique _ _ _ _ H0 H).
              ** destruct e as [|e]; [destruct H; lia|]. apply is_run_cons_S in H. destruct H as (H & Hs).
                 right. apply in_map_shift1. exists s, e. split; [reflexivity|split; [reflexivity|]].
                 apply IH in H. destruct H as [H|H]; [|exact H].
                 inversion H; subst. specialize (Hs eq_refl). discriminate.
        -- (* t's first run starts later: new run (0,1) *)
           split.
           ++ intros [H|H].
              ** inversion H; subst. apply is_run_cons_0. split; [reflexivity|left].
                 split; [reflexivity|]. destruct t as [|[|] t']; [left; reflexivity| |right; reflexivity].
                 destruct (true_runs_head_true t') as (e1 & r1 & H1). rewrite H1 in Ht. discriminate.
              ** change (In (s, e) (map shift1 ((S s0, e0) :: r))) in H.
                 apply in_map_shift1 in H. destruct H as (s' & e' & -> & -> & Hin).
                 apply is_run_cons_S. split; [apply IH; exact Hin|].
                 intros ->. destruct Hin as [Hin|Hin]; [inversion Hin|].
                 pose proof (true_runs_tail_pos _ _ _ Ht _ Hin) as Hp. simpl in Hp. lia.
           ++ intros H. destruct s as [|s].
              ** apply is_run_cons_0 in H. destruct H as (_ & [(-> & Hh)|(e' & -> & H)]).
                 --- left; reflexivity.
                 --- exfalso. apply IH in H. destruct H as [H|H]; [inversion H|].
                     pose proof (true_runs_tail_pos _ _ _ Ht _ H) as Hp. simpl in Hp. lia.
              ** destruct e as [|e]; [destruct H; lia|]. apply is_run_cons_S in H. destruct H as (H & Hs).
                 right. change (In (S s, S e) (map shift1 ((S s0, e0) :: r))).
                 apply in_map_shift1. exists s, e. split; [reflexivity|split; [reflexivity|]].
                 apply IH. exact H.
    + (* false :: t *)
      simpl true_runs. rewrite in_map_shift1. split.
      * intros (s' & e' & -> & -> & Hin). apply is_run_cons_S. split; [apply IH; exact Hin|reflexivity].
      * intros H. pose proof (is_run_pos_start _ _ _ _ H eq_refl) as Hp.
        destruct s as [|s]; [lia|]. destruct e as [|e]; [destruct H; lia|].
        apply is_run_cons_S in H. destruct H as (H & _). exists s, e.
        split; [reflexivity|split; [reflexivity|apply IH; exact H]].
Qed.
