(** C15 — proofs about Model/Transm.v. *)
From Coq Require Import Reals List Lra Lia.
From Coquelicot Require Import Coquelicot.
From Spowtd Require Import Model.Util Model.Transm.
Import ListNotations.
Open Scope R_scope.

(** * One segment *)

Lemma ln_eq_inv : forall a b, 0 < a -> 0 < b -> ln a = ln b -> a = b.
Proof. intros a b Ha Hb H. now apply ln_inv. Qed.

Lemma seg_is_RInt : forall x0 k0 x1 k1 x,
  x0 < x1 -> 0 < k0 -> 0 < k1 ->
  is_RInt (fun t => exp (ln k0 + (ln k1 - ln k0) / (x1 - x0) * (t - x0))) x0 x
          (seg x0 k0 x1 k1 x).
Proof.
  intros x0 k0 x1 k1 x Hx Hk0 Hk1. unfold seg.
  destruct (Req_EM_T k0 k1) as [E|N].
  - subst k1.
    apply (is_RInt_ext (fun _ => k0)).
    + intros t _. replace (ln k0 - ln k0) with 0 by ring.
      unfold Rdiv. rewrite !Rmult_0_l, Rplus_0_r. now rewrite exp_ln.
    + replace (k0 * (x - x0)) with (scal (x - x0) k0) by (unfold scal; simpl; unfold mult; simpl; ring).
      apply (@is_RInt_const R_NormedModule).
  - set (b := (ln k1 - ln k0) / (x1 - x0)).
    assert (Hb : b <> 0).
    { unfold b. intro H. apply N. apply ln_eq_inv; try assumption.
      assert (H1 : x1 - x0 <> 0) by lra.
      assert (H2 : ln k1 - ln k0 = 0).
      { replace (ln k1 - ln k0) with ((ln k1 - ln k0) / (x1 - x0) * (x1 - x0)) by (field; exact H1).
        rewrite H. ring. }
      lra. }
    pose (F := fun t : R => k0 * exp (b * (t - x0)) / b).
    replace ((k0 * exp (b * (x - x0)) - k0) / b) with (minus (F x) (F x0)).
    2:{ unfold F, minus, plus, opp; simpl. replace (b * (x0 - x0)) with 0 by ring.
        rewrite exp_0. field. exact Hb. }
    apply (is_RInt_ext (fun t => k0 * exp (b * (t - x0)))).
    { intros t _. rewrite exp_plus. now rewrite exp_ln. }
    apply (@is_RInt_derive R_CompleteNormedModule F).
    + intros t _. unfold F. auto_derive. exact I.
      replace (t + - x0) with (t - x0) by ring. field. exact Hb.
    + intros t _. apply (@ex_derive_continuous R_AbsRing R_NormedModule).
      auto_derive. exact I.
Qed.

(** * The polygon and the conductivity above the first knot *)

Lemma pl_above_tail : forall x0 y0 x1 y1 t x,
  x1 < x -> pl_above x0 y0 ((x1, y1) :: t) x = pl_above x1 y1 t x.
Proof.
  intros x0 y0 x1 y1 t x H. simpl. destruct (Rle_dec x x1) as [L|L]; [lra|reflexivity].
Qed.

(** The integral of exp(polygon) from the first point, as the closed form. *)
Lemma closed_above_is_RInt : forall rest x0 k0 z,
  increasing_from x0 rest -> 0 < k0 -> positive_K rest -> x0 <= z ->
  is_RInt (fun x => exp (pl_above x0 (ln k0) (logk rest) x)) x0 z (closed_above x0 k0 rest z).
Proof.
  induction rest as [|[x1 k1] t IH]; intros x0 k0 z Hinc Hk0 Hpos Hz.
  - simpl.
    apply (is_RInt_ext (fun _ => k0)).
    + intros x _. now rewrite exp_ln.
    + replace (k0 * (z - x0)) with (scal (z - x0) k0) by (unfold scal; simpl; unfold mult; simpl; ring).
      apply (@is_RInt_const R_NormedModule).
  - simpl in Hinc. destruct Hinc as [Hx Hinc].
    inversion Hpos as [|p l Hk1 Hpos' Heq]; subst. simpl in Hk1.
    assert (Hseg : forall w, x0 <= w -> w <= x1 ->
       is_RInt (fun x => exp (pl_above x0 (ln k0) (logk ((x1, k1) :: t)) x)) x0 w
               (seg x0 k0 x1 k1 w)).
    { intros w Hw0 Hw1.
      apply (is_RInt_ext (fun x => exp (ln k0 + (ln k1 - ln k0) / (x1 - x0) * (x - x0)))).
      - intros x Hxx. rewrite Rmin_left, Rmax_right in Hxx by assumption.
        simpl. destruct (Rle_dec x x1) as [L|L]; [reflexivity|lra].
      - now apply seg_is_RInt. }
    simpl closed_above.
    destruct (Rle_dec z x1) as [L|L].
    + now apply Hseg.
    + apply (@is_RInt_Chasles R_NormedModule _ x0 x1 z).
      * apply Hseg; lra.
      * apply (is_RInt_ext (fun x => exp (pl_above x1 (ln k1) (logk t) x))).
        -- intros x Hxx. rewrite Rmin_left, Rmax_right in Hxx by lra.
           f_equal. symmetry. change (logk ((x1, k1) :: t)) with ((x1, ln k1) :: logk t).
           apply pl_above_tail. lra.
        -- apply IH; try assumption. lra.
Qed.

Lemma K_math_above : forall x0 k0 rest x,
  x0 < x -> K_math ((x0, k0) :: rest) x = exp (pl_above x0 (ln k0) (logk rest) x).
Proof.
  intros x0 k0 rest x H. unfold K_math. simpl.
  destruct (Rle_dec x x0) as [L|L]; [lra|reflexivity].
Qed.

(** Main lemma: integral of the conductivity from the lowest knot. *)
Lemma K_math_is_RInt : forall x0 k0 rest z,
  increasing ((x0, k0) :: rest) -> positive_K ((x0, k0) :: rest) -> x0 <= z ->
  is_RInt (K_math ((x0, k0) :: rest)) x0 z (closed_above x0 k0 rest z).
Proof.
  intros x0 k0 rest z Hinc Hpos Hz.
  inversion Hpos as [|p l Hk0 Hpos' Heq]; subst. simpl in Hk0.
  apply (is_RInt_ext (fun x => exp (pl_above x0 (ln k0) (logk rest) x))).
  - intros x Hxx. rewrite Rmin_left, Rmax_right in Hxx by assumption.
    symmetry. apply K_math_above. lra.
  - now apply closed_above_is_RInt.
Qed.

(** C15 closed form: for every strictly increasing knot set with positive
    conductivities and EVERY level z, minimum + integral = closed form (above
    the highest knot the conductivity of the clamped spline is constant). *)
Theorem T_math_closed : forall knots Tmin z,
  increasing knots -> positive_K knots -> knots <> [] ->
  T_math knots Tmin z = T_closed knots Tmin z.
Proof.
  intros [|[x0 k0] rest] Tmin z Hinc Hpos Hne; [congruence|].
  unfold T_math, T_closed, zmin. simpl hd. simpl fst.
  destruct (Rle_dec z x0) as [L|L]; [reflexivity|].
  f_equal. apply is_RInt_unique. apply K_math_is_RInt; try assumption. lra.
Qed.

Lemma K_math_ex_RInt_from : forall x0 k0 rest a b,
  increasing ((x0, k0) :: rest) -> positive_K ((x0, k0) :: rest) -> x0 <= a -> x0 <= b ->
  ex_RInt (K_math ((x0, k0) :: rest)) a b.
Proof.
  intros x0 k0 rest a b Hinc Hpos Ha Hb.
  apply (@ex_RInt_Chasles R_NormedModule _ a x0 b).
  - apply ex_RInt_swap. eexists. now apply K_math_is_RInt.
  - eexists. now apply K_math_is_RInt.
Qed.

(** * Bounds on the conductivity *)

Definition ymax (y0 : R) (rest : list (R * R)) : R := fold_right (fun p m => Rmax (snd p) m) y0 rest.
Definition ymin (y0 : R) (rest : list (R * R)) : R := fold_right (fun p m => Rmin (snd p) m) y0 rest.

Lemma lin_between : forall x0 y0 x1 y1 x lo hi,
  x0 < x1 -> x0 <= x <= x1 -> lo <= y0 <= hi -> lo <= y1 <= hi ->
  lo <= y0 + (y1 - y0) / (x1 - x0) * (x - x0) <= hi.
Proof.
  intros x0 y0 x1 y1 x lo hi Hx Hxx H0 H1.
  set (s := (x - x0) / (x1 - x0)).
  assert (Hs : 0 <= s <= 1).
  { unfold s. split.
    - apply Rmult_le_pos; [lra|]. left. apply Rinv_0_lt_compat. lra.
    - apply (Rmult_le_reg_r (x1 - x0)); [lra|]. unfold Rdiv. rewrite Rmult_assoc, Rinv_l by lra. lra. }
  replace (y0 + (y1 - y0) / (x1 - x0) * (x - x0)) with ((1 - s) * y0 + s * y1)
    by (unfold s; field; lra).
  split; nra.
Qed.

Lemma pl_above_bounds : forall rest x0 y0 x lo hi,
  increasing_from x0 rest -> x0 <= x ->
  lo <= y0 <= hi -> Forall (fun p => lo <= snd p <= hi) rest ->
  lo <= pl_above x0 y0 rest x <= hi.
Proof.
  induction rest as [|[x1 y1] t IH]; intros x0 y0 x lo hi Hinc Hx H0 Hall; simpl.
  - exact H0.
  - destruct Hinc as [Hlt Hinc]. inversion Hall as [|p l H1 Hall' Heq]; subst. simpl in H1.
    destruct (Rle_dec x x1) as [L|L].
    + apply lin_between; try assumption; lra.
    + apply IH; try assumption. lra.
Qed.

Lemma pl_interp_bounds : forall pts x lo hi,
  increasing pts -> pts <> [] -> Forall (fun p => lo <= snd p <= hi) pts ->
  lo <= pl_interp pts x <= hi.
Proof.
  intros [|[x0 y0] rest] x lo hi Hinc Hne Hall; [congruence|].
  inversion Hall as [|p l H0 Hall' Heq]; subst. simpl in H0. simpl.
  destruct (Rle_dec x x0) as [L|L]; [exact H0|].
  apply pl_above_bounds; try assumption. lra.
Qed.

Lemma increasing_from_logk : forall rest x0, increasing_from x0 rest -> increasing_from x0 (logk rest).
Proof.
  induction rest as [|[x1 k1] t IH]; intros x0 H; simpl in *; [exact I|].
  destruct H as [H1 H2]. split; [exact H1|]. now apply IH.
Qed.

Lemma increasing_logk : forall knots, increasing knots -> increasing (logk knots).
Proof. intros [|[x0 k0] rest] H; simpl in *; [exact I|]. now apply increasing_from_logk. Qed.

(** Conductivity stays between any two bounds on the knot conductivities. *)
Lemma K_math_bounds : forall knots lo hi z,
  increasing knots -> knots <> [] -> 0 < lo ->
  Forall (fun p => lo <= snd p <= hi) knots ->
  lo <= K_math knots z <= hi.
Proof.
  intros knots lo hi z Hinc Hne Hlo Hall. unfold K_math.
  assert (Hhi : 0 < hi).
  { destruct knots as [|p l]; [congruence|]. inversion Hall; subst. lra. }
  assert (H : ln lo <= pl_interp (logk knots) z <= ln hi).
  { apply pl_interp_bounds.
    - now apply increasing_logk.
    - destruct knots; [congruence|discriminate].
    - unfold logk. rewrite Forall_map. eapply Forall_impl; [|exact Hall].
      intros [a k] [H1 H2]; simpl in *. split.
      + destruct H1 as [H1|H1]; [left; apply ln_increasing; assumption|right; now rewrite H1].
      + destruct H2 as [H2|H2]; [left; apply ln_increasing; lra|right; now rewrite H2]. }
  destruct H as [H1 H2]. split.
  - rewrite <- (exp_ln lo) by assumption.
    destruct H1 as [H1|H1]; [left; now apply exp_increasing|right; now rewrite H1].
  - rewrite <- (exp_ln hi) by assumption.
    destruct H2 as [H2|H2]; [left; now apply exp_increasing|right; now rewrite H2].
Qed.

(** * Increments of T: between lo (b - a) and hi (b - a) *)

Lemma T_math_increment : forall knots Tmin lo hi a b,
  increasing knots -> positive_K knots -> knots <> [] -> 0 < lo ->
  Forall (fun p => lo <= snd p <= hi) knots ->
  zmin knots <= a -> a <= b ->
  lo * (b - a) <= T_math knots Tmin b - T_math knots Tmin a <= hi * (b - a).
Proof.
  intros knots Tmin lo hi a b Hinc Hpos Hne Hlo Hall Ha Hab.
  destruct knots as [|[x0 k0] rest]; [congruence|].
  unfold zmin in Ha; simpl in Ha.
  assert (Hdiff : T_math ((x0, k0) :: rest) Tmin b - T_math ((x0, k0) :: rest) Tmin a
                  = RInt (K_math ((x0, k0) :: rest)) a b).
  { unfold T_math, zmin; simpl hd; simpl fst.
    assert (Hch : RInt (K_math ((x0, k0) :: rest)) x0 a + RInt (K_math ((x0, k0) :: rest)) a b
                  = RInt (K_math ((x0, k0) :: rest)) x0 b).
    { apply (@RInt_Chasles R_CompleteNormedModule); apply K_math_ex_RInt_from; try assumption; lra. }
    destruct (Rle_dec b x0) as [Lb|Lb]; destruct (Rle_dec a x0) as [La|La]; try lra.
    - assert (a = x0) by lra. assert (b = x0) by lra. subst a b. rewrite RInt_point. unfold zero; simpl. ring.
    - assert (a = x0) by lra. subst a. rewrite RInt_point in Hch. unfold zero in Hch; simpl in Hch. lra. }
  rewrite Hdiff.
  assert (Hex : ex_RInt (K_math ((x0, k0) :: rest)) a b)
    by (apply K_math_ex_RInt_from; try assumption; lra).
  split.
  - replace (lo * (b - a)) with (RInt (fun _ => lo) a b)
      by (rewrite RInt_const; unfold scal; simpl; unfold mult; simpl; ring).
    apply RInt_le; try assumption.
    + apply ex_RInt_const.
    + intros x _. apply K_math_bounds with (hi := hi); assumption.
  - replace (hi * (b - a)) with (RInt (fun _ => hi) a b)
      by (rewrite RInt_const; unfold scal; simpl; unfold mult; simpl; ring).
    apply RInt_le; try assumption.
    + apply ex_RInt_const.
    + intros x _. apply K_math_bounds with (lo := lo); assumption.
Qed.

Lemma T_math_below : forall knots Tmin z, z <= zmin knots -> T_math knots Tmin z = Tmin.
Proof. intros knots Tmin z H. unfold T_math. destruct (Rle_dec z (zmin knots)); [reflexivity|lra]. Qed.

(** * Monotonicity, Lipschitz continuity on the whole line *)

Lemma knots_bounds_exist : forall knots, positive_K knots -> knots <> [] ->
  exists lo hi, 0 < lo /\ Forall (fun p => lo <= snd p <= hi) knots.
Proof.
  induction knots as [|[x k] t IH]; intros Hpos Hne; [congruence|].
  inversion Hpos as [|p l Hk Hpos' Heq]; subst. simpl in Hk.
  destruct t as [|q t'].
  - exists k, k. split; [assumption|]. constructor; [simpl; lra|constructor].
  - destruct (IH Hpos' ltac:(discriminate)) as (lo & hi & Hlo & Hall).
    exists (Rmin k lo), (Rmax k hi). split.
    + apply Rmin_glb_lt; assumption.
    + constructor.
      * simpl. split; [apply Rmin_l|apply Rmax_l].
      * eapply Forall_impl; [|exact Hall]. intros a [H1 H2]. split.
        -- eapply Rle_trans; [apply Rmin_r|exact H1].
        -- eapply Rle_trans; [exact H2|apply Rmax_r].
Qed.

Lemma T_math_increment_all : forall knots Tmin lo hi a b,
  increasing knots -> positive_K knots -> knots <> [] -> 0 < lo ->
  Forall (fun p => lo <= snd p <= hi) knots -> a <= b ->
  0 <= T_math knots Tmin b - T_math knots Tmin a <= hi * (b - a).
Proof.
  intros knots Tmin lo hi a b Hinc Hpos Hne Hlo Hall Hab.
  assert (Hhi : 0 < hi).
  { destruct knots as [|p l]; [congruence|]. inversion Hall; subst. lra. }
  destruct (Rle_dec b (zmin knots)) as [Lb|Lb].
  - rewrite !T_math_below by lra. assert (0 <= hi * (b - a)) by (apply Rmult_le_pos; lra). lra.
  - destruct (Rle_dec a (zmin knots)) as [La|La].
    + rewrite (T_math_below knots Tmin a La).
      assert (E : T_math knots Tmin (zmin knots) = Tmin) by (apply T_math_below; lra).
      destruct (T_math_increment knots Tmin lo hi (zmin knots) b) as [H1 H2]; try assumption; try lra.
      rewrite E in H1, H2.
      assert (0 <= lo * (b - zmin knots)) by (apply Rmult_le_pos; lra).
      assert (hi * (b - zmin knots) <= hi * (b - a)) by (apply Rmult_le_compat_l; lra).
      lra.
    + destruct (T_math_increment knots Tmin lo hi a b) as [H1 H2]; try assumption; try lra.
      split; [|exact H2]. eapply Rle_trans; [|exact H1]. apply Rmult_le_pos; lra.
Qed.

(** Transmissivity never decreases as the level rises (all levels). *)
Theorem T_math_monotone : forall knots Tmin a b,
  increasing knots -> positive_K knots -> knots <> [] -> a <= b ->
  T_math knots Tmin a <= T_math knots Tmin b.
Proof.
  intros knots Tmin a b Hinc Hpos Hne Hab.
  destruct (knots_bounds_exist knots Hpos Hne) as (lo & hi & Hlo & Hall).
  destruct (T_math_increment_all knots Tmin lo hi a b) as [H _]; try assumption. lra.
Qed.

(** ... and strictly increases above the lowest knot. *)
Theorem T_math_strict : forall knots Tmin a b,
  increasing knots -> positive_K knots -> knots <> [] -> zmin knots <= a -> a < b ->
  T_math knots Tmin a < T_math knots Tmin b.
Proof.
  intros knots Tmin a b Hinc Hpos Hne Ha Hab.
  destruct (knots_bounds_exist knots Hpos Hne) as (lo & hi & Hlo & Hall).
  destruct (T_math_increment knots Tmin lo hi a b) as [H _]; try assumption; try lra.
  assert (0 < lo * (b - a)) by (apply Rmult_lt_0_compat; lra). lra.
Qed.

Theorem T_math_lipschitz : forall knots Tmin lo hi a b,
  increasing knots -> positive_K knots -> knots <> [] -> 0 < lo ->
  Forall (fun p => lo <= snd p <= hi) knots ->
  Rabs (T_math knots Tmin b - T_math knots Tmin a) <= hi * Rabs (b - a).
Proof.
  intros knots Tmin lo hi a b Hinc Hpos Hne Hlo Hall.
  destruct (Rle_dec a b) as [L|L].
  - destruct (T_math_increment_all knots Tmin lo hi a b) as [H1 H2]; try assumption.
    rewrite !Rabs_pos_eq by lra. exact H2.
  - destruct (T_math_increment_all knots Tmin lo hi b a) as [H1 H2]; try assumption; try lra.
    rewrite (Rabs_minus_sym (T_math knots Tmin b)), (Rabs_minus_sym b).
    rewrite !Rabs_pos_eq by lra. exact H2.
Qed.

Theorem T_math_continuity_pt : forall knots Tmin z,
  increasing knots -> positive_K knots -> knots <> [] ->
  continuity_pt (T_math knots Tmin) z.
Proof.
  intros knots Tmin z Hinc Hpos Hne.
  destruct (knots_bounds_exist knots Hpos Hne) as (lo & hi & Hlo & Hall).
  assert (Hhi : 0 < hi).
  { destruct knots as [|p l]; [congruence|]. inversion Hall; subst. lra. }
  intros eps Heps. exists (eps / hi). split.
  - apply Rdiv_lt_0_compat; assumption.
  - intros x [_ Hx]. unfold dist in *; simpl in *. unfold R_dist in *.
    eapply Rle_lt_trans.
    + apply (T_math_lipschitz knots Tmin lo hi z x); assumption.
    + apply (Rmult_lt_reg_r (/ hi)); [now apply Rinv_0_lt_compat|].
      replace (hi * Rabs (x - z) * / hi) with (Rabs (x - z)) by (field; lra).
      exact Hx.
Qed.

Theorem T_math_continuous : forall knots Tmin z,
  increasing knots -> positive_K knots -> knots <> [] ->
  continuous (T_math knots Tmin) z.
Proof.
  intros. apply continuity_pt_filterlim. now apply T_math_continuity_pt.
Qed.

(** * The code path: call_scalar / call_array with QUADPACK as an oracle *)

Lemma zmin_cons : forall x0 k0 rest, zmin ((x0, k0) :: rest) = x0.
Proof. reflexivity. Qed.

Lemma increasing_from_last_ge : forall rest x0 k0,
  increasing_from x0 rest -> x0 <= fst (last ((x0, k0) :: rest) (0, 0)).
Proof.
  induction rest as [|[x1 k1] t IH]; intros x0 k0 H.
  - simpl. lra.
  - destruct H as [H1 H2]. specialize (IH x1 k1 H2).
    change (last ((x0, k0) :: (x1, k1) :: t) (0, 0)) with (last ((x1, k1) :: t) (0, 0)). lra.
Qed.

Section Quad.
  (** [quad f a b] models scipy.integrate.quad(f, a, b)[0] for a < b.
      Contract (idealised: the value is the integral itself; QUADPACK returns
      it within its tolerance, which the harness tests on every run through
      the correspondence with the closed form):
      - the integrand is only evaluated strictly inside (a, b) (Gauss-Kronrod
        nodes are interior), so an exception can only come from there;
      - if the integrand is defined on all of (a, b) and integrable, the
        integral is returned. *)
  Variable quad : (R -> res R) -> R -> R -> res R.
  Hypothesis quad_value : forall f g a b, a < b ->
    (forall x, a < x < b -> f x = Ok (g x)) -> ex_RInt g a b -> quad f a b = Ok (RInt g a b).
  Hypothesis quad_error : forall f a b e, a < b ->
    quad f a b = Err e -> exists x, a < x < b /\ f x = Err e.

  (** At or below the highest knot the code returns minimum + integral. *)
  Theorem call_scalar_spec : forall knots Tmin z,
    increasing knots -> positive_K knots -> knots <> [] -> z <= zmax knots ->
    call_scalar quad knots Tmin z = Ok (T_math knots Tmin z).
  Proof.
    intros knots Tmin z Hinc Hpos Hne Hz.
    unfold call_scalar, T_math.
    destruct (Rle_dec z (zmin knots)) as [L|L]; [reflexivity|].
    destruct knots as [|[x0 k0] rest]; [congruence|].
    rewrite zmin_cons in *.
    rewrite (quad_value _ (K_math ((x0, k0) :: rest))).
    - reflexivity.
    - lra.
    - intros x [H1 H2]. unfold conductivity. rewrite zmin_cons.
      destruct (Rle_dec x0 x) as [A|A]; [|lra].
      destruct (Rle_dec (zmax ((x0, k0) :: rest)) x) as [B|B]; [lra|reflexivity].
    - apply K_math_ex_RInt_from; try assumption; lra.
  Qed.

  (** The only exception is NotImplementedError, and only above the highest knot. *)
  Theorem call_scalar_error : forall knots Tmin z e,
    knots <> [] -> call_scalar quad knots Tmin z = Err e -> e = ENotImpl /\ zmax knots < z.
  Proof.
    intros knots Tmin z e Hne H. unfold call_scalar in H.
    destruct (Rle_dec z (zmin knots)) as [L|L]; [discriminate|].
    destruct (quad (conductivity knots) (zmin knots) z) as [q|e'] eqn:Q; simpl in H; [discriminate|].
    injection H as ->.
    assert (Hlt : zmin knots < z) by lra.
    destruct (quad_error _ _ _ _ Hlt Q) as (x & [H1 H2] & Hx).
    unfold conductivity in Hx.
    destruct (Rle_dec (zmin knots) x) as [A|A]; [|lra].
    destruct (Rle_dec (zmax knots) x) as [B|B]; [|discriminate].
    injection Hx as <-. split; [reflexivity|lra].
  Qed.

  (** Array path = the scalar path on every element. *)
  Theorem call_array_ok_iff : forall knots Tmin zs vs,
    call_array quad knots Tmin zs = Ok vs <->
    Forall2 (fun z v => call_scalar quad knots Tmin z = Ok v) zs vs.
  Proof.
    intros knots Tmin. induction zs as [|z t IH]; intros vs; simpl.
    - split.
      + intros H. injection H as <-. constructor.
      + intros H. inversion H. reflexivity.
    - destruct (call_scalar quad knots Tmin z) as [v|e] eqn:E; simpl.
      + destruct (call_array quad knots Tmin t) as [ws|e'] eqn:A; simpl.
        * split.
          -- intros H. injection H as <-. constructor; [exact E|]. now apply IH.
          -- intros H. inversion H as [|z' v' t' vs' H1 H2]; subst.
             rewrite E in H1. injection H1 as ->. apply IH in H2. now injection H2 as ->.
        * split; [discriminate|].
          intros H. inversion H as [|z' v' t' vs' H1 H2]; subst.
          apply IH in H2. discriminate.
      + split; [discriminate|].
        intros H. inversion H as [|z' v' t' vs' H1 H2]; subst. rewrite E in H1. discriminate.
  Qed.

  Theorem call_array_spec : forall knots Tmin zs,
    increasing knots -> positive_K knots -> knots <> [] ->
    Forall (fun z => z <= zmax knots) zs ->
    call_array quad knots Tmin zs = Ok (map (T_math knots Tmin) zs).
  Proof.
    intros knots Tmin zs Hinc Hpos Hne Hall. apply call_array_ok_iff.
    induction Hall as [|z t Hz Hall IH]; simpl; constructor; [|exact IH].
    now apply call_scalar_spec.
  Qed.
End Quad.

(** The contract is satisfiable: a one-node rule that returns the exact integral. *)
Definition quad_ideal (f : R -> res R) (a b : R) : res R :=
  match f ((a + b) / 2) with
  | Err e => Err e
  | Ok _ => Ok (RInt (fun x => match f x with Ok v => v | Err _ => 0 end) a b)
  end.

Lemma quad_ideal_value : forall f g a b, a < b ->
  (forall x, a < x < b -> f x = Ok (g x)) -> ex_RInt g a b -> quad_ideal f a b = Ok (RInt g a b).
Proof.
  intros f g a b Hab Hf _. unfold quad_ideal. rewrite (Hf ((a + b) / 2)) by lra.
  f_equal. apply RInt_ext. intros x Hx. rewrite Rmin_left, Rmax_right in Hx by lra.
  now rewrite Hf.
Qed.

Lemma quad_ideal_error : forall f a b e, a < b ->
  quad_ideal f a b = Err e -> exists x, a < x < b /\ f x = Err e.
Proof.
  intros f a b e Hab H. unfold quad_ideal in H. exists ((a + b) / 2). split; [lra|].
  destruct (f ((a + b) / 2)); [discriminate|]. now injection H as ->.
Qed.

(** * Constructor checks *)

Lemma increasingb_from_iff : forall rest x0, increasingb_from x0 rest = true <-> increasing_from x0 rest.
Proof.
  induction rest as [|[x1 k1] t IH]; intros x0; simpl; [tauto|].
  destruct (Rlt_dec x0 x1) as [L|L].
  - rewrite IH. tauto.
  - split; [discriminate|]. intros [H _]. contradiction.
Qed.

Lemma increasingb_iff : forall knots, increasingb knots = true <-> increasing knots.
Proof. intros [|[x0 k0] rest]; simpl; [tauto|]. apply increasingb_from_iff. Qed.

Lemma positiveb_iff : forall knots, positiveb knots = true <-> positive_K knots.
Proof.
  intros knots. unfold positiveb, positive_K. rewrite forallb_forall, Forall_forall.
  split; intros H p Hp; specialize (H p Hp); destruct (Rlt_dec 0 (snd p)); auto; discriminate.
Qed.

(** The constructor accepts exactly the knot sets the property quantifies over
    (at least two knots, strictly increasing, positive conductivities). *)
Theorem construct_ok_iff : forall knots,
  construct knots = Ok knots <->
  (increasing knots /\ positive_K knots /\ (2 <= length knots)%nat).
Proof.
  intros knots. unfold construct.
  rewrite <- increasingb_iff, <- positiveb_iff.
  destruct (positiveb knots), (increasingb knots); simpl;
    destruct knots as [|p [|q t]]; simpl; split; intros H;
    try discriminate; try (destruct H as (H1 & H2 & H3); try discriminate; lia);
    try reflexivity; repeat split; lia.
Qed.

(** * The logarithm of the conductivity is the polygon through (z_i, ln K_i) *)

Lemma increasing_from_app_lt : forall pre a x0 y0 post,
  increasing_from a (pre ++ (x0, y0) :: post) -> a < x0.
Proof.
  induction pre as [|[c yc] pre IH]; intros a x0 y0 post H; simpl in H.
  - tauto.
  - destruct H as [H1 H2]. apply IH in H2. lra.
Qed.

Lemma pl_above_segment : forall pre a ya x0 y0 x1 y1 post x,
  increasing_from a (pre ++ (x0, y0) :: (x1, y1) :: post) -> x0 <= x <= x1 ->
  pl_above a ya (pre ++ (x0, y0) :: (x1, y1) :: post) x = y0 + (y1 - y0) / (x1 - x0) * (x - x0).
Proof.
  induction pre as [|[c yc] pre IH]; intros a ya x0 y0 x1 y1 post x Hinc Hx.
  - simpl in *. destruct Hinc as [Ha [H01 _]].
    destruct (Rle_dec x x0) as [L|L].
    + assert (x = x0) by lra. subst x. field. split; lra.
    + destruct (Rle_dec x x1) as [L1|L1]; [reflexivity|lra].
  - simpl app. simpl in Hinc. destruct Hinc as [Hac Hinc].
    assert (c < x0) by (eapply increasing_from_app_lt; exact Hinc).
    simpl pl_above. destruct (Rle_dec x c) as [L|L]; [lra|].
    apply IH; assumption.
Qed.

Lemma pl_interp_segment : forall pre x0 y0 x1 y1 post x,
  increasing (pre ++ (x0, y0) :: (x1, y1) :: post) -> x0 <= x <= x1 ->
  pl_interp (pre ++ (x0, y0) :: (x1, y1) :: post) x = y0 + (y1 - y0) / (x1 - x0) * (x - x0).
Proof.
  intros [|[a ya] pre] x0 y0 x1 y1 post x Hinc Hx.
  - simpl in *. destruct Hinc as [H01 _].
    destruct (Rle_dec x x0) as [L|L].
    + assert (x = x0) by lra. subst x. field. lra.
    + destruct (Rle_dec x x1) as [L1|L1]; [reflexivity|lra].
  - simpl app. simpl in Hinc.
    assert (a < x0) by (eapply increasing_from_app_lt; exact Hinc).
    simpl pl_interp. destruct (Rle_dec x a) as [L|L]; [lra|].
    apply pl_above_segment; assumption.
Qed.

Lemma logk_app : forall a b, logk (a ++ b) = logk a ++ logk b.
Proof. intros. unfold logk. apply map_app. Qed.

(** Between two consecutive knots ln K is linear, through (z_i, ln K_i). *)
Theorem K_math_log_linear : forall pre x0 k0 x1 k1 post z,
  increasing (pre ++ (x0, k0) :: (x1, k1) :: post) -> x0 <= z <= x1 ->
  ln (K_math (pre ++ (x0, k0) :: (x1, k1) :: post) z)
  = ln k0 + (ln k1 - ln k0) / (x1 - x0) * (z - x0).
Proof.
  intros pre x0 k0 x1 k1 post z Hinc Hz. unfold K_math. rewrite ln_exp.
  assert (Hi := increasing_logk _ Hinc). rewrite logk_app in Hi.
  rewrite logk_app.
  change (logk ((x0, k0) :: (x1, k1) :: post))
    with ((x0, ln k0) :: (x1, ln k1) :: logk post) in *.
  apply pl_interp_segment; assumption.
Qed.

(** Below the lowest and above the highest knot the conductivity is constant. *)
Lemma K_math_below : forall x0 k0 rest z, 0 < k0 -> z <= x0 -> K_math ((x0, k0) :: rest) z = k0.
Proof.
  intros x0 k0 rest z Hk Hz. unfold K_math. simpl.
  destruct (Rle_dec z x0) as [L|L]; [now apply exp_ln|lra].
Qed.
