(** Solver completeness for the model of find_offsets (C05):
    on a head mapping that is a dict (distinct levels), in which every level's
    crossing list has distinct interval ids, and whose overlap graph (after the
    single-interval levels are dropped) is connected, [find_offsets] never
    returns [Err ELinAlg]: the normal equations have exactly one solution (the
    minimiser pinned to 0 at the reference interval, which exists by
    [ExistenceSpec] and is unique by [FitOffsetsSpec]), Gauss-Jordan finds it
    ([GaussSpec]) and it passes the zero-residual check. *)
From Spowtd Require Import Model.FitOffsets Proofs.QSum Proofs.FitOffsetsSpec Proofs.FindOffsetsSpec
  Proofs.ExistenceSpec Proofs.GaussSpec.
From Coq Require Import Lia Lqa Permutation Sorted Relations.

(** * Lists, indices *)

Lemma map_nth_seq {A} (l : list A) d : map (fun k => nth k l d) (seq 0 (length l)) = l.
Proof.
  induction l as [|a t IH]; cbn [length seq map nth]; [reflexivity|].
  f_equal. rewrite <- seq_shift, map_map. exact IH.
Qed.

Lemma mem_nat_iff x l : mem_nat x l = true <-> In x l.
Proof.
  induction l as [|y t IH]; cbn [mem_nat In]; [split; [discriminate|tauto]|].
  rewrite orb_true_iff, Nat.eqb_eq, IH. split; intros [H|H]; auto.
Qed.

Lemma mem_sum (P : list nat) (g : nat -> Q) u :
  NoDup P -> qsum (map (fun p => if Nat.eqb u p then g p else 0) P) == if mem_nat u P then g u else 0.
Proof.
  intros Hnd. destruct (mem_nat u P) eqn:Em.
  - apply mem_nat_iff in Em. apply (pick_sum Nat.eqb Nateqb_spec' P u g Hnd Em).
  - apply qsum_map_zero. intros p Hp. destruct (Nat.eqb u p) eqn:Eq; [|reflexivity].
    apply Nat.eqb_eq in Eq. subst p. apply mem_nat_iff in Hp. congruence.
Qed.

Lemma inter_sum (U P : list nat) (g : nat -> Q) :
  NoDup U -> NoDup P ->
  qsum (map (fun u => if mem_nat u P then g u else 0) U)
  == qsum (map (fun p => if mem_nat p U then g p else 0) P).
Proof.
  intros HU HP.
  rewrite (qsum_map_ext _ (fun u => qsum (map (fun p => if Nat.eqb u p then g p else 0) P)))
    by (intros u _; symmetry; apply mem_sum; exact HP).
  rewrite qsum_swap. apply qsum_map_ext. intros p _.
  rewrite <- (mem_sum U g p HU). apply qsum_map_ext. intros u _.
  rewrite (Nat.eqb_sym u p). destruct (Nat.eqb p u) eqn:Eq; [|reflexivity].
  apply Nat.eqb_eq in Eq. subst u. reflexivity.
Qed.

(** [index_of] *)
Definition idx_from (s : nat) : list nat -> nat -> option nat :=
  fix go (l : list nat) (i : nat) : option nat :=
    match l with [] => None | y :: t => if Nat.eqb s y then Some i else go t (S i) end.

Lemma index_of_idx s ids : index_of s ids = idx_from s ids 0.
Proof. reflexivity. Qed.

Lemma idx_from_none s l : forall i, ~ In s l -> idx_from s l i = None.
Proof.
  induction l as [|y t IH]; intros i Hn; cbn [idx_from]; [reflexivity|].
  destruct (Nat.eqb s y) eqn:Eq.
  - apply Nat.eqb_eq in Eq. subst y. exfalso. apply Hn. left. reflexivity.
  - apply IH. intros H. apply Hn. right. exact H.
Qed.

Lemma idx_from_nth l : forall i k, NoDup l -> (k < length l)%nat ->
  idx_from (nth k l 0%nat) l i = Some (i + k)%nat.
Proof.
  induction l as [|y t IH]; intros i k Hnd Hk; cbn [length] in Hk; [lia|].
  inversion Hnd as [|y0 t0 Hy Hnd']; subst y0 t0. cbn [idx_from]. destruct k as [|k].
  - cbn [nth]. rewrite Nat.eqb_refl. f_equal. lia.
  - cbn [nth]. assert (Hin : In (nth k t 0%nat) t) by (apply nth_In; lia).
    destruct (Nat.eqb (nth k t 0%nat) y) eqn:Eq.
    + apply Nat.eqb_eq in Eq. subst y. contradiction.
    + rewrite (IH (S i) k Hnd') by lia. f_equal. lia.
Qed.

Lemma idx_from_app s l l' : forall i,
  idx_from s (l ++ l') i =
  match idx_from s l i with Some k => Some k | None => idx_from s l' (i + length l)%nat end.
Proof.
  induction l as [|y t IH]; intros i; cbn [app idx_from length].
  - f_equal. lia.
  - destruct (Nat.eqb s y); [reflexivity|]. rewrite IH. destruct (idx_from s t (S i)); [reflexivity|].
    f_equal. lia.
Qed.

Lemma idx_from_in s l : forall i, In s l -> exists k, (k < length l)%nat /\ nth k l 0%nat = s /\
                                                idx_from s l i = Some (i + k)%nat.
Proof.
  induction l as [|y t IH]; intros i Hin; [destruct Hin|]. cbn [idx_from].
  destruct (Nat.eqb s y) eqn:Eq.
  - apply Nat.eqb_eq in Eq. subst y. exists 0%nat. cbn [length nth]. repeat split; [lia|f_equal; lia].
  - destruct Hin as [->|Hin]; [rewrite Nat.eqb_refl in Eq; discriminate|].
    destruct (IH (S i) Hin) as (k & Hk & Hn & He). exists (S k). cbn [length nth].
    repeat split; [lia|exact Hn|]. rewrite He. f_equal. lia.
Qed.

(** the assignment of offsets to interval ids given by a vector over the unknowns *)
Definition xof (U : list nat) (z : nat -> Q) (s : nat) : Q :=
  match idx_from s U 0 with Some k => z k | None => 0 end.

Lemma xof_nth U z k : NoDup U -> (k < length U)%nat -> xof U z (nth k U 0%nat) = z k.
Proof. intros Hnd Hk. unfold xof. rewrite (idx_from_nth U 0 k Hnd Hk). reflexivity. Qed.

Lemma xof_out U z s : ~ In s U -> xof U z s = 0.
Proof. intros H. unfold xof. rewrite (idx_from_none s U 0 H). reflexivity. Qed.

Lemma qsum_index_sum (U : list nat) (g z : nat -> Q) :
  NoDup U ->
  qsum (map (fun k => g (nth k U 0%nat) * z k) (seq 0 (length U)))
  == qsum (map (fun u => g u * xof U z u) U).
Proof.
  intros Hnd.
  transitivity (qsum (map (fun k => (fun u => g u * xof U z u) (nth k U 0%nat)) (seq 0 (length U)))).
  - apply qsum_map_ext. intros k Hk. apply in_seq in Hk. cbv beta.
    rewrite (xof_nth U z k Hnd) by lia. reflexivity.
  - rewrite <- (map_map (fun k => nth k U 0%nat) (fun u => g u * xof U z u)).
    rewrite map_nth_seq. reflexivity.
Qed.

(** * [sorted_ids] is strictly increasing *)

Lemma insert_nat_ssorted x l : StronglySorted lt l -> StronglySorted lt (insert_nat x l).
Proof.
  induction 1 as [|y t Hs IH Hf]; cbn [insert_nat].
  - constructor; constructor.
  - destruct (Nat.ltb x y) eqn:E1.
    + apply Nat.ltb_lt in E1. constructor; [constructor; assumption|].
      constructor; [exact E1|]. apply (Forall_impl (lt x) (P := lt y)); [intros; lia|exact Hf].
    + apply Nat.ltb_ge in E1. destruct (Nat.eqb x y) eqn:E2.
      * constructor; assumption.
      * apply Nat.eqb_neq in E2. constructor; [exact IH|].
        apply Forall_forall. intros z Hz. apply insert_nat_in in Hz. destruct Hz as [->|Hz]; [lia|].
        rewrite Forall_forall in Hf. apply Hf. exact Hz.
Qed.

Lemma sorted_ids_ssorted E : StronglySorted lt (sorted_ids E).
Proof.
  unfold sorted_ids. induction (map e_series E) as [|a t IH]; cbn [fold_right]; [constructor|].
  apply insert_nat_ssorted. exact IH.
Qed.

Lemma ssorted_nodup l : StronglySorted lt l -> NoDup l.
Proof.
  induction 1 as [|y t Hs IH Hf]; constructor; [|exact IH].
  intros Hin. rewrite Forall_forall in Hf. pose proof (Hf y Hin). lia.
Qed.

Lemma sorted_ids_nodup E : NoDup (sorted_ids E).
Proof. apply ssorted_nodup. apply sorted_ids_ssorted. Qed.

Lemma sorted_ids_ids E s : In s (sorted_ids E) <-> In s (ids E).
Proof. rewrite sorted_ids_in. unfold ids. rewrite nodup_In. tauto. Qed.

(** * The entries of one level of a dict *)

Definition mk_entry (h : Z) (c : crossing) : entry :=
  {| e_head := h; e_series := fst c; e_val := snd c |}.

Lemma entries_of_cons p t :
  entries_of (p :: t) = map (mk_entry (fst p)) (snd p) ++ entries_of t.
Proof. reflexivity. Qed.

Lemma at_head_app E1 E2 h : at_head (E1 ++ E2) h = at_head E1 h ++ at_head E2 h.
Proof. unfold at_head. apply filter_app. Qed.

Lemma at_head_mk_same h cs : at_head (map (mk_entry h) cs) h = map (mk_entry h) cs.
Proof.
  unfold at_head. induction cs as [|c t IH]; cbn [map filter]; [reflexivity|].
  cbn [mk_entry e_head]. rewrite Z.eqb_refl. f_equal. exact IH.
Qed.

Lemma at_head_mk_other h h' cs : h' <> h -> at_head (map (mk_entry h') cs) h = [].
Proof.
  intros Hne. unfold at_head. induction cs as [|c t IH]; cbn [map filter]; [reflexivity|].
  cbn [mk_entry e_head]. destruct (Z.eqb h' h) eqn:Eq; [apply Z.eqb_eq in Eq; contradiction|exact IH].
Qed.

Lemma at_head_entries_notin t h : ~ In h (map fst t) -> at_head (entries_of t) h = [].
Proof.
  induction t as [|q t IH]; intros Hn; [reflexivity|].
  rewrite entries_of_cons, at_head_app. cbn [map In] in Hn.
  rewrite at_head_mk_other by (intros Heq; apply Hn; left; exact Heq).
  rewrite IH by (intros H; apply Hn; right; exact H). reflexivity.
Qed.

Lemma at_head_entries hm p :
  NoDup (map fst hm) -> In p hm ->
  at_head (entries_of hm) (fst p) = map (mk_entry (fst p)) (snd p).
Proof.
  induction hm as [|q t IH]; intros Hnd Hin; [destruct Hin|].
  cbn [map] in Hnd. inversion Hnd as [|h0 t0 Hq Hnd']; subst h0 t0.
  rewrite entries_of_cons, at_head_app. destruct Hin as [->|Hin].
  - rewrite at_head_mk_same, (at_head_entries_notin t (fst p) Hq). apply app_nil_r.
  - assert (Hne : fst q <> fst p).
    { intros Heq. apply Hq. rewrite Heq. apply in_map. exact Hin. }
    rewrite (at_head_mk_other (fst p) (fst q) (snd q) Hne). cbn [app]. apply IH; assumption.
Qed.

Lemma entries_of_inv hm e :
  In e (entries_of hm) -> exists p c, In p hm /\ In c (snd p) /\ e = mk_entry (fst p) c.
Proof.
  unfold entries_of. intros H. apply in_flat_map in H. destruct H as (p & Hp & He).
  apply in_map_iff in He. destruct He as (c & <- & Hc). exists p, c. repeat split; assumption.
Qed.

Lemma combine_map_same {A B C} (f : A -> B) (g : A -> C) l :
  combine (map f l) (map g l) = map (fun a => (f a, g a)) l.
Proof. induction l as [|a t IH]; cbn [map combine]; [reflexivity|f_equal; exact IH]. Qed.

Lemma dot_map {A} (f g : A -> Q) l : dot (map f l) (map g l) = qsum (map (fun a => f a * g a) l).
Proof. unfold dot. rewrite combine_map_same, map_map. reflexivity. Qed.

(** residual sums depend on the offsets of the intervals present only *)
Lemma dev_ext E x x' c :
  (forall s, In s (ids E) -> x s == x' s) -> In c E -> dev E x c == dev E x' c.
Proof.
  intros H Hc. unfold dev, head_mean, shifted. rewrite (H (e_series c) (series_in E c Hc)).
  rewrite (qsum_map_ext (fun c0 => x (e_series c0) + e_val c0) (fun c0 => x' (e_series c0) + e_val c0)).
  - reflexivity.
  - intros c0 Hc0. apply at_head_in in Hc0. rewrite (H (e_series c0) (series_in E c0 (proj1 Hc0))).
    reflexivity.
Qed.

Lemma resid_ext E x x' s0 :
  (forall s, In s (ids E) -> x s == x' s) -> resid_sum E x s0 == resid_sum E x' s0.
Proof.
  intros H. unfold resid_sum. apply qsum_map_ext. intros c Hc. apply of_series_in in Hc.
  apply dev_ext; [exact H|exact (proj1 Hc)].
Qed.

(** the residual sums of all intervals add up to zero *)
Lemma resid_total E x keys :
  NoDup keys -> (forall c, In c E -> In (e_series c) keys) ->
  qsum (map (resid_sum E x) keys) == 0.
Proof.
  intros Hnd Hin.
  pose proof (group_sum Nat.eqb Nateqb_spec' e_series keys E (dev E x) (fun _ => 1) Hnd Hin) as H1.
  pose proof (group_sum Z.eqb Zeqb_spec' e_head (heads E) E (dev E x) (fun _ => 1)
                (heads_nodup E) (head_in E)) as H2.
  rewrite (qsum_map_ext (resid_sum E x)
             (fun key => 1 * qsum (map (dev E x) (filter (fun c => Nat.eqb (e_series c) key) E))))
    by (intros; unfold resid_sum, of_series; ring).
  rewrite <- H1, H2. apply qsum_map_zero. intros h _. fold (at_head E h).
  rewrite dev_sum_head. ring.
Qed.

Lemma NoDup_app_snoc {A} (l : list A) a : NoDup l -> ~ In a l -> NoDup (l ++ [a]).
Proof.
  intros Hnd Hn. apply NoDup_rev in Hnd. rewrite <- (rev_involutive (l ++ [a])), rev_app_distr.
  apply NoDup_rev. cbn [rev app]. constructor; [rewrite <- in_rev; exact Hn|exact Hnd].
Qed.


(** * The system assembled by the code, entry by entry *)
Section System.
  Variable hm : head_mapping.
  Hypothesis Hheads : NoDup (map fst hm).
  Hypothesis Hser : forall p, In p hm -> NoDup (map fst (snd p)).
  Notation E := (entries_of hm).
  Variable U : list nat.
  Variable ref : nat.
  Hypothesis HU : NoDup U.
  Hypothesis Href : ~ In ref U.
  Hypothesis Hids : forall s, In s (ids E) <-> In s U \/ s = ref.

  Definition minus_of (e : entry) : option nat :=
    if Nat.eqb (e_series e) ref then None else Some (e_series e).

  Definition coefE (e : entry) (u : nat) : Q :=
    (if mem_nat u (map e_series (at_head E (e_head e)))
     then 1 / inject_Z (Z.of_nat (length (at_head E (e_head e)))) else 0)
    - (match minus_of e with Some s => if Nat.eqb s u then 1 else 0 | None => 0 end).

  Definition rowE (e : entry) : list Q * Q :=
    (map (coefE e) U,
     e_val e - qsum (map e_val (at_head E (e_head e)))
               / inject_Z (Z.of_nat (length (at_head E (e_head e))))).

  Lemma rowE_mk p c : In p hm ->
    rowE (mk_entry (fst p) c)
    = (row_of U (map fst (snd p)) (length (snd p))
         (if Nat.eqb (fst c) ref then None else Some (fst c)),
       snd c - qsum (map snd (snd p)) / inject_Z (Z.of_nat (length (snd p)))).
  Proof.
    intros Hp. unfold rowE, coefE, minus_of, row_of. cbn [mk_entry e_head e_series e_val].
    rewrite (at_head_entries hm p Hheads Hp). rewrite !map_map, map_length. reflexivity.
  Qed.

  Lemma system_of_rows_gen l :
    (forall p, In p l -> In p hm) -> system_of l U ref = map rowE (entries_of l).
  Proof.
    induction l as [|p t IH]; intros Hin; [reflexivity|].
    rewrite entries_of_cons, map_app, map_map.
    change (system_of (p :: t) U ref) with
      (map (fun c => (row_of U (map fst (snd p)) (length (snd p))
                        (if Nat.eqb (fst c) ref then None else Some (fst c)),
                      snd c - qsum (map snd (snd p)) / inject_Z (Z.of_nat (length (snd p)))))
           (snd p) ++ system_of t U ref).
    rewrite IH by (intros q Hq; apply Hin; right; exact Hq). f_equal.
    apply map_ext. intros c. symmetry. apply rowE_mk. apply Hin. left. reflexivity.
  Qed.

  Lemma system_of_rows : system_of hm U ref = map rowE E.
  Proof. apply system_of_rows_gen. auto. Qed.

  Lemma level_series_nodup e : In e E -> NoDup (map e_series (at_head E (e_head e))).
  Proof.
    intros He. destruct (entries_of_inv hm e He) as (p & c & Hp & Hc & ->).
    cbn [mk_entry e_head]. rewrite (at_head_entries hm p Hheads Hp). rewrite map_map.
    cbn [mk_entry e_series]. apply (Hser p Hp).
  Qed.

  Lemma ref_in_ids : In ref (ids E).
  Proof. apply Hids. right. reflexivity. Qed.

  (** row of the design matrix applied to a vector over the unknowns *)
  Definition a_coef (e : entry) (k : nat) : Q := nth k (fst (rowE e)) 0.

  Lemma a_coef_eq e k : (k < length U)%nat -> a_coef e k = coefE e (nth k U 0%nat).
  Proof. intros Hk. unfold a_coef, rowE. cbn [fst]. apply nth_map_lt. exact Hk. Qed.

  Lemma design_row e z : In e E ->
    qsum (map (fun k => a_coef e k * z k) (seq 0 (length U))) == - pert E (xof U z) e.
  Proof.
    intros He. set (x := xof U z).
    rewrite (qsum_map_ext _ (fun k => coefE e (nth k U 0%nat) * z k)).
    2:{ intros k Hk. apply in_seq in Hk. rewrite a_coef_eq by lia. reflexivity. }
    rewrite (qsum_index_sum U (coefE e) z HU). fold x.
    set (h := e_head e). set (P := map e_series (at_head E h)).
    set (s := e_series e).
    rewrite (qsum_map_ext _ (fun u =>
               (1 / nh E h) * (if mem_nat u P then x u else 0)
               + (-1) * (if Nat.eqb s u then (if Nat.eqb s ref then 0 else x u) else 0))).
    2:{ intros u _. unfold coefE, minus_of. fold h. fold P. fold s. fold (nh E h).
        destruct (mem_nat u P); destruct (Nat.eqb s ref); destruct (Nat.eqb s u); ring. }
    rewrite qsum_map_plus, !qsum_map_scal.
    (* first sum: over the intervals present at the level *)
    assert (H1 : qsum (map (fun u => if mem_nat u P then x u else 0) U)
                 == qsum (map (fun c => x (e_series c)) (at_head E h))).
    { rewrite (inter_sum U P x HU (level_series_nodup e He)).
      unfold P. rewrite map_map. apply qsum_map_ext. intros c _.
      destruct (mem_nat (e_series c) U) eqn:Em; [reflexivity|].
      unfold x. rewrite xof_out; [reflexivity|]. intros Hin. apply mem_nat_iff in Hin. congruence. }
    (* second sum: the interval of the entry itself *)
    assert (H2 : qsum (map (fun u => if Nat.eqb s u then (if Nat.eqb s ref then 0 else x u) else 0) U)
                 == x s).
    { destruct (Nat.eqb s ref) eqn:Er.
      - apply Nat.eqb_eq in Er. rewrite Er. unfold x. rewrite (xof_out U z ref Href).
        apply qsum_map_zero. intros u _. destruct (Nat.eqb ref u); reflexivity.
      - apply Nat.eqb_neq in Er.
        assert (Hs : In s U).
        { pose proof (proj1 (Hids s) (series_in E e He)) as [H|H]; [exact H|contradiction]. }
        apply (pick_sum Nat.eqb Nateqb_spec' U s x HU Hs). }
    rewrite H1, H2. unfold pert, dmean. fold h. fold s. unfold Qdiv. ring.
  Qed.

  (** residual of the least-squares row = minus the deviation *)
  Lemma design_residual e z : In e E ->
    qsum (map (fun k => a_coef e k * z k) (seq 0 (length U))) - snd (rowE e)
    == - dev E (xof U z) e.
  Proof.
    intros He. rewrite (design_row e z He). unfold rowE. cbn [snd].
    unfold pert, dmean, dev, head_mean, shifted. fold (nh E (e_head e)).
    rewrite qsum_map_plus. unfold Qdiv. ring.
  Qed.

  (** column [k] of the design matrix against the deviations = - residual sum *)
  Lemma design_column x k : (k < length U)%nat ->
    qsum (map (fun e => a_coef e k * dev E x e) E) == - resid_sum E x (nth k U 0%nat).
  Proof.
    intros Hk. set (u := nth k U 0%nat).
    assert (Hu : In u U) by (apply nth_In; exact Hk).
    assert (Hur : u <> ref) by (intros ->; contradiction).
    set (wh := fun h => if mem_nat u (map e_series (at_head E h)) then 1 / nh E h else 0).
    rewrite (qsum_map_ext _ (fun e => dev E x e * wh (e_head e)
                                      + (-1) * (if Nat.eqb (e_series e) u then dev E x e else 0))).
    2:{ intros e _. rewrite a_coef_eq by exact Hk. fold u. unfold coefE, minus_of, wh.
        fold (nh E (e_head e)).
        destruct (Nat.eqb (e_series e) ref) eqn:Er.
        - apply Nat.eqb_eq in Er.
          assert (Eu : Nat.eqb (e_series e) u = false) by (apply Nat.eqb_neq; congruence).
          rewrite Eu. ring.
        - destruct (Nat.eqb (e_series e) u); ring. }
    rewrite qsum_map_plus, qsum_map_scal.
    rewrite (group_sum Z.eqb Zeqb_spec' e_head (heads E) E (dev E x) wh (heads_nodup E) (head_in E)).
    rewrite (qsum_map_zero (fun key => wh key * _)).
    2:{ intros h _. fold (at_head E h). rewrite dev_sum_head. ring. }
    rewrite <- qsum_filter_ind. unfold resid_sum, of_series. ring.
  Qed.

  (** ** The normal equations, row by row *)
  Notation rows := (map rowE E).
  Notation nu := (length U).

  Lemma col_rows k : col k rows = map (fun e => a_coef e k) E.
  Proof. unfold col. rewrite map_map. reflexivity. Qed.

  Definition aug_row (i : nat) : list Q :=
    map (fun j => Qred (dot (col i rows) (col j rows))) (seq 0 nu)
    ++ [Qred (dot (col i rows) (map snd rows))].

  Lemma aug_rows :
    map (fun p => fst p ++ [snd p]) (combine (normal_matrix nu rows) (normal_rhs nu rows))
    = map aug_row (seq 0 nu).
  Proof. unfold normal_matrix, normal_rhs. rewrite combine_map_same, map_map. reflexivity. Qed.

  Lemma aug_row_coef i j : (j < nu)%nat ->
    nth j (aug_row i) 0 == qsum (map (fun e => a_coef e i * a_coef e j) E).
  Proof.
    intros Hj. unfold aug_row. rewrite app_nth1 by (rewrite map_length, seq_length; exact Hj).
    rewrite (nth_map_lt _ (seq 0 nu) j 0 0%nat) by (rewrite seq_length; exact Hj).
    rewrite seq_nth by exact Hj. cbn [plus]. rewrite Qred_correct, !col_rows, dot_map. reflexivity.
  Qed.

  Lemma aug_row_rhs i :
    nth nu (aug_row i) 0 == qsum (map (fun e => a_coef e i * snd (rowE e)) E).
  Proof.
    unfold aug_row. rewrite app_nth2 by (rewrite map_length, seq_length; lia).
    rewrite map_length, seq_length, Nat.sub_diag. cbn [nth].
    rewrite Qred_correct, col_rows, map_map, dot_map. reflexivity.
  Qed.

  (** normal equation [i] holds iff the residuals of unknown [i] sum to zero *)
  Lemma normal_row_sat z i : (i < nu)%nat ->
    (row_sat nu z (aug_row i) <-> resid_sum E (xof U z) (nth i U 0%nat) == 0).
  Proof.
    intros Hi. unfold row_sat. rewrite aug_row_rhs.
    assert (HL : qsum (map (fun j => nth j (aug_row i) 0 * z j) (seq 0 nu))
                 == qsum (map (fun e => a_coef e i
                                        * qsum (map (fun j => a_coef e j * z j) (seq 0 nu))) E)).
    { rewrite (qsum_map_ext _ (fun j => qsum (map (fun e => a_coef e i * (a_coef e j * z j)) E))).
      2:{ intros j Hj. apply in_seq in Hj. rewrite aug_row_coef by lia.
          rewrite Qmult_comm, <- qsum_map_scal. apply qsum_map_ext. intros e _. ring. }
      rewrite qsum_swap. apply qsum_map_ext. intros e _. rewrite <- qsum_map_scal. reflexivity. }
    rewrite HL.
    assert (HD : qsum (map (fun e => a_coef e i
                                     * qsum (map (fun j => a_coef e j * z j) (seq 0 nu))) E)
                 - qsum (map (fun e => a_coef e i * snd (rowE e)) E)
                 == resid_sum E (xof U z) (nth i U 0%nat)).
    { rewrite <- qsum_map_minus.
      rewrite (qsum_map_ext _ (fun e => (-1) * (a_coef e i * dev E (xof U z) e))).
      2:{ intros e He. pose proof (design_residual e z He) as Hr.
          set (Az := qsum (map (fun j => a_coef e j * z j) (seq 0 nu))) in *.
          assert (Hq : a_coef e i * Az - a_coef e i * snd (rowE e)
                       == a_coef e i * (Az - snd (rowE e))) by ring.
          rewrite Hq, Hr. ring. }
      rewrite qsum_map_scal, (design_column (xof U z) i Hi). ring. }
    split; intros H; lra.
  Qed.

  (** ** One and only one solution on a connected overlap graph *)
  Hypothesis Hconn : connected E.

  Theorem normal_system_unique_solution :
    exists y, (forall i, (i < nu)%nat -> row_sat nu y (aug_row i)) /\
              (forall z, (forall i, (i < nu)%nat -> row_sat nu z (aug_row i)) ->
                         forall j, (j < nu)%nat -> z j == y j) /\
              (forall s, resid_sum E (xof U y) s == 0).
  Proof.
    destruct (minimiser_exists_pinned E ref) as (xs & Hxs0 & Hxres & _).
    set (y := fun k => xs (nth k U 0%nat)).
    assert (Hxy : forall s, In s (ids E) -> xof U y s == xs s).
    { intros s Hs. apply Hids in Hs. destruct Hs as [Hs| ->].
      - destruct (idx_from_in s U 0 Hs) as (k & Hk & Hn & He). unfold xof. rewrite He.
        cbn [plus]. unfold y. rewrite Hn. reflexivity.
      - rewrite (xof_out U y ref Href). symmetry. exact Hxs0. }
    assert (Hyres : forall s, resid_sum E (xof U y) s == 0).
    { intros s. rewrite (resid_ext E (xof U y) xs s Hxy). apply Hxres. }
    exists y. split; [|split; [|exact Hyres]].
    - intros i Hi. apply normal_row_sat; [exact Hi|apply Hyres].
    - intros z Hz j Hj.
      (* all residual sums of the assignment given by z vanish *)
      assert (HzU : forall u, In u U -> resid_sum E (xof U z) u == 0).
      { intros u Hu. destruct (In_nth U u 0%nat Hu) as (k & Hk & <-).
        apply normal_row_sat; [exact Hk|apply Hz; exact Hk]. }
      assert (Hnd : NoDup (U ++ [ref])).
      { apply NoDup_app_snoc; assumption. }
      assert (Hkeys : forall c, In c E -> In (e_series c) (U ++ [ref])).
      { intros c Hc. apply in_or_app. pose proof (proj1 (Hids _) (series_in E c Hc)) as [H|H];
          [left; exact H|right; left; symmetry; exact H]. }
      pose proof (resid_total E (xof U z) (U ++ [ref]) Hnd Hkeys) as Htot.
      rewrite map_app, qsum_app in Htot. cbn [map qsum] in Htot.
      rewrite (qsum_map_zero (resid_sum E (xof U z)) U HzU) in Htot.
      assert (Hzref : resid_sum E (xof U z) ref == 0) by lra.
      assert (Hzall : forall s, In s (ids E) -> resid_sum E (xof U z) s == 0).
      { intros s Hs. apply Hids in Hs. destruct Hs as [Hs| ->]; [apply HzU; exact Hs|exact Hzref]. }
      pose proof (zero_resid_minimises E (xof U z) Hzall) as Hminz.
      pose proof (zero_resid_minimises E xs (fun s _ => Hxres s)) as Hminx.
      assert (Hobj : objective E (xof U z) == objective E xs).
      { pose proof (Hminz xs). pose proof (Hminx (xof U z)). lra. }
      pose proof (minimisers_differ_by_shift E xs (xof U z) Hconn (fun s _ => Hxres s) Hobj
                    (nth j U 0%nat) ref) as Hd.
      assert (HjU : In (nth j U 0%nat) U) by (apply nth_In; exact Hj).
      specialize (Hd (proj2 (Hids _) (or_introl HjU)) ref_in_ids).
      rewrite (xof_nth U z j HU Hj), (xof_out U z ref Href) in Hd. unfold y. lra.
  Qed.
End System.

(** * find_offsets never fails on a connected collection *)

Lemma NoDup_map_filter' {A B} (f : A -> B) (p : A -> bool) l :
  NoDup (map f l) -> NoDup (map f (filter p l)).
Proof.
  induction l as [|a t IH]; cbn [map filter]; intros H; [constructor|].
  inversion H as [|b l' Hn Hnd]; subst b l'. destruct (p a); cbn [map]; [|apply IH; exact Hnd].
  constructor; [|apply IH; exact Hnd].
  intros Hin. apply Hn. apply in_map_iff in Hin. destruct Hin as (x & Hx & Hf).
  apply in_map_iff. exists x. split; [exact Hx|]. apply filter_In in Hf. exact (proj1 Hf).
Qed.

Theorem find_offsets_complete (hm0 : head_mapping) :
  NoDup (map fst hm0) ->
  (forall p, In p hm0 -> NoDup (map fst (snd p))) ->
  connected (entries_of (drop_single hm0)) ->
  entries_of (drop_single hm0) <> [] ->
  exists offs, find_offsets hm0 = Ok (sorted_ids (entries_of (drop_single hm0)), offs).
Proof.
  intros Hheads0 Hser0 Hconn Hne.
  set (hm := drop_single hm0) in *. set (E := entries_of hm) in *.
  assert (Hheads : NoDup (map fst hm)) by (apply NoDup_map_filter'; exact Hheads0).
  assert (Hser : forall p, In p hm -> NoDup (map fst (snd p))).
  { intros p Hp. apply Hser0. apply filter_In in Hp. exact (proj1 Hp). }
  unfold find_offsets. fold hm. fold E.
  destruct (rev (sorted_ids E)) as [|ref tl] eqn:Erev.
  { exfalso. assert (H0 : sorted_ids E = []).
    { rewrite <- (rev_involutive (sorted_ids E)), Erev. reflexivity. }
    destruct E as [|c t] eqn:EE; [apply Hne; reflexivity|].
    assert (Hin : In (e_series c) (sorted_ids (c :: t))) by (apply sorted_ids_in; left; reflexivity).
    rewrite H0 in Hin. destruct Hin. }
  assert (Hsid : sorted_ids E = rev tl ++ [ref]).
  { rewrite <- (rev_involutive (sorted_ids E)), Erev. reflexivity. }
  set (U := removelast (sorted_ids E)).
  assert (HUeq : U = rev tl) by (unfold U; rewrite Hsid; apply removelast_last).
  assert (Hsid' : sorted_ids E = U ++ [ref]) by (rewrite HUeq; exact Hsid).
  pose proof (sorted_ids_nodup E) as Hnd. rewrite Hsid' in Hnd.
  apply NoDup_remove in Hnd. rewrite app_nil_r in Hnd. destruct Hnd as (HU & Href).
  assert (Hids : forall s, In s (ids E) <-> In s U \/ s = ref).
  { intros s. rewrite <- sorted_ids_ids, Hsid', in_app_iff. cbn [In]. intuition. }
  destruct (normal_system_unique_solution hm Hheads Hser U ref HU Href Hids Hconn)
    as (y & Hsat & Huniq & Hres).
  rewrite (system_of_rows hm Hheads U ref). fold E.
  set (nu := length U). set (rows := map (rowE hm U ref) E).
  pose proof (solve_complete (normal_matrix nu rows) (normal_rhs nu rows) y) as HS.
  cbv zeta in HS.
  assert (Hlm : length (normal_matrix nu rows) = nu).
  { unfold normal_matrix. rewrite map_length, seq_length. reflexivity. }
  rewrite Hlm in HS. unfold rows, nu, E in HS. rewrite (aug_rows hm U ref) in HS.
  fold E in HS. fold rows in HS. fold nu in HS.
  destruct HS as (sol & Hsolve & Hlen & Hsol).
  - unfold normal_rhs. rewrite map_length, seq_length. reflexivity.
  - intros r Hr. unfold normal_matrix in Hr. apply in_map_iff in Hr. destruct Hr as (i & <- & _).
    rewrite map_length, seq_length. reflexivity.
  - intros r Hr. apply in_map_iff in Hr. destruct Hr as (i & <- & Hi). apply in_seq in Hi.
    apply Hsat. lia.
  - intros z Hz. apply Huniq. intros i Hi. apply Hz. apply in_map. apply in_seq. lia.
  - rewrite Hsolve.
    assert (Hass : forall s, In s (ids E) ->
                     assignment (sorted_ids E) (sol ++ [0]) s == xof U y s).
    { intros s Hs. unfold assignment. rewrite index_of_idx, Hsid', idx_from_app.
      apply Hids in Hs. destruct Hs as [Hs| ->].
      - destruct (idx_from_in s U 0 Hs) as (k & Hk & Hn & He). rewrite He. cbn [plus].
        rewrite app_nth1 by (rewrite Hlen; exact Hk). unfold xof. rewrite He. cbn [plus].
        apply Hsol. exact Hk.
      - rewrite (idx_from_none ref U 0 Href). cbn [idx_from plus]. rewrite Nat.eqb_refl.
        rewrite app_nth2 by (rewrite Hlen; unfold nu; lia).
        rewrite Hlen. unfold nu. rewrite Nat.sub_diag. cbn [nth].
        rewrite (xof_out U y ref Href). reflexivity. }
    assert (Hall : forallb (fun s => Qeq_bool (resid_sum E (assignment (sorted_ids E) (sol ++ [0])) s) 0)
                     (sorted_ids E) = true).
    { apply forallb_forall. intros s _. apply Qeq_bool_iff.
      rewrite (resid_ext E _ (xof U y) s Hass). apply Hres. }
    rewrite Hall. exists (sol ++ [0]). reflexivity.
Qed.

(** without the non-emptiness: the only refusal left is the one of an empty collection *)
Corollary find_offsets_never_linalg (hm0 : head_mapping) :
  NoDup (map fst hm0) ->
  (forall p, In p hm0 -> NoDup (map fst (snd p))) ->
  connected (entries_of (drop_single hm0)) ->
  find_offsets hm0 <> Err ELinAlg.
Proof.
  intros H1 H2 H3. destruct (entries_of (drop_single hm0)) as [|c t] eqn:EE.
  - unfold find_offsets. rewrite EE. cbn. discriminate.
  - rewrite <- EE in H3.
    destruct (find_offsets_complete hm0 H1 H2 H3) as (offs & ->); [rewrite EE; discriminate|discriminate].
Qed.

(** completeness and soundness together: on such a collection the model returns
    offsets, they have zero residual sums and minimise the spread, and every
    minimiser differs from them by one common constant *)
Theorem find_offsets_total (hm0 : head_mapping) :
  NoDup (map fst hm0) ->
  (forall p, In p hm0 -> NoDup (map fst (snd p))) ->
  connected (entries_of (drop_single hm0)) ->
  entries_of (drop_single hm0) <> [] ->
  let E := entries_of (drop_single hm0) in
  exists offs,
    find_offsets hm0 = Ok (sorted_ids E, offs) /\
    let x := assignment (sorted_ids E) offs in
    (forall s, resid_sum E x s == 0) /\
    (forall y, objective E x <= objective E y) /\
    (forall y, (forall z, objective E y <= objective E z) ->
       forall s s', In s (ids E) -> In s' (ids E) -> y s - x s == y s' - x s').
Proof.
  intros H1 H2 Hconn H4 E.
  destruct (find_offsets_complete hm0 H1 H2 Hconn H4) as (offs & Hfo). fold E in Hfo.
  exists offs. split; [exact Hfo|]. intros x.
  destruct (find_offsets_sound hm0 _ _ Hfo) as (_ & Hres & Hmin). fold E in Hres, Hmin. fold x in Hres, Hmin.
  split; [exact Hres|]. split; [exact Hmin|].
  intros y Hy. apply (minimisers_differ_by_shift E x y Hconn (fun s _ => Hres s)).
  pose proof (Hmin y). pose proof (Hy x). lra.
Qed.
