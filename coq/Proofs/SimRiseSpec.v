(** Proofs about Model/SimRise.v at the real-number instance.

    The integrator is characterised by ONE function [G] with
    [integ a b = G b - G a]: exactly what Proofs/SplineWrapSpec.v
    [integrate_char] establishes for the spline wrapper (G = Fc). *)
From Coq Require Import Reals Lra Lia List Sorted Permutation.
From Spowtd Require Import Model.SimRise.
Import ListNotations.
Local Open Scope R_scope.

Section RiseR.
  Variable integ : R -> R -> R.
  Variable G : R -> R.
  Hypothesis integ_char : forall a b, integ a b = G b - G a.

  Notation incr := (increments integ).
  Notation csum := (cumsum_from Rops).
  Notation raw := (raw_curve Rops integ).
  Notation curve := (rise_curve Rops integ).

  Lemma increments_length : forall t p, length (incr p t) = length t.
  Proof. induction t as [|z t IH]; intros p; simpl; auto. Qed.

  Lemma cumsum_length : forall l acc, length (csum acc l) = length l.
  Proof. induction l as [|x l IH]; intros acc; simpl; auto. Qed.

  Lemma raw_length : forall z0 t, length (raw z0 t) = S (length t).
  Proof.
    intros. unfold raw_curve. rewrite cumsum_length. simpl.
    now rewrite increments_length.
  Qed.

  (** Telescoping: the running sum over the levels after [p], started at
      [acc], reaches acc + G z_k - G p at the k-th of them. *)
  Lemma cumsum_increments_nth :
    forall t p acc k d, (k < length t)%nat ->
      nth k (csum acc (incr p t)) d = acc + (G (nth k t d) - G p).
  Proof.
    induction t as [|z t IH]; intros p acc k d Hk; simpl in Hk; [lia|].
    destruct k as [|k]; simpl.
    - rewrite integ_char. ring.
    - rewrite IH by lia. rewrite integ_char. ring.
  Qed.

  Lemma raw_nth :
    forall z0 t k d, (k < S (length t))%nat ->
      nth k (raw z0 t) d = G (nth k (z0 :: t) d) - G z0.
  Proof.
    intros z0 t k d Hk. unfold raw_curve. simpl.
    destruct k as [|k]; simpl.
    - ring.
    - rewrite cumsum_increments_nth by lia. ring.
  Qed.

  Lemma rise_curve_cons :
    forall z0 t m W, curve (z0 :: t) m = Ok W ->
      W = map (fun w => w + (m - fmean Rops (raw z0 t))) (raw z0 t).
  Proof.
    intros z0 t m W H. unfold rise_curve in H. cbv zeta in H.
    change (fsub Rops) with Rminus in H. change (fadd Rops) with Rplus in H.
    congruence.
  Qed.

  Lemma curve_length :
    forall grid m W, curve grid m = Ok W -> length W = length grid.
  Proof.
    intros grid m W H. destruct grid as [|z0 t]; [discriminate|].
    apply rise_curve_cons in H. subst W.
    rewrite map_length, raw_length. reflexivity.
  Qed.

  (** Every value of the curve: W_k = G z_k - G z_0 + shift. *)
  Lemma curve_nth :
    forall grid m W, curve grid m = Ok W ->
      length W = length grid /\
      exists shift, forall k d, (k < length grid)%nat ->
        nth k W d = G (nth k grid d) - G (hd 0 grid) + shift.
  Proof.
    intros grid m W H. destruct grid as [|z0 t]; [discriminate|].
    apply rise_curve_cons in H. subst W. split.
    - rewrite map_length, raw_length. reflexivity.
    - exists (m - fmean Rops (raw z0 t)).
      intros k d Hk. simpl in Hk.
      set (s := m - fmean Rops (raw z0 t)).
      rewrite (nth_indep _ d ((fun w => w + s) 0))
        by (rewrite map_length, raw_length; lia).
      rewrite (map_nth (fun w => w + s) (raw z0 t) 0 k).
      rewrite raw_nth by lia.
      rewrite (nth_indep (z0 :: t) 0 d) by (simpl; lia).
      simpl hd. reflexivity.
  Qed.

  (** C17: the difference of simulated storage between ANY two grid levels is
      the integral of specific yield between them. *)
  Theorem curve_diff :
    forall grid m W, curve grid m = Ok W ->
    forall i j d, (i < length grid)%nat -> (j < length grid)%nat ->
      nth j W d - nth i W d = integ (nth i grid d) (nth j grid d).
  Proof.
    intros grid m W H i j d Hi Hj.
    destruct (curve_nth grid m W H) as [_ [s Hs]].
    rewrite (Hs j d Hj), (Hs i d Hi), integ_char. ring.
  Qed.

  (** Values at shared levels: two grids (in particular a grid and any
      refinement of it), any requested means: differences between shared
      levels coincide; the values themselves differ by one common constant. *)
  Theorem curve_shared_levels :
    forall grid1 grid2 m1 m2 W1 W2,
      curve grid1 m1 = Ok W1 -> curve grid2 m2 = Ok W2 ->
      forall i j i' j' d,
        (i < length grid1)%nat -> (j < length grid1)%nat ->
        (i' < length grid2)%nat -> (j' < length grid2)%nat ->
        nth i grid1 d = nth i' grid2 d -> nth j grid1 d = nth j' grid2 d ->
        nth j W1 d - nth i W1 d = nth j' W2 d - nth i' W2 d.
  Proof.
    intros grid1 grid2 m1 m2 W1 W2 H1 H2 i j i' j' d Hi Hj Hi' Hj' Ei Ej.
    rewrite (curve_diff grid1 m1 W1 H1 i j d Hi Hj).
    rewrite (curve_diff grid2 m2 W2 H2 i' j' d Hi' Hj').
    now rewrite Ei, Ej.
  Qed.

  Theorem curve_common_shift :
    forall grid1 grid2 m1 m2 W1 W2,
      curve grid1 m1 = Ok W1 -> curve grid2 m2 = Ok W2 ->
      exists c, forall i i' d,
        (i < length grid1)%nat -> (i' < length grid2)%nat ->
        nth i grid1 d = nth i' grid2 d ->
        nth i' W2 d = nth i W1 d + c.
  Proof.
    intros grid1 grid2 m1 m2 W1 W2 H1 H2.
    destruct (curve_nth grid1 m1 W1 H1) as [_ [s1 Hs1]].
    destruct (curve_nth grid2 m2 W2 H2) as [_ [s2 Hs2]].
    exists (s2 - G (hd 0 grid2) - (s1 - G (hd 0 grid1))).
    intros i i' d Hi Hi' E.
    rewrite (Hs1 i d Hi), (Hs2 i' d Hi'), E. ring.
  Qed.

  (** Monotone when the integrand is non-negative (stated on the integrator:
      integ a b >= 0 for a <= b) and the grid does not decrease. *)
  Theorem curve_monotone :
    (forall a b, a <= b -> 0 <= integ a b) ->
    forall grid m W, curve grid m = Ok W ->
      (forall i j d, (i <= j)%nat -> (j < length grid)%nat -> nth i grid d <= nth j grid d) ->
      forall i j d, (i <= j)%nat -> (j < length grid)%nat -> nth i W d <= nth j W d.
  Proof.
    intros Hpos grid m W H Hinc i j d Hij Hj.
    assert (Hd := curve_diff grid m W H i j d ltac:(lia) Hj).
    specialize (Hpos _ _ (Hinc i j d Hij Hj)). lra.
  Qed.

  (** ---- the mean *)
  Lemma fold_left_Rplus_acc :
    forall l a, fold_left Rplus l a = a + fold_left Rplus l 0.
  Proof.
    induction l as [|x l IH]; intros a; simpl.
    - ring.
    - rewrite (IH (a + x)), (IH (0 + x)). ring.
  Qed.

  Lemma fsum_cons : forall x l, fsum Rops (x :: l) = x + fsum Rops l.
  Proof.
    intros. unfold fsum. simpl. rewrite fold_left_Rplus_acc. ring.
  Qed.

  Lemma fsum_map_shift :
    forall l s, fsum Rops (map (fun w => w + s) l) = fsum Rops l + INR (length l) * s.
  Proof.
    induction l as [|x l IH]; intros s.
    - unfold fsum. simpl. ring.
    - change (map (fun w => w + s) (x :: l)) with ((x + s) :: map (fun w => w + s) l).
      rewrite !fsum_cons, IH.
      change (length (x :: l)) with (S (length l)). rewrite S_INR. ring.
  Qed.

  (** C17: the mean of the curve is the requested mean (a grid is never empty
      when a curve is returned). *)
  Theorem curve_mean :
    forall grid m W, curve grid m = Ok W -> fmean Rops W = m.
  Proof.
    intros grid m W H. destruct grid as [|z0 t]; [discriminate|].
    apply rise_curve_cons in H. subst W.
    set (Wr := raw z0 t).
    assert (Hn : INR (length Wr) <> 0).
    { unfold Wr. rewrite raw_length. apply not_0_INR. lia. }
    unfold fmean at 1.
    rewrite map_length, fsum_map_shift.
    unfold fmean. simpl. field. exact Hn.
  Qed.

  (** ---- the command: rows *)
  Notation sortr := (sort_rows Rops).

  Lemma insert_row_perm : forall r l, Permutation (r :: l) (insert_row Rops r l).
  Proof.
    induction l as [|s t IH]; simpl.
    - apply Permutation_refl.
    - destruct (Rltb (fst s) (fst r)).
      + apply perm_trans with (s :: r :: t); [apply perm_swap|]. now apply perm_skip.
      + apply Permutation_refl.
  Qed.

  Lemma sort_rows_perm : forall l, Permutation l (sortr l).
  Proof.
    induction l as [|r t IH]; simpl.
    - apply perm_nil.
    - eapply perm_trans; [|apply insert_row_perm]. now apply perm_skip.
  Qed.

  Definition by_level (a b : R * R) : Prop := fst a <= fst b.

  Lemma insert_row_sorted :
    forall r l, Sorted by_level l -> Sorted by_level (insert_row Rops r l).
  Proof.
    induction l as [|s t IH]; intros Hs; simpl.
    - repeat constructor.
    - simpl fltb. unfold Rltb. destruct (Rlt_dec (fst s) (fst r)) as [Hlt|Hge].
      + inversion Hs as [|? ? Hst Hhd]; subst.
        constructor; [now apply IH|].
        destruct t as [|u t']; simpl.
        * constructor. unfold by_level. lra.
        * simpl fltb. unfold Rltb. destruct (Rlt_dec (fst u) (fst r)).
          -- constructor. inversion Hhd; subst. assumption.
          -- constructor. unfold by_level. lra.
      + constructor; [assumption|]. constructor. unfold by_level. lra.
  Qed.

  Lemma sort_rows_sorted : forall l, Sorted by_level (sortr l).
  Proof.
    induction l as [|r t IH]; simpl.
    - constructor.
    - now apply insert_row_sorted.
  Qed.

  Lemma zip3_spec :
    forall a b c : list R, length b = length a -> length c = length a ->
      map (fun r => fst (fst r)) (zip3 a b c) = a /\
      map (fun r => snd (fst r)) (zip3 a b c) = b /\
      map snd (zip3 a b c) = c.
  Proof.
    induction a as [|x a IH]; intros b c Hb Hc.
    - destruct b; destruct c; simpl in *; try discriminate. auto.
    - destruct b as [|y b]; destruct c as [|z c]; simpl in *; try discriminate.
      destruct (IH b c ltac:(lia) ltac:(lia)) as [E1 [E2 E3]].
      rewrite E1, E2, E3. auto.
  Qed.

  Lemma zip3_rows :
    forall (l : list (R * R)) (W : list R), length W = length l ->
      map (fun r : R * R * R => (fst (fst r), snd (fst r))) (zip3 (map fst l) (map snd l) W) = l
      /\ map snd (zip3 (map fst l) (map snd l) W) = W.
  Proof.
    induction l as [|[a b] l IH]; intros W HL; destruct W as [|w W]; simpl in *;
      try discriminate; auto.
    destruct (IH W ltac:(lia)) as [E1 E2]. rewrite E1, E2. auto.
  Qed.

  (** C17: the table has one row per row of the master curve, ascending in
      level; its columns are (level, measured storage, simulated storage) where
      the simulated column is the curve on those levels with the mean of the
      measured column as requested mean. *)
  Theorem simulate_rise_rows :
    forall view rows, simulate_rise Rops integ view = Ok rows ->
      Permutation view (sortr view) /\ Sorted by_level (sortr view) /\
      map (fun r : R * R * R => (fst (fst r), snd (fst r))) rows = sortr view /\
      curve (map fst (sortr view)) (fmean Rops (map snd (sortr view))) = Ok (map snd rows).
  Proof.
    intros view rows H.
    split; [apply sort_rows_perm|]. split; [apply sort_rows_sorted|].
    unfold simulate_rise in H.
    remember (sortr view) as l eqn:El.
    destruct l as [|r0 rest]; [discriminate|].
    remember (r0 :: rest) as l' eqn:El'.
    destruct (curve (map fst l') (fmean Rops (map snd l'))) as [W|e] eqn:EW;
      simpl in H; [|discriminate].
    injection H as <-.
    assert (HL := curve_length _ _ W EW). rewrite map_length in HL.
    destruct (zip3_rows l' W HL) as [E1 E2].
    rewrite E1, E2. auto.
  Qed.

  (** --observations writes exactly the third column. *)
  Theorem simulate_rise_observations_spec :
    forall view rows, simulate_rise Rops integ view = Ok rows ->
      simulate_rise_observations Rops integ view = Ok (map snd rows).
  Proof.
    intros view rows H. unfold simulate_rise_observations. now rewrite H.
  Qed.

  Theorem simulate_rise_empty :
    simulate_rise Rops integ [] = Err EValue.
  Proof. reflexivity. Qed.
End RiseR.
