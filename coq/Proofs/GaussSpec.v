(** The Gauss-Jordan elimination of [Model.FitOffsets] ([find_pivot], [gauss],
    [solve]) is complete on uniquely solvable square systems: if the augmented
    rows have one and only one solution [y], every column has a pivot and the
    list returned is (pointwise [==]) that solution. *)
From Spowtd Require Import Model.FitOffsets Proofs.QSum Proofs.FitOffsetsSpec.
From Coq Require Import Lia Lqa Permutation.

(** [z] satisfies the augmented row [r] (coefficients at 0..n-1, right-hand side at n) *)
Definition row_sat (n : nat) (z : nat -> Q) (r : list Q) : Prop :=
  qsum (map (fun j => nth j r 0 * z j) (seq 0 n)) == nth n r 0.

Lemma nth_map_lt {A B} (f : A -> B) l k d d' :
  (k < length l)%nat -> nth k (map f l) d = f (nth k l d').
Proof.
  intros H. rewrite (nth_indep _ d (f d')) by (rewrite map_length; lia). apply map_nth.
Qed.

Lemma scale_row_length k r : length (scale_row k r) = length r.
Proof. unfold scale_row. apply map_length. Qed.

Lemma scale_row_nth k r j : (j < length r)%nat -> nth j (scale_row k r) 0 == k * nth j r 0.
Proof.
  intros H. unfold scale_row. rewrite (nth_map_lt _ r j 0 0 H). apply Qred_correct.
Qed.

Lemma sub_row_length r p k : length r = length p -> length (sub_row r p k) = length r.
Proof. intros H. unfold sub_row. rewrite map_length, combine_length. lia. Qed.

Lemma sub_row_nth r p k j :
  length r = length p -> (j < length r)%nat ->
  nth j (sub_row r p k) 0 == nth j r 0 - k * nth j p 0.
Proof.
  intros Hl Hj. unfold sub_row.
  rewrite (nth_map_lt _ (combine r p) j 0 (0, 0)) by (rewrite combine_length; lia).
  rewrite combine_nth by exact Hl. cbn [fst snd]. apply Qred_correct.
Qed.

(** satisfaction is preserved by linear combinations of rows *)
Lemma row_sat_lin n z r p r' a b :
  (forall j, (j <= n)%nat -> nth j r' 0 == a * nth j r 0 + b * nth j p 0) ->
  row_sat n z r -> row_sat n z p -> row_sat n z r'.
Proof.
  unfold row_sat. intros H Hr Hp. rewrite (H n) by lia. rewrite <- Hr, <- Hp.
  rewrite (qsum_map_ext _ (fun j => a * (nth j r 0 * z j) + b * (nth j p 0 * z j))).
  - rewrite qsum_map_plus, !qsum_map_scal. reflexivity.
  - intros j Hj. apply in_seq in Hj. rewrite (H j) by lia. ring.
Qed.

Lemma find_pivot_some c rows p rest :
  find_pivot c rows = Some (p, rest) -> ~ nth c p 0 == 0 /\ Permutation rows (p :: rest).
Proof.
  revert p rest. induction rows as [|r t IH]; intros p rest; cbn [find_pivot]; [discriminate|].
  destruct (Qeq_bool (nth c r 0) 0) eqn:Eq.
  - destruct (find_pivot c t) as [[p0 rest0]|]; [|discriminate].
    intros H. inversion H; subst p0 rest. clear H.
    destruct (IH p rest0 eq_refl) as (Hp & Hperm). split; [exact Hp|].
    apply Permutation_trans with (r :: p :: rest0); [apply perm_skip; exact Hperm|apply perm_swap].
  - intros H. inversion H; subst r rest. split; [|apply Permutation_refl].
    intros Hz. apply Qeq_bool_iff in Hz. congruence.
Qed.

Lemma find_pivot_none c rows :
  find_pivot c rows = None -> forall r, In r rows -> nth c r 0 == 0.
Proof.
  induction rows as [|r t IH]; cbn [find_pivot]; intros H r0 Hr0; [destruct Hr0|].
  destruct (Qeq_bool (nth c r 0) 0) eqn:Eq; [|discriminate].
  destruct (find_pivot c t) as [[p0 rest0]|]; [discriminate|].
  destruct Hr0 as [<-|Hr0]; [apply Qeq_bool_iff; exact Eq|apply IH; [reflexivity|exact Hr0]].
Qed.

Lemma seq_nodup n : NoDup (seq 0 n).
Proof. apply seq_NoDup. Qed.

(** a row that is a unit vector on the columns, read against [y] *)
Lemma unit_row_value n y r i :
  (i < n)%nat -> (forall j, (j < n)%nat -> nth j r 0 == if Nat.eqb j i then 1 else 0) ->
  row_sat n y r -> nth n r 0 == y i.
Proof.
  intros Hi Hu Hs. unfold row_sat in Hs. rewrite <- Hs.
  rewrite (qsum_map_ext _ (fun j => if Nat.eqb i j then y j else 0)).
  - apply (pick_sum Nat.eqb Nateqb_spec' (seq 0 n) i y (seq_nodup n)). apply in_seq. lia.
  - intros j Hj. apply in_seq in Hj. rewrite (Hu j) by lia. rewrite (Nat.eqb_sym j i).
    destruct (Nat.eqb i j); ring.
Qed.

Section Elimination.
  Variable n : nat.
  Variable y : nat -> Q.

  Definition inv (c : nat) (done todo : list (list Q)) : Prop :=
    length done = c /\
    (forall r, In r (done ++ todo) -> length r = S n) /\
    (forall r, In r (done ++ todo) -> row_sat n y r) /\
    (forall z, (forall r, In r (done ++ todo) -> row_sat n z r) ->
               forall j, (j < n)%nat -> z j == y j) /\
    (forall i r, nth_error done i = Some r ->
                 forall j, (j < c)%nat -> nth j r 0 == if Nat.eqb j i then 1 else 0) /\
    (forall r, In r todo -> forall j, (j < c)%nat -> nth j r 0 == 0).

  (** no pivot in column c < n contradicts uniqueness *)
  Lemma no_pivot_impossible c done todo :
    inv c done todo -> (c < n)%nat ->
    (forall r, In r todo -> nth c r 0 == 0) -> False.
  Proof.
    intros (Hlen & _ & Hsat & Huniq & Hdone & Htodo) Hc Hnp.
    set (t := fun j => if Nat.ltb j c then - nth c (nth j done []) 0
                       else if Nat.eqb j c then 1 else 0).
    set (z := fun j => y j + t j).
    assert (Hz : forall r, In r (done ++ todo) -> row_sat n z r).
    { intros r Hr. pose proof (Hsat r Hr) as Hy. unfold row_sat in *. unfold z.
      rewrite (qsum_map_ext _ (fun j => nth j r 0 * y j + nth j r 0 * t j)) by (intros; ring).
      rewrite qsum_map_plus, Hy.
      assert (H0 : qsum (map (fun j => nth j r 0 * t j) (seq 0 n)) == 0); [|rewrite H0; ring].
      apply in_app_or in Hr. destruct Hr as [Hr|Hr].
      - apply In_nth_error in Hr. destruct Hr as (i & Hi).
        assert (Hic : (i < c)%nat) by (rewrite <- Hlen; apply nth_error_Some; congruence).
        assert (Hnth : nth i done [] = r) by (apply nth_error_nth; exact Hi).
        rewrite (qsum_map_ext _ (fun j => (if Nat.eqb i j then - nth c r 0 else 0)
                                          + (if Nat.eqb c j then nth c r 0 else 0))).
        + rewrite qsum_map_plus.
          rewrite (pick_sum Nat.eqb Nateqb_spec' (seq 0 n) i (fun _ => - nth c r 0) (seq_nodup n))
            by (apply in_seq; lia).
          rewrite (pick_sum Nat.eqb Nateqb_spec' (seq 0 n) c (fun _ => nth c r 0) (seq_nodup n))
            by (apply in_seq; lia).
          ring.
        + intros j Hj. unfold t. destruct (Nat.ltb j c) eqn:Ejc.
          * apply Nat.ltb_lt in Ejc. rewrite (Hdone i r Hi j Ejc).
            assert (Ecj : Nat.eqb c j = false) by (apply Nat.eqb_neq; lia). rewrite Ecj.
            rewrite (Nat.eqb_sym j i). destruct (Nat.eqb i j) eqn:Eij.
            -- apply Nat.eqb_eq in Eij. subst j. rewrite Hnth. ring.
            -- ring.
          * apply Nat.ltb_ge in Ejc.
            assert (Eij : Nat.eqb i j = false) by (apply Nat.eqb_neq; lia). rewrite Eij.
            rewrite (Nat.eqb_sym c j). destruct (Nat.eqb j c) eqn:Ejc2.
            -- apply Nat.eqb_eq in Ejc2. subst j. ring.
            -- ring.
      - apply qsum_map_zero. intros j Hj. unfold t. destruct (Nat.ltb j c) eqn:Ejc.
        + apply Nat.ltb_lt in Ejc. rewrite (Htodo r Hr j Ejc). ring.
        + destruct (Nat.eqb j c) eqn:Ejc2.
          * apply Nat.eqb_eq in Ejc2. subst j. rewrite (Hnp r Hr). ring.
          * ring. }
    pose proof (Huniq z Hz c Hc) as Hzc. unfold z, t in Hzc.
    rewrite Nat.ltb_irrefl, Nat.eqb_refl in Hzc. lra.
  Qed.

  (** one elimination step keeps the invariant *)
  Lemma step_inv c done todo p rest :
    inv c done todo -> (c < n)%nat ->
    ~ nth c p 0 == 0 -> Permutation todo (p :: rest) ->
    let p' := scale_row (1 / nth c p 0) p in
    let elim := fun r => sub_row r p' (nth c r 0) in
    inv (S c) (map elim done ++ [p']) (map elim rest).
  Proof.
    intros (Hlen & Hrl & Hsat & Huniq & Hdone & Htodo) Hc Hpc Hperm p' elim.
    assert (Hp_in : In p todo) by (apply (Permutation_in p (Permutation_sym Hperm)); left; reflexivity).
    assert (Hrest_in : forall r, In r rest -> In r todo).
    { intros r Hr. apply (Permutation_in r (Permutation_sym Hperm)). right. exact Hr. }
    assert (Hpl : length p = S n) by (apply Hrl; apply in_or_app; right; exact Hp_in).
    assert (Hp'l : length p' = S n) by (unfold p'; rewrite scale_row_length; exact Hpl).
    assert (Hp'j : forall j, (j <= n)%nat -> nth j p' 0 == (1 / nth c p 0) * nth j p 0).
    { intros j Hj. unfold p'. apply scale_row_nth. lia. }
    assert (Hp'c : nth c p' 0 == 1) by (rewrite Hp'j by lia; field; exact Hpc).
    assert (Hp'lt : forall j, (j < c)%nat -> nth j p' 0 == 0).
    { intros j Hj. rewrite Hp'j by lia. rewrite (Htodo p Hp_in j Hj). ring. }
    assert (Hel : forall r, length r = S n -> length (elim r) = S n).
    { intros r Hr. unfold elim. rewrite sub_row_length; [exact Hr|lia]. }
    assert (Hej : forall r, length r = S n -> forall j, (j <= n)%nat ->
                    nth j (elim r) 0 == nth j r 0 - nth c r 0 * nth j p' 0).
    { intros r Hr j Hj. unfold elim. apply sub_row_nth; lia. }
    assert (Hold : forall r, In r (done ++ todo) <-> In r done \/ r = p \/ In r rest).
    { intros r. rewrite in_app_iff. split.
      - intros [H|H]; [left; exact H|right]. apply (Permutation_in r Hperm) in H.
        destruct H as [<-|H]; [left; reflexivity|right; exact H].
      - intros [H|[->|H]]; [left; exact H|right; exact Hp_in|right; apply Hrest_in; exact H]. }
    assert (Hnew : forall r', In r' ((map elim done ++ [p']) ++ map elim rest) <->
                   r' = p' \/ exists r, (In r done \/ In r rest) /\ r' = elim r).
    { intros r'. rewrite !in_app_iff, !in_map_iff. cbn [In]. split.
      - intros [[(r & <- & H)|[<-|[]]]|(r & <- & H)].
        + right. exists r. split; [left; exact H|reflexivity].
        + left. reflexivity.
        + right. exists r. split; [right; exact H|reflexivity].
      - intros [->|(r & [H|H] & ->)].
        + left. right. left. reflexivity.
        + left. left. exists r. split; [reflexivity|exact H].
        + right. exists r. split; [reflexivity|exact H]. }
    assert (Hrl' : forall r, In r done \/ In r rest -> length r = S n).
    { intros r [H|H]; apply Hrl; apply Hold; [left; exact H|right; right; exact H]. }
    unfold inv. repeat split.
    - rewrite app_length, map_length. cbn [length]. lia.
    - intros r' Hr'. apply Hnew in Hr'. destruct Hr' as [->|(r & Hr & ->)]; [exact Hp'l|].
      apply Hel. apply Hrl'. exact Hr.
    - intros r' Hr'. apply Hnew in Hr'.
      assert (Hsp : row_sat n y p) by (apply Hsat; apply Hold; right; left; reflexivity).
      assert (Hsp' : row_sat n y p').
      { apply (row_sat_lin n y p p p' (1 / nth c p 0) 0); [|exact Hsp|exact Hsp].
        intros j Hj. rewrite (Hp'j j Hj). ring. }
      destruct Hr' as [->|(r & Hr & ->)]; [exact Hsp'|].
      apply (row_sat_lin n y r p' (elim r) 1 (- nth c r 0)); [| |exact Hsp'].
      + intros j Hj. rewrite (Hej r (Hrl' r Hr) j Hj). ring.
      + apply Hsat. apply Hold. destruct Hr as [H|H]; [left; exact H|right; right; exact H].
    - intros z Hz. apply Huniq. intros r Hr.
      assert (Hzp' : row_sat n z p') by (apply Hz; apply Hnew; left; reflexivity).
      assert (Hback : forall r0, In r0 done \/ In r0 rest -> row_sat n z r0).
      { intros r0 Hr0.
        apply (row_sat_lin n z (elim r0) p' r0 1 (nth c r0 0)); [| |exact Hzp'].
        - intros j Hj. rewrite (Hej r0 (Hrl' r0 Hr0) j Hj). ring.
        - apply Hz. apply Hnew. right. exists r0. split; [exact Hr0|reflexivity]. }
      apply Hold in Hr. destruct Hr as [Hr|[->|Hr]].
      + apply Hback. left. exact Hr.
      + apply (row_sat_lin n z p' p' p (nth c p 0) 0); [|exact Hzp'|exact Hzp'].
        intros j Hj. rewrite (Hp'j j Hj). field. exact Hpc.
      + apply Hback. right. exact Hr.
    - intros i r' Hi j Hj.
      destruct (Nat.lt_ge_cases i (length done)) as [Hil|Hil].
      + rewrite nth_error_app1 in Hi by (rewrite map_length; exact Hil).
        rewrite nth_error_map in Hi. destruct (nth_error done i) as [r|] eqn:Ei; [|discriminate].
        cbn [option_map] in Hi. inversion Hi; subst r'. clear Hi.
        assert (Hr : In r done) by (apply (nth_error_In done i); exact Ei).
        rewrite (Hej r (Hrl' r (or_introl Hr)) j) by lia.
        assert (Hji : (j < c)%nat \/ j = c) by lia. destruct Hji as [Hjc| ->].
        * rewrite (Hp'lt j Hjc). rewrite (Hdone i r Ei j Hjc). ring.
        * rewrite Hp'c. assert (E : Nat.eqb c i = false) by (apply Nat.eqb_neq; lia). rewrite E. ring.
      + rewrite nth_error_app2 in Hi by (rewrite map_length; exact Hil). rewrite map_length in Hi.
        destruct (i - length done)%nat as [|k] eqn:Ek.
        2:{ cbn [nth_error] in Hi. destruct k; discriminate. }
        cbn [nth_error] in Hi. inversion Hi; subst r'. clear Hi.
        assert (Hic : i = c) by lia. subst i.
        assert (Hji : (j < c)%nat \/ j = c) by lia. destruct Hji as [Hjc| ->].
        * rewrite (Hp'lt j Hjc). assert (E : Nat.eqb j c = false) by (apply Nat.eqb_neq; lia).
          rewrite E. reflexivity.
        * rewrite Nat.eqb_refl. exact Hp'c.
    - intros r' Hr' j Hj. apply in_map_iff in Hr'. destruct Hr' as (r & <- & Hr).
      rewrite (Hej r (Hrl' r (or_intror Hr)) j) by lia.
      assert (Hji : (j < c)%nat \/ j = c) by lia. destruct Hji as [Hjc| ->].
      + rewrite (Hp'lt j Hjc). rewrite (Htodo r (Hrest_in r Hr) j Hjc). ring.
      + rewrite Hp'c. ring.
  Qed.

  Lemma gauss_complete_inv fuel : forall c done todo,
    length todo = fuel -> (c + fuel = n)%nat -> inv c done todo ->
    exists rows, gauss fuel c done todo = Some rows /\ length rows = n /\
                 forall i r, nth_error rows i = Some r -> nth n r 0 == y i.
  Proof.
    induction fuel as [|f IH]; intros c done todo Hlt Hcn Hinv.
    - destruct todo; [|discriminate]. cbn [gauss]. exists done.
      destruct Hinv as (Hlen & _ & Hsat & _ & Hdone & _).
      split; [reflexivity|]. split; [lia|]. intros i r Hi.
      assert (Hin : (i < n)%nat) by (replace n with (length done) by lia; apply nth_error_Some; congruence).
      apply (unit_row_value n y r i Hin).
      + intros j Hj. apply (Hdone i r Hi j). lia.
      + apply Hsat. rewrite app_nil_r. apply (nth_error_In done i). exact Hi.
    - destruct todo as [|r0 t0] eqn:Etodo; [discriminate|]. rewrite <- Etodo in *.
      assert (Hc : (c < n)%nat) by lia.
      assert (Hg : gauss (S f) c done todo =
                   match find_pivot c todo with
                   | None => None
                   | Some (p, rest) =>
                       let p' := scale_row (1 / nth c p 0) p in
                       let elim := fun r => sub_row r p' (nth c r 0) in
                       gauss f (S c) (map elim done ++ [p']) (map elim rest)
                   end).
      { rewrite Etodo. reflexivity. }
      rewrite Hg. clear Hg.
      destruct (find_pivot c todo) as [[p rest]|] eqn:Efp.
      + destruct (find_pivot_some c todo p rest Efp) as (Hpc & Hperm).
        cbv zeta. apply IH.
        * rewrite map_length. apply Permutation_length in Hperm. cbn [length] in Hperm. lia.
        * lia.
        * apply (step_inv c done todo p rest Hinv Hc Hpc Hperm).
      + exfalso. apply (no_pivot_impossible c done todo Hinv Hc).
        apply find_pivot_none. exact Efp.
  Qed.
End Elimination.

(** ** [solve] on a uniquely solvable square system *)
Theorem solve_complete (m : list (list Q)) (rhs : list Q) (y : nat -> Q) :
  let n := length m in
  length rhs = n -> (forall r, In r m -> length r = n) ->
  let aug := map (fun p => fst p ++ [snd p]) (combine m rhs) in
  (forall r, In r aug -> row_sat n y r) ->
  (forall z, (forall r, In r aug -> row_sat n z r) -> forall j, (j < n)%nat -> z j == y j) ->
  exists sol, solve m rhs = Some sol /\ length sol = n /\
              forall i, (i < n)%nat -> nth i sol 0 == y i.
Proof.
  intros n Hrhs Hrows aug Hsat Huniq.
  assert (Haugl : length aug = n).
  { unfold aug. rewrite map_length, combine_length. fold n. lia. }
  assert (Hinv : inv n y 0 [] aug).
  { unfold inv. cbn [app length]. repeat split.
    - intros r Hr. unfold aug in Hr. apply in_map_iff in Hr. destruct Hr as ((a & b) & <- & Hab).
      cbn [fst snd]. rewrite app_length. cbn [length]. apply in_combine_l in Hab.
      rewrite (Hrows a Hab). lia.
    - exact Hsat.
    - exact Huniq.
    - intros i r Hi. destruct i; discriminate.
    - intros r _ j Hj. lia. }
  destruct (gauss_complete_inv n y n 0%nat [] aug Haugl (Nat.add_0_l n) Hinv)
    as (rows & Hg & Hlen & Hval).
  unfold solve. fold n. fold aug. rewrite Hg.
  exists (map (fun r => nth n r 0) rows). split; [reflexivity|]. split; [rewrite map_length; exact Hlen|].
  intros i Hi. destruct (nth_error rows i) as [r|] eqn:Ei.
  - rewrite (nth_map_lt (fun r0 => nth n r0 0) rows i 0 []) by lia.
    rewrite (nth_error_nth rows i [] Ei). apply (Hval i r Ei).
  - apply nth_error_None in Ei. lia.
Qed.
