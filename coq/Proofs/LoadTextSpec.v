(** `spowtd load` on files of (timestamp text, value) rows in a zone: the text
    level reduces to the epoch-level load model of C10 (Model/Load.v,
    Proofs/LoadSpec.v — imported, not modified), and the refusals of C11. *)
From Spowtd Require Import Model.LoadText Proofs.LoadStage Proofs.LoadGrid Proofs.LoadLevel Proofs.LoadSpec
  Proofs.CalendarSpec Proofs.TimeZoneSpec.
From Coq Require Import Lia List.
Local Open Scope Z_scope.

(** ** Reduction to the epoch level *)

Lemma stage_text_from_stamp_all : forall z rows rows' acc, stamp_all z rows = Some rows' ->
  stage_text_from z acc rows = stage_from acc rows'.
Proof.
  intros z rows. induction rows as [|[s v] rest IH]; intros rows' acc H; simpl in H.
  - inversion H; subst. reflexivity.
  - destruct (stamp_epoch (stamp z s)) as [e|] eqn:Es; [|discriminate].
    destruct (stamp_all z rest) as [l|] eqn:El; [|discriminate]. inversion H; subst rows'. clear H.
    simpl. destruct (stamp z s) as [e0|e0| |]; simpl in Es; try discriminate; inversion Es; subst e0;
      (destruct (ins_row (e, v) acc) as [acc'|er]; simpl; [apply IH; reflexivity|reflexivity]).
Qed.

(** When every text converts, loading the text files is loading the converted rows. *)
Theorem load_text_as_epochs : forall pop tz z rain et wl rain' et' wl',
  stamp_all z rain = Some rain' -> stamp_all z et = Some et' -> stamp_all z wl = Some wl' ->
  load_text_model pop tz z rain et wl = load_model pop tz rain' et' wl'.
Proof.
  intros pop tz z rain et wl rain' et' wl' Hr He Hw. unfold load_text_model, load_model, stage_text, stage.
  rewrite (stage_text_from_stamp_all _ _ _ [] Hr), (stage_text_from_stamp_all _ _ _ [] He),
    (stage_text_from_stamp_all _ _ _ [] Hw). reflexivity.
Qed.

(** The converted rows are, row by row, the file's rows with the text replaced
    by its epoch (values untouched, order kept). *)
Theorem stamp_all_rows : forall z rows rows', stamp_all z rows = Some rows' ->
  List.length rows' = List.length rows /\
  forall i s v, nth_error rows i = Some (s, v) ->
    exists e, nth_error rows' i = Some (e, v) /\ stamp_epoch (stamp z s) = Some e.
Proof.
  intros z rows. induction rows as [|[s v] rest IH]; intros rows' H; simpl in H.
  - inversion H; subst. split; [reflexivity|]. intros [|i] s v E; discriminate.
  - destruct (stamp_epoch (stamp z s)) as [e|] eqn:Es; [|discriminate].
    destruct (stamp_all z rest) as [l|] eqn:El; [|discriminate]. inversion H; subst rows'. clear H.
    destruct (IH l eq_refl) as [Hlen Hrows]. split; [simpl; congruence|].
    intros [|i] s' v' E; simpl in E.
    + inversion E; subst. exists e. simpl. tauto.
    + apply Hrows. exact E.
Qed.

(** ** Refusals, epoch level (consequences of C10's load_err_kind / load_accepts_iff) *)

Theorem refuse_populated : forall tz rain et wl, load_model true tz rain et wl = Err EValue.
Proof. reflexivity. Qed.

Lemma refuse_unacceptable : forall tz rain et wl, nodup3 rain et wl -> ~ acceptable rain et wl ->
  load_model false tz rain et wl = Err EValue.
Proof.
  intros tz rain et wl Hnd Hna. destruct (load_model false tz rain et wl) as [L|e] eqn:E.
  - exfalso. apply Hna. apply (proj1 (load_accepts_iff false tz rain et wl)). exists L. exact E.
  - destruct (load_err_kind _ _ _ _ _ _ E) as [[H _]|[(_ & H & _)|(_ & _ & _ & ->)]];
      [discriminate|contradiction|reflexivity].
Qed.

(** Rainfall steps within the water-level span not all equal (or fewer than two
    rainfall instants there): ValueError. *)
Theorem refuse_nonuniform : forall tz rain et wl G, nodup3 rain et wl ->
  span_grid rain wl G -> (forall d, ~ uniform G d) ->
  load_model false tz rain et wl = Err EValue.
Proof.
  intros tz rain et wl G Hnd HG Hnu. apply refuse_unacceptable; [exact Hnd|].
  intros (G' & d & HG' & Hu & _). rewrite (span_grid_unique _ _ _ _ HG' HG) in Hu. apply (Hnu d Hu).
Qed.

(** A grid instant — the start of a step or the closing instant — without an
    evapotranspiration row: ValueError. *)
Theorem refuse_et_missing : forall tz rain et wl G d g, nodup3 rain et wl ->
  span_grid rain wl G -> uniform G d -> In g (G ++ [last_Z G + d]) -> ~ In g (keys et) ->
  load_model false tz rain et wl = Err EValue.
Proof.
  intros tz rain et wl G d g Hnd HG Hu Hg Hno. apply refuse_unacceptable; [exact Hnd|].
  intros (G' & d' & HG' & Hu' & Hall). rewrite (span_grid_unique _ _ _ _ HG' HG) in Hu', Hall.
  rewrite (uniform_unique _ _ _ Hu' Hu) in Hall. apply Hno. apply Hall. exact Hg.
Qed.

(** The same instant twice in one file: IntegrityError (PRIMARY KEY of the staging table). *)
Theorem refuse_duplicate : forall tz rain et wl, ~ nodup3 rain et wl ->
  load_model false tz rain et wl = Err EIntegrity.
Proof.
  intros tz rain et wl Hno. destruct (load_model false tz rain et wl) as [L|e] eqn:E.
  - exfalso. apply Hno. apply (proj1 (load_accepts_iff false tz rain et wl)). exists L. exact E.
  - destruct (load_err_kind _ _ _ _ _ _ E) as [[H _]|[(_ & _ & ->)|(_ & H & _)]];
      [discriminate|reflexivity|contradiction].
Qed.

(** ** Refusals, text level *)

Theorem text_refuse_populated : forall tz z rain et wl, load_text_model true tz z rain et wl = Err EValue.
Proof. reflexivity. Qed.

Theorem text_refuse_nonuniform : forall tz z rain et wl rain' et' wl' G,
  stamp_all z rain = Some rain' -> stamp_all z et = Some et' -> stamp_all z wl = Some wl' ->
  nodup3 rain' et' wl' -> span_grid rain' wl' G -> (forall d, ~ uniform G d) ->
  load_text_model false tz z rain et wl = Err EValue.
Proof.
  intros tz z rain et wl rain' et' wl' G Hr He Hw Hnd HG Hnu.
  rewrite (load_text_as_epochs _ _ _ _ _ _ _ _ _ Hr He Hw). apply (refuse_nonuniform _ _ _ _ G); assumption.
Qed.

Theorem text_refuse_et_missing : forall tz z rain et wl rain' et' wl' G d g,
  stamp_all z rain = Some rain' -> stamp_all z et = Some et' -> stamp_all z wl = Some wl' ->
  nodup3 rain' et' wl' -> span_grid rain' wl' G -> uniform G d ->
  In g (G ++ [last_Z G + d]) -> ~ In g (keys et') ->
  load_text_model false tz z rain et wl = Err EValue.
Proof.
  intros tz z rain et wl rain' et' wl' G d g Hr He Hw Hnd HG Hu Hg Hno.
  rewrite (load_text_as_epochs _ _ _ _ _ _ _ _ _ Hr He Hw). apply (refuse_et_missing _ _ _ _ G d g); assumption.
Qed.

(** Accepted exactly when: fresh data file, no instant twice in a file, uniform
    rainfall steps within the water-level span, ET at every grid instant. *)
Theorem text_accepts_iff : forall pop tz z rain et wl rain' et' wl',
  stamp_all z rain = Some rain' -> stamp_all z et = Some et' -> stamp_all z wl = Some wl' ->
  ((exists L, load_text_model pop tz z rain et wl = Ok L) <->
   pop = false /\ nodup3 rain' et' wl' /\ acceptable rain' et' wl').
Proof.
  intros pop tz z rain et wl rain' et' wl' Hr He Hw.
  rewrite (load_text_as_epochs _ _ _ _ _ _ _ _ _ Hr He Hw). apply load_accepts_iff.
Qed.

(** A row whose first field is not a timestamp: the file is refused — with a
    ValueError when the rows before it convert and hold distinct instants. *)
Lemma stage_text_from_bad : forall z rows acc s v, In (s, v) rows -> parse_datetime s = None ->
  exists e, stage_text_from z acc rows = Err e.
Proof.
  intros z rows. induction rows as [|[s0 v0] rest IH]; intros acc s v Hin Hp; [destruct Hin|].
  simpl. destruct Hin as [E|Hin].
  - inversion E; subst. rewrite (proj2 (stamp_refuse_iff z s) Hp). exists EValue. reflexivity.
  - destruct (stamp z s0) as [e|e| |];
      try (destruct (ins_row (e, v0) acc) as [acc'|er]; simpl; [apply (IH acc' s v Hin Hp)|exists er; reflexivity]).
    + exists EValue. reflexivity.
    + exists EOther. reflexivity.
Qed.

Lemma stage_text_from_bad_first : forall z pre pre' t acc s v post,
  stamp_all z pre = Some pre' -> stage_from acc pre' = Ok t -> parse_datetime s = None ->
  stage_text_from z acc (pre ++ (s, v) :: post) = Err EValue.
Proof.
  intros z pre. induction pre as [|[s0 v0] rest IH]; intros pre' t acc s v post Hs Ht Hp; simpl in Hs.
  - simpl. rewrite (proj2 (stamp_refuse_iff z s) Hp). reflexivity.
  - destruct (stamp_epoch (stamp z s0)) as [e|] eqn:Es; [|discriminate].
    destruct (stamp_all z rest) as [l|] eqn:El; [|discriminate]. inversion Hs; subst pre'. clear Hs.
    simpl in Ht. simpl.
    destruct (stamp z s0) as [e0|e0| |]; simpl in Es; try discriminate; inversion Es; subst e0;
      (destruct (ins_row (e, v0) acc) as [acc'|er]; simpl in *; [apply (IH l t acc'); [reflexivity|assumption|assumption]|discriminate]).
Qed.

Definition has_bad_text (rows : list text_row) : Prop :=
  exists s v, In (s, v) rows /\ parse_datetime s = None.

Theorem text_refuse_bad_text : forall pop tz z rain et wl,
  has_bad_text rain \/ has_bad_text et \/ has_bad_text wl ->
  exists e, load_text_model pop tz z rain et wl = Err e.
Proof.
  intros pop tz z rain et wl H. unfold load_text_model. destruct pop; [exists EValue; reflexivity|].
  unfold stage_text.
  destruct (stage_text_from z [] rain) as [rt|e1] eqn:E1; simpl.
  2:{ exists e1. reflexivity. }
  destruct (stage_text_from z [] et) as [ett|e2] eqn:E2; simpl.
  2:{ exists e2. reflexivity. }
  destruct (stage_text_from z [] wl) as [wt|e3] eqn:E3; simpl.
  2:{ exists e3. reflexivity. }
  exfalso. destruct H as [(s & v & Hin & Hp)|[(s & v & Hin & Hp)|(s & v & Hin & Hp)]];
    destruct (stage_text_from_bad z _ [] s v Hin Hp) as [e E]; congruence.
Qed.
