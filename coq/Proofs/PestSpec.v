(** C19 — proofs about the PEST file generators and readers (Model/Pest.v). *)
From Coq Require Import String Ascii DecimalString Decimal DecimalNat Lia Sorted Permutation ZArith.
From Spowtd Require Import Model.Util Model.Pest.
Open Scope string_scope.
Open Scope list_scope.

(** * Strings *)
Lemma app_assoc_s : forall a b c : string, (a +++ b) +++ c = a +++ (b +++ c).
Proof. induction a as [|x a IH]; intros; simpl; [reflexivity | rewrite IH; reflexivity]. Qed.

Lemma app_nil_r_s : forall a : string, a +++ "" = a.
Proof. induction a as [|x a IH]; simpl; [reflexivity | rewrite IH; reflexivity]. Qed.

Lemma length_app_s : forall a b : string, String.length (a +++ b) = String.length a + String.length b.
Proof. induction a as [|x a IH]; intros; simpl; [reflexivity | rewrite IH; reflexivity]. Qed.

Fixpoint all_chars (P : ascii -> bool) (s : string) : bool :=
  match s with "" => true | String c t => P c && all_chars P t end.

Lemma all_chars_app : forall P a b, all_chars P (a +++ b) = all_chars P a && all_chars P b.
Proof.
  induction a as [|x a IH]; intros; simpl; [reflexivity|]. rewrite IH. apply andb_assoc.
Qed.

Lemma all_chars_weaken : forall (P Q : ascii -> bool) s,
  (forall c, P c = true -> Q c = true) -> all_chars P s = true -> all_chars Q s = true.
Proof.
  induction s as [|x s IH]; intros H Hs; simpl in *; [reflexivity|].
  apply andb_true_iff in Hs. destruct Hs as [H1 H2]. rewrite (H x H1). simpl. apply IH; assumption.
Qed.

Definition is_digit (c : ascii) : bool :=
  let n := nat_of_ascii c in ((48 <=? n)%nat && (n <=? 57)%nat)%bool.

Definition not_char (c d : ascii) : bool := negb (Ascii.eqb c d).

Lemma digits_of_uint : forall d, all_chars is_digit (NilEmpty.string_of_uint d) = true.
Proof. induction d; simpl; try rewrite IHd; reflexivity. Qed.

Lemma nat_str_digits : forall n, all_chars is_digit (nat_str n) = true.
Proof. intro n. apply digits_of_uint. Qed.

Lemma to_uint_nonnil : forall n, Nat.to_uint n <> Nil.
Proof.
  intros n H. assert (n = 0) as ->.
  { rewrite <- (Unsigned.of_to n), H. reflexivity. }
  vm_compute in H. discriminate H.
Qed.

Lemma nat_str_nonempty : forall n, nat_str n <> "".
Proof.
  intros n H. unfold nat_str in H. pose proof (to_uint_nonnil n) as Hn.
  destruct (Nat.to_uint n); simpl in H; try discriminate H. apply Hn. reflexivity.
Qed.

Lemma parse_nat_str : forall n, parse_nat (nat_str n) = Some n.
Proof.
  intro n. unfold parse_nat. pose proof (nat_str_nonempty n) as Hne.
  destruct (nat_str n) eqn:E; [congruence|]. rewrite <- E. unfold nat_str.
  rewrite NilEmpty.usu. simpl. rewrite Unsigned.of_to. reflexivity.
Qed.

Lemma digit_not : forall c d, is_digit d = true -> is_digit c = false -> not_char c d = true.
Proof.
  intros c d Hd Hc. unfold not_char. destruct (Ascii.eqb c d) eqn:E; [|reflexivity].
  apply Ascii.eqb_eq in E. subst. congruence.
Qed.

Lemma nat_str_no : forall c n, is_digit c = false -> all_chars (not_char c) (nat_str n) = true.
Proof.
  intros c n Hc. apply (all_chars_weaken is_digit); [|apply nat_str_digits].
  intros d Hd. apply digit_not; assumption.
Qed.

(** [split_char] finds the first occurrence. *)
Lemma split_char_app : forall c a b,
  all_chars (not_char c) a = true -> split_char c (a +++ String c b) = Some (a, b).
Proof.
  induction a as [|x a IH]; intros b H; simpl in *.
  - rewrite Ascii.eqb_refl. reflexivity.
  - apply andb_true_iff in H. destruct H as [H1 H2]. unfold not_char in H1.
    destruct (Ascii.eqb c x); simpl in H1; [discriminate|]. rewrite IH by exact H2. reflexivity.
Qed.

Lemma substring_all : forall m s, String.length s <= m -> substring 0 m s = s.
Proof.
  induction m as [|m IH]; intros s H.
  - destruct s; simpl in *; [reflexivity | lia].
  - destruct s as [|c s]; simpl in *; [reflexivity|]. rewrite IH by lia. reflexivity.
Qed.

(** * Extraction through the instruction file *)
Definition obs_name (i : nat) : string := "e" +++ nat_str i.

Lemma marker_ins_line : forall i, marker_text (ins_line i) = None.
Proof. intro i. reflexivity. Qed.

Lemma parse_ins_line : forall i, parse_instruction (ins_line i) = Some (1, obs_name i, 3, 24).
Proof.
  intro i. unfold ins_line, parse_instruction. simpl.
  change (String "e" (nat_str i +++ "]3:24")) with (("e" +++ nat_str i) +++ String "]" "3:24").
  rewrite split_char_app.
  - reflexivity.
  - simpl. apply nat_str_no. reflexivity.
Qed.

Definition fits (t : string) : Prop := String.length t <= 22 /\ trim t = t.

Lemma cols_3_24 : forall t, fits t -> trim (substring (3 - 1) (24 - 3 + 1) ("- " +++ t)) = t.
Proof.
  intros t [Hlen Htrim]. change (substring (3 - 1) (24 - 3 + 1) ("- " +++ t)) with (substring 0 22 t).
  rewrite substring_all by exact Hlen. exact Htrim.
Qed.

Lemma ins_step : forall i rest cur out,
  ins_run (ins_line i :: rest) (cur :: out)
  = bind (ins_run rest out)
         (fun l => Ok ((obs_name i, trim (substring (3 - 1) (24 - 3 + 1) cur)) :: l)).
Proof.
  intros. cbn [ins_run]. rewrite marker_ins_line, parse_ins_line. reflexivity.
Qed.

Lemma ins_run_values : forall toks k,
  Forall fits toks ->
  ins_run (map ins_line (seq k (List.length toks))) (map (fun t => "- " +++ t) toks)
  = Ok (combine (map obs_name (seq k (List.length toks))) toks).
Proof.
  induction toks as [|t toks IH]; intros k H.
  - reflexivity.
  - inversion H as [|? ? Hfit Hrest]; subst.
    cbn [List.length seq map]. rewrite ins_step, (IH (S k) Hrest). cbn [bind combine].
    rewrite (cols_3_24 t Hfit). reflexivity.
Qed.

(** Instructions consume exactly their lines: the rest of the output is left for
    the following instructions. *)
Lemma ins_run_values_then : forall toks k rest_ins rest_out,
  Forall fits toks ->
  ins_run (map ins_line (seq k (List.length toks)) ++ rest_ins)
          (map (fun t => "- " +++ t) toks ++ rest_out)
  = bind (ins_run rest_ins rest_out)
         (fun l => Ok (combine (map obs_name (seq k (List.length toks))) toks ++ l)).
Proof.
  induction toks as [|t toks IH]; intros k ri ro H.
  - simpl. destruct (ins_run ri ro); reflexivity.
  - inversion H as [|? ? Hfit Hrest]; subst.
    cbn [List.length seq map app]. rewrite ins_step, (IH (S k) ri ro Hrest).
    destruct (ins_run ri ro) as [l|e]; cbn [bind combine app]; [|reflexivity].
    rewrite (cols_3_24 t Hfit). reflexivity.
Qed.

(** Rise: every printed value of at most 22 characters is extracted verbatim,
    the k-th instruction giving the k-th printed value under the name e_k. *)
Lemma rise_extract_lossless : forall toks,
  Forall fits toks ->
  ins_read (rise_ins (List.length toks)) (sim_output rise_header toks)
  = Ok (combine (map obs_name (seq 1 (List.length toks))) toks).
Proof.
  intros toks H. unfold rise_ins, sim_output, ins_read.
  cbn [app]. cbn [ins_run].
  replace (marker_text "@# Rise curve simulation vector@") with (Some "# Rise curve simulation vector")
    by reflexivity.
  replace (seek "# Rise curve simulation vector" (rise_header :: map (fun t => "- " +++ t) toks))
    with (Some (map (fun t => "- " +++ t) toks)) by reflexivity.
  apply ins_run_values. exact H.
Qed.

(** Curves: the output is the rise vector followed by the recession vector. *)
Lemma curves_extract_lossless : forall rt ct,
  Forall fits rt -> Forall fits ct ->
  ins_read (curves_ins (List.length rt) (List.length ct))
           (sim_output rise_header rt ++ sim_output recession_header ct)
  = Ok (combine (map obs_name (seq 1 (List.length rt + List.length ct))) (rt ++ ct)).
Proof.
  intros rt ct Hr Hc. unfold curves_ins, sim_output, ins_read.
  cbn [app]. cbn [ins_run].
  replace (marker_text "@# Rise curve simulation vector@") with (Some "# Rise curve simulation vector")
    by reflexivity.
  replace (seek "# Rise curve simulation vector"
             (rise_header :: map (fun t => "- " +++ t) rt ++ recession_header :: map (fun t => "- " +++ t) ct))
    with (Some (map (fun t => "- " +++ t) rt ++ recession_header :: map (fun t => "- " +++ t) ct))
    by reflexivity.
  rewrite ins_run_values_then by exact Hr.
  cbn [ins_run].
  replace (marker_text "@# Recession curve simulation vector@")
    with (Some "# Recession curve simulation vector") by reflexivity.
  replace (seek "# Recession curve simulation vector" (recession_header :: map (fun t => "- " +++ t) ct))
    with (Some (map (fun t => "- " +++ t) ct)) by reflexivity.
  rewrite ins_run_values by exact Hc. cbn [bind].
  f_equal. rewrite seq_app, map_app.
  rewrite Nat.add_comm with (n := List.length rt) (m := 1).
  replace (1 + List.length rt) with (List.length rt + 1) by lia.
  assert (Hl : List.length (map obs_name (seq 1 (List.length rt))) = List.length rt)
    by (rewrite map_length, seq_length; reflexivity).
  clear Hr Hc. revert Hl. generalize (map obs_name (seq 1 (List.length rt))) as names.
  generalize (map obs_name (seq (List.length rt + 1) (List.length ct))) as names2.
  induction rt as [|t rt IH]; intros names2 names Hl.
  - destruct names; simpl in *; [reflexivity | discriminate].
  - destruct names as [|n names]; simpl in *; [discriminate|]. f_equal. apply IH. lia.
Qed.

(** * Order of observations: descending = reverse of ascending on distinct levels *)
Section Order.
  Variable A : Type.
  Notation row := (Z * A)%type.

  Lemma insert_by_perm : forall (key : row -> Z) x l, Permutation (insert_by key x l) (x :: l).
  Proof.
    intros key x l. induction l as [|y t IH]; simpl.
    - apply Permutation_refl.
    - destruct (key x <=? key y)%Z.
      + apply Permutation_refl.
      + eapply Permutation_trans; [apply perm_skip; exact IH | apply perm_swap].
  Qed.

  Lemma sort_by_perm : forall (key : row -> Z) l, Permutation (sort_by key l) l.
  Proof.
    intros key l. induction l as [|x t IH]; simpl.
    - apply Permutation_refl.
    - eapply Permutation_trans; [apply insert_by_perm | apply perm_skip; exact IH].
  Qed.

  Lemma insert_by_sorted : forall (key : row -> Z) x l,
    StronglySorted (fun a b => (key a <= key b)%Z) l ->
    StronglySorted (fun a b => (key a <= key b)%Z) (insert_by key x l).
  Proof.
    intros key x l. induction l as [|y t IH]; intros H; simpl.
    - constructor; constructor.
    - apply StronglySorted_inv in H. destruct H as [Ht Hy].
      destruct (key x <=? key y)%Z eqn:E.
      + apply Z.leb_le in E. constructor.
        * constructor; assumption.
        * constructor; [exact E|]. eapply Forall_impl; [|exact Hy]. intros a Ha. simpl in Ha. lia.
      + apply Z.leb_gt in E. constructor.
        * apply IH; exact Ht.
        * apply (Permutation_Forall (Permutation_sym (insert_by_perm key x t))).
          constructor; [lia | exact Hy].
  Qed.

  Lemma sort_by_sorted : forall (key : row -> Z) l,
    StronglySorted (fun a b => (key a <= key b)%Z) (sort_by key l).
  Proof.
    intros key l. induction l as [|x t IH]; simpl.
    - constructor.
    - apply insert_by_sorted; exact IH.
  Qed.

  Lemma sorted_strict : forall (key : row -> Z) l,
    StronglySorted (fun a b => (key a <= key b)%Z) l -> NoDup (map key l) ->
    StronglySorted (fun a b => (key a < key b)%Z) l.
  Proof.
    intros key l H. induction H as [|a l Hl IH Ha]; intros Hn.
    - constructor.
    - simpl in Hn. inversion Hn as [|? ? Hnotin Hn']; subst. constructor.
      + apply IH; exact Hn'.
      + rewrite Forall_forall in *. intros b Hb. specialize (Ha b Hb).
        assert (key a <> key b).
        { intro E. apply Hnotin. rewrite E. apply in_map. exact Hb. }
        lia.
  Qed.

  Lemma sorted_snoc : forall (R : row -> row -> Prop) l a,
    StronglySorted R l -> Forall (fun y => R y a) l -> StronglySorted R (l ++ [a]).
  Proof.
    intros R l a H. induction H as [|b l Hl IH Hb]; intros Ha; simpl.
    - constructor; constructor.
    - inversion Ha as [|? ? Hba Ha']; subst. constructor.
      + apply IH; exact Ha'.
      + apply Forall_app. split; [exact Hb | constructor; [exact Hba | constructor]].
  Qed.

  Lemma sorted_rev : forall (R : row -> row -> Prop) l,
    StronglySorted R l -> StronglySorted (fun a b => R b a) (rev l).
  Proof.
    intros R l H. induction H as [|a l Hl IH Ha]; simpl.
    - constructor.
    - apply sorted_snoc; [exact IH|]. apply Forall_rev. exact Ha.
  Qed.

  Lemma sorted_weaken : forall (R S : row -> row -> Prop) l,
    (forall a b, R a b -> S a b) -> StronglySorted R l -> StronglySorted S l.
  Proof.
    intros R S l HRS H. induction H as [|a l Hl IH Ha]; constructor; auto.
    eapply Forall_impl; [|exact Ha]. intros b. apply HRS.
  Qed.

  Lemma sorted_unique : forall (R : row -> row -> Prop),
    (forall a b, R a b -> R b a -> False) ->
    forall l1 l2, StronglySorted R l1 -> StronglySorted R l2 -> Permutation l1 l2 -> l1 = l2.
  Proof.
    intros R Hasym. induction l1 as [|a t1 IH]; intros l2 S1 S2 P.
    - apply Permutation_nil in P. subst. reflexivity.
    - destruct l2 as [|b t2].
      + apply Permutation_sym, Permutation_nil in P. discriminate P.
      + apply StronglySorted_inv in S1. destruct S1 as [S1 F1].
        apply StronglySorted_inv in S2. destruct S2 as [S2 F2].
        rewrite Forall_forall in F1, F2.
        assert (a = b) as ->.
        { assert (Ha : In a (b :: t2)) by (eapply Permutation_in; [exact P | left; reflexivity]).
          assert (Hb : In b (a :: t1))
            by (eapply Permutation_in; [apply Permutation_sym; exact P | left; reflexivity]).
          destruct Ha as [Ha | Ha]; [congruence|].
          destruct Hb as [Hb | Hb]; [congruence|].
          exfalso. apply (Hasym a b); [apply F1; exact Hb | apply F2; exact Ha]. }
        f_equal. apply IH; try assumption. eapply Permutation_cons_inv; exact P.
  Qed.

  (** pestfiles sorts recession observations by level descending; simulate sorts
      ascending and reverses: the same order whenever levels are distinct. *)
  Lemma desc_is_rev_asc : forall rows : list row,
    NoDup (map fst rows) -> sort_desc rows = rev (sort_asc rows).
  Proof.
    intros rows Hn. unfold sort_desc, sort_asc.
    apply (sorted_unique (fun a b => (fst b < fst a)%Z)).
    - intros a b H1 H2. lia.
    - apply (sorted_weaken (fun a b => (- fst a < - fst b)%Z)); [intros a b H; lia|].
      apply sorted_strict; [apply sort_by_sorted|].
      apply (Permutation_NoDup (l := map (fun r : row => (- fst r)%Z) rows)).
      + apply Permutation_map, Permutation_sym, sort_by_perm.
      + rewrite <- (map_map fst Z.opp). apply FinFun.Injective_map_NoDup; [|exact Hn].
        intros x y H. lia.
    - apply (sorted_rev (fun a b => (fst a < fst b)%Z)).
      apply sorted_strict; [apply sort_by_sorted|].
      apply (Permutation_NoDup (l := map fst rows)); [|exact Hn].
      apply Permutation_map, Permutation_sym, sort_by_perm.
    - eapply Permutation_trans; [apply sort_by_perm|].
      eapply Permutation_trans; [|apply Permutation_rev].
      apply Permutation_sym, sort_by_perm.
  Qed.

  (** Rise: pestfiles and simulate use the same order. *)
  Lemma rise_orders_agree : forall rows : list row, pst_rise_order rows = sim_rise_order rows.
  Proof. reflexivity. Qed.

  Lemma recession_orders_agree : forall rows : list row,
    NoDup (map fst rows) -> pst_recession_order rows = sim_recession_order rows.
  Proof. exact desc_is_rev_asc. Qed.
End Order.

(** * Words, the count line *)
Definition nospace (c : ascii) : bool := negb (is_space c).

Lemma words_aux_word : forall w acc s,
  all_chars nospace w = true -> words_aux acc (w +++ s) = words_aux (acc +++ w) s.
Proof.
  induction w as [|c w IH]; intros acc s H; simpl in *.
  - rewrite app_nil_r_s. reflexivity.
  - apply andb_true_iff in H. destruct H as [Hc Hw]. unfold nospace in Hc.
    destruct (is_space c); simpl in Hc; [discriminate|].
    rewrite IH by exact Hw. rewrite app_assoc_s. reflexivity.
Qed.

Lemma words_aux_spaces : forall k s, words_aux "" (spaces k +++ s) = words_aux "" s.
Proof. induction k as [|k IH]; intros s; simpl; [reflexivity | apply IH]. Qed.

Lemma words_aux_flush : forall acc s, acc <> "" ->
  words_aux acc (String space s) = acc :: words_aux "" s.
Proof. intros acc s H. destruct acc; [congruence | reflexivity]. Qed.

Lemma words_field : forall k w r, w <> "" -> all_chars nospace w = true ->
  words_aux "" (spaces k +++ w +++ String space r) = w :: words_aux "" r.
Proof.
  intros k w r Hne Hw. rewrite words_aux_spaces, words_aux_word by exact Hw.
  simpl. apply words_aux_flush. exact Hne.
Qed.

Lemma words_last : forall k w, w <> "" -> all_chars nospace w = true ->
  words_aux "" (spaces k +++ w) = [w].
Proof.
  intros k w Hne Hw. rewrite words_aux_spaces. rewrite <- (app_nil_r_s w) at 1.
  rewrite words_aux_word by exact Hw. simpl. destruct w; [congruence | reflexivity].
Qed.

Lemma nat_str_nospace : forall n, all_chars nospace (nat_str n) = true.
Proof.
  intro n. apply (all_chars_weaken is_digit); [|apply nat_str_digits].
  intros c Hc. unfold nospace, is_space. destruct (Ascii.eqb c space) eqn:E; [|reflexivity].
  apply Ascii.eqb_eq in E. subst. discriminate Hc.
Qed.

Lemma rjust_short : forall w s, String.length s < w ->
  exists k, rjust w s = String space (spaces k +++ s).
Proof.
  intros w s H. unfold rjust. destruct (w - String.length s) as [|k] eqn:E; [lia|].
  exists k. reflexivity.
Qed.

(** Free-format reading of the count line gives back the four numbers (and the
    literal 0 of NPRIOR), provided the numbers after the first leave a blank in
    their 6-character fields. *)
Lemma words_lit0 : forall r,
  words_aux "" (String " " (String " " (String " " (String " " (String "0" (String space r))))))
  = "0" :: words_aux "" r.
Proof. reflexivity. Qed.

Lemma words_count_line : forall a b c d,
  String.length (nat_str b) <= 5 -> String.length (nat_str c) <= 5 ->
  String.length (nat_str d) <= 5 ->
  words (count_line a b c d) = [nat_str a; nat_str b; nat_str c; "0"; nat_str d].
Proof.
  intros a b c d Hb Hc Hd. unfold words, count_line.
  destruct (rjust_short 6 (nat_str b)) as [kb Eb]; [lia|].
  destruct (rjust_short 6 (nat_str c)) as [kc Ec]; [lia|].
  destruct (rjust_short 6 (nat_str d)) as [kd Ed]; [lia|].
  rewrite Eb, Ec, Ed. unfold rjust at 1.
  rewrite !app_assoc_s. cbn [append].
  rewrite words_field by (try apply nat_str_nonempty; apply nat_str_nospace).
  rewrite app_assoc_s.
  rewrite words_field by (try apply nat_str_nonempty; apply nat_str_nospace).
  rewrite app_assoc_s.
  rewrite words_field by (try apply nat_str_nonempty; apply nat_str_nospace).
  rewrite words_lit0.
  rewrite words_last by (try apply nat_str_nonempty; apply nat_str_nospace).
  reflexivity.
Qed.

Lemma pst_counts_count_line : forall l0 l1 l2 rest a b c d,
  String.length (nat_str b) <= 5 -> String.length (nat_str c) <= 5 ->
  String.length (nat_str d) <= 5 ->
  pst_counts (l0 :: l1 :: l2 :: count_line a b c d :: rest) = Some [a; b; c; 0; d].
Proof.
  intros. unfold pst_counts. cbn [nth_error]. rewrite words_count_line by assumption.
  cbn [fold_right]. rewrite !parse_nat_str. reflexivity.
Qed.

(** * Sections of the control file *)
Definition no_star (l : string) : Prop := starts_with_char "*"%char l = false.

Lemma no_star_neq : forall l title, no_star l -> starts_with_char "*"%char title = true ->
  String.eqb l title = false.
Proof.
  intros l title Hl Ht. destruct (String.eqb l title) eqn:E; [|reflexivity].
  apply String.eqb_eq in E. subst. unfold no_star in Hl. congruence.
Qed.

Lemma pst_section_skip : forall title pre rest,
  Forall (fun l => String.eqb l title = false) pre ->
  pst_section title (pre ++ rest) = pst_section title rest.
Proof.
  intros title pre rest H. induction H as [|l pre Hl _ IH]; simpl; [reflexivity|].
  rewrite Hl. exact IH.
Qed.

Lemma pst_section_hit : forall title rest, pst_section title (title :: rest) = take_section rest.
Proof. intros. simpl. rewrite String.eqb_refl. reflexivity. Qed.

Lemma take_section_body : forall body nxt post,
  Forall no_star body -> starts_with_char "*"%char nxt = true ->
  take_section (body ++ nxt :: post) = body.
Proof.
  intros body nxt post H Hn. induction H as [|l body Hl _ IH]; simpl.
  - rewrite Hn. reflexivity.
  - unfold no_star in Hl. rewrite Hl, IH. reflexivity.
Qed.

Lemma obs_lines_length : forall grp toks k, List.length (obs_lines grp k toks) = List.length toks.
Proof. induction toks as [|t r IH]; intros k; simpl; [reflexivity | rewrite IH; reflexivity]. Qed.

Lemma obs_lines_no_star : forall grp toks k, Forall no_star (obs_lines grp k toks).
Proof.
  induction toks as [|t r IH]; intros k; simpl; constructor; [reflexivity | apply IH].
Qed.

Lemma map_no_star : forall (f : nat -> string) l, (forall i, no_star (f i)) -> Forall no_star (map f l).
Proof. intros f l H. induction l; simpl; constructor; auto. Qed.

Lemma no_star_rjust_nat : forall w n r, no_star (rjust w (nat_str n) +++ r).
Proof.
  intros w n r. unfold rjust, no_star. destruct (w - String.length (nat_str n)).
  - pose proof (nat_str_digits n) as Hd. pose proof (nat_str_nonempty n) as Hne.
    destruct (nat_str n) as [|c t]; [congruence|].
    change (Ascii.eqb "*" c = false).
    cbn [all_chars] in Hd. apply andb_true_iff in Hd. destruct Hd as [Hc _].
    destruct (Ascii.eqb "*" c) eqn:E; [|reflexivity]. apply Ascii.eqb_eq in E. subst. discriminate Hc.
  - reflexivity.
Qed.

Lemma count_line_no_star : forall a b c d, no_star (count_line a b c d).
Proof. intros. unfold count_line. apply no_star_rjust_nat. Qed.

(** A control file as spowtd lays it out. *)
Definition pst_file (hdr G P OG O tail : list string) : list string :=
  hdr ++ ["* parameter groups"] ++ G ++ ["* parameter data"] ++ P
  ++ ["* observation groups"] ++ OG ++ ["* observation data"] ++ O
  ++ ["* model command line"] ++ tail.

Definition hdr_line (l : string) : Prop := no_star l \/ l = "* control data".

Lemma hdr_neq : forall title hdr, starts_with_char "*"%char title = true ->
  title <> "* control data" -> Forall hdr_line hdr ->
  Forall (fun l => String.eqb l title = false) hdr.
Proof.
  intros title hdr Ht Hn H. eapply Forall_impl; [|exact H]. intros l [Hl | ->].
  - apply no_star_neq; assumption.
  - destruct (String.eqb "* control data" title) eqn:E; [|reflexivity].
    apply String.eqb_eq in E. congruence.
Qed.

Lemma body_neq : forall title body, starts_with_char "*"%char title = true -> Forall no_star body ->
  Forall (fun l => String.eqb l title = false) body.
Proof.
  intros title body Ht H. eapply Forall_impl; [|exact H]. intros l Hl. apply no_star_neq; assumption.
Qed.

Lemma pst_file_sections : forall hdr G P OG O tail,
  Forall hdr_line hdr -> Forall no_star G -> Forall no_star P -> Forall no_star OG -> Forall no_star O ->
  let f := pst_file hdr G P OG O tail in
  pst_section "* parameter groups" f = G /\ pst_section "* parameter data" f = P /\
  pst_section "* observation groups" f = OG /\ pst_section "* observation data" f = O.
Proof.
  intros hdr G P OG O tail Hh HG HP HOG HO f. subst f. unfold pst_file. cbn [app].
  repeat split.
  - rewrite pst_section_skip by (apply hdr_neq; [reflexivity | discriminate | exact Hh]).
    rewrite pst_section_hit. apply take_section_body; [exact HG | reflexivity].
  - rewrite pst_section_skip by (apply hdr_neq; [reflexivity | discriminate | exact Hh]).
    cbn [pst_section String.eqb Ascii.eqb Bool.eqb].
    rewrite pst_section_skip by (apply body_neq; [reflexivity | exact HG]).
    rewrite pst_section_hit. apply take_section_body; [exact HP | reflexivity].
  - rewrite pst_section_skip by (apply hdr_neq; [reflexivity | discriminate | exact Hh]).
    cbn [pst_section String.eqb Ascii.eqb Bool.eqb].
    rewrite pst_section_skip by (apply body_neq; [reflexivity | exact HG]).
    cbn [pst_section String.eqb Ascii.eqb Bool.eqb].
    rewrite pst_section_skip by (apply body_neq; [reflexivity | exact HP]).
    rewrite pst_section_hit. apply take_section_body; [exact HOG | reflexivity].
  - rewrite pst_section_skip by (apply hdr_neq; [reflexivity | discriminate | exact Hh]).
    cbn [pst_section String.eqb Ascii.eqb Bool.eqb].
    rewrite pst_section_skip by (apply body_neq; [reflexivity | exact HG]).
    cbn [pst_section String.eqb Ascii.eqb Bool.eqb].
    rewrite pst_section_skip by (apply body_neq; [reflexivity | exact HP]).
    cbn [pst_section String.eqb Ascii.eqb Bool.eqb].
    rewrite pst_section_skip by (apply body_neq; [reflexivity | exact HOG]).
    rewrite pst_section_hit. apply take_section_body; [exact HO | reflexivity].
Qed.

(** * Counts of the generated control files *)
Ltac hdr_lines :=
  repeat (apply Forall_cons;
          [first [left; reflexivity | right; reflexivity | left; apply count_line_no_star]|]);
  apply Forall_nil.

Ltac plain_lines := repeat (apply Forall_cons; [reflexivity|]); apply Forall_nil.

Lemma rise_par_groups_no_star : forall b, Forall no_star (rise_par_groups b).
Proof. intros [|]; unfold rise_par_groups; plain_lines. Qed.

Lemma rise_par_data_no_star : forall b n, Forall no_star (rise_par_data b n).
Proof.
  intros [|] n; unfold rise_par_data.
  - apply map_no_star. intro i. reflexivity.
  - plain_lines.
Qed.

Lemma curves_par_groups_no_star : forall b, Forall no_star (curves_par_groups b).
Proof. intros [|]; unfold curves_par_groups; plain_lines. Qed.

Lemma curves_par_data_no_star : forall b n m, Forall no_star (curves_par_data b n m).
Proof.
  intros [|] n m; unfold curves_par_data.
  - apply Forall_app. split; [apply map_no_star; intro i; reflexivity|].
    apply Forall_app. split; [apply map_no_star; intro i; reflexivity|]. plain_lines.
  - plain_lines.
Qed.

Definition rise_npar (p : params) : nat := if sy_spline (p_sy p) then sy_n (p_sy p) else 4.
Definition rise_npargp (p : params) : nat := if sy_spline (p_sy p) then 1 else 4.

Lemma rise_pst_as_file : forall p nz obs,
  rise_pst p nz obs =
  pst_file (["pcf"; "* control data"; "restart  estimation";
             count_line (rise_npar p) nz (rise_npargp p) 1] ++ control_tail)
           (rise_par_groups (sy_spline (p_sy p)))
           (rise_par_data (sy_spline (p_sy p)) (rise_npar p))
           ["storageobs"] (obs_lines "storageobs" 1 obs)
           ["bash simulate-rise.sh"; "* model input/output"; "rise_pars.yml.tpl  rise_pars.yml";
            "rise_observations.ins  rise_observations.yml"; "* prior information"].
Proof. intros. reflexivity. Qed.

Lemma small_len : forall n, n <= 9 -> String.length (nat_str n) <= 5.
Proof.
  intros n H. do 10 (destruct n as [|n]; [vm_compute; lia|]). lia.
Qed.

(** The declared counts of a rise control file are the lengths of its sections
    (NOBS: given that the number of distinct levels [nz] is the number of rows of
    the master curve, which the harness checks on every dataset). *)
Lemma rise_counts : forall p nz obs,
  nz = List.length obs -> String.length (nat_str nz) <= 5 ->
  let f := rise_pst p nz obs in
  pst_counts f = Some [List.length (pst_section "* parameter data" f);
                       List.length (pst_section "* observation data" f);
                       List.length (pst_section "* parameter groups" f);
                       0;
                       List.length (pst_section "* observation groups" f)]
  /\ pst_section "* observation data" f = obs_lines "storageobs" 1 obs
  /\ pst_section "* parameter data" f = rise_par_data (sy_spline (p_sy p)) (rise_npar p).
Proof.
  intros p nz obs Hnz Hlen f. subst f. rewrite rise_pst_as_file.
  destruct (pst_file_sections
              (["pcf"; "* control data"; "restart  estimation";
                count_line (rise_npar p) nz (rise_npargp p) 1] ++ control_tail)
              (rise_par_groups (sy_spline (p_sy p)))
              (rise_par_data (sy_spline (p_sy p)) (rise_npar p))
              ["storageobs"] (obs_lines "storageobs" 1 obs)
              ["bash simulate-rise.sh"; "* model input/output"; "rise_pars.yml.tpl  rise_pars.yml";
               "rise_observations.ins  rise_observations.yml"; "* prior information"])
    as [HG [HP [HOG HO]]].
  - unfold control_tail. cbn [app]. hdr_lines.
  - apply rise_par_groups_no_star.
  - apply rise_par_data_no_star.
  - plain_lines.
  - apply obs_lines_no_star.
  - rewrite HG, HP, HOG, HO. repeat split.
    unfold pst_file. cbn [app]. rewrite pst_counts_count_line.
    + rewrite obs_lines_length, <- Hnz. unfold rise_npar, rise_npargp.
      destruct (sy_spline (p_sy p)); unfold rise_par_data, rise_par_groups;
        cbn [List.length]; rewrite ?map_length, ?seq_length; reflexivity.
    + exact Hlen.
    + unfold rise_npargp. destruct (sy_spline (p_sy p)); apply small_len; lia.
    + apply small_len; lia.
Qed.

Definition curves_npar (spline : bool) (n_sy n_t : nat) : nat := if spline then n_sy + n_t + 1 else 6.
Definition curves_npargp (spline : bool) : nat := if spline then 3 else 6.

Definition curves_nt (p : params) : res nat :=
  if sy_spline (p_sy p)
  then match p_tr p with TSpline _ kk _ => Ok (List.length kk) | TPeat _ _ _ => Err EKey end
  else Ok 0.

Lemma curves_pst_as_file : forall p robs cobs f,
  curves_pst p robs cobs = Ok f ->
  exists n_t, curves_nt p = Ok n_t /\
    f = pst_file (["pcf"; "* control data"; "restart  estimation";
                   count_line (curves_npar (sy_spline (p_sy p)) (sy_n (p_sy p)) n_t)
                              (List.length robs + List.length cobs)
                              (curves_npargp (sy_spline (p_sy p))) 2] ++ control_tail)
                 (curves_par_groups (sy_spline (p_sy p)))
                 (curves_par_data (sy_spline (p_sy p)) (sy_n (p_sy p)) n_t)
                 ["storageobs"; "timeobs"]
                 (obs_lines "storageobs" 1 robs ++ obs_lines "timeobs" (List.length robs + 1) cobs)
                 ["bash simulate-curves.sh"; "* model input/output";
                  "curves_pars.yml.tpl  curves_pars.yml";
                  "curves_observations.ins  curves_observations.yml"; "* prior information"].
Proof.
  intros p robs cobs f Hf. unfold curves_pst in Hf. unfold curves_nt.
  destruct (if sy_spline (p_sy p)
            then match p_tr p with TSpline _ kk _ => Ok (List.length kk) | TPeat _ _ _ => Err EKey end
            else Ok 0) as [n_t|e]; [|discriminate Hf].
  exists n_t. split; [reflexivity|].
  injection Hf as <-. unfold pst_file. rewrite <- !app_assoc. reflexivity.
Qed.

Lemma curves_counts : forall p robs cobs f,
  curves_pst p robs cobs = Ok f ->
  String.length (nat_str (List.length robs + List.length cobs)) <= 5 ->
  pst_counts f = Some [List.length (pst_section "* parameter data" f);
                       List.length (pst_section "* observation data" f);
                       List.length (pst_section "* parameter groups" f);
                       0;
                       List.length (pst_section "* observation groups" f)]
  /\ pst_section "* observation data" f
     = obs_lines "storageobs" 1 robs ++ obs_lines "timeobs" (List.length robs + 1) cobs.
Proof.
  intros p robs cobs f Hf Hlen. destruct (curves_pst_as_file p robs cobs f Hf) as [n_t [_ ->]].
  set (spline := sy_spline (p_sy p)). set (n_sy := sy_n (p_sy p)).
  destruct (pst_file_sections
              (["pcf"; "* control data"; "restart  estimation";
                count_line (curves_npar spline n_sy n_t) (List.length robs + List.length cobs)
                           (curves_npargp spline) 2] ++ control_tail)
              (curves_par_groups spline) (curves_par_data spline n_sy n_t)
              ["storageobs"; "timeobs"]
              (obs_lines "storageobs" 1 robs ++ obs_lines "timeobs" (List.length robs + 1) cobs)
              ["bash simulate-curves.sh"; "* model input/output";
               "curves_pars.yml.tpl  curves_pars.yml";
               "curves_observations.ins  curves_observations.yml"; "* prior information"])
    as [HG [HP [HOG HO]]].
  - unfold control_tail. cbn [app]. hdr_lines.
  - apply curves_par_groups_no_star.
  - apply curves_par_data_no_star.
  - plain_lines.
  - apply Forall_app. split; apply obs_lines_no_star.
  - rewrite HG, HP, HOG, HO. split; [|reflexivity].
    unfold pst_file. cbn [app]. rewrite pst_counts_count_line.
    + rewrite app_length, !obs_lines_length. unfold curves_npar, curves_npargp.
      destruct spline; unfold curves_par_data, curves_par_groups;
        cbn [List.length]; rewrite ?app_length, ?map_length, ?seq_length; cbn [List.length];
        f_equal; f_equal; lia.
    + exact Hlen.
    + unfold curves_npargp. destruct spline; apply small_len; lia.
    + apply small_len; lia.
Qed.

(** * Template scanning *)
Definition noat (c : ascii) : bool := not_char "@"%char c.

Lemma scan_out : forall s r, all_chars noat s = true ->
  scan_fields false "" (s +++ r) = scan_fields false "" r.
Proof.
  induction s as [|c s IH]; intros r H; [reflexivity|].
  cbn [all_chars] in H. apply andb_true_iff in H. destruct H as [Hc Hs].
  unfold noat, not_char in Hc. cbn [append scan_fields].
  destruct (Ascii.eqb c "@") eqn:E.
  - rewrite Ascii.eqb_sym in E. rewrite E in Hc. discriminate Hc.
  - apply IH. exact Hs.
Qed.

Lemma scan_in : forall w acc r, all_chars noat w = true ->
  scan_fields true acc (w +++ String "@" r) = trim (acc +++ w) :: scan_fields false "" r.
Proof.
  induction w as [|c w IH]; intros acc r H.
  - cbn [append scan_fields]. rewrite app_nil_r_s. reflexivity.
  - cbn [all_chars] in H. apply andb_true_iff in H. destruct H as [Hc Hw].
    unfold noat, not_char in Hc. cbn [append scan_fields].
    destruct (Ascii.eqb c "@") eqn:E.
    + rewrite Ascii.eqb_sym in E. rewrite E in Hc. discriminate Hc.
    + rewrite IH by exact Hw. rewrite app_assoc_s. reflexivity.
Qed.

Lemma scan_nil : scan_fields false "" "" = [].
Proof. reflexivity. Qed.

(** A line with no delimiter holds no parameter space; a line with exactly one
    pair of delimiters holds one, named by the text in between, blanks removed. *)
Lemma line_fields_none : forall s, all_chars noat s = true -> line_fields s = [].
Proof.
  intros s H. unfold line_fields. rewrite <- (app_nil_r_s s). rewrite scan_out by exact H. reflexivity.
Qed.

Lemma line_fields_one : forall pre w post,
  all_chars noat pre = true -> all_chars noat w = true -> all_chars noat post = true ->
  line_fields (pre +++ String "@" (w +++ String "@" post)) = [trim w].
Proof.
  intros pre w post Hp Hw Hq. unfold line_fields. rewrite scan_out by exact Hp.
  cbn [scan_fields]. change (Ascii.eqb "@" "@") with true. cbn iota.
  rewrite scan_in by exact Hw. cbn [append].
  rewrite <- (app_nil_r_s post). rewrite scan_out by exact Hq. reflexivity.
Qed.

Lemma rtrim_spaces : forall k, rtrim (spaces k) = "".
Proof. induction k as [|k IH]; [reflexivity|]. cbn [spaces rtrim]. rewrite IH. reflexivity. Qed.

Lemma rtrim_word_spaces : forall w k, all_chars nospace w = true -> rtrim (w +++ spaces k) = w.
Proof.
  induction w as [|c w IH]; intros k H.
  - apply rtrim_spaces.
  - cbn [all_chars] in H. apply andb_true_iff in H. destruct H as [Hc Hw].
    unfold nospace in Hc. cbn [append rtrim]. rewrite IH by exact Hw.
    destruct (is_space c); [discriminate Hc | reflexivity].
Qed.

Lemma ltrim_word : forall c w, is_space c = false -> ltrim (String c w) = String c w.
Proof. intros c w H. cbn [ltrim]. rewrite H. reflexivity. Qed.

Lemma trim_word_spaces : forall c w k, all_chars nospace (String c w) = true ->
  trim (String c w +++ spaces k) = String c w.
Proof.
  intros c w k H. unfold trim. cbn [append]. rewrite ltrim_word.
  - change (String c (w +++ spaces k)) with (String c w +++ spaces k).
    apply rtrim_word_spaces. exact H.
  - cbn [all_chars] in H. apply andb_true_iff in H. destruct H as [Hc _]. unfold nospace in Hc.
    destruct (is_space c); [discriminate Hc | reflexivity].
Qed.

Lemma digits_noat : forall n, all_chars noat (nat_str n) = true.
Proof. intro n. apply nat_str_no. reflexivity. Qed.

Lemma spaces_noat : forall k, all_chars noat (spaces k) = true.
Proof. induction k; [reflexivity | exact IHk]. Qed.

Lemma ljust_nat_noat : forall w n, all_chars noat (ljust w (nat_str n)) = true.
Proof. intros. unfold ljust. rewrite all_chars_app, digits_noat, spaces_noat. reflexivity. Qed.

(** Placeholder lines of the templates. *)
Lemma sy_knot_field : forall i,
  line_fields ("    - @sy_knot_" +++ ljust 16 (nat_str i) +++ "@") = ["sy_knot_" +++ nat_str i].
Proof.
  intro i.
  change ("    - @sy_knot_" +++ ljust 16 (nat_str i) +++ "@")
    with ("    - " +++ String "@" (("sy_knot_" +++ ljust 16 (nat_str i)) +++ String "@" "")).
  rewrite line_fields_one; [| reflexivity | | reflexivity].
  - unfold ljust. rewrite <- app_assoc_s. f_equal.
    change ("sy_knot_" +++ nat_str i) with (String "s" ("y_knot_" +++ nat_str i)).
    apply trim_word_spaces.
    change (String "s" ("y_knot_" +++ nat_str i)) with ("sy_knot_" +++ nat_str i).
    rewrite all_chars_app, nat_str_nospace. reflexivity.
  - rewrite all_chars_app, ljust_nat_noat. reflexivity.
Qed.

Lemma k_knot_field : forall i,
  line_fields ("    - @K_knot_" +++ ljust 17 (nat_str i) +++ "@") = ["K_knot_" +++ nat_str i].
Proof.
  intro i.
  change ("    - @K_knot_" +++ ljust 17 (nat_str i) +++ "@")
    with ("    - " +++ String "@" (("K_knot_" +++ ljust 17 (nat_str i)) +++ String "@" "")).
  rewrite line_fields_one; [| reflexivity | | reflexivity].
  - unfold ljust. rewrite <- app_assoc_s. f_equal.
    change ("K_knot_" +++ nat_str i) with (String "K" ("_knot_" +++ nat_str i)).
    apply trim_word_spaces.
    change (String "K" ("_knot_" +++ nat_str i)) with ("K_knot_" +++ nat_str i).
    rewrite all_chars_app, nat_str_nospace. reflexivity.
  - rewrite all_chars_app, ljust_nat_noat. reflexivity.
Qed.

Lemma flat_map_fields_none : forall (f : string -> string) l,
  (forall v, In v l -> all_chars noat (f v) = true) -> flat_map line_fields (map f l) = [].
Proof.
  intros f l H. induction l as [|v l IH]; [reflexivity|]. cbn [map flat_map].
  rewrite line_fields_none by (apply H; left; reflexivity).
  apply IH. intros u Hu. apply H. right. exact Hu.
Qed.

Lemma flat_map_fields_one : forall (f g : nat -> string) l,
  (forall i, line_fields (f i) = [g i]) -> flat_map line_fields (map f l) = map g l.
Proof.
  intros f g l H. induction l as [|i l IH]; [reflexivity|]. cbn [map flat_map]. rewrite H, IH. reflexivity.
Qed.

(** Tokens of a parameter record contain no template delimiter. *)
Definition tok_ok (t : string) : Prop := all_chars noat t = true.

Definition params_ok (p : params) : Prop :=
  Forall tok_ok (sy_zeta (p_sy p)) /\
  match p_tr p with
  | TPeat k a z => tok_ok k /\ tok_ok a /\ tok_ok z
  | TSpline zeta kk tmin => Forall tok_ok zeta /\ Forall tok_ok kk /\ tok_ok tmin
  end.

Lemma dash_noat : forall l, Forall tok_ok l -> forall v, In v l -> all_chars noat (dash v) = true.
Proof.
  intros l H v Hv. rewrite Forall_forall in H. unfold dash. rewrite all_chars_app. rewrite (H v Hv). reflexivity.
Qed.

Definition sy_names (p : sy_par) : list string :=
  if sy_spline p then map (fun i => "sy_knot_" +++ nat_str i) (seq 1 (sy_n p))
  else ["sd"; "theta_s"; "b"; "psi_s"].

Lemma sy_tpl_fields : forall p, Forall tok_ok (sy_zeta p) ->
  flat_map line_fields (sy_tpl p) = sy_names p.
Proof.
  intros p H. unfold sy_tpl, sy_names. destruct (sy_spline p); [|reflexivity].
  rewrite !flat_map_app.
  rewrite (flat_map_fields_none dash) by (apply dash_noat; exact H).
  rewrite (flat_map_fields_one _ (fun i => "sy_knot_" +++ nat_str i)) by exact sy_knot_field.
  reflexivity.
Qed.

Definition consistent (p : params) : Prop :=
  match p_tr p with
  | TPeat _ _ _ => sy_spline (p_sy p) = false
  | TSpline _ _ _ => sy_spline (p_sy p) = true
  end.

Lemma flat_map_cons_s : forall (f : string -> list string) x l,
  flat_map f (x :: l) = f x ++ flat_map f l.
Proof. reflexivity. Qed.

Lemma fields_lit : forall s, all_chars noat s = true -> line_fields s = [].
Proof. exact line_fields_none. Qed.

(** Placeholders of the rise template = the specific-yield parameters. *)
Lemma rise_tpl_placeholders : forall p, params_ok p ->
  tpl_placeholders (rise_tpl p) = Ok (sy_names (p_sy p)).
Proof.
  intros p [Hz Ht]. unfold rise_tpl, tpl_placeholders. cbn [app].
  f_equal. rewrite flat_map_cons_s, flat_map_app, sy_tpl_fields by exact Hz.
  rewrite flat_map_cons_s.
  rewrite (fields_lit "specific_yield:") by reflexivity.
  rewrite (fields_lit "transmissivity:") by reflexivity. cbn [app].
  rewrite <- (app_nil_r (sy_names (p_sy p))) at 2. f_equal.
  destruct (p_tr p) as [k a z | zeta kk tmin].
  - destruct Ht as [Hk [Ha Hz']]. unfold tok_ok in *.
    rewrite !flat_map_cons_s.
    rewrite !fields_lit; [reflexivity | | | |]; rewrite ?all_chars_app, ?Hk, ?Ha, ?Hz'; reflexivity.
  - destruct Ht as [Hzeta [Hkk Htmin]]. unfold tok_ok in Htmin.
    rewrite !flat_map_cons_s, flat_map_app.
    rewrite (flat_map_fields_none dash) by (apply dash_noat; exact Hzeta).
    rewrite flat_map_cons_s, flat_map_app.
    rewrite (flat_map_fields_none dash) by (apply dash_noat; exact Hkk).
    rewrite flat_map_cons_s.
    rewrite !fields_lit; [reflexivity | | | |]; rewrite ?all_chars_app, ?Htmin; reflexivity.
Qed.

Definition tr_names (t : tr_par) : list string :=
  match t with
  | TPeat _ _ _ => ["Ksmacz0"; "alpha"]
  | TSpline _ kk _ => map (fun i => "K_knot_" +++ nat_str i) (seq 1 (List.length kk)) ++ ["T_min"]
  end.

(** Placeholders of the curves template = specific-yield and transmissivity parameters. *)
Lemma curves_tpl_placeholders : forall p, params_ok p ->
  tpl_placeholders (curves_tpl p) = Ok (sy_names (p_sy p) ++ tr_names (p_tr p)).
Proof.
  intros p [Hz Ht]. unfold curves_tpl, tpl_placeholders. cbn [app].
  f_equal. rewrite flat_map_cons_s, flat_map_app, sy_tpl_fields by exact Hz.
  rewrite flat_map_cons_s.
  rewrite (fields_lit "specific_yield:") by reflexivity.
  rewrite (fields_lit "transmissivity:") by reflexivity. cbn [app].
  f_equal.
  destruct (p_tr p) as [k a z | zeta kk tmin].
  - destruct Ht as [Hk [Ha Hz']]. unfold tok_ok in *. cbn [tr_names].
    rewrite !flat_map_cons_s.
    rewrite (fields_lit "  type: peatclsm") by reflexivity.
    rewrite (fields_lit ("  zeta_max_cm: " +++ z)) by (rewrite all_chars_app, Hz'; reflexivity).
    reflexivity.
  - destruct Ht as [Hzeta [Hkk Htmin]]. cbn [tr_names].
    rewrite !flat_map_cons_s, flat_map_app.
    rewrite (flat_map_fields_none dash) by (apply dash_noat; exact Hzeta).
    rewrite flat_map_cons_s, flat_map_app.
    rewrite (flat_map_fields_one _ (fun i => "K_knot_" +++ nat_str i)) by exact k_knot_field.
    reflexivity.
Qed.

(** * Parameter names of the control files *)
Lemma first_word_prefix : forall w r, w <> "" -> all_chars nospace w = true ->
  first_word (w +++ String space r) = w.
Proof.
  intros w r Hne Hw. unfold first_word, words. rewrite words_aux_word by exact Hw.
  cbn [append]. rewrite words_aux_flush by exact Hne. reflexivity.
Qed.

Lemma first_word_sy : forall i r,
  first_word ("sy_knot_" +++ nat_str i +++ String space r) = "sy_knot_" +++ nat_str i.
Proof.
  intros i r. rewrite <- app_assoc_s. apply first_word_prefix.
  - discriminate.
  - rewrite all_chars_app, nat_str_nospace. reflexivity.
Qed.

Lemma first_word_k : forall i r,
  first_word ("k_knot_" +++ nat_str i +++ String space r) = "k_knot_" +++ nat_str i.
Proof.
  intros i r. rewrite <- app_assoc_s. apply first_word_prefix.
  - discriminate.
  - rewrite all_chars_app, nat_str_nospace. reflexivity.
Qed.

Lemma rise_par_names : forall b n,
  map first_word (rise_par_data b n) =
  if b then map (fun i => "sy_knot_" +++ nat_str i) (seq 1 n) else ["sd"; "theta_s"; "b"; "psi_s"].
Proof.
  intros [|] n; unfold rise_par_data; [|reflexivity].
  rewrite map_map. apply map_ext. intro i. apply first_word_sy.
Qed.

Lemma curves_par_names : forall b n m,
  map first_word (curves_par_data b n m) =
  if b then map (fun i => "sy_knot_" +++ nat_str i) (seq 1 n)
            ++ map (fun i => "k_knot_" +++ nat_str i) (seq 1 m) ++ ["T_min"]
  else ["sd"; "theta_s"; "b"; "psi_s"; "Ksmacz0"; "alpha"].
Proof.
  intros [|] n m; unfold curves_par_data; [|reflexivity].
  rewrite !map_app, !map_map. f_equal; [|f_equal].
  - apply map_ext. intro i. apply first_word_sy.
  - apply map_ext. intro i. apply first_word_k.
Qed.

Lemma lower_app : forall a b, lower (a +++ b) = lower a +++ lower b.
Proof. induction a as [|c a IH]; intros; simpl; [reflexivity | rewrite IH; reflexivity]. Qed.

Lemma lower_digit : forall c, is_digit c = true -> lower_char c = c.
Proof.
  intros c H. unfold lower_char, is_digit in *.
  apply andb_true_iff in H. destruct H as [H1 H2].
  apply Nat.leb_le in H1. apply Nat.leb_le in H2.
  destruct (65 <=? nat_of_ascii c)%nat eqn:E; [apply Nat.leb_le in E; lia | reflexivity].
Qed.

Lemma lower_digits : forall s, all_chars is_digit s = true -> lower s = s.
Proof.
  induction s as [|c s IH]; intros H; [reflexivity|]. cbn [all_chars] in H.
  apply andb_true_iff in H. destruct H as [Hc Hs]. cbn [lower].
  rewrite lower_digit by exact Hc. rewrite IH by exact Hs. reflexivity.
Qed.

Lemma lower_nat_str : forall n, lower (nat_str n) = nat_str n.
Proof. intro n. apply lower_digits, nat_str_digits. Qed.

(** Control-file parameter names are the template's placeholders, compared the
    way PEST compares names (case-insensitively): rise. *)
Lemma rise_names : forall p nz obs, params_ok p ->
  exists holders, tpl_placeholders (rise_tpl p) = Ok holders
    /\ map lower (pst_par_names (rise_pst p nz obs)) = map lower holders.
Proof.
  intros p nz obs Hok. exists (sy_names (p_sy p)). split; [apply rise_tpl_placeholders; exact Hok|].
  f_equal. unfold pst_par_names. rewrite rise_pst_as_file.
  destruct (pst_file_sections
              (["pcf"; "* control data"; "restart  estimation";
                count_line (rise_npar p) nz (rise_npargp p) 1] ++ control_tail)
              (rise_par_groups (sy_spline (p_sy p)))
              (rise_par_data (sy_spline (p_sy p)) (rise_npar p))
              ["storageobs"] (obs_lines "storageobs" 1 obs)
              ["bash simulate-rise.sh"; "* model input/output"; "rise_pars.yml.tpl  rise_pars.yml";
               "rise_observations.ins  rise_observations.yml"; "* prior information"])
    as [_ [HP _]].
  - unfold control_tail. cbn [app]. hdr_lines.
  - apply rise_par_groups_no_star.
  - apply rise_par_data_no_star.
  - plain_lines.
  - apply obs_lines_no_star.
  - rewrite HP, rise_par_names. unfold sy_names, rise_npar. destruct (sy_spline (p_sy p)); reflexivity.
Qed.

(** ... and curves, for a parameter file that uses one parameterisation throughout. *)
Lemma curves_names : forall p robs cobs f, params_ok p -> consistent p ->
  curves_pst p robs cobs = Ok f ->
  exists holders, tpl_placeholders (curves_tpl p) = Ok holders
    /\ map lower (pst_par_names f) = map lower holders.
Proof.
  intros p robs cobs f Hok Hc Hf.
  exists (sy_names (p_sy p) ++ tr_names (p_tr p)). split; [apply curves_tpl_placeholders; exact Hok|].
  unfold pst_par_names.
  destruct (curves_pst_as_file p robs cobs f Hf) as [n_t [Hnt ->]].
  destruct (pst_file_sections
              (["pcf"; "* control data"; "restart  estimation";
                count_line (curves_npar (sy_spline (p_sy p)) (sy_n (p_sy p)) n_t)
                           (List.length robs + List.length cobs)
                           (curves_npargp (sy_spline (p_sy p))) 2] ++ control_tail)
              (curves_par_groups (sy_spline (p_sy p)))
              (curves_par_data (sy_spline (p_sy p)) (sy_n (p_sy p)) n_t)
              ["storageobs"; "timeobs"]
              (obs_lines "storageobs" 1 robs ++ obs_lines "timeobs" (List.length robs + 1) cobs)
              ["bash simulate-curves.sh"; "* model input/output";
               "curves_pars.yml.tpl  curves_pars.yml";
               "curves_observations.ins  curves_observations.yml"; "* prior information"])
    as [_ [HP _]].
  - unfold control_tail. cbn [app]. hdr_lines.
  - apply curves_par_groups_no_star.
  - apply curves_par_data_no_star.
  - plain_lines.
  - apply Forall_app. split; apply obs_lines_no_star.
  - rewrite HP, curves_par_names. unfold curves_nt in Hnt. unfold consistent in Hc. unfold sy_names.
    destruct (p_tr p) as [k a z | zeta kk tmin]; rewrite Hc in *.
    + reflexivity.
    + injection Hnt as <-. cbn [tr_names]. rewrite !map_app. f_equal. f_equal.
      rewrite !map_map. apply map_ext. intro i. rewrite !lower_app. reflexivity.
Qed.

(** * Observation lines of the control file *)
Definition clean (t : string) : Prop := t <> "" /\ all_chars nospace t = true.

Lemma obs_line_words : forall grp i tok, clean tok ->
  exists rest, words (obs_line grp i tok) = obs_name i :: tok :: rest.
Proof.
  intros grp i tok [Hne Hns]. unfold obs_line, words.
  change ("e" +++ nat_str i +++ "    " +++ tok +++ "    1.0   " +++ grp)
    with (("e" +++ nat_str i) +++ String space (spaces 3 +++ tok +++ String space ("   1.0   " +++ grp))).
  rewrite words_aux_word by (rewrite all_chars_app, nat_str_nospace; reflexivity).
  cbn [append]. rewrite words_aux_flush by discriminate.
  rewrite words_field by assumption.
  eexists. reflexivity.
Qed.

Lemma pst_obs_lines : forall grp toks k, Forall clean toks ->
  map (fun l => (nth 0 (words l) "", nth 1 (words l) "")) (obs_lines grp k toks)
  = combine (map obs_name (seq k (List.length toks))) toks.
Proof.
  induction toks as [|t toks IH]; intros k H; [reflexivity|].
  inversion H as [|? ? Ht Hr]; subst. cbn [obs_lines map List.length seq combine].
  destruct (obs_line_words grp k t Ht) as [rest ->]. cbn [nth]. rewrite IH by exact Hr. reflexivity.
Qed.

(** The k-th observation of a rise control file is named e_k and carries the
    k-th measured value as printed. *)
Lemma rise_pst_obs : forall p nz obs, Forall clean obs ->
  pst_obs (rise_pst p nz obs) = combine (map obs_name (seq 1 (List.length obs))) obs.
Proof.
  intros p nz obs H. unfold pst_obs. rewrite rise_pst_as_file.
  destruct (pst_file_sections
              (["pcf"; "* control data"; "restart  estimation";
                count_line (rise_npar p) nz (rise_npargp p) 1] ++ control_tail)
              (rise_par_groups (sy_spline (p_sy p)))
              (rise_par_data (sy_spline (p_sy p)) (rise_npar p))
              ["storageobs"] (obs_lines "storageobs" 1 obs)
              ["bash simulate-rise.sh"; "* model input/output"; "rise_pars.yml.tpl  rise_pars.yml";
               "rise_observations.ins  rise_observations.yml"; "* prior information"])
    as [_ [_ [_ HO]]].
  - unfold control_tail. cbn [app]. hdr_lines.
  - apply rise_par_groups_no_star.
  - apply rise_par_data_no_star.
  - plain_lines.
  - apply obs_lines_no_star.
  - rewrite HO. apply pst_obs_lines. exact H.
Qed.

Lemma combine_app_len : forall (A B : Type) (a1 a2 : list A) (b1 b2 : list B),
  List.length a1 = List.length b1 -> combine (a1 ++ a2) (b1 ++ b2) = combine a1 b1 ++ combine a2 b2.
Proof.
  induction a1 as [|x a1 IH]; intros a2 b1 b2 H; destruct b1 as [|y b1]; simpl in *; try discriminate.
  - reflexivity.
  - f_equal. apply IH. lia.
Qed.

Lemma curves_pst_obs : forall p robs cobs f, Forall clean robs -> Forall clean cobs ->
  curves_pst p robs cobs = Ok f ->
  pst_obs f = combine (map obs_name (seq 1 (List.length robs + List.length cobs))) (robs ++ cobs).
Proof.
  intros p robs cobs f Hr Hc Hf. unfold pst_obs.
  destruct (curves_pst_as_file p robs cobs f Hf) as [n_t [_ ->]].
  destruct (pst_file_sections
              (["pcf"; "* control data"; "restart  estimation";
                count_line (curves_npar (sy_spline (p_sy p)) (sy_n (p_sy p)) n_t)
                           (List.length robs + List.length cobs)
                           (curves_npargp (sy_spline (p_sy p))) 2] ++ control_tail)
              (curves_par_groups (sy_spline (p_sy p)))
              (curves_par_data (sy_spline (p_sy p)) (sy_n (p_sy p)) n_t)
              ["storageobs"; "timeobs"]
              (obs_lines "storageobs" 1 robs ++ obs_lines "timeobs" (List.length robs + 1) cobs)
              ["bash simulate-curves.sh"; "* model input/output";
               "curves_pars.yml.tpl  curves_pars.yml";
               "curves_observations.ins  curves_observations.yml"; "* prior information"])
    as [_ [_ [_ HO]]].
  - unfold control_tail. cbn [app]. hdr_lines.
  - apply curves_par_groups_no_star.
  - apply curves_par_data_no_star.
  - plain_lines.
  - apply Forall_app. split; apply obs_lines_no_star.
  - rewrite HO, map_app, !pst_obs_lines by assumption.
    rewrite seq_app, map_app, combine_app_len by (rewrite map_length, seq_length; reflexivity).
    replace (1 + List.length robs) with (List.length robs + 1) by lia. reflexivity.
Qed.

(** * Filling a template and reading the result as YAML *)
Section Fill.
  Variable val : string -> string.

  Lemma fill_out : forall s r, all_chars noat s = true ->
    fill_line val false "" (s +++ r) = option_map (append s) (fill_line val false "" r).
  Proof.
    induction s as [|c s IH]; intros r H.
    - cbn [append]. destruct (fill_line val false "" r); reflexivity.
    - cbn [all_chars] in H. apply andb_true_iff in H. destruct H as [Hc Hs].
      unfold noat, not_char in Hc. cbn [append fill_line].
      destruct (Ascii.eqb c "@") eqn:E.
      + rewrite Ascii.eqb_sym in E. rewrite E in Hc. discriminate Hc.
      + rewrite IH by exact Hs. destruct (fill_line val false "" r); reflexivity.
  Qed.

  Lemma fill_plain : forall s, all_chars noat s = true -> fill_line val false "" s = Some s.
  Proof.
    intros s H. rewrite <- (app_nil_r_s s) at 1. rewrite fill_out by exact H.
    cbn [fill_line option_map]. rewrite app_nil_r_s. reflexivity.
  Qed.

  Lemma fill_in : forall w acc r, all_chars noat w = true ->
    fill_line val true acc (w +++ String "@" r) =
    (if (String.length (val (trim (acc +++ w))) <=? String.length (acc +++ w) + 2)%nat
     then option_map (fun x => ljust (String.length (acc +++ w) + 2) (val (trim (acc +++ w))) +++ x)
                     (fill_line val false "" r)
     else None).
  Proof.
    induction w as [|c w IH]; intros acc r H.
    - cbn [append fill_line]. change (Ascii.eqb "@" "@") with true. cbn iota.
      rewrite app_nil_r_s. reflexivity.
    - cbn [all_chars] in H. apply andb_true_iff in H. destruct H as [Hc Hw].
      unfold noat, not_char in Hc. cbn [append fill_line].
      destruct (Ascii.eqb c "@") eqn:E.
      + rewrite Ascii.eqb_sym in E. rewrite E in Hc. discriminate Hc.
      + rewrite IH by exact Hw. rewrite app_assoc_s. reflexivity.
  Qed.

  (** A line with one parameter space. *)
  Lemma fill_one : forall pre w post,
    all_chars noat pre = true -> all_chars noat w = true -> all_chars noat post = true ->
    String.length (val (trim w)) <= String.length w + 2 ->
    fill_line val false "" (pre +++ String "@" (w +++ String "@" post))
    = Some (pre +++ ljust (String.length w + 2) (val (trim w)) +++ post).
  Proof.
    intros pre w post Hp Hw Hq Hlen. rewrite fill_out by exact Hp.
    cbn [fill_line]. change (Ascii.eqb "@" "@") with true. cbn iota.
    rewrite fill_in by exact Hw. cbn [append].
    apply Nat.leb_le in Hlen. rewrite Hlen. rewrite fill_plain by exact Hq. reflexivity.
  Qed.
End Fill.

Definition nohash (c : ascii) : bool := not_char "#"%char c.

Lemma starts_hash_false : forall s r, all_chars nohash s = true ->
  starts_with_char "#"%char (s +++ String space r) = false.
Proof.
  intros s r H. destruct s as [|c s]; [reflexivity|].
  cbn [all_chars] in H. apply andb_true_iff in H. destruct H as [Hc _].
  unfold nohash, not_char in Hc. cbn [append starts_with_char].
  destruct (Ascii.eqb "#" c); [discriminate Hc | reflexivity].
Qed.

Lemma starts_hash_false' : forall s, all_chars nohash s = true -> starts_with_char "#"%char s = false.
Proof.
  intros s H. destruct s as [|c s]; [reflexivity|].
  cbn [all_chars] in H. apply andb_true_iff in H. destruct H as [Hc _].
  unfold nohash, not_char in Hc. cbn [starts_with_char].
  destruct (Ascii.eqb "#" c); [discriminate Hc | reflexivity].
Qed.

Lemma strip_comment_none : forall s, all_chars nohash s = true -> strip_comment s = s.
Proof.
  induction s as [|c s IH]; intros H; [reflexivity|].
  cbn [all_chars] in H. apply andb_true_iff in H. destruct H as [Hc Hs].
  cbn [strip_comment]. rewrite starts_hash_false' by exact Hs. rewrite andb_false_r.
  rewrite IH by exact Hs. reflexivity.
Qed.

Lemma strip_comment_cut : forall a r, all_chars nohash a = true ->
  strip_comment (a +++ String space (String "#" r)) = a.
Proof.
  induction a as [|c a IH]; intros r H.
  - reflexivity.
  - cbn [all_chars] in H. apply andb_true_iff in H. destruct H as [Hc Ha].
    cbn [append strip_comment]. rewrite starts_hash_false by exact Ha. rewrite andb_false_r.
    rewrite IH by exact Ha. reflexivity.
Qed.

(** What a value must look like to survive: non-empty, no blank, no [#]. *)
Definition printable (v : string) : Prop :=
  v <> "" /\ all_chars nospace v = true /\ all_chars nohash v = true.

Lemma spaces_nohash : forall k, all_chars nohash (spaces k) = true.
Proof. induction k; [reflexivity | exact IHk]. Qed.

Lemma ljust_nohash : forall w v, all_chars nohash v = true -> all_chars nohash (ljust w v) = true.
Proof. intros. unfold ljust. rewrite all_chars_app, H, spaces_nohash. reflexivity. Qed.

Lemma spaces_snoc : forall k, spaces k +++ " " = spaces (S k).
Proof. induction k as [|k IH]; [reflexivity|]. cbn [spaces append]. rewrite IH. reflexivity. Qed.

Lemma trim_ljust : forall w v, printable v -> trim (ljust w v) = v.
Proof.
  intros w v [Hne [Hns _]]. unfold ljust. destruct v as [|c v]; [congruence|].
  apply trim_word_spaces. exact Hns.
Qed.

Lemma trim_ljust_sp : forall w v, printable v -> trim (ljust w v +++ " ") = v.
Proof.
  intros w v [Hne [Hns _]]. unfold ljust. rewrite app_assoc_s, spaces_snoc.
  destruct v as [|c v]; [congruence|]. apply trim_word_spaces. exact Hns.
Qed.

Lemma trim_lead : forall s, trim (String " " s) = trim s.
Proof. reflexivity. Qed.

(** Reading back the filled lines (the shapes spowtd's templates have). *)
Definition yaml_core (l0 : string) : string :=
  let l := ltrim l0 in
  match l with
  | String "-" (String " " t) => trim t
  | _ => match after_colon l with Some t => trim t | None => trim l end
  end.

Lemma yaml_scalar_core : forall line, yaml_scalar line = yaml_core (strip_comment line).
Proof. reflexivity. Qed.

Lemma yaml_plain : forall key w v, printable v -> all_chars nohash key = true ->
  (forall X, yaml_core (key +++ X) = trim X) ->
  yaml_scalar (key +++ ljust w v) = v.
Proof.
  intros key w v Hp Hk Hcore. rewrite yaml_scalar_core.
  rewrite strip_comment_none
    by (rewrite all_chars_app, Hk, ljust_nohash by (apply Hp); reflexivity).
  rewrite Hcore. apply trim_ljust. exact Hp.
Qed.

Lemma yaml_commented : forall key w v cmt, printable v -> all_chars nohash key = true ->
  (forall X, yaml_core (key +++ X) = trim X) ->
  yaml_scalar (key +++ ljust w v +++ String space (String space (String "#" cmt))) = v.
Proof.
  intros key w v cmt Hp Hk Hcore. rewrite yaml_scalar_core.
  replace (key +++ ljust w v +++ String space (String space (String "#" cmt)))
    with ((key +++ ljust w v +++ " ") +++ String space (String "#" cmt))
    by (rewrite !app_assoc_s; reflexivity).
  rewrite strip_comment_cut
    by (rewrite !all_chars_app, Hk, ljust_nohash by (apply Hp); reflexivity).
  rewrite Hcore. apply trim_ljust_sp. exact Hp.
Qed.

Lemma core_dash : forall X, yaml_core ("    - " +++ X) = trim X.           Proof. reflexivity. Qed.
Lemma core_sd : forall X, yaml_core ("  sd: " +++ X) = trim X.             Proof. reflexivity. Qed.
Lemma core_theta : forall X, yaml_core ("  theta_s: " +++ X) = trim X.     Proof. reflexivity. Qed.
Lemma core_b : forall X, yaml_core ("  b: " +++ X) = trim X.               Proof. reflexivity. Qed.
Lemma core_psi : forall X, yaml_core ("  psi_s: " +++ X) = trim X.         Proof. reflexivity. Qed.
Lemma core_ks : forall X, yaml_core ("  Ksmacz0: " +++ X) = trim X.        Proof. reflexivity. Qed.
Lemma core_alpha : forall X, yaml_core ("  alpha: " +++ X) = trim X.       Proof. reflexivity. Qed.
Lemma core_tmin : forall X, yaml_core ("  minimum_transmissivity_m2_d: " +++ X) = trim X.
Proof. reflexivity. Qed.

(** * Template round trip *)
Section RoundTrip.
  Variable val : string -> string.
  (** The printable guard: whatever writes the values (PEST) writes, for every
      parameter, a text without blanks or [#] that fits the 26-character space. *)
  Hypothesis val_printable : forall name, printable (val name) /\ String.length (val name) <= 26.

  (** A filled line is right when: a line without parameter space is copied
      verbatim; a line with one space reads back, as a YAML scalar, as the text
      written for that parameter. *)
  Definition line_ok (tl fl : string) : Prop :=
    match line_fields tl with
    | [] => fl = tl
    | [name] => yaml_scalar fl = val name
    | _ => False
    end.

  Definition fills (tls fls : list string) : Prop :=
    fill_lines val tls = Some fls /\ Forall2 line_ok tls fls.

  Lemma fills_nil : fills [] [].
  Proof. split; [reflexivity | constructor]. Qed.

  Lemma fills_cons : forall tl fl tls fls,
    fill_line val false "" tl = Some fl -> line_ok tl fl -> fills tls fls ->
    fills (tl :: tls) (fl :: fls).
  Proof.
    intros tl fl tls fls H1 H2 [H3 H4]. split.
    - cbn [fill_lines]. rewrite H1, H3. reflexivity.
    - constructor; assumption.
  Qed.

  Lemma fills_app : forall a fa b fb, fills a fa -> fills b fb -> fills (a ++ b) (fa ++ fb).
  Proof.
    intros a fa b fb [H1 H2] Hb. revert fa H1 H2. induction a as [|tl a IH]; intros fa H1 H2.
    - cbn in H1. injection H1 as <-. exact Hb.
    - cbn [fill_lines] in H1. destruct (fill_line val false "" tl) as [fl|] eqn:E1; [|discriminate H1].
      destruct (fill_lines val a) as [fa'|] eqn:E2; [|discriminate H1]. injection H1 as <-.
      inversion H2 as [|? ? ? ? Hok Hrest]; subst. cbn [app].
      apply fills_cons; [exact E1 | exact Hok | apply IH; [reflexivity | exact Hrest]].
  Qed.

  Lemma fills_plain_line : forall tl, all_chars noat tl = true ->
    fill_line val false "" tl = Some tl /\ line_ok tl tl.
  Proof.
    intros tl H. split; [apply fill_plain; exact H|]. unfold line_ok.
    rewrite line_fields_none by exact H. reflexivity.
  Qed.

  Lemma fills_plain : forall tls, Forall (fun l => all_chars noat l = true) tls -> fills tls tls.
  Proof.
    intros tls H. induction H as [|tl tls Hl _ IH]; [apply fills_nil|].
    destruct (fills_plain_line tl Hl) as [H1 H2]. apply fills_cons; assumption.
  Qed.

  Lemma fills_map : forall (f g : nat -> string) l,
    (forall i, fill_line val false "" (f i) = Some (g i) /\ line_ok (f i) (g i)) ->
    fills (map f l) (map g l).
  Proof.
    intros f g l H. induction l as [|i l IH]; [apply fills_nil|]. cbn [map].
    destruct (H i) as [H1 H2]. apply fills_cons; assumption.
  Qed.

  Lemma one_field : forall pre w post name,
    all_chars noat pre = true -> all_chars noat w = true -> all_chars noat post = true ->
    trim w = name -> 26 <= String.length w + 2 ->
    yaml_scalar (pre +++ ljust (String.length w + 2) (val name) +++ post) = val name ->
    fill_line val false "" (pre +++ String "@" (w +++ String "@" post))
      = Some (pre +++ ljust (String.length w + 2) (val name) +++ post)
    /\ line_ok (pre +++ String "@" (w +++ String "@" post))
               (pre +++ ljust (String.length w + 2) (val name) +++ post).
  Proof.
    intros pre w post name Hp Hw Hq Ht Hlen Hy. split.
    - rewrite fill_one by (try assumption; rewrite Ht; destruct (val_printable name); lia).
      rewrite Ht. reflexivity.
    - unfold line_ok. rewrite line_fields_one by assumption. rewrite Ht. exact Hy.
  Qed.

  Lemma length_spaces : forall k, String.length (spaces k) = k.
  Proof. induction k as [|k IH]; [reflexivity|]. cbn. rewrite IH. reflexivity. Qed.

  Lemma length_ljust_ge : forall w s, w <= String.length (ljust w s).
  Proof. intros. unfold ljust. rewrite length_app_s, length_spaces. lia. Qed.

  Lemma trim_sy_w : forall i, trim ("sy_knot_" +++ ljust 16 (nat_str i)) = "sy_knot_" +++ nat_str i.
  Proof.
    intro i. unfold ljust. rewrite <- app_assoc_s.
    change ("sy_knot_" +++ nat_str i) with (String "s" ("y_knot_" +++ nat_str i)).
    apply trim_word_spaces.
    change (String "s" ("y_knot_" +++ nat_str i)) with ("sy_knot_" +++ nat_str i).
    rewrite all_chars_app, nat_str_nospace. reflexivity.
  Qed.

  Lemma trim_k_w : forall i, trim ("K_knot_" +++ ljust 17 (nat_str i)) = "K_knot_" +++ nat_str i.
  Proof.
    intro i. unfold ljust. rewrite <- app_assoc_s.
    change ("K_knot_" +++ nat_str i) with (String "K" ("_knot_" +++ nat_str i)).
    apply trim_word_spaces.
    change (String "K" ("_knot_" +++ nat_str i)) with ("K_knot_" +++ nat_str i).
    rewrite all_chars_app, nat_str_nospace. reflexivity.
  Qed.

  Definition sy_knot_tl (i : nat) : string := "    - @sy_knot_" +++ ljust 16 (nat_str i) +++ "@".
  Definition sy_knot_fl (i : nat) : string :=
    "    - " +++ ljust (String.length ("sy_knot_" +++ ljust 16 (nat_str i)) + 2)
                       (val ("sy_knot_" +++ nat_str i)) +++ "".
  Definition k_knot_tl (i : nat) : string := "    - @K_knot_" +++ ljust 17 (nat_str i) +++ "@".
  Definition k_knot_fl (i : nat) : string :=
    "    - " +++ ljust (String.length ("K_knot_" +++ ljust 17 (nat_str i)) + 2)
                       (val ("K_knot_" +++ nat_str i)) +++ "".

  Lemma sy_knot_line : forall i,
    fill_line val false "" (sy_knot_tl i) = Some (sy_knot_fl i) /\ line_ok (sy_knot_tl i) (sy_knot_fl i).
  Proof.
    intro i. unfold sy_knot_tl, sy_knot_fl.
    change ("    - @sy_knot_" +++ ljust 16 (nat_str i) +++ "@")
      with ("    - " +++ String "@" (("sy_knot_" +++ ljust 16 (nat_str i)) +++ String "@" "")).
    apply one_field; try reflexivity.
    - rewrite all_chars_app, ljust_nat_noat. reflexivity.
    - apply trim_sy_w.
    - rewrite length_app_s. pose proof (length_ljust_ge 16 (nat_str i)). cbn [String.length]. lia.
    - rewrite app_nil_r_s. apply yaml_plain; [apply val_printable | reflexivity | exact core_dash].
  Qed.

  Lemma k_knot_line : forall i,
    fill_line val false "" (k_knot_tl i) = Some (k_knot_fl i) /\ line_ok (k_knot_tl i) (k_knot_fl i).
  Proof.
    intro i. unfold k_knot_tl, k_knot_fl.
    change ("    - @K_knot_" +++ ljust 17 (nat_str i) +++ "@")
      with ("    - " +++ String "@" (("K_knot_" +++ ljust 17 (nat_str i)) +++ String "@" "")).
    apply one_field; try reflexivity.
    - rewrite all_chars_app, ljust_nat_noat. reflexivity.
    - apply trim_k_w.
    - rewrite length_app_s. pose proof (length_ljust_ge 17 (nat_str i)). cbn [String.length]. lia.
    - rewrite app_nil_r_s. apply yaml_plain; [apply val_printable | reflexivity | exact core_dash].
  Qed.

  (** The four PEATCLSM specific-yield lines, the two transmissivity lines and T_min. *)
  Ltac fixed_field pre w post core :=
    match goal with
    | |- exists fl, fill_line val false "" ?tl = Some fl /\ line_ok ?tl fl =>
        change tl with (pre +++ String "@" (w +++ String "@" post));
        eexists; apply one_field; try reflexivity
    end.

  Lemma sd_line : exists fl,
    fill_line val false "" "  sd: @sd                      @" = Some fl
    /\ line_ok "  sd: @sd                      @" fl.
  Proof.
    fixed_field "  sd: " "sd                      " "" core_sd.
    rewrite app_nil_r_s. apply yaml_plain; [apply val_printable | reflexivity | exact core_sd].
  Qed.

  Lemma theta_line : exists fl,
    fill_line val false "" "  theta_s: @theta_s                 @" = Some fl
    /\ line_ok "  theta_s: @theta_s                 @" fl.
  Proof.
    fixed_field "  theta_s: " "theta_s                 " "" core_theta.
    rewrite app_nil_r_s. apply yaml_plain; [apply val_printable | reflexivity | exact core_theta].
  Qed.

  Lemma b_line : exists fl,
    fill_line val false "" "  b: @b                       @" = Some fl
    /\ line_ok "  b: @b                       @" fl.
  Proof.
    fixed_field "  b: " "b                       " "" core_b.
    rewrite app_nil_r_s. apply yaml_plain; [apply val_printable | reflexivity | exact core_b].
  Qed.

  Lemma psi_line : exists fl,
    fill_line val false "" "  psi_s: @psi_s                   @" = Some fl
    /\ line_ok "  psi_s: @psi_s                   @" fl.
  Proof.
    fixed_field "  psi_s: " "psi_s                   " "" core_psi.
    rewrite app_nil_r_s. apply yaml_plain; [apply val_printable | reflexivity | exact core_psi].
  Qed.

  Lemma ks_line : exists fl,
    fill_line val false "" "  Ksmacz0: @Ksmacz0                 @  # m/s" = Some fl
    /\ line_ok "  Ksmacz0: @Ksmacz0                 @  # m/s" fl.
  Proof.
    fixed_field "  Ksmacz0: " "Ksmacz0                 " "  # m/s" core_ks.
    apply (yaml_commented "  Ksmacz0: " _ _ " m/s"); [apply val_printable | reflexivity | exact core_ks].
  Qed.

  Lemma alpha_line : exists fl,
    fill_line val false "" "  alpha: @alpha                   @  # dimensionless" = Some fl
    /\ line_ok "  alpha: @alpha                   @  # dimensionless" fl.
  Proof.
    fixed_field "  alpha: " "alpha                   " "  # dimensionless" core_alpha.
    apply (yaml_commented "  alpha: " _ _ " dimensionless");
        [apply val_printable | reflexivity | exact core_alpha].
  Qed.

  Lemma tmin_line : exists fl,
    fill_line val false ""
      "  minimum_transmissivity_m2_d: @T_min                   @  # Minimum transmissivity, m2 /d" = Some fl
    /\ line_ok "  minimum_transmissivity_m2_d: @T_min                   @  # Minimum transmissivity, m2 /d" fl.
  Proof.
    fixed_field "  minimum_transmissivity_m2_d: " "T_min                   "
                "  # Minimum transmissivity, m2 /d" core_tmin.
    apply (yaml_commented "  minimum_transmissivity_m2_d: " _ _ " Minimum transmissivity, m2 /d");
        [apply val_printable | reflexivity | exact core_tmin].
  Qed.

  Lemma fills_ex_cons : forall tl tls,
    (exists fl, fill_line val false "" tl = Some fl /\ line_ok tl fl) ->
    (exists fls, fills tls fls) -> exists fls, fills (tl :: tls) fls.
  Proof.
    intros tl tls [fl [H1 H2]] [fls H]. exists (fl :: fls). apply fills_cons; assumption.
  Qed.

  Lemma fills_ex_plain : forall tl tls, all_chars noat tl = true ->
    (exists fls, fills tls fls) -> exists fls, fills (tl :: tls) fls.
  Proof.
    intros tl tls Hl H. apply fills_ex_cons; [|exact H]. exists tl. apply fills_plain_line. exact Hl.
  Qed.

  Lemma fills_ex_app : forall a b, (exists fa, fills a fa) -> (exists fb, fills b fb) ->
    exists f, fills (a ++ b) f.
  Proof. intros a b [fa Ha] [fb Hb]. exists (fa ++ fb). apply fills_app; assumption. Qed.

  Lemma fills_ex_nil : exists f, fills [] f.
  Proof. exists []. apply fills_nil. Qed.

  Lemma dash_lines_fill : forall l, Forall tok_ok l -> exists f, fills (map dash l) f.
  Proof.
    intros l H. exists (map dash l). apply fills_plain.
    rewrite Forall_forall. intros x Hx. apply in_map_iff in Hx. destruct Hx as [v [<- Hv]].
    eapply dash_noat; eauto.
  Qed.

  Lemma sy_tpl_fills : forall p, Forall tok_ok (sy_zeta p) -> exists f, fills (sy_tpl p) f.
  Proof.
    intros p H. unfold sy_tpl. destruct (sy_spline p).
    - cbn [app]. do 2 (apply fills_ex_plain; [reflexivity|]).
      apply fills_ex_app; [apply dash_lines_fill; exact H|].
      cbn [app]. apply fills_ex_plain; [reflexivity|].
      exists (map sy_knot_fl (seq 1 (sy_n p))). apply (fills_map sy_knot_tl sy_knot_fl). exact sy_knot_line.
    - apply fills_ex_plain; [reflexivity|].
      apply fills_ex_cons; [exact sd_line|]. apply fills_ex_cons; [exact theta_line|].
      apply fills_ex_cons; [exact b_line|]. apply fills_ex_cons; [exact psi_line|]. apply fills_ex_nil.
  Qed.

  (** Filling either template with printable values succeeds; every line without
      a parameter space is unchanged and every parameter reads back, through the
      YAML scalar of its line, as the text written for it. *)
  Lemma rise_tpl_roundtrip : forall p, params_ok p ->
    exists filled, tpl_fill val (rise_tpl p) = Some filled
                   /\ Forall2 line_ok (tl (rise_tpl p)) filled.
  Proof.
    intros p [Hz Ht]. unfold rise_tpl. cbn [app tpl_fill tl].
    enough (exists f, fills ("specific_yield:" :: sy_tpl (p_sy p) ++ "transmissivity:" ::
              match p_tr p with
              | TPeat k a z =>
                  ["  type: peatclsm"; "  Ksmacz0: " +++ k +++ "  # m/s";
                   "  alpha: " +++ a +++ "  # dimensionless"; "  zeta_max_cm: " +++ z]
              | TSpline zeta kk tmin =>
                  ["  type: spline"; "  zeta_knots_mm:"] ++ map dash zeta
                  ++ ["  K_knots_km_d:  # Conductivity, km /d"] ++ map dash kk
                  ++ ["  minimum_transmissivity_m2_d: " +++ tmin +++ "  # Minimum transmissivity, m2 /d"]
              end) f) as [f [H1 H2]] by (exists f; split; assumption).
    apply fills_ex_plain; [reflexivity|].
    apply fills_ex_app; [apply sy_tpl_fills; exact Hz|].
    apply fills_ex_plain; [reflexivity|].
    destruct (p_tr p) as [k a z | zeta kk tmin].
    - destruct Ht as [Hk [Ha Hz']]. unfold tok_ok in *.
      apply fills_ex_plain; [reflexivity|].
      apply fills_ex_plain; [rewrite !all_chars_app, Hk; reflexivity|].
      apply fills_ex_plain; [rewrite !all_chars_app, Ha; reflexivity|].
      apply fills_ex_plain; [rewrite !all_chars_app, Hz'; reflexivity|].
      apply fills_ex_nil.
    - destruct Ht as [Hzeta [Hkk Htmin]]. unfold tok_ok in Htmin. cbn [app].
      do 2 (apply fills_ex_plain; [reflexivity|]).
      apply fills_ex_app; [apply dash_lines_fill; exact Hzeta|]. cbn [app].
      apply fills_ex_plain; [reflexivity|].
      apply fills_ex_app; [apply dash_lines_fill; exact Hkk|].
      apply fills_ex_plain; [rewrite !all_chars_app, Htmin; reflexivity|].
      apply fills_ex_nil.
  Qed.

  Lemma curves_tpl_roundtrip : forall p, params_ok p ->
    exists filled, tpl_fill val (curves_tpl p) = Some filled
                   /\ Forall2 line_ok (tl (curves_tpl p)) filled.
  Proof.
    intros p [Hz Ht]. unfold curves_tpl. cbn [app tpl_fill tl].
    match goal with
    | |- exists filled, fill_lines val ?L = Some filled /\ Forall2 line_ok ?L filled =>
        enough (exists f, fills L f) as [f [H1 H2]] by (exists f; split; assumption)
    end.
    apply fills_ex_plain; [reflexivity|].
    apply fills_ex_app; [apply sy_tpl_fills; exact Hz|].
    apply fills_ex_plain; [reflexivity|].
    destruct (p_tr p) as [k a z | zeta kk tmin].
    - destruct Ht as [Hk [Ha Hz']]. unfold tok_ok in *.
      apply fills_ex_plain; [reflexivity|].
      apply fills_ex_cons; [exact ks_line|]. apply fills_ex_cons; [exact alpha_line|].
      apply fills_ex_plain; [rewrite !all_chars_app, Hz'; reflexivity|].
      apply fills_ex_nil.
    - destruct Ht as [Hzeta [Hkk Htmin]]. cbn [app].
      do 2 (apply fills_ex_plain; [reflexivity|]).
      apply fills_ex_app; [apply dash_lines_fill; exact Hzeta|]. cbn [app].
      apply fills_ex_plain; [reflexivity|].
      apply fills_ex_app.
      + exists (map k_knot_fl (seq 1 (List.length kk))).
        apply (fills_map k_knot_tl k_knot_fl). exact k_knot_line.
      + apply fills_ex_cons; [exact tmin_line | apply fills_ex_nil].
  Qed.
End RoundTrip.

(** * Values read back; names aligned between control file and instruction file *)
Lemma map_fst_combine : forall (A B : Type) (a : list A) (b : list B),
  List.length a = List.length b -> map fst (combine a b) = a.
Proof.
  induction a as [|x a IH]; intros b H; destruct b as [|y b]; simpl in *; try discriminate; [reflexivity|].
  f_equal. apply IH. lia.
Qed.

Lemma map_snd_combine : forall (A B : Type) (a : list A) (b : list B),
  List.length a = List.length b -> map snd (combine a b) = b.
Proof.
  induction a as [|x a IH]; intros b H; destruct b as [|y b]; simpl in *; try discriminate; [reflexivity|].
  f_equal. apply IH. lia.
Qed.

(** With a printer / reader pair that round-trips (the oracle contract of
    ['{:0.17g}'] and [float()]), the k-th observation value of the control file
    reads back as the k-th measured value. *)
Lemma rise_obs_values : forall (F : Type) (fmt : F -> string) (parse : string -> option F),
  (forall v, parse (fmt v) = Some v) -> (forall v, clean (fmt v)) ->
  forall p nz vals,
  map (fun o => parse (snd o)) (pst_obs (rise_pst p nz (map fmt vals))) = map Some vals.
Proof.
  intros F fmt parse Hrt Hclean p nz vals.
  rewrite rise_pst_obs by (rewrite Forall_forall; intros t Ht; apply in_map_iff in Ht;
                           destruct Ht as [v [<- _]]; apply Hclean).
  rewrite <- (map_map snd parse). rewrite map_snd_combine
    by (rewrite !map_length, seq_length; reflexivity).
  rewrite map_map. apply map_ext. exact Hrt.
Qed.

Lemma curves_obs_values : forall (F : Type) (fmt : F -> string) (parse : string -> option F),
  (forall v, parse (fmt v) = Some v) -> (forall v, clean (fmt v)) ->
  forall p rvals cvals f, curves_pst p (map fmt rvals) (map fmt cvals) = Ok f ->
  map (fun o => parse (snd o)) (pst_obs f) = map Some (rvals ++ cvals).
Proof.
  intros F fmt parse Hrt Hclean p rvals cvals f Hf.
  assert (Hc : forall l, Forall clean (map fmt l)).
  { intro l. rewrite Forall_forall. intros t Ht. apply in_map_iff in Ht.
    destruct Ht as [v [<- _]]. apply Hclean. }
  rewrite (curves_pst_obs p _ _ f (Hc rvals) (Hc cvals) Hf).
  rewrite <- (map_map snd parse). rewrite map_snd_combine
    by (rewrite app_length, !map_length, seq_length; reflexivity).
  rewrite <- map_app, map_map. apply map_ext. exact Hrt.
Qed.

(** The instruction file extracts, in order, exactly the observations the control
    file lists, and the k-th extracted text is the k-th printed simulated value. *)
Lemma curves_aligned : forall p robs cobs f rsim csim,
  Forall clean robs -> Forall clean cobs -> curves_pst p robs cobs = Ok f ->
  Forall fits rsim -> Forall fits csim ->
  List.length rsim = List.length robs -> List.length csim = List.length cobs ->
  exists ext,
    ins_read (curves_ins (List.length robs) (List.length cobs))
             (sim_output rise_header rsim ++ sim_output recession_header csim) = Ok ext
    /\ map fst ext = map fst (pst_obs f)
    /\ map snd ext = rsim ++ csim.
Proof.
  intros p robs cobs f rsim csim Hr Hc Hf Hrs Hcs Lr Lc.
  exists (combine (map obs_name (seq 1 (List.length rsim + List.length csim))) (rsim ++ csim)).
  split; [|split].
  - rewrite <- Lr, <- Lc. apply curves_extract_lossless; assumption.
  - rewrite (curves_pst_obs p robs cobs f Hr Hc Hf).
    rewrite !map_fst_combine by (rewrite app_length, map_length, seq_length; lia).
    rewrite Lr, Lc. reflexivity.
  - apply map_snd_combine. rewrite app_length, map_length, seq_length. reflexivity.
Qed.

Lemma rise_aligned : forall p nz obs sim,
  Forall clean obs -> Forall fits sim -> List.length sim = List.length obs -> nz = List.length obs ->
  exists ext,
    ins_read (rise_ins nz) (sim_output rise_header sim) = Ok ext
    /\ map fst ext = map fst (pst_obs (rise_pst p nz obs))
    /\ map snd ext = sim.
Proof.
  intros p nz obs sim Ho Hs L Hnz.
  exists (combine (map obs_name (seq 1 (List.length sim))) sim). split; [|split].
  - rewrite Hnz, <- L. apply rise_extract_lossless. exact Hs.
  - rewrite (rise_pst_obs p nz obs Ho).
    rewrite !map_fst_combine by (rewrite map_length, seq_length; lia). rewrite L. reflexivity.
  - apply map_snd_combine. rewrite map_length, seq_length. reflexivity.
Qed.
