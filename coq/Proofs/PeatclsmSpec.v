(** C16 — proofs about Model/Peatclsm.v. *)
From Coq Require Import Reals List ZArith QArith Qreals Lra Lia.
From Coquelicot Require Import Coquelicot.
From Spowtd Require Import Model.Util Model.Transm Model.Peatclsm Proofs.TransmSpec.
Import ListNotations.
Open Scope R_scope.

(** * The Python loop is the profile sum *)

Lemma sum_layers_fold : forall p Phi i js A,
  sum_layers p Phi i js A = A + fold_right Rplus 0 (map (layer p Phi i) js).
Proof.
  intros p Phi i. induction js as [|j t IH]; intros A; simpl.
  - ring.
  - rewrite IH. ring.
Qed.

Lemma dz_const : forall j, dz j = 1 / 100.
Proof. intros j. unfold dz, zu, zl. field. Qed.

Theorem sy_knot_is_DB_profile : forall p N i, sy_knot p N i = DB_profile p N i.
Proof.
  intros p N i. unfold sy_knot, sy_knot_with, sy_soil, DB_profile, Fs.
  rewrite sum_layers_fold. f_equal.
  unfold Rdiv. rewrite !Rmult_1_l, Rplus_0_l. unfold dz. f_equal.
Qed.

(** * Campbell moisture is between 0 and theta_s *)

Lemma unsat_ratio_gt_1 : forall ps d, ps < 0 -> ~ ps * 100 <= d * 100 -> 1 < (d * 100) / (ps * 100).
Proof.
  intros ps d Hps Hn.
  assert (Hd : d * 100 < ps * 100) by lra.
  apply (Rmult_lt_reg_r (- (ps * 100))); [lra|].
  replace (d * 100 / (ps * 100) * - (ps * 100)) with (- (d * 100)) by (field; lra).
  lra.
Qed.

Lemma Rpower_le_1 : forall x y, 1 < x -> y < 0 -> 0 < Rpower x y < 1.
Proof.
  intros x y Hx Hy. unfold Rpower. split; [apply exp_pos|].
  rewrite <- exp_0. apply exp_increasing.
  assert (0 < ln x) by (rewrite <- ln_1; apply ln_increasing; lra).
  assert (0 < - y * ln x) by (apply Rmult_lt_0_compat; lra). lra.
Qed.

Lemma theta_bounds : forall p d, admissible p -> 0 < theta p d <= theta_s p.
Proof.
  intros p d (Hsd & Hth & Hb & Hps). unfold theta.
  destruct (Rle_dec (psi_s p * 100) (d * 100)) as [L|L]; [lra|].
  assert (Hr := unsat_ratio_gt_1 (psi_s p) d ltac:(lra) L).
  assert (Hy : - 1 / b_shape p < 0).
  { unfold Rdiv. assert (0 < / b_shape p) by (apply Rinv_0_lt_compat; lra). lra. }
  destruct (Rpower_le_1 _ _ Hr Hy) as [H1 H2].
  split; [apply Rmult_lt_0_compat; lra|].
  rewrite <- (Rmult_1_r (theta_s p)) at 2. apply Rmult_le_compat_l; lra.
Qed.

(** Campbell moisture does not decrease as the water level rises. *)
Lemma theta_monotone : forall p d1 d2, admissible p -> d1 <= d2 -> theta p d1 <= theta p d2.
Proof.
  intros p d1 d2 Hadm Hd. destruct (theta_bounds p d1 Hadm) as [_ Hb1].
  destruct Hadm as (Hsd & Hth & Hb & Hps). unfold theta in *.
  destruct (Rle_dec (psi_s p * 100) (d2 * 100)) as [L2|L2]; [exact Hb1|].
  destruct (Rle_dec (psi_s p * 100) (d1 * 100)) as [L1|L1]; [lra|].
  apply Rmult_le_compat_l; [lra|].
  assert (Hr1 := unsat_ratio_gt_1 (psi_s p) d1 ltac:(lra) L1).
  assert (Hr2 := unsat_ratio_gt_1 (psi_s p) d2 ltac:(lra) L2).
  unfold Rpower.
  assert (Hle : d2 * 100 / (psi_s p * 100) <= d1 * 100 / (psi_s p * 100)).
  { apply (Rmult_le_reg_r (- (psi_s p * 100))); [lra|].
    replace (d2 * 100 / (psi_s p * 100) * - (psi_s p * 100)) with (- (d2 * 100)) by (field; lra).
    replace (d1 * 100 / (psi_s p * 100) * - (psi_s p * 100)) with (- (d1 * 100)) by (field; lra).
    lra. }
  assert (Hln : ln (d2 * 100 / (psi_s p * 100)) <= ln (d1 * 100 / (psi_s p * 100))).
  { destruct Hle as [Hlt|Heq]; [left; apply ln_increasing; lra|right; now rewrite Heq]. }
  assert (Hy : 0 < 1 / b_shape p) by (unfold Rdiv; rewrite Rmult_1_l; apply Rinv_0_lt_compat; lra).
  assert (Hm : - 1 / b_shape p * ln (d1 * 100 / (psi_s p * 100))
               <= - 1 / b_shape p * ln (d2 * 100 / (psi_s p * 100))).
  { replace (- 1 / b_shape p) with (- (1 / b_shape p)) by (unfold Rdiv; ring). nra. }
  destruct Hm as [Hlt|Heq]; [left; now apply exp_increasing|right; now rewrite Heq].
Qed.

(** * Dependence on the table of cdf values: linear, Lipschitz *)

Lemma layer_diff : forall p P1 P2 i j,
  layer p P1 i j - layer p P2 i j
  = dz j * (P2 j - P1 j) * (theta p (zu i - zm j) - theta p (zl i - zm j)).
Proof. intros. unfold layer, campbell. ring. Qed.

Lemma layer_close : forall p P1 P2 i j eps,
  admissible p -> Rabs (P1 j - P2 j) <= eps ->
  Rabs (layer p P1 i j - layer p P2 i j) <= eps * (theta_s p / 100).
Proof.
  intros p P1 P2 i j eps Hadm He. rewrite layer_diff, dz_const.
  destruct (theta_bounds p (zu i - zm j) Hadm) as [Hu1 Hu2].
  destruct (theta_bounds p (zl i - zm j) Hadm) as [Hl1 Hl2].
  rewrite !Rabs_mult. rewrite (Rabs_pos_eq (1 / 100)) by lra.
  rewrite (Rabs_minus_sym (P2 j)).
  assert (Ht : Rabs (theta p (zu i - zm j) - theta p (zl i - zm j)) <= theta_s p).
  { apply Rabs_le. lra. }
  assert (0 <= Rabs (P1 j - P2 j)) by apply Rabs_pos.
  assert (0 <= Rabs (theta p (zu i - zm j) - theta p (zl i - zm j))) by apply Rabs_pos.
  assert (0 <= eps) by lra.
  replace (eps * (theta_s p / 100)) with (1 / 100 * eps * theta_s p) by field.
  apply Rmult_le_compat; try nra.
Qed.

Lemma fold_layers_close : forall p P1 P2 i eps js,
  admissible p -> (forall j, In j js -> Rabs (P1 j - P2 j) <= eps) ->
  Rabs (fold_right Rplus 0 (map (layer p P1 i) js) - fold_right Rplus 0 (map (layer p P2 i) js))
  <= INR (length js) * (eps * (theta_s p / 100)).
Proof.
  intros p P1 P2 i eps js Hadm. induction js as [|j t IH]; intros H.
  - simpl. rewrite Rminus_0_r, Rabs_R0. lra.
  - cbn [map fold_right length]. rewrite S_INR.
    replace (layer p P1 i j + fold_right Rplus 0 (map (layer p P1 i) t)
             - (layer p P2 i j + fold_right Rplus 0 (map (layer p P2 i) t)))
      with ((layer p P1 i j - layer p P2 i j)
            + (fold_right Rplus 0 (map (layer p P1 i) t) - fold_right Rplus 0 (map (layer p P2 i) t))) by ring.
    eapply Rle_trans; [apply Rabs_triang|].
    assert (H1 := layer_close p P1 P2 i j eps Hadm (H j (or_introl eq_refl))).
    assert (H2 := IH (fun j' Hj => H j' (or_intror Hj))).
    lra.
Qed.

Lemma layers_length : forall N, length (layers N) = N.
Proof. intros. unfold layers. now rewrite map_length, seq_length. Qed.

(** If two tables of cdf values agree within eps on the layers and at the
    level itself, the knot values agree within eps (1 + N theta_s). *)
Theorem sy_knot_with_close : forall p P1 P2 N i eps,
  admissible p -> (forall j, In j (layers N) -> Rabs (P1 j - P2 j) <= eps) ->
  Rabs (P1 i - P2 i) <= eps ->
  Rabs (sy_knot_with p P1 N i - sy_knot_with p P2 N i) <= eps * (1 + INR N * theta_s p).
Proof.
  intros p P1 P2 N i eps Hadm Hl Hi. unfold sy_knot_with, sy_soil.
  rewrite !sum_layers_fold, dz_const.
  replace (1 / (1 * (1 / 100)) * (0 + fold_right Rplus 0 (map (layer p P1 i) (layers N))) + P1 i -
           (1 / (1 * (1 / 100)) * (0 + fold_right Rplus 0 (map (layer p P2 i) (layers N))) + P2 i))
    with (100 * (fold_right Rplus 0 (map (layer p P1 i) (layers N))
                 - fold_right Rplus 0 (map (layer p P2 i) (layers N))) + (P1 i - P2 i)) by field.
  eapply Rle_trans; [apply Rabs_triang|].
  rewrite Rabs_mult, (Rabs_pos_eq 100) by lra.
  assert (H := fold_layers_close p P1 P2 i eps (layers N) Hadm Hl).
  rewrite layers_length in H.
  replace (eps * (1 + INR N * theta_s p)) with (100 * (INR N * (eps * (theta_s p / 100))) + eps) by field.
  lra.
Qed.

(** * Enclosure of the loop from enclosures of the layers (used by the case files) *)

Lemma sum_layers_enclosure : forall p Phi i js bs A lo hi,
  Forall2 (fun j b => fst b <= layer p Phi i j <= snd b) js bs ->
  lo <= A <= hi ->
  lo + fold_right Rplus 0 (map fst bs) <= sum_layers p Phi i js A
    <= hi + fold_right Rplus 0 (map snd bs).
Proof.
  intros p Phi i js bs A lo hi H. revert A lo hi.
  induction H as [|j b js bs Hjb H IH]; intros A lo hi HA; simpl.
  - lra.
  - specialize (IH (A + layer p Phi i j) (lo + fst b) (hi + snd b) ltac:(lra)). lra.
Qed.

(** * The R reference sums 200 layers, the Python code 201 *)

Lemma layers_S : forall N, layers (S N) = layers N ++ [Z.of_nat N].
Proof. intros N. unfold layers. rewrite seq_S, map_app. reflexivity. Qed.

Lemma sy_knot_with_S : forall p Phi N i,
  sy_knot_with p Phi (S N) i - sy_knot_with p Phi N i = 100 * layer p Phi i (Z.of_nat N).
Proof.
  intros p Phi N i. unfold sy_knot_with, sy_soil. rewrite !sum_layers_fold, layers_S, map_app, dz_const.
  rewrite fold_right_app. simpl fold_right at 2.
  assert (E : forall l a, fold_right Rplus a l = a + fold_right Rplus 0 l).
  { induction l as [|x l IHl]; intros a; simpl; [ring|rewrite IHl; ring]. }
  rewrite E. field.
Qed.

(** General bound: the extra (201st) layer contributes at most
    theta_s |1 - F_s(top layer)|. *)
Theorem py_vs_R_general : forall p Phi i,
  admissible p ->
  Rabs (sy_knot_with p Phi 201 i - sy_knot_with p Phi 200 i) <= theta_s p * Rabs (1 - Phi 200%Z).
Proof.
  intros p Phi i Hadm.
  change 201%nat with (S 200). rewrite sy_knot_with_S. change (Z.of_nat 200) with 200%Z.
  unfold layer, campbell. rewrite dz_const.
  destruct (theta_bounds p (zu i - zm 200) Hadm) as [Hu1 Hu2].
  destruct (theta_bounds p (zl i - zm 200) Hadm) as [Hl1 Hl2].
  replace (100 * (1 / 100 * ((1 - Phi 200%Z) * theta p (zu i - zm 200) - (1 - Phi 200%Z) * theta p (zl i - zm 200))))
    with ((theta p (zu i - zm 200) - theta p (zl i - zm 200)) * (1 - Phi 200%Z)) by field.
  rewrite Rabs_mult. apply Rmult_le_compat_r; [apply Rabs_pos|]. apply Rabs_le. lra.
Qed.

(** * The spline through the knots: linear in between, constant beyond *)

Lemma last_cons_default : forall (A : Type) (l : list A) (a d : A), last (a :: l) d = last l a.
Proof.
  intros A. induction l as [|c l IH]; intros a d; [reflexivity|].
  change (last (a :: c :: l) d) with (last (c :: l) d). rewrite (IH c d), (IH c a). reflexivity.
Qed.

Lemma increasing_from_le_last : forall t a c, increasing_from a t -> a <= fst (last t (a, c)).
Proof.
  induction t as [|[e f] t IH]; intros a c H; [simpl; lra|].
  destruct H as [H1 H2]. rewrite last_cons_default. specialize (IH e f H2). lra.
Qed.

Lemma pl_above_last : forall rest x0 y0 x,
  increasing_from x0 rest -> fst (last rest (x0, y0)) <= x ->
  pl_above x0 y0 rest x = snd (last rest (x0, y0)).
Proof.
  induction rest as [|[x1 y1] t IH]; intros x0 y0 x Hinc Hx.
  - reflexivity.
  - destruct Hinc as [H01 Hinc]. rewrite last_cons_default in *.
    assert (Hge := increasing_from_le_last t x1 y1 Hinc).
    simpl pl_above. destruct (Rle_dec x x1) as [L|L].
    + assert (x = x1) by lra. subst x.
      destruct t as [|[a c] t'].
      * simpl. field. lra.
      * exfalso. destruct Hinc as [H1 H2]. rewrite last_cons_default in *.
        assert (H3 := increasing_from_le_last t' a c H2). lra.
    + apply IH; assumption.
Qed.

Lemma pl_interp_below_first : forall x0 y0 rest x, x <= x0 -> pl_interp ((x0, y0) :: rest) x = y0.
Proof. intros. simpl. destruct (Rle_dec x x0); [reflexivity|lra]. Qed.

Lemma pl_interp_above_last : forall x0 y0 rest x,
  increasing ((x0, y0) :: rest) -> fst (last rest (x0, y0)) <= x ->
  pl_interp ((x0, y0) :: rest) x = snd (last rest (x0, y0)).
Proof.
  intros x0 y0 rest x Hinc Hx. simpl in Hinc. simpl.
  assert (Hge := increasing_from_le_last rest x0 y0 Hinc).
  destruct (Rle_dec x x0) as [L|L].
  - destruct rest as [|[x1 y1] t]; [reflexivity|].
    exfalso. destruct Hinc as [H1 H2]. rewrite last_cons_default in *.
    assert (H3 := increasing_from_le_last t x1 y1 H2). lra.
  - now apply pl_above_last.
Qed.

(** knot abscissae: -995 + 10 i mm, strictly increasing *)
Lemma knot_mm_val : forall i, knot_mm i = -995 + 10 * IZR i.
Proof. intros. unfold knot_mm, zm, zl, zu. field. Qed.

Lemma increasing_from_map_seq : forall (f : Z -> R) n a x0,
  (forall k, (a <= k)%nat -> IZR (Z.of_nat k) = INR k) ->
  x0 < -995 + 10 * INR a ->
  increasing_from x0 (map (fun i => (knot_mm i, f i)) (map Z.of_nat (seq a n))).
Proof.
  intros f. induction n as [|n IH]; intros a x0 Hc Hx; simpl; [exact I|].
  split.
  - rewrite knot_mm_val, Hc by lia. exact Hx.
  - apply IH.
    + intros k Hk. apply Hc. lia.
    + rewrite knot_mm_val, Hc by lia. rewrite S_INR. lra.
Qed.

Lemma sy_points_increasing : forall p, increasing (sy_points p).
Proof.
  intros p. unfold sy_points, layers.
  change (seq 0 201) with (0%nat :: seq 1 200). cbn [map increasing].
  apply increasing_from_map_seq.
  - intros k _. now rewrite <- INR_IZR_INZ.
  - rewrite knot_mm_val. simpl. lra.
Qed.

Theorem sy_peat_constant_below : forall p zeta, zeta <= -995 -> sy_peat p zeta = sy_knot p 201 0.
Proof.
  intros p zeta H. unfold sy_peat, sy_points, layers.
  change (seq 0 201) with (0%nat :: seq 1 200). cbn [map].
  apply pl_interp_below_first. rewrite knot_mm_val. simpl. lra.
Qed.

Lemma last_map_default : forall (A B : Type) (f : A -> B) l d, last (map f l) (f d) = f (last l d).
Proof. intros A B f. induction l as [|a [|c l] IH]; intros d; try reflexivity. apply (IH d). Qed.

Theorem sy_peat_constant_above : forall p zeta, 1005 <= zeta -> sy_peat p zeta = sy_knot p 201 200.
Proof.
  intros p zeta H. unfold sy_peat.
  assert (Hinc := sy_points_increasing p).
  unfold sy_points, layers in *.
  change (seq 0 201) with (0%nat :: seq 1 200) in *. cbn [map] in *.
  rewrite pl_interp_above_last; [|exact Hinc|].
  - rewrite (last_map_default Z (R * R) (fun i => (knot_mm i, sy_knot p 201 i))).
    rewrite (last_map_default nat Z Z.of_nat). reflexivity.
  - rewrite (last_map_default Z (R * R) (fun i => (knot_mm i, sy_knot p 201 i))).
    rewrite (last_map_default nat Z Z.of_nat).
    replace (last (seq 1 200) 0%nat) with 200%nat by reflexivity.
    cbn [fst]. rewrite knot_mm_val. simpl. lra.
Qed.

Theorem sy_peat_linear_between : forall p (i : nat) zeta,
  (i < 200)%nat ->
  knot_mm (Z.of_nat i) <= zeta <= knot_mm (Z.of_nat (S i)) ->
  sy_peat p zeta
  = sy_knot p 201 (Z.of_nat i)
    + (sy_knot p 201 (Z.of_nat (S i)) - sy_knot p 201 (Z.of_nat i))
      / (knot_mm (Z.of_nat (S i)) - knot_mm (Z.of_nat i)) * (zeta - knot_mm (Z.of_nat i)).
Proof.
  intros p i zeta Hi Hz. unfold sy_peat.
  assert (Hinc := sy_points_increasing p).
  assert (Hsplit : sy_points p
     = map (fun i => (knot_mm i, sy_knot p 201 i)) (map Z.of_nat (seq 0 i))
       ++ (knot_mm (Z.of_nat i), sy_knot p 201 (Z.of_nat i))
       :: (knot_mm (Z.of_nat (S i)), sy_knot p 201 (Z.of_nat (S i)))
       :: map (fun i => (knot_mm i, sy_knot p 201 i)) (map Z.of_nat (seq (S (S i)) (199 - i)))).
  { unfold sy_points, layers.
    replace 201%nat with (i + (2 + (199 - i)))%nat by lia.
    rewrite seq_app, !map_app. f_equal. }
  rewrite Hsplit in *.
  apply pl_interp_segment; assumption.
Qed.

(** * Transmissivity *)

Theorem T_peat_below_ceiling : forall Ks alpha zmax zeta,
  zeta / 10 < zmax -> T_peat Ks alpha zmax zeta = Ok (Some (T_formula Ks alpha zmax zeta)).
Proof.
  intros Ks alpha zmax zeta H. unfold T_peat.
  destruct (Rlt_dec zmax (zeta / 10)) as [L|L]; [lra|].
  destruct (Req_EM_T (zeta / 10) zmax) as [E|E]; [lra|reflexivity].
Qed.

Theorem T_peat_refused_iff : forall Ks alpha zmax zeta,
  T_peat Ks alpha zmax zeta = Err EValue <-> zmax < zeta / 10.
Proof.
  intros Ks alpha zmax zeta. unfold T_peat.
  destruct (Rlt_dec zmax (zeta / 10)) as [L|L].
  - tauto.
  - destruct (Req_EM_T (zeta / 10) zmax); split; intros H; try discriminate; lra.
Qed.

Theorem T_peat_never_other_error : forall Ks alpha zmax zeta e,
  T_peat Ks alpha zmax zeta = Err e -> e = EValue.
Proof.
  intros Ks alpha zmax zeta e. unfold T_peat.
  destruct (Rlt_dec zmax (zeta / 10)); [intros H; now injection H as <-|].
  destruct (Req_EM_T (zeta / 10) zmax); discriminate.
Qed.

Theorem T_formula_positive : forall Ks alpha zmax zeta,
  0 < Ks -> 1 < alpha -> 0 < T_formula Ks alpha zmax zeta.
Proof.
  intros Ks alpha zmax zeta HK Ha. unfold T_formula.
  apply Rdiv_lt_0_compat; [|lra].
  apply Rmult_lt_0_compat; [assumption|]. unfold Rpower. apply exp_pos.
Qed.

(** For alpha > 1 the transmissivity grows as the water level rises towards the ceiling. *)
Theorem T_formula_increasing : forall Ks alpha zmax z1 z2,
  0 < Ks -> 1 < alpha -> z1 < z2 -> z2 / 10 < zmax ->
  T_formula Ks alpha zmax z1 < T_formula Ks alpha zmax z2.
Proof.
  intros Ks alpha zmax z1 z2 HK Ha H12 Hc. unfold T_formula.
  apply Rmult_lt_compat_r; [apply Rinv_0_lt_compat; lra|].
  apply Rmult_lt_compat_l; [assumption|].
  unfold Rpower. apply exp_increasing.
  assert (Hln : ln (zmax - z2 / 10) < ln (zmax - z1 / 10)) by (apply ln_increasing; lra).
  nra.
Qed.

(** The R reference formula is the Python one with zeta_max = 1 cm and the
    level converted from metres to millimetres. *)
Theorem T_R_is_T_formula : forall Ks alpha z_m, T_R Ks alpha z_m = T_formula Ks alpha 1 (1000 * z_m).
Proof.
  intros. unfold T_R, T_formula. replace (1 - 1000 * z_m / 10) with (1 - z_m * 100) by field. reflexivity.
Qed.

Theorem T_peat_array_ok_iff : forall Ks alpha zmax zs vs,
  T_peat_array Ks alpha zmax zs = Ok vs <-> Forall2 (fun z v => T_peat Ks alpha zmax z = Ok v) zs vs.
Proof.
  intros Ks alpha zmax. induction zs as [|z t IH]; intros vs; simpl.
  - split; intros H; [injection H as <-; constructor|inversion H; reflexivity].
  - destruct (T_peat Ks alpha zmax z) as [v|e] eqn:E; simpl.
    + fold (T_peat_array Ks alpha zmax t). destruct (T_peat_array Ks alpha zmax t) as [ws|e'] eqn:A; simpl.
      * split.
        -- intros H. injection H as <-. constructor; [exact E|]. now apply IH.
        -- intros H. inversion H as [|z' v' t' vs' H1 H2]; subst.
           rewrite E in H1. injection H1 as ->. apply IH in H2. now injection H2 as ->.
      * split; [discriminate|].
        intros H. inversion H as [|z' v' t' vs' H1 H2]; subst. apply IH in H2. discriminate.
    + split; [discriminate|].
      intros H. inversion H as [|z' v' t' vs' H1 H2]; subst. rewrite E in H1. discriminate.
Qed.

(** * The normal cdf: additivity used to certify tables of its values *)

Lemma sqrt_2PI_pos : 0 < sqrt (2 * PI).
Proof. apply sqrt_lt_R0. assert (H := PI_RGT_0). lra. Qed.

Lemma gauss_continuous : forall t, continuous gauss t.
Proof.
  intros t. apply (@ex_derive_continuous R_AbsRing R_NormedModule).
  unfold gauss. auto_derive. assert (H := sqrt_2PI_pos). lra.
Qed.

Lemma gauss_ex_RInt : forall a b, ex_RInt gauss a b.
Proof.
  intros a b. apply (@ex_RInt_continuous R_CompleteNormedModule).
  intros z _. apply gauss_continuous.
Qed.

Lemma gauss_pos : forall t, 0 < gauss t.
Proof. intros t. unfold gauss. apply Rdiv_lt_0_compat; [apply exp_pos|apply sqrt_2PI_pos]. Qed.

Theorem Phi_std_step : forall a b, Phi_std b = Phi_std a + RInt gauss a b.
Proof.
  intros a b. unfold Phi_std.
  rewrite <- (RInt_Chasles gauss 0 a b) by apply gauss_ex_RInt.
  unfold plus; simpl. ring.
Qed.

Theorem Phi_std_monotone : forall a b, a <= b -> Phi_std a <= Phi_std b.
Proof.
  intros a b Hab. rewrite (Phi_std_step a b).
  assert (0 <= RInt gauss a b).
  { apply RInt_ge_0; [assumption|apply gauss_ex_RInt|]. intros x _. left. apply gauss_pos. }
  lra.
Qed.

(** * The enclosure argument of the generated case files, proved once *)

Lemma In_layers : forall N i, (0 <= i < Z.of_nat N)%Z -> In i (layers N).
Proof.
  intros N i H. unfold layers. apply in_map_iff. exists (Z.to_nat i). split.
  - apply Z2Nat.id. lia.
  - apply in_seq. lia.
Qed.

(** If [PhiT] is a table of the cdf values within [eps], every layer term
    computed with the table lies in its interval of [bs], and the two sums of
    interval ends (plus the surface term) are within [tol - eps (1 + N theta_s)]
    of [v], then the model's knot value is within [tol] of [v]. *)
Theorem knot_enclosure : forall p PhiT N i bs eps v tol,
  admissible p ->
  (0 <= i < Z.of_nat N)%Z ->
  (forall j, In j (layers N) -> Rabs (Fs p j - PhiT j) <= eps) ->
  Forall2 (fun j b => fst b <= layer p PhiT i j <= snd b) (layers N) bs ->
  v - tol + eps * (1 + IZR (Z.of_nat N) * theta_s p) <= 100 * fold_right Rplus 0 (map fst bs) + PhiT i
  /\ 100 * fold_right Rplus 0 (map snd bs) + PhiT i <= v + tol - eps * (1 + IZR (Z.of_nat N) * theta_s p) ->
  Rabs (sy_knot p N i - v) <= tol.
Proof.
  intros p PhiT N i bs eps v tol Hadm Hi Htab Hbs [Hlo Hhi].
  rewrite <- INR_IZR_INZ in Hlo, Hhi.
  assert (Hc := sy_knot_with_close p (Fs p) PhiT N i eps Hadm Htab (Htab i (In_layers N i Hi))).
  assert (He := sum_layers_enclosure p PhiT i (layers N) bs 0 0 0 Hbs ltac:(lra)).
  unfold sy_knot.
  assert (Hval : sy_knot_with p PhiT N i = 100 * sum_layers p PhiT i (layers N) 0 + PhiT i).
  { unfold sy_knot_with, sy_soil. rewrite dz_const. field. }
  apply Rabs_le_between in Hc. apply Rabs_le. rewrite Hval in Hc. lra.
Qed.

(** Saturated layers contribute nothing: when the layer's midpoint is at or
    below the lower water level plus the air-entry height, both Campbell
    evaluations return theta_s. *)
Lemma layer_saturated : forall p Phi i j,
  psi_s p * 100 <= (zl i - zm j) * 100 -> layer p Phi i j = 0.
Proof.
  intros p Phi i j H. unfold layer, campbell, theta.
  assert (Hu : psi_s p * 100 <= (zu i - zm j) * 100) by (unfold zu, zl in *; lra).
  destruct (Rle_dec (psi_s p * 100) ((zu i - zm j) * 100)) as [A|A]; [|lra].
  destruct (Rle_dec (psi_s p * 100) ((zl i - zm j) * 100)) as [B|B]; [|lra].
  ring.
Qed.

(** Layers above the capillary fringe of both water levels: closed expression. *)
Lemma layer_unsaturated : forall p Phi i j,
  ~ psi_s p * 100 <= (zu i - zm j) * 100 ->
  layer p Phi i j =
  dz j * ((1 - Phi j) * (theta_s p * Rpower ((zu i - zm j) * 100 / (psi_s p * 100)) (- 1 / b_shape p))
          - (1 - Phi j) * (theta_s p * Rpower ((zl i - zm j) * 100 / (psi_s p * 100)) (- 1 / b_shape p))).
Proof.
  intros p Phi i j H. unfold layer, campbell, theta.
  assert (Hl : ~ psi_s p * 100 <= (zl i - zm j) * 100) by (unfold zu, zl in *; lra).
  destruct (Rle_dec (psi_s p * 100) ((zu i - zm j) * 100)) as [A|A]; [lra|].
  destruct (Rle_dec (psi_s p * 100) ((zl i - zm j) * 100)) as [B|B]; [lra|].
  reflexivity.
Qed.

(** Same argument with an enclosure of the whole loop result (the case files
    build it from the per-layer enclosures by running partial sums). *)
Theorem knot_enclosure_sum : forall p PhiT N i lo hi eps v tol,
  admissible p ->
  (0 <= i < Z.of_nat N)%Z ->
  (forall j, In j (layers N) -> Rabs (Fs p j - PhiT j) <= eps) ->
  lo <= fold_right Rplus 0 (map (layer p PhiT i) (layers N)) <= hi ->
  v - tol + eps * (1 + IZR (Z.of_nat N) * theta_s p) <= 100 * lo + PhiT i
  /\ 100 * hi + PhiT i <= v + tol - eps * (1 + IZR (Z.of_nat N) * theta_s p) ->
  Rabs (sy_knot p N i - v) <= tol.
Proof.
  intros p PhiT N i lo hi eps v tol Hadm Hi Htab Hsum [Hlo Hhi].
  rewrite <- INR_IZR_INZ in Hlo, Hhi.
  assert (Hc := sy_knot_with_close p (Fs p) PhiT N i eps Hadm Htab (Htab i (In_layers N i Hi))).
  unfold sy_knot.
  assert (Hval : sy_knot_with p PhiT N i
                 = 100 * fold_right Rplus 0 (map (layer p PhiT i) (layers N)) + PhiT i).
  { unfold sy_knot_with, sy_soil. rewrite sum_layers_fold, dz_const. field. }
  apply Rabs_le_between in Hc. apply Rabs_le. rewrite Hval in Hc. lra.
Qed.

(** * Tabulated form: one table of Campbell values serves every level *)

Lemma layer_as_tab : forall p Phi i j, layer p Phi i j = layer_tab (theta_at p) Phi i j.
Proof.
  intros p Phi i j. unfold layer, layer_tab, campbell, theta_at.
  assert (E1 : zu i - zm j = IZR (i - j) / 100 + 1 / 200).
  { unfold zm, zu, zl. rewrite minus_IZR. field. }
  assert (E2 : zl i - zm j = IZR (i - j - 1) / 100 + 1 / 200).
  { unfold zm, zu, zl. rewrite !minus_IZR. field. }
  rewrite E1, E2. reflexivity.
Qed.

Lemma In_offsets : forall N k, (- Z.of_nat N <= k < Z.of_nat N)%Z -> In k (offsets N).
Proof.
  intros N k H. unfold offsets. apply in_map_iff. exists (Z.to_nat (k + Z.of_nat N)). split.
  - rewrite Z2Nat.id by lia. lia.
  - apply in_seq. lia.
Qed.

Lemma In_layers_inv : forall N j, In j (layers N) -> (0 <= j < Z.of_nat N)%Z.
Proof.
  intros N j H. unfold layers in H. apply in_map_iff in H. destruct H as (n & <- & Hn).
  apply in_seq in Hn. lia.
Qed.

Lemma layer_tab_close : forall Th1 Th2 Phi i j eta M,
  Rabs (Th1 (i - j)%Z - Th2 (i - j)%Z) <= eta ->
  Rabs (Th1 (i - j - 1)%Z - Th2 (i - j - 1)%Z) <= eta ->
  Rabs (1 - Phi j) <= M ->
  Rabs (layer_tab Th1 Phi i j - layer_tab Th2 Phi i j) <= 2 * eta * M / 100.
Proof.
  intros Th1 Th2 Phi i j eta M H1 H2 HM. unfold layer_tab. rewrite dz_const.
  replace (1 / 100 * ((1 - Phi j) * Th1 (i - j)%Z - (1 - Phi j) * Th1 (i - j - 1)%Z) -
           1 / 100 * ((1 - Phi j) * Th2 (i - j)%Z - (1 - Phi j) * Th2 (i - j - 1)%Z))
    with (1 / 100 * ((1 - Phi j) * ((Th1 (i - j)%Z - Th2 (i - j)%Z)
                                      - (Th1 (i - j - 1)%Z - Th2 (i - j - 1)%Z)))) by ring.
  rewrite !Rabs_mult, (Rabs_pos_eq (1 / 100)) by lra.
  assert (Hd : Rabs (Th1 (i - j)%Z - Th2 (i - j)%Z - (Th1 (i - j - 1)%Z - Th2 (i - j - 1)%Z)) <= 2 * eta).
  { eapply Rle_trans; [apply Rabs_triang|]. rewrite Rabs_Ropp. lra. }
  assert (0 <= Rabs (1 - Phi j)) by apply Rabs_pos.
  assert (0 <= Rabs (Th1 (i - j)%Z - Th2 (i - j)%Z - (Th1 (i - j - 1)%Z - Th2 (i - j - 1)%Z)))
    by apply Rabs_pos.
  assert (0 <= eta) by (assert (H3 := Rabs_pos (Th1 (i - j)%Z - Th2 (i - j)%Z)); lra).
  replace (2 * eta * M / 100) with (1 / 100 * (M * (2 * eta))) by field.
  apply Rmult_le_compat_l; [lra|]. apply Rmult_le_compat; lra.
Qed.

Lemma fold_layer_tab_close : forall Th1 Th2 Phi i eta M js,
  (forall j, In j js ->
     Rabs (Th1 (i - j)%Z - Th2 (i - j)%Z) <= eta /\
     Rabs (Th1 (i - j - 1)%Z - Th2 (i - j - 1)%Z) <= eta /\ Rabs (1 - Phi j) <= M) ->
  Rabs (fold_right Rplus 0 (map (layer_tab Th1 Phi i) js) - fold_right Rplus 0 (map (layer_tab Th2 Phi i) js))
  <= INR (length js) * (2 * eta * M / 100).
Proof.
  intros Th1 Th2 Phi i eta M. induction js as [|j t IH]; intros H.
  - simpl. rewrite Rminus_0_r, Rabs_R0. lra.
  - cbn [map fold_right length]. rewrite S_INR.
    replace (layer_tab Th1 Phi i j + fold_right Rplus 0 (map (layer_tab Th1 Phi i) t)
             - (layer_tab Th2 Phi i j + fold_right Rplus 0 (map (layer_tab Th2 Phi i) t)))
      with ((layer_tab Th1 Phi i j - layer_tab Th2 Phi i j)
            + (fold_right Rplus 0 (map (layer_tab Th1 Phi i) t)
               - fold_right Rplus 0 (map (layer_tab Th2 Phi i) t))) by ring.
    eapply Rle_trans; [apply Rabs_triang|].
    destruct (H j (or_introl eq_refl)) as (A & B & Cc).
    assert (H1 := layer_tab_close Th1 Th2 Phi i j eta M A B Cc).
    assert (H2 := IH (fun j' Hj => H j' (or_intror Hj))).
    lra.
Qed.

(** The enclosure argument of the case files: with a table [PhiT] of the cdf
    values within [eps] and a table [ThT] of the Campbell values within [eta]
    (and |1 - PhiT j| <= M), the model's knot value differs from the value
    computed with the two tables by at most eps (1 + N theta_s) + 2 N eta M. *)
Theorem knot_enclosure_tab : forall p PhiT ThT N i eps eta M v tol,
  admissible p ->
  (0 <= i < Z.of_nat N)%Z ->
  (forall j, In j (layers N) -> Rabs (Fs p j - PhiT j) <= eps) ->
  (forall j, In j (layers N) -> Rabs (1 - PhiT j) <= M) ->
  (forall k, In k (offsets N) -> Rabs (theta_at p k - ThT k) <= eta) ->
  Rabs (sy_knot_tab ThT PhiT N i - v)
    <= tol - eps * (1 + IZR (Z.of_nat N) * theta_s p) - 2 * IZR (Z.of_nat N) * eta * M ->
  Rabs (sy_knot p N i - v) <= tol.
Proof.
  intros p PhiT ThT N i eps eta M v tol Hadm Hi Hphi HM Hth Hv.
  rewrite <- !INR_IZR_INZ in Hv.
  assert (Hc := sy_knot_with_close p (Fs p) PhiT N i eps Hadm Hphi (Hphi i (In_layers N i Hi))).
  assert (Hval : sy_knot_with p PhiT N i = sy_knot_tab (theta_at p) PhiT N i).
  { unfold sy_knot_with, sy_soil, sy_knot_tab. rewrite sum_layers_fold, dz_const.
    rewrite (map_ext _ _ (layer_as_tab p PhiT i)). field. }
  assert (Ht : Rabs (sy_knot_tab (theta_at p) PhiT N i - sy_knot_tab ThT PhiT N i)
               <= 2 * INR N * eta * M).
  { unfold sy_knot_tab.
    replace (100 * fold_right Rplus 0 (map (layer_tab (theta_at p) PhiT i) (layers N)) + PhiT i -
             (100 * fold_right Rplus 0 (map (layer_tab ThT PhiT i) (layers N)) + PhiT i))
      with (100 * (fold_right Rplus 0 (map (layer_tab (theta_at p) PhiT i) (layers N))
                   - fold_right Rplus 0 (map (layer_tab ThT PhiT i) (layers N)))) by ring.
    rewrite Rabs_mult, (Rabs_pos_eq 100) by lra.
    assert (Hf := fold_layer_tab_close (theta_at p) ThT PhiT i eta M (layers N)).
    rewrite layers_length in Hf.
    assert (Hpre : forall j, In j (layers N) ->
       Rabs (theta_at p (i - j)%Z - ThT (i - j)%Z) <= eta /\
       Rabs (theta_at p (i - j - 1)%Z - ThT (i - j - 1)%Z) <= eta /\ Rabs (1 - PhiT j) <= M).
    { intros j Hj. assert (Hr := In_layers_inv N j Hj). repeat split.
      - apply Hth. apply In_offsets. lia.
      - apply Hth. apply In_offsets. lia.
      - now apply HM. }
    specialize (Hf Hpre). lra. }
  unfold sy_knot. rewrite Hval in Hc.
  apply Rabs_le_between in Hc. apply Rabs_le_between in Ht. apply Rabs_le_between in Hv.
  apply Rabs_le. lra.
Qed.

(** * Exact rational evaluation of the tabulated form *)

Lemma Q2R_Qred : forall q, Q2R (Qred q) = Q2R q.
Proof. intros q. apply Qeq_eqR. apply Qred_correct. Qed.

Lemma Q2R_sumQ : forall l, Q2R (sumQ l) = fold_right Rplus 0 (map Q2R l).
Proof.
  induction l as [|x l IH].
  - unfold Q2R; simpl. lra.
  - change (sumQ (x :: l)) with (Qred (x + sumQ l)).
    rewrite Q2R_Qred, Q2R_plus, IH. reflexivity.
Qed.

Lemma Q2R_1_100 : Q2R (1 # 100) = 1 / 100.
Proof. unfold Q2R; simpl. lra. Qed.

Lemma Q2R_one : Q2R 1 = 1.
Proof. unfold Q2R; simpl. lra. Qed.

Lemma Q2R_inject_Z : forall z, Q2R (inject_Z z) = IZR z.
Proof. intros z. unfold Q2R, inject_Z; simpl. lra. Qed.

Lemma Q2R_layer_tabQ : forall Th Phi i j,
  Q2R (layer_tabQ Th Phi i j) = layer_tab (fun k => Q2R (Th k)) (fun j => Q2R (Phi j)) i j.
Proof.
  intros Th Phi i j. unfold layer_tabQ, layer_tab.
  rewrite Q2R_Qred, Q2R_mult, Q2R_minus, !Q2R_mult, !Q2R_minus, Q2R_1_100, Q2R_one, dz_const.
  reflexivity.
Qed.

Lemma Q2R_sy_knot_tabQ : forall Th Phi N i,
  Q2R (sy_knot_tabQ Th Phi N i) = sy_knot_tab (fun k => Q2R (Th k)) (fun j => Q2R (Phi j)) N i.
Proof.
  intros Th Phi N i. unfold sy_knot_tabQ, sy_knot_tab.
  rewrite Q2R_plus, Q2R_mult, Q2R_sumQ, map_map.
  rewrite (map_ext _ _ (Q2R_layer_tabQ Th Phi i)).
  replace (Q2R 100) with 100 by (unfold Q2R; simpl; lra).
  reflexivity.
Qed.

(** The acceptance test of the case files is sound. *)
Theorem knot_enclosure_Q : forall p PhiQ ThQ N i eps eta M ths v tol,
  admissible p ->
  (0 <= i < Z.of_nat N)%Z ->
  (forall j, In j (layers N) -> Rabs (Fs p j - Q2R (PhiQ j)) <= Q2R eps) ->
  (forall j, In j (layers N) -> Rabs (1 - Q2R (PhiQ j)) <= Q2R M) ->
  (forall k, In k (offsets N) -> Rabs (theta_at p k - Q2R (ThQ k)) <= Q2R eta) ->
  theta_s p = Q2R ths ->
  knot_checkQ ThQ PhiQ N i eps eta M ths v tol = true ->
  Rabs (sy_knot p N i - Q2R v) <= Q2R tol.
Proof.
  intros p PhiQ ThQ N i eps eta M ths v tol Hadm Hi Hphi HM Hth Hths Hchk.
  unfold knot_checkQ in Hchk. apply andb_prop in Hchk. destruct Hchk as [H1 H2].
  apply Qle_bool_imp_le, Qle_Rle in H1. apply Qle_bool_imp_le, Qle_Rle in H2.
  rewrite !Q2R_minus, !Q2R_mult, Q2R_plus, !Q2R_mult, !Q2R_inject_Z, Q2R_one in H1, H2.
  replace (Q2R 2) with 2 in H1, H2 by (unfold Q2R; simpl; lra).
  rewrite Q2R_sy_knot_tabQ in H1, H2. rewrite <- Hths in H1, H2.
  apply (knot_enclosure_tab p (fun j => Q2R (PhiQ j)) (fun k => Q2R (ThQ k)) N i
           (Q2R eps) (Q2R eta) (Q2R M) (Q2R v) (Q2R tol)); try assumption.
  apply Rabs_le. lra.
Qed.
