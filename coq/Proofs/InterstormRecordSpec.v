(** C04, first sentence stated on the record itself rather than on the flags:
    (a, b) is a recorded interstorm interval iff it has at least two samples,
    every sample of it is rain-free, preceded by rain in the same stretch and
    quiet since that rain, and it cannot be extended by one sample on either
    side (maximality); "every stretch meeting these conditions is recorded" is
    the right-to-left direction. *)
From Spowtd Require Import Model.Mystery Proofs.RunsSpec Proofs.MysterySpec.
From Coq Require Import Lia.

(** What the property asks of a single sample. *)
Definition clean_sample (jump rain : list bool) (i : nat) : Prop :=
  nth i rain false = false /\
  exists r, r < i /\ nth r rain false = true /\ quiet jump rain r i.

Lemma flag_false_iff_not_clean jump rain i :
  length jump = length rain -> i < length rain ->
  (nth i (interstorm_flags jump rain) false = false <-> ~ clean_sample jump rain i).
Proof.
  intros Hlen Hi. pose proof (interstorm_char jump rain i Hlen Hi) as Hc. fold (clean_sample jump rain i) in Hc.
  destruct (nth i (interstorm_flags jump rain) false); split; intros H.
  - discriminate.
  - exfalso. apply H. apply Hc. reflexivity.
  - intros Hcl. apply Hc in Hcl. discriminate.
  - reflexivity.
Qed.

Theorem interstorm_intervals_on_the_record jump rain a b :
  length jump = length rain ->
  (In (a, b) (interstorm_intervals jump rain) <->
   a < b /\ b < length rain /\
   (forall i, a <= i -> i <= b -> clean_sample jump rain i) /\
   (a = 0 \/ ~ clean_sample jump rain (a - 1)) /\
   (S b = length rain \/ ~ clean_sample jump rain (S b))).
Proof.
  intros Hlen. rewrite interstorm_intervals_exact. unfold is_run.
  rewrite (interstorm_flags_length jump rain Hlen). split.
  - intros (Hab & _ & Hle & Hall & Hleft & Hright).
    split; [exact Hab|]. split; [lia|]. split; [|split].
    + intros i H1 H2. apply (interstorm_char jump rain i Hlen); [lia|]. apply Hall; lia.
    + destruct Hleft as [H0|Hf]; [left; exact H0|].
      destruct (Nat.eq_dec a 0) as [H0|Hn]; [left; exact H0|right].
      apply (flag_false_iff_not_clean jump rain (a - 1) Hlen); [lia|exact Hf].
    + destruct Hright as [He|Hf]; [left; exact He|].
      destruct (Nat.eq_dec (S b) (length rain)) as [He|Hn]; [left; exact He|right].
      apply (flag_false_iff_not_clean jump rain (S b) Hlen); [lia|exact Hf].
  - intros (Hab & Hb & Hall & Hleft & Hright).
    split; [exact Hab|]. split; [lia|]. split; [lia|]. split; [|split].
    + intros i H1 H2. apply (interstorm_char jump rain i Hlen); [lia|]. apply Hall; lia.
    + destruct Hleft as [H0|Hf]; [left; exact H0|].
      destruct (Nat.eq_dec a 0) as [H0|Hn]; [left; exact H0|right].
      apply (flag_false_iff_not_clean jump rain (a - 1) Hlen); [lia|exact Hf].
    + destruct Hright as [He|Hf]; [left; exact He|].
      destruct (Nat.eq_dec (S b) (length rain)) as [He|Hn]; [left; exact He|right].
      apply (flag_false_iff_not_clean jump rain (S b) Hlen); [lia|exact Hf].
Qed.

(** Consequences the property names one by one. *)
Corollary interval_has_rain_before_and_none_inside jump rain a b :
  length jump = length rain -> In (a, b) (interstorm_intervals jump rain) ->
  (forall i, a <= i -> i <= b -> nth i rain false = false) /\
  (exists r, r < a /\ nth r rain false = true /\ quiet jump rain r b).
Proof.
  intros Hlen Hin. apply (interstorm_intervals_on_the_record jump rain a b Hlen) in Hin.
  destruct Hin as (Hab & Hb & Hall & _). split.
  - intros i H1 H2. apply (Hall i H1 H2).
  - destruct (Hall b) as (_ & r & Hr & Hrain & Hq); [lia|lia|].
    exists r. split; [|split; [exact Hrain|exact Hq]].
    destruct (Nat.lt_ge_cases r a) as [Hlt|Hge]; [exact Hlt|].
    exfalso. destruct (Hall r Hge) as (Hdry & _); [lia|]. rewrite Hrain in Hdry. discriminate.
Qed.
