(** Time zones as transition tables: what [ideal_localize] (the specification
    of pytz's localize(dt, is_dst=False)) returns, for EVERY table — no
    well-formedness of the table is needed — and the round trip
    text -> fields -> local seconds -> UTC instant -> local seconds -> text. *)
From Spowtd Require Import Model.TimeZone Proofs.CalendarSpec.
From Coq Require Import Lia String.
Local Open Scope Z_scope.

(** ** The rule in force is one of the zone's rules *)

Lemma info_at_from_in : forall tr cur e,
  info_at_from cur tr e = cur \/ In (info_at_from cur tr e) (map snd tr).
Proof.
  induction tr as [|[t i] rest IH]; intros cur e; simpl; [left; reflexivity|].
  destruct (t <=? e); [|left; reflexivity].
  destruct (IH i e) as [H|H]; right; [left; symmetry; exact H|right; exact H].
Qed.

Lemma info_at_in : forall z e, In (info_at z e) (infos z).
Proof.
  intros z e. unfold info_at, infos.
  destruct (info_at_from_in (z_trans z) (z_first z) e) as [H|H]; [left; symmetry; exact H|right; exact H].
Qed.

(** ** Candidates = exactly the instants whose local reading is the given one *)

Lemma mem_Z_iff : forall x l, mem_Z x l = true <-> In x l.
Proof.
  intros x l. induction l as [|y t IH]; simpl; [split; [discriminate|tauto]|].
  rewrite orb_true_iff, Z.eqb_eq, IH. split; intros [H|H]; auto.
Qed.

Lemma dedup_In : forall l x, In x (dedup l) <-> In x l.
Proof.
  induction l as [|a t IH]; intros x; simpl; [tauto|].
  destruct (mem_Z a t) eqn:M.
  - rewrite IH. split; [tauto|]. intros [<-|H]; [apply mem_Z_iff; exact M|exact H].
  - simpl. rewrite IH. tauto.
Qed.

Theorem candidates_spec : forall z lt e, In e (candidates z lt) <-> local_of z e = lt.
Proof.
  intros z lt e. unfold candidates. rewrite filter_In, Z.eqb_eq. split; [tauto|].
  intros H. split; [|exact H]. apply in_map_iff. exists (tt_off (info_at z e)).
  split; [unfold local_of in H; lia|]. unfold offsets. apply dedup_In. apply in_map. apply info_at_in.
Qed.

Lemma zmax_list_in : forall l a, In (zmax_list a l) (a :: l).
Proof.
  induction l as [|b t IH]; intros a; simpl; [left; reflexivity|].
  destruct (Z.max_spec a b) as [[_ E]|[_ E]]; rewrite E.
  - destruct (IH b) as [H|H]; [right; left; exact H|right; right; exact H].
  - destruct (IH a) as [H|H]; [left; exact H|right; right; exact H].
Qed.

Lemma zmax_list_ge : forall l a x, In x (a :: l) -> x <= zmax_list a l.
Proof.
  induction l as [|b t IH]; intros a x H; simpl.
  - destruct H as [H|[]]. lia.
  - pose proof (IH (Z.max a b) (Z.max a b) (or_introl eq_refl)) as M.
    destruct H as [H|[H|H]]; [lia|lia|]. apply IH. right. exact H.
Qed.

Definition is_std (z : zone) (e : Z) : bool := negb (tt_dst (info_at z e)).

(** What localize answers when it answers: an instant whose local reading is
    the given one; on standard time if any such instant is; and the latest of
    those with the same daylight-saving status. *)
Theorem ideal_localize_spec : forall z lt e, ideal_localize z lt = Some e ->
  local_of z e = lt /\
  forall e', local_of z e' = lt ->
    (tt_dst (info_at z e') = false -> tt_dst (info_at z e) = false) /\
    (tt_dst (info_at z e') = tt_dst (info_at z e) -> e' <= e).
Proof.
  intros z lt e H. unfold ideal_localize in H.
  set (c := candidates z lt) in *.
  change (filter (fun e0 => negb (tt_dst (info_at z e0))) c) with (filter (is_std z) c) in H.
  destruct (filter (is_std z) c) as [|s0 sr] eqn:Es.
  - (* no candidate on standard time *)
    destruct c as [|c0 cr] eqn:Ec; [discriminate|]. inversion H; subst e. clear H.
    assert (Hin : In (zmax_list c0 cr) c) by (rewrite Ec; apply zmax_list_in).
    split; [apply candidates_spec; exact Hin|].
    intros e' He'. apply candidates_spec in He'. fold c in He'.
    split.
    + intros Hstd. exfalso.
      assert (Hf : In e' (filter (is_std z) c)) by (apply filter_In; split; [exact He'|unfold is_std; rewrite Hstd; reflexivity]).
      rewrite Ec in Hf. rewrite Es in Hf. destruct Hf.
    + intros _. apply zmax_list_ge. rewrite <- Ec. exact He'.
  - inversion H; subst e. clear H.
    assert (Hin : In (zmax_list s0 sr) (filter (is_std z) c)) by (rewrite Es; apply zmax_list_in).
    apply filter_In in Hin. destruct Hin as [Hc Hstd]. unfold is_std in Hstd. apply negb_true_iff in Hstd.
    split; [apply candidates_spec; exact Hc|].
    intros e' He'. apply candidates_spec in He'. fold c in He'.
    split; [intros _; exact Hstd|].
    intros Hsame. apply zmax_list_ge. rewrite <- Es. apply filter_In. split; [exact He'|].
    unfold is_std. rewrite Hsame, Hstd. reflexivity.
Qed.

(** localize has no answer exactly when no instant has that local reading
    (the reading was skipped by a forward transition). *)
Theorem ideal_localize_none : forall z lt,
  ideal_localize z lt = None <-> forall e, local_of z e <> lt.
Proof.
  intros z lt. unfold ideal_localize. set (c := candidates z lt).
  destruct (filter (fun e => negb (tt_dst (info_at z e))) c) as [|s0 sr] eqn:Es.
  - destruct c as [|c0 cr] eqn:Ec.
    + split; [|reflexivity]. intros _ e He. apply candidates_spec in He. fold c in He. rewrite Ec in He. destruct He.
    + split; [discriminate|]. intros H. exfalso. apply (H c0). apply candidates_spec. fold c. rewrite Ec. left. reflexivity.
  - split; [discriminate|]. intros H. exfalso.
    assert (Hin : In s0 (filter (fun e => negb (tt_dst (info_at z e))) c)) by (rewrite Es; left; reflexivity).
    apply filter_In in Hin. destruct Hin as [Hc _]. apply (H s0). apply candidates_spec. exact Hc.
Qed.

Corollary ideal_localize_some_iff : forall z lt,
  (exists e, ideal_localize z lt = Some e) <-> exists e, local_of z e = lt.
Proof.
  intros z lt. split.
  - intros [e H]. exists e. apply (ideal_localize_spec z lt e H).
  - intros [e H]. destruct (ideal_localize z lt) as [e0|] eqn:E; [exists e0; reflexivity|].
    exfalso. apply (proj1 (ideal_localize_none z lt) E e H).
Qed.

(** An unambiguous local time is converted to the one instant it denotes. *)
Corollary ideal_localize_unique : forall z lt e,
  local_of z e = lt -> (forall e', local_of z e' = lt -> e' = e) -> ideal_localize z lt = Some e.
Proof.
  intros z lt e He Hu. destruct (proj2 (ideal_localize_some_iff z lt) (ex_intro _ e He)) as [e0 E0].
  rewrite E0. f_equal. apply Hu. apply (ideal_localize_spec z lt e0 E0).
Qed.

(** ** Fixed-offset zones *)

Definition fixed_zone (off : Z) (dst : bool) : zone :=
  {| z_first := {| tt_off := off; tt_dst := dst |}; z_trans := [] |}.

Lemma fixed_local_of : forall off dst e, local_of (fixed_zone off dst) e = e + off.
Proof. reflexivity. Qed.

Theorem fixed_localize : forall off dst lt, ideal_localize (fixed_zone off dst) lt = Some (lt - off).
Proof.
  intros off dst lt. apply ideal_localize_unique.
  - rewrite fixed_local_of. lia.
  - intros e'. rewrite fixed_local_of. lia.
Qed.

(** ** The conversion of a text *)

(** THE round trip: whenever a text is stamped as an existing local time, the
    stored instant, rendered in the zone, is the original text — for every
    zone table whatsoever. *)
Theorem stamp_roundtrip : forall z s e, stamp z s = Stamp e -> render_text z e = s.
Proof.
  intros z s e H. unfold stamp in H.
  destruct (parse_datetime s) as [c|] eqn:P; [|discriminate].
  destruct (ideal_localize z (local_secs c)) as [e0|] eqn:L.
  - inversion H; subst e0. destruct (ideal_localize_spec _ _ _ L) as [Hl _].
    destruct (parse_render _ _ P) as [Hr Hv].
    unfold render_text. rewrite Hl, (civil_of_local_secs c Hv). exact Hr.
  - destruct (localize_back back_fuel z (local_secs c)); discriminate.
Qed.

(** Every text that parses and denotes an existing local time IS stamped (so
    the round trip above applies to it), with the instant chosen as pytz
    documents for is_dst=False. *)
Theorem stamp_existing : forall z s c, parse_datetime s = Some c ->
  (exists e, local_of z e = local_secs c) ->
  exists e, stamp z s = Stamp e /\ local_of z e = local_secs c /\
    forall e', local_of z e' = local_secs c ->
      (tt_dst (info_at z e') = false -> tt_dst (info_at z e) = false) /\
      (tt_dst (info_at z e') = tt_dst (info_at z e) -> e' <= e).
Proof.
  intros z s c P Hex. destruct (proj2 (ideal_localize_some_iff z (local_secs c)) Hex) as [e E].
  exists e. unfold stamp. rewrite P, E. split; [reflexivity|]. apply ideal_localize_spec. exact E.
Qed.

Theorem stamp_unambiguous : forall z s c e, parse_datetime s = Some c ->
  local_of z e = local_secs c -> (forall e', local_of z e' = local_secs c -> e' = e) ->
  stamp z s = Stamp e.
Proof.
  intros z s c e P He Hu. unfold stamp. rewrite P, (ideal_localize_unique _ _ _ He Hu). reflexivity.
Qed.

Theorem stamp_fixed : forall off dst s c, parse_datetime s = Some c ->
  stamp (fixed_zone off dst) s = Stamp (local_secs c - off) /\
  render_text (fixed_zone off dst) (local_secs c - off) = s.
Proof.
  intros off dst s c P.
  assert (E : stamp (fixed_zone off dst) s = Stamp (local_secs c - off))
    by (unfold stamp; rewrite P, fixed_localize; reflexivity).
  split; [exact E|]. apply (stamp_roundtrip _ _ _ E).
Qed.

(** A text is refused exactly when it is not a canonical timestamp. *)
Theorem stamp_refuse_iff : forall z s, stamp z s = Refuse <-> parse_datetime s = None.
Proof.
  intros z s. unfold stamp. destruct (parse_datetime s) as [c|]; [|tauto].
  destruct (ideal_localize z (local_secs c)); [split; discriminate|].
  destruct (localize_back back_fuel z (local_secs c)); split; discriminate.
Qed.

(** ** Local times that do not exist *)

Lemma localize_back_spec : forall fuel z lt e, localize_back fuel z lt = Some e ->
  exists k, 0 <= k <= Z.of_nat fuel /\
    ideal_localize z (lt - k * six_hours) = Some (e - k * six_hours) /\
    forall j, 0 <= j < k -> ideal_localize z (lt - j * six_hours) = None.
Proof.
  induction fuel as [|f IH]; intros z lt e H; simpl in H.
  - destruct (ideal_localize z lt) as [e0|] eqn:E; [|discriminate]. inversion H; subst e0.
    exists 0. split; [lia|]. split; [rewrite !Z.mul_0_l, !Z.sub_0_r; exact E|]. intros j Hj. lia.
  - destruct (ideal_localize z lt) as [e0|] eqn:E.
    + inversion H; subst e0. exists 0. split; [lia|].
      split; [rewrite !Z.mul_0_l, !Z.sub_0_r; exact E|]. intros j Hj. lia.
    + destruct (localize_back f z (lt - six_hours)) as [e1|] eqn:B; [|discriminate]. inversion H; subst e.
      destruct (IH _ _ _ B) as (k & Hk & Hs & Hn). exists (k + 1). split; [lia|]. split.
      * replace (lt - (k + 1) * six_hours) with (lt - six_hours - k * six_hours) by lia.
        replace (e1 + six_hours - (k + 1) * six_hours) with (e1 - k * six_hours) by lia. exact Hs.
      * intros j Hj. destruct (Z.eq_dec j 0) as [->|Hj0]; [rewrite Z.mul_0_l, Z.sub_0_r; exact E|].
        replace (lt - j * six_hours) with (lt - six_hours - (j - 1) * six_hours) by lia. apply Hn. lia.
Qed.

(** A text stamped [Shifted e] denotes NO instant of the zone (it is outside
    the property's quantifier); the epoch staged is 6k hours after the instant
    whose local reading is 6k hours before the text's, for the smallest k >= 1
    for which that reading exists. *)
Theorem stamp_shifted : forall z s e, stamp z s = Shifted e ->
  exists c, parse_datetime s = Some c /\
    (forall e', local_of z e' <> local_secs c) /\
    exists k, 1 <= k <= Z.of_nat back_fuel /\
      local_of z (e - k * six_hours) = local_secs c - k * six_hours /\
      forall j, 0 <= j < k -> forall e', local_of z e' <> local_secs c - j * six_hours.
Proof.
  intros z s e H. unfold stamp in H.
  destruct (parse_datetime s) as [c|] eqn:P; [|discriminate]. exists c. split; [reflexivity|].
  destruct (ideal_localize z (local_secs c)) as [e0|] eqn:L; [discriminate|].
  split; [apply ideal_localize_none; exact L|].
  destruct (localize_back back_fuel z (local_secs c)) as [e1|] eqn:B; [|discriminate]. inversion H; subst e1.
  destruct (localize_back_spec _ _ _ _ B) as (k & Hk & Hs & Hn). exists k.
  assert (k <> 0).
  { intros ->. rewrite Z.mul_0_l, !Z.sub_0_r in Hs. congruence. }
  split; [lia|]. split; [apply (ideal_localize_spec _ _ _ Hs)|].
  intros j Hj. apply ideal_localize_none. apply Hn. exact Hj.
Qed.

(** ** Every instant's rendering is an existing local time, and is stamped *)

(** The text of any instant (of years 1..9999 on the zone's clock) parses,
    exists, and is stamped as an instant that renders to the same text — the
    instant itself when no other instant shares its local reading. *)
Theorem render_then_stamp : forall z e,
  1 <= c_y (civil_of_secs (local_of z e)) <= 9999 ->
  exists e', stamp z (render_text z e) = Stamp e' /\ local_of z e' = local_of z e /\
             render_text z e' = render_text z e /\
             ((forall e'', local_of z e'' = local_of z e -> e'' = e) -> e' = e).
Proof.
  intros z e Hy. destruct (secs_of_civil_of_secs (local_of z e)) as [Hs Hv]. specialize (Hv Hy).
  pose proof (parse_of_render _ Hv) as P. fold (render_text z e) in P.
  destruct (stamp_existing z _ _ P) as (e' & E & Hl & _); [exists e; symmetry; exact Hs|].
  exists e'. rewrite Hs in Hl. split; [exact E|]. split; [exact Hl|].
  split; [apply (stamp_roundtrip _ _ _ E)|]. intros Hu. apply Hu. exact Hl.
Qed.

(** ** pytz as an oracle

    pytz's own search (the rules in force a day before and a day after, read
    off the table at the local time as if it were UTC) is not modelled.  All
    the round trip needs of it is the contract below — whatever instant it
    answers has the asked local reading on the zone's clock — which the harness
    tests on the real pytz object in every run (together with the equality of
    its answer with [ideal_localize]). *)
Section PytzOracle.
  Variable pytz_localize : zone -> Z -> option Z.
  Hypothesis pytz_sound : forall z lt e, pytz_localize z lt = Some e -> local_of z e = lt.

  Definition stamp_with_oracle (z : zone) (s : String.string) : option Z :=
    match parse_datetime s with
    | None => None
    | Some c => pytz_localize z (local_secs c)
    end.

  Theorem oracle_roundtrip : forall z s e, stamp_with_oracle z s = Some e -> render_text z e = s.
  Proof.
    intros z s e H. unfold stamp_with_oracle in H.
    destruct (parse_datetime s) as [c|] eqn:P; [|discriminate].
    destruct (parse_render _ _ P) as [Hr Hv].
    unfold render_text. rewrite (pytz_sound _ _ _ H), (civil_of_local_secs c Hv). exact Hr.
  Qed.
End PytzOracle.
