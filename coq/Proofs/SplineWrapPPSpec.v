(** Proofs about Model/SplineWrapPP.v at the real-number instance: the
    piecewise-polynomial spline needs NO oracle.

    - [pp_RInt] : the exact antiderivative [pp_P] integrates [pp_eval];
    - [pp_integrate_is_RInt] : the wrapper over the exact spline returns the
      Riemann integral of the clamped function, all limits, both orders;
    - [lin_pp_knots] : the order-1 spline passes through every knot;
    - [nak_check_knots] : any piecewise cubic accepted by [nak_check] passes
      through every knot. *)
From Coq Require Import Reals Lra Lia List.
From Coquelicot Require Import Coquelicot.
From Spowtd Require Import Model.SplineWrapPP Proofs.SplineWrapSpec.
Import ListNotations.
Local Open Scope R_scope.

Notation hornerR := (horner Rops).
Notation poly_intR := (poly_int Rops).
Notation pp_evalR := (pp_eval Rops).
Notation pp_PR := (pp_P Rops).

(** [ring] on goals whose carrier is displayed as a Coquelicot structure on R *)
Ltac rring := match goal with |- @eq _ ?a ?b => change (@eq R a b); ring end.

Lemma field_helper : forall c n p : R, n <> 0 -> c / n * (1 * (n * p)) = c * p.
Proof. intros. field. assumption. Qed.

(** ---- one polynomial piece *)

Lemma horner_continuous :
  forall c x0 y, continuous (fun y => hornerR c (y - x0)) y.
Proof.
  induction c as [|c0 r IH]; intros x0 y; simpl.
  - apply continuous_const.
  - apply (continuous_plus (fun _ => c0) (fun y => (y - x0) * hornerR r (y - x0))).
    + apply continuous_const.
    + apply (continuous_mult (fun y => y - x0) (fun y => hornerR r (y - x0))).
      * apply (continuous_minus (fun y => y) (fun _ => x0)).
        -- apply continuous_id.
        -- apply continuous_const.
      * apply IH.
Qed.

(** d/dy [ (y-x0)^(k+1) * sum_j c_j/(k+1+j) (y-x0)^j ] = (y-x0)^k * sum_j c_j (y-x0)^j *)
Lemma int_coeffs_derive :
  forall c k x0 y,
    is_derive (fun y => (y - x0) ^ (S k) * hornerR (int_coeffs Rops c k) (y - x0)) y
              ((y - x0) ^ k * hornerR c (y - x0)).
Proof.
  induction c as [|c0 r IH]; intros k x0 y.
  - simpl int_coeffs. simpl horner.
    apply (is_derive_ext (fun _ => 0)).
    + intros t. rring.
    + replace ((y - x0) ^ k * 0) with 0 by ring.
      apply (@is_derive_const R_AbsRing R_NormedModule).
  - simpl int_coeffs. simpl horner.
    assert (Hk : INR (S k) <> 0) by (apply not_0_INR; lia).
    apply (is_derive_ext
             (fun t => plus (c0 / INR (S k) * (t - x0) ^ (S k))
                            ((t - x0) ^ (S (S k)) * hornerR (int_coeffs Rops r (S k)) (t - x0)))).
    + intros t. unfold plus; simpl. rring.
    + replace ((y - x0) ^ k * (c0 + (y - x0) * hornerR r (y - x0)))
        with (plus (c0 * (y - x0) ^ k) ((y - x0) ^ (S k) * hornerR r (y - x0)))
        by (unfold plus; simpl; ring).
      apply (@is_derive_plus R_AbsRing R_NormedModule).
      * auto_derive; [trivial|].
        change (match k with 0%nat => 1 | S _ => INR k + 1 end) with (INR (S k)).
        apply (field_helper c0 (INR (S k)) ((y + - x0) ^ k) Hk).
      * apply IH.
Qed.

Lemma poly_int_derive :
  forall c x0 y, is_derive (fun y => poly_intR c (y - x0)) y (hornerR c (y - x0)).
Proof.
  intros c x0 y. unfold poly_int. simpl fmul.
  apply (is_derive_ext (fun t => (t - x0) ^ 1 * hornerR (int_coeffs Rops c 0) (t - x0))).
  - intros t. rring.
  - replace (hornerR c (y - x0)) with ((y - x0) ^ 0 * hornerR c (y - x0)) by (simpl; ring).
    apply int_coeffs_derive.
Qed.

Lemma poly_int_0 : forall c, poly_intR c 0 = 0.
Proof. intros c. unfold poly_int. simpl. ring. Qed.

Lemma horner_RInt :
  forall c x0 a b,
    is_RInt (fun y => hornerR c (y - x0)) a b (poly_intR c (b - x0) - poly_intR c (a - x0)).
Proof.
  intros c x0 a b.
  apply (is_RInt_derive (fun y => poly_intR c (y - x0)) (fun y => hornerR c (y - x0)) a b).
  - intros x _. apply poly_int_derive.
  - intros x _. apply horner_continuous.
Qed.

(** ---- the pieces put together *)

(** breakpoints strictly increasing *)
Fixpoint pp_sorted (segs : list (seg (F:=R))) : Prop :=
  match segs with
  | [] => True
  | (x0, _) :: rest =>
      match rest with
      | [] => True
      | (x1, _) :: _ => x0 < x1 /\ pp_sorted rest
      end
  end.

Definition pp_start (segs : list (seg (F:=R))) : R := fst (hd (0, []) segs).

Lemma pp_eval_single : forall x0 c y, pp_evalR [(x0, c)] y = hornerR c (y - x0).
Proof. reflexivity. Qed.

Lemma pp_eval_cons_lt :
  forall x0 c x1 c1 rest y, y < x1 ->
    pp_evalR ((x0, c) :: (x1, c1) :: rest) y = hornerR c (y - x0).
Proof.
  intros. simpl. unfold Rltb. destruct (Rlt_dec y x1); [reflexivity|lra].
Qed.

Lemma pp_eval_cons_ge :
  forall x0 c x1 c1 rest y, x1 <= y ->
    pp_evalR ((x0, c) :: (x1, c1) :: rest) y = pp_evalR ((x1, c1) :: rest) y.
Proof.
  intros. simpl. unfold Rltb. destruct (Rlt_dec y x1); [lra|reflexivity].
Qed.

Lemma pp_P_cons_lt :
  forall x0 c x1 c1 rest y, y < x1 ->
    pp_PR ((x0, c) :: (x1, c1) :: rest) y = poly_intR c (y - x0).
Proof.
  intros. simpl. unfold Rltb. destruct (Rlt_dec y x1); [reflexivity|lra].
Qed.

Lemma pp_P_cons_ge :
  forall x0 c x1 c1 rest y, x1 <= y ->
    pp_PR ((x0, c) :: (x1, c1) :: rest) y
    = poly_intR c (x1 - x0) + pp_PR ((x1, c1) :: rest) y.
Proof.
  intros. simpl. unfold Rltb. destruct (Rlt_dec y x1); [lra|reflexivity].
Qed.

(** From the first breakpoint to any point to its right. *)
Lemma pp_RInt_from_start :
  forall rest x0 c, pp_sorted ((x0, c) :: rest) ->
    forall x, x0 <= x ->
      is_RInt (pp_evalR ((x0, c) :: rest)) x0 x (pp_PR ((x0, c) :: rest) x).
Proof.
  induction rest as [|[x1 c1] rest IH]; intros x0 c Hs x Hx.
  - apply (is_RInt_ext (fun y => hornerR c (y - x0))).
    + intros y _. reflexivity.
    + replace (pp_PR [(x0, c)] x) with (poly_intR c (x - x0) - poly_intR c (x0 - x0)).
      * apply horner_RInt.
      * replace (x0 - x0) with 0 by ring. rewrite poly_int_0. simpl. ring.
  - destruct Hs as [H01 Hs].
    destruct (Rlt_dec x x1) as [Hlt|Hge].
    + rewrite pp_P_cons_lt by assumption.
      apply (is_RInt_ext (fun y => hornerR c (y - x0))).
      * intros y Hy. rewrite Rmin_left, Rmax_right in Hy by lra.
        symmetry. apply pp_eval_cons_lt. lra.
      * replace (poly_intR c (x - x0)) with (poly_intR c (x - x0) - poly_intR c (x0 - x0)).
        -- apply horner_RInt.
        -- replace (x0 - x0) with 0 by ring. rewrite poly_int_0. ring.
    + rewrite pp_P_cons_ge by lra.
      change (poly_intR c (x1 - x0) + pp_PR ((x1, c1) :: rest) x)
        with (plus (poly_intR c (x1 - x0)) (pp_PR ((x1, c1) :: rest) x)).
      apply (@is_RInt_Chasles R_NormedModule _ x0 x1 x).
      * apply (is_RInt_ext (fun y => hornerR c (y - x0))).
        -- intros y Hy. rewrite Rmin_left, Rmax_right in Hy by lra.
           symmetry. apply pp_eval_cons_lt. lra.
        -- replace (poly_intR c (x1 - x0)) with (poly_intR c (x1 - x0) - poly_intR c (x0 - x0)).
           ++ apply horner_RInt.
           ++ replace (x0 - x0) with 0 by ring. rewrite poly_int_0. ring.
      * apply (is_RInt_ext (pp_evalR ((x1, c1) :: rest))).
        -- intros y Hy. rewrite Rmin_left, Rmax_right in Hy by lra.
           symmetry. apply pp_eval_cons_ge. lra.
        -- apply IH; [assumption|lra].
Qed.

(** The exact antiderivative integrates the exact spline. *)
Theorem pp_RInt :
  forall segs, segs <> [] -> pp_sorted segs ->
    forall a b, pp_start segs <= a -> a <= b ->
      is_RInt (pp_evalR segs) a b (pp_PR segs b - pp_PR segs a).
Proof.
  intros segs Hne Hs a b Ha Hab.
  destruct segs as [|[x0 c] rest]; [congruence|].
  unfold pp_start in Ha. simpl in Ha.
  assert (H1 : is_RInt (pp_evalR ((x0, c) :: rest)) x0 a (pp_PR ((x0, c) :: rest) a))
    by (apply pp_RInt_from_start; assumption).
  assert (H2 : is_RInt (pp_evalR ((x0, c) :: rest)) x0 b (pp_PR ((x0, c) :: rest) b))
    by (apply pp_RInt_from_start; [assumption|lra]).
  apply (@is_RInt_swap R_NormedModule) in H1.
  assert (H3 := @is_RInt_Chasles R_NormedModule _ a x0 b _ _ H1 H2).
  refine (eq_ind _ (fun l => is_RInt _ a b l) H3 _ _).
  unfold plus, opp; simpl. ring.
Qed.

(** ---- the wrapper over the exact spline: oracle-free *)
Section PPWrap.
  Variable knots : list R.
  Variable segs : list (seg (F:=R)).
  Hypothesis segs_ne : segs <> [].
  Hypothesis segs_sorted : pp_sorted segs.
  Hypothesis start_is_xmin : pp_start segs = pp_xmin Rops knots.
  Hypothesis dom : pp_xmin Rops knots < pp_xmax Rops knots.

  Notation xmin := (pp_xmin Rops knots).
  Notation xmax := (pp_xmax Rops knots).

  Lemma pp_splint_in :
    forall a b, xmin <= a -> a <= b -> b <= xmax ->
      pp_splint Rops knots segs a b = pp_PR segs b - pp_PR segs a.
  Proof.
    intros a b Ha Hab Hb. unfold pp_splint.
    rewrite (clamp_inside xmin xmax dom b), (clamp_inside xmin xmax dom a) by lra.
    reflexivity.
  Qed.

  Lemma pp_splint_above :
    forall a, xmax <= a -> pp_splint Rops knots segs a xmax = 0.
  Proof.
    intros a Ha. unfold pp_splint.
    rewrite (clamp_above xmin xmax dom a) by lra.
    rewrite (clamp_above xmin xmax dom xmax) by lra. simpl. ring.
  Qed.

  Lemma pp_ev_RInt :
    forall a b, xmin <= a -> a <= b -> b <= xmax ->
      is_RInt (pp_evalR segs) a b (pp_PR segs b - pp_PR segs a).
  Proof.
    intros a b Ha Hab Hb. apply pp_RInt; try assumption. rewrite start_is_xmin. lra.
  Qed.

  Theorem pp_integrate_is_RInt :
    forall a b, is_RInt (pp_call Rops knots segs) a b (pp_integrate Rops knots segs a b).
  Proof.
    intros a b. unfold pp_call, pp_integrate.
    apply (integrate_is_RInt xmin xmax (pp_evalR segs) (pp_splint Rops knots segs) (pp_PR segs)).
    - exact dom.
    - exact pp_splint_in.
    - exact pp_splint_above.
    - exact pp_ev_RInt.
  Qed.

  Theorem pp_integrate_area :
    forall a b, pp_integrate Rops knots segs a b = RInt (pp_call Rops knots segs) a b.
  Proof.
    intros a b. symmetry. apply is_RInt_unique. apply pp_integrate_is_RInt.
  Qed.

  Theorem pp_integrate_additive :
    forall a b c,
      pp_integrate Rops knots segs a c
      = pp_integrate Rops knots segs a b + pp_integrate Rops knots segs b c.
  Proof.
    intros a b c. unfold pp_integrate.
    apply (integrate_additive xmin xmax (pp_evalR segs) (pp_splint Rops knots segs) (pp_PR segs)).
    - exact dom.
    - exact pp_splint_in.
    - exact pp_splint_above.
  Qed.

  Theorem pp_integrate_antisym :
    forall a b, pp_integrate Rops knots segs b a = - pp_integrate Rops knots segs a b.
  Proof.
    intros a b. unfold pp_integrate.
    apply (integrate_antisym xmin xmax (pp_evalR segs) (pp_splint Rops knots segs) (pp_PR segs)).
    - exact dom.
    - exact pp_splint_in.
    - exact pp_splint_above.
  Qed.
End PPWrap.

(** ---- interpolation of the knots *)

Fixpoint incr_list (xs : list R) : Prop :=
  match xs with
  | [] => True
  | x :: t => match t with [] => True | y :: _ => x < y /\ incr_list t end
  end.

Lemma incr_list_head_le :
  forall t x, incr_list (x :: t) -> forall k, (k < length (x :: t))%nat -> x <= nth k (x :: t) 0.
Proof.
  induction t as [|y t IH]; intros x H k Hk.
  - simpl in Hk. assert (k = 0)%nat by lia. subst. simpl. lra.
  - destruct H as [Hxy Ht]. destruct k as [|k]; [simpl; lra|].
    change (nth (S k) (x :: y :: t) 0) with (nth k (y :: t) 0).
    specialize (IH y Ht k). simpl in Hk. simpl length in IH.
    assert (y <= nth k (y :: t) 0) by (apply IH; lia). lra.
Qed.

(** every piece starts at its knot and takes the knot values at both ends *)
Fixpoint interp_spec (knots values : list R) (segs : list (seg (F:=R))) : Prop :=
  match knots, values, segs with
  | [_], [_], [] => True
  | x0 :: ((x1 :: _) as kt), y0 :: ((y1 :: _) as vt), (b0, c) :: st =>
      b0 = x0 /\ hornerR c 0 = y0 /\ hornerR c (x1 - x0) = y1 /\ interp_spec kt vt st
  | _, _, _ => False
  end.

Lemma interp_spec_knots_aux :
  forall kt x0 x1 values segs,
    incr_list (x0 :: x1 :: kt) -> interp_spec (x0 :: x1 :: kt) values segs ->
    forall i, (i < length (x0 :: x1 :: kt))%nat ->
      pp_evalR segs (nth i (x0 :: x1 :: kt) 0) = nth i values 0.
Proof.
  induction kt as [|x2 kt IH]; intros x0 x1 values segs Hinc Hsp i Hi.
  - destruct values as [|y0 [|y1 vt]]; try (simpl in Hsp; contradiction).
    destruct segs as [|[b0 c] st]; try (simpl in Hsp; contradiction).
    destruct Hsp as [Eb [E0 [E1 Hrest]]]. subst b0.
    destruct vt as [|? ?]; destruct st as [|? ?]; try (simpl in Hrest; contradiction).
    simpl in Hi.
    destruct i as [|[|i]]; [| |lia].
    + simpl nth. rewrite pp_eval_single. replace (x0 - x0) with 0 by ring. exact E0.
    + simpl nth. rewrite pp_eval_single. exact E1.
  - destruct values as [|y0 [|y1 vt]]; try (simpl in Hsp; contradiction).
    destruct segs as [|[b0 c] st]; try (simpl in Hsp; contradiction).
    destruct Hsp as [Eb [E0 [E1 Hrest]]]. subst b0.
    destruct Hinc as [H01 Hinc'].
    destruct vt as [|y2 vt]; try (simpl in Hrest; contradiction).
    destruct st as [|[b1 c1] st]; try (simpl in Hrest; contradiction).
    assert (Eb1 : b1 = x1) by (destruct Hrest as [E _]; exact E). subst b1.
    destruct i as [|k].
    + simpl nth. rewrite pp_eval_cons_lt by lra.
      replace (x0 - x0) with 0 by ring. exact E0.
    + change (nth (S k) (x0 :: x1 :: x2 :: kt) 0) with (nth k (x1 :: x2 :: kt) 0).
      change (nth (S k) (y0 :: y1 :: y2 :: vt) 0) with (nth k (y1 :: y2 :: vt) 0).
      assert (Hk : (k < length (x1 :: x2 :: kt))%nat) by (simpl in Hi |- *; lia).
      rewrite pp_eval_cons_ge by (apply incr_list_head_le; assumption).
      apply IH; assumption.
Qed.

(** A piecewise polynomial that starts each piece at its knot and takes the
    knot values at both ends of each piece passes through EVERY knot
    (two or more strictly increasing knots). *)
Theorem interp_spec_knots :
  forall knots values segs, (2 <= length knots)%nat ->
    incr_list knots -> interp_spec knots values segs ->
    forall i, (i < length knots)%nat ->
      pp_evalR segs (nth i knots 0) = nth i values 0.
Proof.
  intros knots values segs Hn Hinc Hsp i Hi.
  destruct knots as [|x0 [|x1 kt]]; simpl in Hn; try lia.
  now apply interp_spec_knots_aux.
Qed.

(** The wrapper does not disturb the knots: they lie inside the range. *)
Lemma incr_list_last_ge :
  forall t x, incr_list (x :: t) -> forall k, (k < length (x :: t))%nat ->
    nth k (x :: t) 0 <= last (x :: t) 0.
Proof.
  induction t as [|y t IH]; intros x H k Hk.
  - simpl in Hk. assert (k = 0)%nat by lia. subst. simpl. lra.
  - destruct H as [Hxy Ht].
    change (last (x :: y :: t) 0) with (last (y :: t) 0).
    destruct k as [|k].
    + simpl nth. assert (y <= last (y :: t) 0).
      { apply (IH y Ht 0%nat). simpl. lia. }
      lra.
    + change (nth (S k) (x :: y :: t) 0) with (nth k (y :: t) 0).
      apply IH; [assumption|]. simpl in Hk |- *. lia.
Qed.

Theorem pp_call_knots :
  forall knots values segs, (2 <= length knots)%nat ->
    incr_list knots -> interp_spec knots values segs ->
    forall i, (i < length knots)%nat ->
      pp_call Rops knots segs (nth i knots 0) = nth i values 0.
Proof.
  intros knots values segs Hn Hinc Hsp i Hi.
  unfold pp_call, call.
  destruct knots as [|x0 [|x1 kt]]; simpl in Hn; try lia.
  assert (Hlo : x0 <= nth i (x0 :: x1 :: kt) 0) by (apply incr_list_head_le; assumption).
  assert (Hhi : nth i (x0 :: x1 :: kt) 0 <= last (x0 :: x1 :: kt) 0)
    by (apply incr_list_last_ge; assumption).
  assert (Hdom : x0 < last (x0 :: x1 :: kt) 0).
  { destruct Hinc as [H01 Hinc'].
    assert (x1 <= last (x1 :: kt) 0) by (apply (incr_list_last_ge kt x1 Hinc' 0%nat); simpl; lia).
    change (last (x0 :: x1 :: kt) 0) with (last (x1 :: kt) 0). lra. }
  unfold pp_xmin, pp_xmax. simpl hd. simpl f0.
  rewrite (clamp_inside x0 (last (x0 :: x1 :: kt) 0) Hdom) by lra.
  now apply interp_spec_knots.
Qed.

(** ---- order 1: the piecewise-linear interpolant, for ALL knots and values *)
Lemma lin_pp_interp_spec :
  forall knots values, incr_list knots -> length values = length knots ->
    (1 <= length knots)%nat ->
    interp_spec knots values (lin_pp Rops knots values).
Proof.
  induction knots as [|x0 kt IH]; intros values Hinc Hlen Hn.
  - simpl in Hn. lia.
  - destruct values as [|y0 vt]; [discriminate|].
    destruct kt as [|x1 kt].
    + destruct vt; [|discriminate]. simpl. exact I.
    + destruct vt as [|y1 vt]; [discriminate|].
      destruct Hinc as [H01 Hinc'].
      change (lin_pp Rops (x0 :: x1 :: kt) (y0 :: y1 :: vt))
        with ((x0, [y0; (y1 - y0) / (x1 - x0)]) :: lin_pp Rops (x1 :: kt) (y1 :: vt)).
      split; [reflexivity|]. split; [simpl; ring|]. split.
      * simpl. field. lra.
      * apply IH; [assumption| |simpl; lia]. simpl in Hlen |- *. lia.
Qed.

Theorem lin_pp_knots :
  forall knots values, (2 <= length knots)%nat -> incr_list knots ->
    length values = length knots ->
    forall i, (i < length knots)%nat ->
      pp_call Rops knots (lin_pp Rops knots values) (nth i knots 0) = nth i values 0.
Proof.
  intros knots values Hn Hinc Hlen i Hi.
  apply pp_call_knots; try assumption.
  apply lin_pp_interp_spec; [assumption|assumption|lia].
Qed.

(** ---- order 3: whatever [nak_check] accepts interpolates its knots *)
Lemma Reqb_true : forall a b, feqb Rops a b = true -> a = b.
Proof. intros a b. simpl. unfold Reqb. destruct (Req_EM_T a b); [auto|discriminate]. Qed.

Lemma Rltb_true : forall a b, fltb Rops a b = true -> a < b.
Proof. intros a b. simpl. unfold Rltb. destruct (Rlt_dec a b); [auto|discriminate]. Qed.

Lemma increasing_incr_list : forall xs, increasing Rops xs = true -> incr_list xs.
Proof.
  induction xs as [|x t IH]; intros H; simpl; [exact I|].
  destruct t as [|y t]; [exact I|].
  change (increasing Rops (x :: y :: t)) with (fltb Rops x y && increasing Rops (y :: t))%bool in H.
  apply andb_prop in H. destruct H as [H1 H2]. split; [now apply Rltb_true|now apply IH].
Qed.

Lemma checks_interp_spec :
  forall knots values segs,
    shape_ok Rops knots segs = true -> interp_ok Rops knots values segs = true ->
    interp_spec knots values segs.
Proof.
  induction knots as [|x0 kt IH]; intros values segs Hsh Hin.
  - simpl in Hin. discriminate.
  - destruct kt as [|x1 kt].
    + destruct values as [|y0 [|? ?]]; destruct segs as [|[? ?] ?]; simpl in Hin, Hsh;
        try discriminate. exact I.
    + destruct values as [|y0 [|y1 vt]]; try (simpl in Hin; discriminate).
      destruct segs as [|[b0 c] st]; try (simpl in Hin; discriminate).
      change (shape_ok Rops (x0 :: x1 :: kt) ((b0, c) :: st))
        with (feqb Rops x0 b0 && Nat.eqb (length c) 4 && shape_ok Rops (x1 :: kt) st)%bool in Hsh.
      change (interp_ok Rops (x0 :: x1 :: kt) (y0 :: y1 :: vt) ((b0, c) :: st))
        with (feqb Rops (hornerR c (f0 Rops)) y0 && feqb Rops (hornerR c (fsub Rops x1 x0)) y1
              && interp_ok Rops (x1 :: kt) (y1 :: vt) st)%bool in Hin.
      apply andb_prop in Hsh. destruct Hsh as [Hsh Hsh3].
      apply andb_prop in Hsh. destruct Hsh as [Hsh1 _].
      apply andb_prop in Hin. destruct Hin as [Hin Hin3].
      apply andb_prop in Hin. destruct Hin as [Hin1 Hin2].
      apply Reqb_true in Hsh1, Hin1, Hin2.
      split; [auto|]. split; [exact Hin1|]. split; [exact Hin2|].
      now apply IH.
Qed.

Theorem nak_check_knots :
  forall knots values segs, nak_check Rops knots values segs = true ->
    forall i, (i < length knots)%nat ->
      pp_call Rops knots segs (nth i knots 0) = nth i values 0.
Proof.
  intros knots values segs H i Hi. unfold nak_check in H.
  repeat (apply andb_prop in H; destruct H as [H ?]).
  apply pp_call_knots; try assumption.
  - apply Nat.leb_le in H. lia.
  - now apply increasing_incr_list.
  - now apply checks_interp_spec.
Qed.

(** ---- putting both together: the exact splines need no hypothesis at all *)
Lemma interp_spec_wf :
  forall kt x0 x1 values segs,
    incr_list (x0 :: x1 :: kt) -> interp_spec (x0 :: x1 :: kt) values segs ->
    segs <> [] /\ pp_sorted segs /\ pp_start segs = x0.
Proof.
  induction kt as [|x2 kt IH]; intros x0 x1 values segs Hinc Hsp.
  - destruct values as [|y0 [|y1 vt]]; try (simpl in Hsp; contradiction).
    destruct segs as [|[b0 c] st]; try (simpl in Hsp; contradiction).
    destruct Hsp as [Eb [_ [_ Hrest]]]. subst b0.
    destruct vt as [|? ?]; destruct st as [|? ?]; try (simpl in Hrest; contradiction).
    split; [discriminate|]. split; [exact I|reflexivity].
  - destruct values as [|y0 [|y1 vt]]; try (simpl in Hsp; contradiction).
    destruct segs as [|[b0 c] st]; try (simpl in Hsp; contradiction).
    destruct Hsp as [Eb [_ [_ Hrest]]]. subst b0.
    destruct Hinc as [H01 Hinc'].
    destruct (IH x1 x2 (y1 :: vt) st Hinc' Hrest) as [Hne [Hso Hst]].
    split; [discriminate|]. split; [|reflexivity].
    destruct st as [|[b1 c1] st]; [congruence|].
    unfold pp_start in Hst. simpl in Hst. subst b1.
    split; assumption.
Qed.

Lemma incr_list_dom :
  forall kt x0 x1, incr_list (x0 :: x1 :: kt) ->
    pp_xmin Rops (x0 :: x1 :: kt) < pp_xmax Rops (x0 :: x1 :: kt).
Proof.
  intros kt x0 x1 [H01 Hinc']. unfold pp_xmin, pp_xmax. simpl hd. simpl f0.
  assert (x1 <= last (x1 :: kt) 0) by (apply (incr_list_last_ge kt x1 Hinc' 0%nat); simpl; lia).
  change (last (x0 :: x1 :: kt) 0) with (last (x1 :: kt) 0). lra.
Qed.

Theorem interp_spec_is_RInt :
  forall knots values segs, (2 <= length knots)%nat ->
    incr_list knots -> interp_spec knots values segs ->
    forall a b, is_RInt (pp_call Rops knots segs) a b (pp_integrate Rops knots segs a b).
Proof.
  intros knots values segs Hn Hinc Hsp a b.
  destruct knots as [|x0 [|x1 kt]]; simpl in Hn; try lia.
  destruct (interp_spec_wf kt x0 x1 values segs Hinc Hsp) as [Hne [Hso Hst]].
  apply pp_integrate_is_RInt; try assumption.
  now apply incr_list_dom.
Qed.

(** Order 1 (PEATCLSM, transmissivity): for all knots and values. *)
Theorem lin_pp_is_RInt :
  forall knots values, (2 <= length knots)%nat -> incr_list knots ->
    length values = length knots ->
    forall a b,
      is_RInt (pp_call Rops knots (lin_pp Rops knots values)) a b
              (pp_integrate Rops knots (lin_pp Rops knots values) a b).
Proof.
  intros knots values Hn Hinc Hlen.
  apply (interp_spec_is_RInt knots values); try assumption.
  apply lin_pp_interp_spec; [assumption|assumption|lia].
Qed.

(** Order 3: whatever [nak_check] accepts. *)
Theorem nak_check_is_RInt :
  forall knots values segs, nak_check Rops knots values segs = true ->
    forall a b, is_RInt (pp_call Rops knots segs) a b (pp_integrate Rops knots segs a b).
Proof.
  intros knots values segs H. unfold nak_check in H.
  repeat (apply andb_prop in H; destruct H as [H ?]).
  apply (interp_spec_is_RInt knots values).
  - apply Nat.leb_le in H. lia.
  - now apply increasing_incr_list.
  - now apply checks_interp_spec.
Qed.

(** Additivity and antisymmetry of the exact model, no hypothesis. *)
Theorem interp_spec_additive :
  forall knots values segs, (2 <= length knots)%nat ->
    incr_list knots -> interp_spec knots values segs ->
    forall a b c,
      pp_integrate Rops knots segs a c
      = pp_integrate Rops knots segs a b + pp_integrate Rops knots segs b c.
Proof.
  intros knots values segs Hn Hinc Hsp a b c.
  destruct knots as [|x0 [|x1 kt]]; simpl in Hn; try lia.
  apply pp_integrate_additive. now apply incr_list_dom.
Qed.

Theorem interp_spec_antisym :
  forall knots values segs, (2 <= length knots)%nat ->
    incr_list knots -> interp_spec knots values segs ->
    forall a b, pp_integrate Rops knots segs b a = - pp_integrate Rops knots segs a b.
Proof.
  intros knots values segs Hn Hinc Hsp a b.
  destruct knots as [|x0 [|x1 kt]]; simpl in Hn; try lia.
  apply pp_integrate_antisym. now apply incr_list_dom.
Qed.

(** ---- the FITPACK contract of Proofs/SplineWrapSpec.v is satisfiable: the
    exact piecewise-linear spline through (0,1), (1,2), (3,0) meets it, and is
    not a constant function. *)
Lemma contract_satisfiable :
  exists (xmin xmax : R) (ev : R -> R) (splint : R -> R -> R) (P : R -> R),
    xmin < xmax /\
    (forall a b, xmin <= a -> a <= b -> b <= xmax -> splint a b = P b - P a) /\
    (forall a, xmax <= a -> splint a xmax = 0) /\
    (forall a b, xmin <= a -> a <= b -> b <= xmax -> is_RInt ev a b (P b - P a)) /\
    ev xmin <> ev xmax.
Proof.
  set (knots := [0; 1; 3]). set (values := [1; 2; 0]).
  set (segs := lin_pp Rops knots values).
  assert (Hinc : incr_list knots) by (simpl; lra).
  assert (Hsp : interp_spec knots values segs)
    by (apply lin_pp_interp_spec; [assumption|reflexivity|simpl; lia]).
  destruct (interp_spec_wf [3] 0 1 values segs Hinc Hsp) as [Hne [Hso Hst]].
  assert (Hdom : pp_xmin Rops knots < pp_xmax Rops knots) by (apply incr_list_dom; assumption).
  exists (pp_xmin Rops knots), (pp_xmax Rops knots), (pp_evalR segs),
         (pp_splint Rops knots segs), (pp_PR segs).
  split; [exact Hdom|]. split; [now apply pp_splint_in|]. split; [now apply pp_splint_above|].
  split; [now apply pp_ev_RInt|].
  assert (E0 := interp_spec_knots knots values segs ltac:(simpl; lia) Hinc Hsp 0%nat ltac:(simpl; lia)).
  assert (E2 := interp_spec_knots knots values segs ltac:(simpl; lia) Hinc Hsp 2%nat ltac:(simpl; lia)).
  simpl nth in E0, E2.
  unfold pp_xmin, pp_xmax. simpl hd. simpl last. rewrite E0, E2. lra.
Qed.
