(** What the model of find_offsets returns is a global minimiser of the squared
    spread (it passes the zero-residual-sum check). *)
From Spowtd Require Import Model.FitOffsets Proofs.QSum Proofs.FitOffsetsSpec.
From Coq Require Import Lia Lqa.

Lemma insert_nat_in y x l : In y (insert_nat x l) <-> y = x \/ In y l.
Proof.
  induction l as [|a t IH]; simpl; [intuition|].
  destruct (Nat.ltb x a); simpl; [intuition|].
  destruct (Nat.eqb x a) eqn:E; simpl.
  - apply Nat.eqb_eq in E. subst. intuition.
  - rewrite IH. intuition.
Qed.

Lemma sorted_ids_in E s : In s (sorted_ids E) <-> In s (map e_series E).
Proof.
  unfold sorted_ids. induction (map e_series E) as [|a t IH]; simpl; [tauto|].
  rewrite insert_nat_in, IH. intuition.
Qed.

Theorem find_offsets_sound hm sids offs :
  find_offsets hm = Ok (sids, offs) ->
  let E := entries_of (drop_single hm) in
  let x := assignment sids offs in
  sids = sorted_ids E /\
  (forall s, resid_sum E x s == 0) /\
  (forall y, objective E x <= objective E y).
Proof.
  unfold find_offsets. set (E := entries_of (drop_single hm)).
  destruct (rev (sorted_ids E)) as [|ref tl] eqn:Erev; [discriminate|].
  destruct (solve _ _) as [sol|]; [|discriminate].
  destruct (forallb _ (sorted_ids E)) eqn:Hall; [|discriminate].
  intros H. inversion H; subst sids offs. clear H. cbn zeta.
  assert (Hres : forall s, In s (ids E) -> resid_sum E (assignment (sorted_ids E) (sol ++ [0])) s == 0).
  { intros s Hs. rewrite forallb_forall in Hall. apply Qeq_bool_eq. apply Hall.
    apply sorted_ids_in. unfold ids in Hs. apply nodup_In in Hs. exact Hs. }
  split; [reflexivity|]. split.
  - intros s. destruct (in_dec Nat.eq_dec s (ids E)) as [Hin|Hnot]; [apply Hres; exact Hin|].
    unfold resid_sum. assert (of_series E s = []) as ->; [|reflexivity].
    destruct (of_series E s) as [|c t] eqn:Es; [reflexivity|]. exfalso. apply Hnot.
    assert (Hc : In c (of_series E s)) by (rewrite Es; left; reflexivity).
    apply of_series_in in Hc. destruct Hc as (Hc & <-). apply series_in. exact Hc.
  - apply zero_resid_minimises. exact Hres.
Qed.

(** C06: data planted from one curve T and per-interval constants cs are
    recovered up to one common constant. *)
Theorem planted_recovered hm sids offs (T : Z -> Q) (cs : nat -> Q) :
  find_offsets hm = Ok (sids, offs) ->
  let E := entries_of (drop_single hm) in
  let x := assignment sids offs in
  connected E ->
  (forall c, In c E -> e_val c == T (e_head c) - cs (e_series c)) ->
  exists k, (forall s, In s (ids E) -> x s == cs s + k) /\
            (forall c, In c E -> x (e_series c) + e_val c == T (e_head c) + k).
Proof.
  intros Hfo E x Hconn Hval.
  destruct (find_offsets_sound hm sids offs Hfo) as (_ & Hres & Hmin). fold E x in Hres, Hmin.
  destruct (planted_is_exact E T cs Hval) as (_ & Hobj0 & Hres0).
  assert (Hobjx : objective E x == objective E cs).
  { pose proof (Hmin cs) as H1. pose proof (qsum_sq_nonneg (dev E x) E) as H2.
    unfold objective in *. lra. }
  pose proof (minimisers_differ_by_shift E cs x Hconn (fun s _ => Hres0 s) Hobjx) as Hd.
  destruct (ids E) as [|s0 rest] eqn:Eids.
  - exists 0. split; [intros s []|].
    intros c Hc. exfalso. pose proof (series_in E c Hc) as Hs. rewrite Eids in Hs. destruct Hs.
  - exists (x s0 - cs s0).
    assert (Hk : forall s, In s (s0 :: rest) -> x s == cs s + (x s0 - cs s0)).
    { intros s Hs. assert (H0 : In s0 (s0 :: rest)) by (left; reflexivity).
      pose proof (Hd s s0 Hs H0). lra. }
    split; [exact Hk|].
    intros c Hc. pose proof (series_in E c Hc) as Hs. rewrite Eids in Hs.
    rewrite (Hk (e_series c) Hs). rewrite (Hval c Hc). ring.
Qed.
