(** C06 carried to what the user reads: with planted data the level mean of the
    aligned pieces (Model/FitOffsets.v [head_mean]) IS the planted curve up to
    the one constant of [planted_recovered], any two aligned pieces agree at
    every level they share, and the rows of the view over the written tables
    (average_recession_time / average_rising_depth, Model/Views.v) list exactly
    T(level) + k on the grid levels that carry data. *)
From Spowtd Require Import Model.FitOffsets Model.Views Proofs.QSum Proofs.FitOffsetsSpec
  Proofs.FindOffsetsSpec Proofs.FindOffsetsComplete Proofs.ViewsSpec Proofs.ViewsFitSpec.
From Coq Require Import Lia Lqa.

Section Planted.
  Variable E : list entry.
  Variable x : nat -> Q.
  Variable T : Z -> Q.
  Variable k : Q.
  Hypothesis Hrec : forall c, In c E -> x (e_series c) + e_val c == T (e_head c) + k.

  Lemma planted_pieces_coincide c1 c2 :
    In c1 E -> In c2 E -> e_head c1 = e_head c2 -> shifted x c1 == shifted x c2.
  Proof.
    intros H1 H2 Hh. unfold shifted. rewrite (Hrec c1 H1), (Hrec c2 H2), Hh. reflexivity.
  Qed.

  Lemma planted_head_mean h :
    (exists c, In c (at_head E h)) -> head_mean E x h == T h + k.
  Proof.
    intros (c0 & Hc0). unfold head_mean.
    assert (Hn : ~ inject_Z (Z.of_nat (length (at_head E h))) == 0).
    { destruct (at_head E h) as [|a t]; [destruct Hc0|].
      cbn [length]. rewrite Nat2Z.inj_succ. unfold Qeq. simpl. lia. }
    rewrite (qsum_map_ext (shifted x) (fun _ => T h + k)).
    - rewrite qsum_map_const. field. exact Hn.
    - intros c Hc. apply at_head_in in Hc. destruct Hc as (Hc & <-).
      unfold shifted. apply Hrec. exact Hc.
  Qed.

  Lemma planted_curve_differences h h' :
    (exists c, In c (at_head E h)) -> (exists c, In c (at_head E h')) ->
    head_mean E x h - head_mean E x h' == T h - T h'.
  Proof.
    intros H1 H2. rewrite (planted_head_mean h H1), (planted_head_mean h' H2). ring.
  Qed.

  Lemma planted_zero_deviation c : In c E -> dev E x c == 0.
  Proof.
    intros Hc. unfold dev. rewrite planted_head_mean.
    - unfold shifted. rewrite (Hrec c Hc). ring.
    - exists c. apply at_head_in. split; [exact Hc|reflexivity].
  Qed.
End Planted.

(** From the result of the model of find_offsets to the rows of the view. *)
Theorem planted_view_rows (start_of : nat -> Z) hm sids offs grid step (T : Z -> Q) (cs : nat -> Q) :
  find_offsets hm = Ok (sids, offs) ->
  NoDup grid ->
  (forall a b, In a sids -> In b sids -> start_of a = start_of b -> a = b) ->
  let E := entries_of (drop_single hm) in
  let x := assignment sids offs in
  let O := written_offsets start_of sids offs in
  let Cr := written_crossings start_of (drop_single hm) in
  connected E ->
  (forall c, In c E -> e_val c == T (e_head c) - cs (e_series c)) ->
  exists k,
    (forall z v, In (z, v) (view_average O Cr grid step) ->
       exists h, In h grid /\ z = inject_Z h * step /\ v == T h + k) /\
    (forall h, In h grid -> (exists c, In c (at_head E h)) ->
       exists v, In (inject_Z h * step, v) (view_average O Cr grid step) /\ v == T h + k) /\
    (forall c1 c2, In c1 E -> In c2 E -> e_head c1 = e_head c2 -> shifted x c1 == shifted x c2) /\
    (forall c, In c E -> dev E x c == 0).
Proof.
  intros Hfo HG Hinj E x O Cr Hconn Hval.
  destruct (planted_recovered hm sids offs T cs Hfo Hconn Hval) as (k & _ & Hrec).
  fold E x in Hrec.
  destruct (view_shows_minimiser_curve start_of hm sids offs grid step Hfo HG Hinj)
    as (_ & _ & Hrows & Hall). fold E x O Cr in Hrows, Hall.
  exists k. split; [|split; [|split]].
  - intros z v Hzv. destruct (Hrows z v Hzv) as (h & Hh & Hz & Hex & Hv).
    exists h. split; [exact Hh|]. split; [exact Hz|].
    rewrite Hv. apply (planted_head_mean E x T k Hrec h Hex).
  - intros h Hh Hex. destruct (Hall h Hh Hex) as (v & Hin & Hv).
    exists v. split; [exact Hin|]. rewrite Hv. apply (planted_head_mean E x T k Hrec h Hex).
  - apply (planted_pieces_coincide E x T k Hrec).
  - apply (planted_zero_deviation E x T k Hrec).
Qed.

(** After the writers' shift by the level mean at the reference level
    ([store_with_reference], rise.py / recession.py last step) the constant k is
    gone: the view shows the planted curve measured from the reference level. *)
Theorem planted_view_from_reference offsets crossings grid step ref (T : Z -> Q) (k : Q) :
  NoDup grid ->
  let E := aligned_entries offsets crossings in
  let x := offset_of offsets in
  (forall c, In c E -> x (e_series c) + e_val c == T (e_head c) + k) ->
  In ref (view_levels offsets crossings grid) ->
  forall h, In h (view_levels offsets crossings grid) ->
    exists v, In (inject_Z h * step, v)
                 (view_average (store_with_reference offsets crossings ref) crossings grid step) /\
              v == T h - T ref.
Proof.
  intros HG E x Hrec Href h Hh.
  destruct (view_after_reference offsets crossings grid step ref HG) as (_ & Hall).
  destruct (Hall h Hh) as (v & Hin & Hv). fold E x in Hv.
  exists v. split; [exact Hin|]. rewrite Hv.
  assert (Hex : forall l, In l (view_levels offsets crossings grid) -> exists c, In c (at_head E l)).
  { intros l Hl. apply view_levels_spec in Hl. destruct Hl as (_ & Hl).
    apply crossed_by_aligned in Hl. exact Hl. }
  rewrite (planted_head_mean E x T k Hrec h (Hex h Hh)).
  rewrite (planted_head_mean E x T k Hrec ref (Hex ref Href)). ring.
Qed.

(** The tables written from the solver's result hold the mapping's entries, the
    series relabelled by position: the planted relation carries over. *)
Lemma written_entries_perm (start_of : nat -> Z) (hm : head_mapping) sids offs :
  NoDup sids ->
  (forall x y, In x sids -> In y sids -> start_of x = start_of y -> x = y) ->
  (forall k cs s v, In (k, cs) hm -> In (s, v) cs -> In s sids) ->
  let O := written_offsets start_of sids offs in
  let Cr := written_crossings start_of hm in
  Permutation.Permutation (aligned_entries O Cr)
    (map (fun c => {| e_head := e_head c; e_series := find_pos (e_series c) sids; e_val := e_val c |})
         (entries_of hm)).
Proof.
  intros HN Hinj Hin O Cr.
  unfold aligned_entries, entries_from, join_on.
  eapply Permutation.perm_trans; [apply flat_map_swap|].
  unfold Cr, written_crossings, entries_of. rewrite flat_map_flat_map.
  match goal with |- Permutation.Permutation ?l ?r =>
    assert (EQ : l = r); [|rewrite EQ; apply Permutation.Permutation_refl] end.
  induction hm as [|(k, cs) hm' IH]; [reflexivity|].
  cbn [flat_map]. rewrite map_app, IH by (intros k' cs' s v H1 H2; eapply Hin; [right; exact H1|exact H2]).
  f_equal. cbn [fst snd]. rewrite flat_map_map.
  assert (Hcs : forall s v, In (s, v) cs -> In s sids)
    by (intros s v H; eapply Hin; [left; reflexivity|exact H]).
  clear IH Hin. cbn [fst snd]. induction cs as [|(s, v) cs IHc]; [reflexivity|].
  cbn [flat_map map fst snd]. rewrite IHc by (intros s' v' H; eapply Hcs; right; exact H).
  unfold O, written_offsets.
  rewrite (lookup_one start_of (assignment sids offs)
             (fun io => [{| e_head := k; e_series := fst io; e_val := v |}]) s sids 0%nat HN Hinj
             (Hcs s v (or_introl eq_refl))).
  reflexivity.
Qed.

Lemma written_entries_planted (start_of : nat -> Z) (hm : head_mapping) sids offs (T : Z -> Q) (k : Q) :
  NoDup sids ->
  (forall x y, In x sids -> In y sids -> start_of x = start_of y -> x = y) ->
  (forall h cs s v, In (h, cs) hm -> In (s, v) cs -> In s sids) ->
  let O := written_offsets start_of sids offs in
  let Cr := written_crossings start_of hm in
  (forall c, In c (entries_of hm) -> assignment sids offs (e_series c) + e_val c == T (e_head c) + k) ->
  forall c, In c (aligned_entries O Cr) -> offset_of O (e_series c) + e_val c == T (e_head c) + k.
Proof.
  intros HN Hinj Hin O Cr Hrec c Hc.
  apply (Permutation.Permutation_in _ (written_entries_perm start_of hm sids offs HN Hinj Hin)) in Hc.
  apply in_map_iff in Hc. destruct Hc as (c0 & <- & Hc0). cbn [e_head e_series e_val].
  rewrite <- (Hrec c0 Hc0).
  assert (Hs : In (e_series c0) sids).
  { apply in_entries_of in Hc0. destruct Hc0 as (cs & Hp & Hsv). eapply Hin; eassumption. }
  unfold offset_of, O, written_offsets. rewrite map_map. cbn [snd].
  rewrite (nth_find_pos (fun s => assignment sids offs s) (e_series c0) sids Hs). reflexivity.
Qed.

(** End to end inside the model: solver result -> written tables -> reference
    shift -> view. *)
Theorem planted_written_view_from_reference
  (start_of : nat -> Z) hm sids offs grid step ref (T : Z -> Q) (cs : nat -> Q) :
  find_offsets hm = Ok (sids, offs) ->
  NoDup grid ->
  (forall a b, In a sids -> In b sids -> start_of a = start_of b -> a = b) ->
  let E := entries_of (drop_single hm) in
  let O := written_offsets start_of sids offs in
  let Cr := written_crossings start_of (drop_single hm) in
  connected E ->
  (forall c, In c E -> e_val c == T (e_head c) - cs (e_series c)) ->
  In ref (view_levels O Cr grid) ->
  forall h, In h (view_levels O Cr grid) ->
    exists v, In (inject_Z h * step, v)
                 (view_average (store_with_reference O Cr ref) Cr grid step) /\
              v == T h - T ref.
Proof.
  intros Hfo HG Hinj E O Cr Hconn Hval Href h Hh.
  destruct (planted_recovered hm sids offs T cs Hfo Hconn Hval) as (k & _ & Hrec). fold E in Hrec.
  destruct (find_offsets_sound hm sids offs Hfo) as (Hs & _ & _). fold E in Hs.
  assert (HN : NoDup sids) by (rewrite Hs; apply sorted_ids_nodup).
  assert (Hin : forall l cs' s v, In (l, cs') (drop_single hm) -> In (s, v) cs' -> In s sids).
  { intros l cs' s v Hp Hsv. rewrite Hs. apply sorted_ids_in. apply in_map_iff.
    exists {| e_head := l; e_series := s; e_val := v |}. split; [reflexivity|].
    apply in_entries_of. exists cs'. auto. }
  apply (planted_view_from_reference O Cr grid step ref T k HG); [|exact Href|exact Hh].
  exact (written_entries_planted start_of (drop_single hm) sids offs T k HN Hinj Hin Hrec).
Qed.
