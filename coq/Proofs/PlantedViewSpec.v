(** C06 carried to what the user reads: with planted data the level mean of the
    aligned pieces (Model/FitOffsets.v [head_mean]) IS the planted curve up to
    the one constant of [planted_recovered], any two aligned pieces agree at
    every level they share, and the rows of the view over the written tables
    (average_recession_time / average_rising_depth, Model/Views.v) list exactly
    T(level) + k on the grid levels that carry data. *)
From Spowtd Require Import Model.FitOffsets Model.Views Proofs.QSum Proofs.FitOffsetsSpec
  Proofs.FindOffsetsSpec Proofs.ViewsSpec Proofs.ViewsFitSpec.
From Coq Require Import Lia Lqa.

Section Planted.
  Variable E : list entry.
  Variable x : nat -> Q.
  Variable T : Z -> Q.
  Variable k : Q.
  Hypothesis Hrec : forall c, In c E -> x (e_series c) + e_val c == T (e_head c) + k.

  Lemma planted_pieces_coincide c1 c2 :
    In c1 E -> In c2 E -> e_head c1 = e_head c2 -> shifted x c1 == shifted x c2.
  Proof.
    intros H1 H2 Hh. unfold shifted. rewrite (Hrec c1 H1), (Hrec c2 H2), Hh. reflexivity.
  Qed.

  Lemma planted_head_mean h :
    (exists c, In c (at_head E h)) -> head_mean E x h == T h + k.
  Proof.
    intros (c0 & Hc0). unfold head_mean.
    assert (Hn : ~ inject_Z (Z.of_nat (length (at_head E h))) == 0).
    { destruct (at_head E h) as [|a t]; [destruct Hc0|].
      cbn [length]. rewrite Nat2Z.inj_succ. unfold Qeq. simpl. lia. }
    rewrite (qsum_map_ext (shifted x) (fun _ => T h + k)).
    - rewrite qsum_map_const. field. exact Hn.
    - intros c Hc. apply at_head_in in Hc. destruct Hc as (Hc & <-).
      unfold shifted. apply Hrec. exact Hc.
  Qed.

  Lemma planted_curve_differences h h' :
    (exists c, In c (at_head E h)) -> (exists c, In c (at_head E h')) ->
    head_mean E x h - head_mean E x h' == T h - T h'.
  Proof.
    intros H1 H2. rewrite (planted_head_mean h H1), (planted_head_mean h' H2). ring.
  Qed.

  Lemma planted_zero_deviation c : In c E -> dev E x c == 0.
  Proof.
    intros Hc. unfold dev. rewrite planted_head_mean.
    - unfold shifted. rewrite (Hrec c Hc). ring.
    - exists c. apply at_head_in. split; [exact Hc|reflexivity].
  Qed.
End Planted.

(** From the result of the model of find_offsets to the rows of the view. *)
Theorem planted_view_rows (start_of : nat -> Z) hm sids offs grid step (T : Z -> Q) (cs : nat -> Q) :
  find_offsets hm = Ok (sids, offs) ->
  NoDup grid ->
  (forall a b, In a sids -> In b sids -> start_of a = start_of b -> a = b) ->
  let E := entries_of (drop_single hm) in
  let x := assignment sids offs in
  let O := written_offsets start_of sids offs in
  let Cr := written_crossings start_of (drop_single hm) in
  connected E ->
  (forall c, In c E -> e_val c == T (e_head c) - cs (e_series c)) ->
  exists k,
    (forall z v, In (z, v) (view_average O Cr grid step) ->
       exists h, In h grid /\ z = inject_Z h * step /\ v == T h + k) /\
    (forall h, In h grid -> (exists c, In c (at_head E h)) ->
       exists v, In (inject_Z h * step, v) (view_average O Cr grid step) /\ v == T h + k) /\
    (forall c1 c2, In c1 E -> In c2 E -> e_head c1 = e_head c2 -> shifted x c1 == shifted x c2) /\
    (forall c, In c E -> dev E x c == 0).
Proof.
  intros Hfo HG Hinj E x O Cr Hconn Hval.
  destruct (planted_recovered hm sids offs T cs Hfo Hconn Hval) as (k & _ & Hrec).
  fold E x in Hrec.
  destruct (view_shows_minimiser_curve start_of hm sids offs grid step Hfo HG Hinj)
    as (_ & _ & Hrows & Hall). fold E x O Cr in Hrows, Hall.
  exists k. split; [|split; [|split]].
  - intros z v Hzv. destruct (Hrows z v Hzv) as (h & Hh & Hz & Hex & Hv).
    exists h. split; [exact Hh|]. split; [exact Hz|].
    rewrite Hv. apply (planted_head_mean E x T k Hrec h Hex).
  - intros h Hh Hex. destruct (Hall h Hh Hex) as (v & Hin & Hv).
    exists v. split; [exact Hin|]. rewrite Hv. apply (planted_head_mean E x T k Hrec h Hex).
  - apply (planted_pieces_coincide E x T k Hrec).
  - apply (planted_zero_deviation E x T k Hrec).
Qed.

(** After the writers' shift by the level mean at the reference level
    ([store_with_reference], rise.py / recession.py last step) the constant k is
    gone: the view shows the planted curve measured from the reference level. *)
Theorem planted_view_from_reference offsets crossings grid step ref (T : Z -> Q) (k : Q) :
  NoDup grid ->
  let E := aligned_entries offsets crossings in
  let x := offset_of offsets in
  (forall c, In c E -> x (e_series c) + e_val c == T (e_head c) + k) ->
  In ref (view_levels offsets crossings grid) ->
  forall h, In h (view_levels offsets crossings grid) ->
    exists v, In (inject_Z h * step, v)
                 (view_average (store_with_reference offsets crossings ref) crossings grid step) /\
              v == T h - T ref.
Proof.
  intros HG E x Hrec Href h Hh.
  destruct (view_after_reference offsets crossings grid step ref HG) as (_ & Hall).
  destruct (Hall h Hh) as (v & Hin & Hv). fold E x in Hv.
  exists v. split; [exact Hin|]. rewrite Hv.
  assert (Hex : forall l, In l (view_levels offsets crossings grid) -> exists c, In c (at_head E l)).
  { intros l Hl. apply view_levels_spec in Hl. destruct Hl as (_ & Hl).
    apply crossed_by_aligned in Hl. exact Hl. }
  rewrite (planted_head_mean E x T k Hrec h (Hex h Hh)).
  rewrite (planted_head_mean E x T k Hrec ref (Hex ref Href)). ring.
Qed.
